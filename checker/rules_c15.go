package main

import (
	"go/ast"
	"go/types"
	"strings"

	"golang.org/x/tools/go/ssa"
)

func init() {
	register("C15", PropertyMeta{
		Technique: "item-state region coverage over decision tables of Tick/advanceItems + guard dominance at every accept site + dependence slice of the lane choice",
		Explanation: "Decides on queueing/pipeline.go and its client sites: (1) every item state region {Stage < last, Stage = last} x {CycleLeft = 0, CycleLeft > 0} is touched by some transition of Tick or advanceItems (decrement, advance, emit), so no accepted item can be stranded; " +
			"(2) transitions are safe: an item is emitted only at the last stage with no dwell left and only where the sink's CanPush holds, and is removed on the same path; an item advances by exactly one stage only with no dwell left and a free next slot; dwell is decremented only while positive; " +
			"(3) the lane given to a new item depends on the lanes of the items already at stage 0, it enters at stage 0 carrying the accepted value, and AcceptWithDelay stamps the delay on the item just appended; CanAccept compares the stage-0 occupancy with the width; " +
			"(4) every Accept/AcceptWithDelay in library code is dominated by CanAccept on the same pipeline (directly, through the caller, or through a paired guard wrapper branching on the same Spec condition). (unmarshal-geometry) Pipeline.UnmarshalJSON compares every decoded item's lane and stage with the decoded geometry.",
		NotDecided:  "the exact latency figure (stages + delay) and lane fairness: numeric; FIFO order of a one-lane pipeline follows from (2) but is not derived.",
		Assumptions: []string{"items only receive a dwell through AcceptWithDelay at stage 0"},
	}, runC15)
}

func runC15(c *Ctx) {
	pipelineUnmarshalRule(c, "unmarshal-geometry")
	p := c.P
	// every stage slot is visited exactly once per sweep
	{
		n := 0
		for _, fn := range p.SrcFuncs(func(pp string) bool { return pp == pkgPath("queueing") }) {
			if r := fn.Signature.Recv(); r == nil || !strings.Contains(r.Type().String(), "Pipeline") {
				continue
			}
			if fn.Origin() != nil {
				continue // instantiations repeat the generic body
			}
			checked, bad := loopIndexFindings(fn)
			if checked == 0 {
				continue
			}
			n += checked
			c.Check(len(bad) == 0, "single-visit", SSAFuncKey(fn), fn.Pos(), "slot indices step by one ("+itoa(checked)+" loops)",
				strings.Join(bad, "; ")+": an item swapped into an already visited slot is processed a second time in the same tick (its remaining cycles drop twice, it leaves a tick early)")
		}
		c.Check(n >= 2, "single-visit", "instances", 0, "index loops found", "fewer than two slot-visiting loops found in the pipeline")
	}
	dom := []int{0, 1, 2}
	stageF := c.field("anchors", "queueing", "PipelineStage", "Stage")
	clF := c.field("anchors", "queueing", "PipelineStage", "CycleLeft")
	laneF := c.field("anchors", "queueing", "PipelineStage", "Lane")
	itemF := c.field("anchors", "queueing", "PipelineStage", "Item")
	nsF := c.field("anchors", "queueing", "Pipeline", "numStages")
	stagesF := c.field("anchors", "queueing", "Pipeline", "stages")
	widthF := c.field("anchors", "queueing", "Pipeline", "width")
	if stageF == nil || clF == nil || laneF == nil || itemF == nil || nsF == nil || stagesF == nil || widthF == nil {
		return
	}
	tick := c.fn("transition-safety", "queueing", "Pipeline", "Tick")
	adv := c.fn("transition-safety", "queueing", "Pipeline", "advanceItems")
	if tick == nil || adv == nil {
		return
	}
	sr := p.LookupFunc("queueing", "Pipeline", "stageRange")
	bo := p.LookupFunc("queueing", "Pipeline", "buildOccupancy")
	pure := func(f *types.Func) bool { return f == sr || f == bo }
	tt := ExtractTable(p, tick, TableConfig{Domain: dom, Impure: func(f *types.Func) bool { return f == adv }})
	at := ExtractTable(p, adv, TableConfig{Domain: dom, Pure: pure})
	for _, t := range []*Table{tt, at} {
		if len(t.Unsupported) > 0 || len(t.Rows) == 0 || t.Truncated {
			c.Unknown("transition-safety", "queueing.Pipeline.Tick+advanceItems", p.Decl(tick).Pos(), "outside the analysable fragment: "+strings.Join(uniqStr(t.Unsupported), "; "))
			return
		}
	}
	type region struct{ last, dwell bool }
	covered := map[region]string{}
	classify := func(r *Row) (reg region, known bool) {
		st := r.Atom(func(a *Atom) bool { return a.Has(stageF) && !a.IsBool })
		cl := r.Atom(func(a *Atom) bool { return a.Has(clF) && !a.IsBool })
		ns := r.Atom(func(a *Atom) bool { return a.Has(nsF) })
		if st == nil || cl == nil || ns == nil {
			return region{}, false
		}
		if st.I > ns.I-1 {
			return region{}, false // not a reachable item state
		}
		return region{last: st.I == ns.I-1, dwell: cl.I > 0}, true
	}
	safetyBad := ""
	checkRows := func(t *Table, which string) {
		for _, r := range t.Rows {
			reg, known := classify(r)
			pushes := r.Calls(func(e *Effect) bool { return e.Kind == "call" && e.Callee != nil && e.Callee.Name() == "PushTyped" })
			decs := r.Stores(func(e *Effect) bool { return e.RecvHas(clF) })
			advs := r.Stores(func(e *Effect) bool { return e.RecvHas(stageF) })
			if len(pushes)+len(decs)+len(advs) == 0 {
				continue
			}
			if !known {
				safetyBad = which + " changes an item without having examined its stage and dwell: " + truncate(r.String(), 300)
				continue
			}
			covered[reg] = which
			for _, pu := range pushes {
				can := r.Atom(func(a *Atom) bool { return a.IsBool && a.HasName("CanPush") })
				if !reg.last || reg.dwell || can == nil || !can.B {
					safetyBad = "an item is emitted although it is not at the last stage with no dwell left, or without the sink having room: " + truncate(r.String(), 300)
				}
				if len(pu.Args) != 1 || !strings.HasSuffix(pu.Args[0], ".Item") {
					safetyBad = "the emitted value must be the item itself"
				}
				removed := false
				for _, s := range r.Stores(func(e *Effect) bool {
					return e.RecvHas(stagesF) && e.Gen > pu.Gen && !e.RecvHas(stageF) && !e.RecvHas(clF)
				}) {
					_ = s
					removed = true
				}
				if !removed {
					safetyBad = "an emitted item is not removed from the pipeline on the same path (it would be emitted again)"
				}
				if len(pushes) != 1 {
					safetyBad = "an item is emitted more than once on one path"
				}
			}
			for _, d := range decs {
				if !reg.dwell {
					safetyBad = "the dwell counter is changed although it is already zero: " + truncate(r.String(), 300)
				}
				if d.Kind != "incdec" || d.Args[0] != "--" {
					if !strings.Contains(strings.ReplaceAll(d.Str, " ", ""), "-=1") {
						safetyBad = "the dwell counter must go down by one per tick"
					}
				}
			}
			for _, a := range advs {
				st := r.Atom(func(x *Atom) bool { return x.Has(stageF) && !x.IsBool })
				occ := r.Atom(func(x *Atom) bool { return x.IsBool && x.Has(bo) })
				if reg.last || reg.dwell {
					safetyBad = "an item advances although it is at the last stage or still dwelling: " + truncate(r.String(), 300)
				}
				if occ == nil || occ.B {
					safetyBad = "an item advances without the next slot of its lane having been found free (two items would share a lane of a stage)"
				}
				if len(a.ArgV) != 1 || a.ArgV[0] == nil || a.ArgV[0].Kind != vInt || a.ArgV[0].atom != nil || a.ArgV[0].I != st.I+1 {
					safetyBad = "an item must advance by exactly one stage"
				}
			}
		}
	}
	checkRows(tt, "Tick")
	checkRows(at, "advanceItems")
	c.Check(safetyBad == "", "transition-safety", "queueing.Pipeline.Tick+advanceItems", p.Decl(tick).Pos(), "emit/advance/decrement only in their own regions", safetyBad)
	// Tick must run the advance phase whenever items remain
	{
		ok := true
		for _, r := range tt.Rows {
			n := r.Atom(func(a *Atom) bool { return a.HasLenOf() && a.Has(stagesF) })
			if n != nil && n.I == 0 {
				continue
			}
			if r.Out.Kind == "return" && len(r.Calls(func(e *Effect) bool { return e.Callee == adv })) == 0 {
				// allowed only if every item was emitted: conservatively require the call unless the remaining count is zero
				rem := false
				for _, e := range r.Effects {
					if e.Kind == "store" && e.RecvHas(stagesF) {
						rem = true
					}
				}
				if !rem {
					ok = false
				}
			}
		}
		c.Check(ok, "transition-safety", "queueing.Pipeline.Tick#advance-phase", p.Decl(tick).Pos(), "the advance phase runs", "Tick returns without running the advance phase while items remain")
	}
	names := map[region]string{
		{false, false}: "Stage < last, CycleLeft = 0 (must advance when the next slot is free)",
		{false, true}:  "Stage < last, CycleLeft > 0 (must count down)",
		{true, false}:  "Stage = last, CycleLeft = 0 (must be emitted when the sink has room)",
		{true, true}:   "Stage = last, CycleLeft > 0 (must count down; reached by a single-stage pipeline with a delayed accept, e.g. a TLB with Latency 1)",
	}
	for _, reg := range []region{{false, false}, {false, true}, {true, false}, {true, true}} {
		_, ok := covered[reg]
		c.Check(ok, "region-coverage", "queueing.Pipeline item region: "+names[reg], p.Decl(tick).Pos(), "touched by "+covered[reg],
			"no transition of Tick or advanceItems touches an item in this region: such an item is stranded in the pipeline forever")
	}

	// Accept
	if f := c.fn("accept-shape", "queueing", "Pipeline", "Accept"); f != nil {
		item := f.Type().(*types.Signature).Params().At(0)
		fn := p.SSAFunc(f)
		ok, why := false, "no append of a new PipelineStage found"
		fd := p.Decl(f)
		info := p.PkgOfDecl(fd).TypesInfo
		// find the composite literal
		ast.Inspect(fd.Body, func(n ast.Node) bool {
			cl, isCL := n.(*ast.CompositeLit)
			if !isCL {
				return true
			}
			tv, has := info.Types[cl]
			if !has || !strings.Contains(tv.Type.String(), "PipelineStage") {
				return true
			}
			ok, why = true, ""
			for _, el := range cl.Elts {
				kv, isKV := el.(*ast.KeyValueExpr)
				if !isKV {
					continue
				}
				k, _ := kv.Key.(*ast.Ident)
				if k == nil {
					continue
				}
				switch {
				case sameObj(info.ObjectOf(k), stageF):
					if tvv, h := info.Types[kv.Value]; !h || tvv.Value == nil || tvv.Value.String() != "0" {
						ok, why = false, "a new item must enter at stage 0"
					}
				case sameObj(info.ObjectOf(k), itemF):
					if !exprIsObj(p, f, kv.Value, item) {
						ok, why = false, "the new entry must carry the accepted item"
					}
				}
			}
			return true
		})
		c.Check(ok, "accept-shape", "queueing.Pipeline.Accept", fd.Pos(), "new entry: stage 0, the accepted item", why)
		// lane dependence
		if fn != nil {
			var laneVals []ssa.Value
			for _, b := range fn.Blocks {
				for _, in := range b.Instrs {
					if st, isSt := in.(*ssa.Store); isSt {
						if fa, isFA := st.Addr.(*ssa.FieldAddr); isFA && sameObj(FieldOf(fa), laneF) {
							laneVals = append(laneVals, st.Val)
						}
					}
				}
			}
			if len(laneVals) == 0 {
				c.Unknown("lane-choice", "queueing.Pipeline.Accept", fd.Pos(), "cannot find where the new item's lane is set")
			} else {
				sl := BackwardSlice(fn, laneVals...)
				// the lane search may live in an unexported helper of the package: follow
				// the calls the slice contains into their returned values
				work := []*ssa.Function{fn}
				seen := map[*ssa.Function]bool{fn: true}
				for depth := 0; depth < 2; depth++ {
					var next []*ssa.Function
					for v := range sl {
						cl, isCall := v.(*ssa.Call)
						if !isCall {
							continue
						}
						g := cl.Common().StaticCallee()
						if g == nil || seen[g] || len(g.Blocks) == 0 || pkgOfFn(g) != pkgOfFn(fn) {
							continue
						}
						seen[g] = true
						next = append(next, g)
						var rv []ssa.Value
						for _, b := range g.Blocks {
							if ret, isR := b.Instrs[len(b.Instrs)-1].(*ssa.Return); isR {
								rv = append(rv, ret.Results...)
							}
						}
						for v2 := range BackwardSlice(g, rv...) {
							sl[v2] = true
						}
					}
					work = append(work, next...)
				}
				dep := false
				for v := range sl {
					switch v.(type) {
					case *ssa.FieldAddr, *ssa.Field:
						if sameObj(FieldOf(v), laneF) {
							// a read (not the store target itself)
							isTarget := false
							for _, wf := range work {
								for _, b := range wf.Blocks {
									for _, in := range b.Instrs {
										if st, isSt := in.(*ssa.Store); isSt && st.Addr == v {
											isTarget = true
										}
									}
								}
							}
							if !isTarget {
								dep = true
							}
						}
					}
				}
				c.Check(dep && SliceReadsField(sl, stageF), "lane-choice", "queueing.Pipeline.Accept", fd.Pos(), "the lane depends on the lanes of the items at stage 0",
					"the lane given to a new item does not depend on the lanes (and stages) of the items already in the pipeline, so it cannot avoid a lane that is still occupied at stage 0")
			}
		}
	}
	if f := c.fn("accept-shape", "queueing", "Pipeline", "AcceptWithDelay"); f != nil {
		delay := f.Type().(*types.Signature).Params().At(1)
		acc := p.LookupFunc("queueing", "Pipeline", "Accept")
		t := ExtractTable(p, f, TableConfig{Domain: dom})
		ok, why := len(t.Rows) > 0 && len(t.Unsupported) == 0, "outside the analysable fragment"
		for _, r := range t.Rows {
			a := r.Calls(func(e *Effect) bool { return e.Callee != nil && sameObj(e.Callee, acc) })
			st := r.Stores(func(e *Effect) bool { return e.RecvHas(clF) })
			if len(a) != 1 || len(st) != 1 || st[0].Gen < a[0].Gen {
				ok, why = false, "must accept the item once and then stamp its delay"
				continue
			}
			if st[0].Args[0] != delay.Name() {
				ok, why = false, "the dwell must be the requested delay"
			}
			if !strings.Contains(strings.ReplaceAll(st[0].RecvS, " ", ""), "[len(p.stages)-1]") {
				ok, why = false, "the delay must be stamped on the item just appended (the last entry)"
			}
		}
		c.Check(ok, "accept-shape", "queueing.Pipeline.AcceptWithDelay", p.Decl(f).Pos(), "Accept, then last.CycleLeft = delay", why)
	}
	if f := c.fn("accept-shape", "queueing", "Pipeline", "CanAccept"); f != nil {
		t := ExtractTable(p, f, TableConfig{Domain: dom, LoopsOnce: true})
		roles := []Role{
			{Name: "nonempty", IsBool: true, Match: func(a *Atom) bool { return strings.HasPrefix(a.Key, "range-nonempty(") }},
			{Name: "stage", Match: func(a *Atom) bool { return a.Has(stageF) }},
			{Name: "width", Match: func(a *Atom) bool { return a.Has(widthF) }},
		}
		CheckTable(c, "accept-shape", "queueing.Pipeline.CanAccept", p.Decl(f).Pos(), t, roles, dom, nil, func(v RoleVals, r *Row) (bool, string) {
			if r.Out.Kind != "return" || len(r.Out.Vals) != 1 || r.Out.Vals[0].Kind != vBool {
				return false, "must return a boolean"
			}
			occ := 0
			if v.B("nonempty") && v["stage"] == 0 {
				occ = 1
			}
			if r.Out.Vals[0].B != (occ < v["width"]) {
				return false, "CanAccept must hold exactly when fewer items sit at stage 0 than there are lanes"
			}
			return true, ""
		})
	}
	c.Floor("accept-shape", 3)

	// client sites
	fns := p.SrcFuncs(func(pp string) bool { return !clientPkg(pp) })
	g := newGuardChecker(p, fns)
	for _, r := range g.CheckGuardPair(pairAccept, func(s CallSite) bool { return !strings.HasPrefix(p.DeclFile(s.Fn), "queueing/") }) {
		c.Check(r.OK, "accept-guard", "Accept@"+SSAFuncKey(r.Site.Fn)+"#"+suffixKey(r.Detail), r.Site.Pos(), "dominated by CanAccept ("+r.How+")",
			"an item is accepted into a pipeline without a dominating successful CanAccept on that pipeline: "+r.How)
	}
	c.Floor("accept-guard", 7)
	for _, r := range g.CheckGuardPair(pairPush, func(s CallSite) bool { return strings.HasPrefix(p.DeclFile(s.Fn), "queueing/pipeline") }) {
		c.Check(r.OK, "sink-guard", "PushTyped@"+SSAFuncKey(r.Site.Fn), r.Site.Pos(), "dominated by sink.CanPush", "the pipeline pushes into its sink without a dominating successful CanPush")
	}
	c.Floor("sink-guard", 1)
}
