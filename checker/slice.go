package main

import (
	"go/types"

	"golang.org/x/tools/go/ssa"
)

// BackwardSlice computes a coarse over-approximation of the values a value may
// depend on inside one function: data dependence through operands; memory
// dependence by treating every store into an object (allocation, slice, field)
// as feeding every load from an object with the same root; control dependence by
// including the conditions of all branches from which the value's defining block
// (or, for a phi, its predecessor blocks) is reachable without being
// post-dominated — approximated by every conditional that can reach it.
// Being an over-approximation, "X is not in the slice" is a sound
// "does not depend on X".
func BackwardSlice(fn *ssa.Function, roots ...ssa.Value) map[ssa.Value]bool {
	return backwardSlice(fn, false, roots...)
}

// DataSlice is BackwardSlice without control dependence: only operand and
// memory dependence (what the value is computed from, not what decides whether
// it is computed).
func DataSlice(fn *ssa.Function, roots ...ssa.Value) map[ssa.Value]bool {
	return backwardSlice(fn, true, roots...)
}

func backwardSlice(fn *ssa.Function, dataOnly bool, roots ...ssa.Value) map[ssa.Value]bool {
	seen := map[ssa.Value]bool{}
	var work []ssa.Value
	push := func(v ssa.Value) {
		if v != nil && !seen[v] {
			seen[v] = true
			work = append(work, v)
		}
	}
	for _, r := range roots {
		push(r)
	}
	// index stores by memory root
	storesByRoot := map[ssa.Value][]*ssa.Store{}
	for _, b := range fn.Blocks {
		for _, in := range b.Instrs {
			if st, ok := in.(*ssa.Store); ok {
				storesByRoot[memRoot(st.Addr)] = append(storesByRoot[memRoot(st.Addr)], st)
			}
		}
	}
	ctlDone := map[*ssa.BasicBlock]bool{}
	addControl := func(b *ssa.BasicBlock) {
		if b == nil || ctlDone[b] || dataOnly {
			return
		}
		ctlDone[b] = true
		// every conditional block that can reach b
		reach := map[*ssa.BasicBlock]bool{}
		var back func(x *ssa.BasicBlock)
		back = func(x *ssa.BasicBlock) {
			for _, p := range x.Preds {
				if !reach[p] {
					reach[p] = true
					back(p)
				}
			}
		}
		back(b)
		for p := range reach {
			if ifi, ok := p.Instrs[len(p.Instrs)-1].(*ssa.If); ok {
				push(ifi.Cond)
			}
		}
	}
	for len(work) > 0 {
		v := work[len(work)-1]
		work = work[:len(work)-1]
		in, isInstr := v.(ssa.Instruction)
		if isInstr {
			for _, op := range in.Operands(nil) {
				if op != nil && *op != nil {
					push(*op)
				}
			}
			addControl(in.Block())
		}
		switch v := v.(type) {
		case *ssa.Phi:
			for _, p := range v.Block().Preds {
				addControl(p)
				// the branch deciding which edge is taken
				if ifi, ok := p.Instrs[len(p.Instrs)-1].(*ssa.If); ok && !dataOnly {
					push(ifi.Cond)
				}
			}
		case *ssa.UnOp:
			// load: every store into the same memory root
			root := memRoot(v.X)
			for _, st := range storesByRoot[root] {
				push(st.Val)
				push(st.Addr)
				addControl(st.Block())
			}
			// a local whose address is handed to a call (json.Unmarshal(data, &x),
			// Decode(&x), …) is filled from that call's other arguments
			if al, ok := root.(*ssa.Alloc); ok {
				for _, ci := range callsReceiving(al) {
					for _, a := range ci.Common().Args {
						push(a)
					}
					if ci.Common().IsInvoke() {
						push(ci.Common().Value)
					}
					if cv, ok := ci.(ssa.Value); ok {
						_ = cv
					}
				}
			}
		case *ssa.Index, *ssa.Lookup:
		}
		// element/field reads of a value whose root has stores
		switch v := v.(type) {
		case *ssa.Slice, *ssa.Alloc:
			// a slice of / pointer to an object carries whatever was stored into it
			for _, st := range storesByRoot[memRoot(v)] {
				push(st.Val)
				push(st.Addr)
				addControl(st.Block())
			}
		case *ssa.IndexAddr:
			for _, st := range storesByRoot[memRoot(v)] {
				push(st.Val)
				push(st.Addr)
				addControl(st.Block())
			}
		}
	}
	return seen
}

// callsReceiving lists the calls that receive the address of an allocation,
// directly or wrapped in an interface.
func callsReceiving(al *ssa.Alloc) []ssa.CallInstruction {
	var out []ssa.CallInstruction
	var walk func(v ssa.Value, depth int)
	walk = func(v ssa.Value, depth int) {
		if depth > 3 || v.Referrers() == nil {
			return
		}
		for _, r := range *v.Referrers() {
			switch x := r.(type) {
			case ssa.CallInstruction:
				out = append(out, x)
			case *ssa.MakeInterface:
				walk(x, depth+1)
			case *ssa.ChangeType:
				walk(x, depth+1)
			case *ssa.FieldAddr:
				if x.X == v {
					walk(x, depth+1)
				}
			}
		}
	}
	walk(al, 0)
	return out
}

// memRoot strips field/index/slice steps from an address to its base object.
func memRoot(v ssa.Value) ssa.Value {
	for i := 0; i < 20; i++ {
		switch x := v.(type) {
		case *ssa.FieldAddr:
			v = x.X
		case *ssa.IndexAddr:
			v = x.X
		case *ssa.Slice:
			v = x.X
		case *ssa.UnOp:
			v = x.X
		case *ssa.ChangeType:
			v = x.X
		case *ssa.Convert:
			v = x.X
		default:
			return v
		}
	}
	return v
}

// SliceReadsField reports whether a slice contains a read of the given field.
func SliceReadsField(slice map[ssa.Value]bool, fld *types.Var) bool {
	for v := range slice {
		switch v.(type) {
		case *ssa.FieldAddr, *ssa.Field:
			if sameObj(FieldOf(v), fld) {
				return true
			}
		}
	}
	return false
}
