package main

// Decision-table extraction (analysis A2 of DESIGN.md).
//
// An abstract interpreter over the typed syntax tree of a small function. Integer
// and boolean leaf expressions that the function reads (method results, fields,
// parameters) are *atoms*. The interpreter enumerates, by depth-first replay, every
// assignment of the atoms the function actually consults to a small ordered domain
// (so that every ordering of the consulted quantities is covered), evaluates the
// branch conditions under the assignment and records, per path, the ordered
// effects (calls, stores) and the outcome. The result is the function's decision
// table. No repository code is executed: the interpreter only walks syntax.

import (
	"fmt"
	"go/ast"
	"go/constant"
	"go/token"
	"go/types"
	"os"
	"sort"
	"strings"

	"golang.org/x/tools/go/types/typeutil"
)

// PathElem is one step of an access path: a variable, field or method object.
type PathElem struct {
	Obj types.Object
	Str string
}

// Atom is a consulted leaf quantity with the value chosen for it on this path.
type Atom struct {
	Key    string // canonical expression text (locals substituted)
	Gen    int    // number of state-changing effects that preceded its first read
	IsBool bool
	I      int
	B      bool
	Path   []PathElem
	Expr   ast.Expr
}

// Has reports whether the atom's access path goes through obj.
func (a *Atom) Has(obj types.Object) bool {
	for _, e := range a.Path {
		if sameObj(e.Obj, obj) {
			return true
		}
	}
	return false
}

// HasName reports whether the access path contains an element with that name.
func (a *Atom) HasName(name string) bool {
	for _, e := range a.Path {
		if e.Obj != nil && e.Obj.Name() == name {
			return true
		}
	}
	return false
}

// Effect is a recorded call, store or statement with side effects.
type Effect struct {
	Kind   string // call | store | defer | go | send | incdec
	Callee *types.Func
	Recv   []PathElem // receiver access path for method calls, LHS path for stores
	RecvS  string
	Args   []string // canonical argument strings (RHS for stores)
	ArgV   []*Val   // values of arguments when cheaply known (may be nil entries)
	Str    string
	Node   ast.Node
	Gen    int
}

// RecvHas reports whether the receiver/LHS path goes through obj.
func (e *Effect) RecvHas(obj types.Object) bool {
	for _, p := range e.Recv {
		if sameObj(p.Obj, obj) {
			return true
		}
	}
	return false
}

// RecvHasName is RecvHas by name.
func (e *Effect) RecvHasName(name string) bool {
	for _, p := range e.Recv {
		if p.Obj != nil && p.Obj.Name() == name {
			return true
		}
	}
	return false
}

// Val is an abstract value.
type Val struct {
	Kind  int // vInt, vBool, vSym
	I     int
	B     bool
	Str   string
	Path  []PathElem
	atom  *atomRef // lazily valued integer/boolean leaf
	Type  types.Type
	Const bool
	Gen   int // generation at first evaluation (symbolic values)

	genSet bool
}

const (
	vInt = iota
	vBool
	vSym
)

type atomRef struct {
	key    string
	gen    int
	isBool bool
	path   []PathElem
	expr   ast.Expr
}

// Outcome is how a path ends.
type Outcome struct {
	Kind   string // return | panic | loop-next | unsupported
	Vals   []*Val
	Detail string
}

// Row is one path of the decision table.
type Row struct {
	Atoms   []*Atom
	Effects []*Effect
	Out     Outcome
}

// Int returns the value of the first atom satisfying pred.
func (r *Row) Atom(pred func(*Atom) bool) *Atom {
	for _, a := range r.Atoms {
		if pred(a) {
			return a
		}
	}
	return nil
}

// Calls returns the effects that are calls satisfying pred.
func (r *Row) Calls(pred func(*Effect) bool) []*Effect {
	var out []*Effect
	for _, e := range r.Effects {
		if (e.Kind == "call" || e.Kind == "defer" || e.Kind == "go") && pred(e) {
			out = append(out, e)
		}
	}
	return out
}

// Stores returns the store effects satisfying pred.
func (r *Row) Stores(pred func(*Effect) bool) []*Effect {
	var out []*Effect
	for _, e := range r.Effects {
		if (e.Kind == "store" || e.Kind == "incdec") && pred(e) {
			out = append(out, e)
		}
	}
	return out
}

func (r *Row) String() string {
	var sb strings.Builder
	for _, a := range r.Atoms {
		if a.IsBool {
			fmt.Fprintf(&sb, "%s@%d=%v ", a.Key, a.Gen, a.B)
		} else {
			fmt.Fprintf(&sb, "%s@%d=%d ", a.Key, a.Gen, a.I)
		}
	}
	sb.WriteString("=> ")
	for _, e := range r.Effects {
		sb.WriteString(e.Kind + ":" + e.Str + "; ")
	}
	sb.WriteString(r.Out.Kind)
	for _, v := range r.Out.Vals {
		sb.WriteString(" " + v.String())
	}
	if r.Out.Detail != "" {
		sb.WriteString(" (" + r.Out.Detail + ")")
	}
	return sb.String()
}

func (v *Val) String() string {
	switch v.Kind {
	case vInt:
		if v.atom != nil {
			return v.atom.key
		}
		return fmt.Sprint(v.I)
	case vBool:
		if v.atom != nil {
			return v.atom.key
		}
		return fmt.Sprint(v.B)
	}
	return v.Str
}

// HasObj reports whether the value's path goes through obj.
func (v *Val) HasObj(obj types.Object) bool {
	p := v.Path
	if v.atom != nil {
		p = v.atom.path
	}
	for _, e := range p {
		if sameObj(e.Obj, obj) {
			return true
		}
	}
	return false
}

// HasName is HasObj by name.
func (v *Val) HasName(name string) bool {
	p := v.Path
	if v.atom != nil {
		p = v.atom.path
	}
	for _, e := range p {
		if e.Obj != nil && e.Obj.Name() == name {
			return true
		}
	}
	return false
}

// TableConfig tunes the extraction.
type TableConfig struct {
	Domain  []int                    // integer domain, default {0,1,2}
	Inline  func(f *types.Func) bool // callees to interpret in place
	Pure    func(f *types.Func) bool // extra pure (state-reading) callees
	MaxRows int                      // default 20000
	Body    *ast.BlockStmt           // analyse this block instead of the whole function body
	Bind    map[types.Object]*Val    // pre-bound variables
	Impure  func(f *types.Func) bool // callees that must be treated as effects even if name looks pure
	// LoopsOnce makes conditional and range loops run zero or one iteration and
	// then fall through to the code after the loop (default: a path ends with
	// outcome "loop-next" at the end of the first iteration).
	LoopsOnce bool
	NoWiden   bool // keep the domain as given even in the thorough tier (enumerated codes)
}

// Table is a decision table.
type Table struct {
	Rows        []*Row
	Unsupported []string
	Truncated   bool
}

// wideTables is set by the thorough tier.
var wideTables = os.Getenv("AKITA_WIDE") == "1"

var pureNames = map[string]bool{
	"Time": true, "Len": true, "Size": true, "Capacity": true, "Peek": true, "PeekIncoming": true,
	"PeekOutgoing": true, "IsSecondary": true, "HandlerID": true, "Name": true, "NumHooks": true,
	"CanPush": true, "CanSend": true, "CanDeliver": true, "CanAccept": true, "CurrentTime": true,
	"Meta": true, "IsFull": true, "IsEmpty": true, "String": true, "Period": true, "ThisTick": true,
	"NextTick": true, "NCyclesLater": true, "Cycle": true, "NumIncoming": true, "NumOutgoing": true,
	"AsPort": true, "Component": true, "Engine": true, "GetSpec": true, "Spec": true,
	"LoadInt32": true, "LoadUint64": true, "LoadInt64": true, "LoadUint32": true, "Load": true,
	"TypeOf": true, "Sprintf": true, "Errorf": true, "New": true, "PeekTyped": true, "Elements": true,
	"Get": true, "Kind": true, "Type": true, "IsNil": true, "NumField": true,
}

type ctl int

const (
	ctlNext ctl = iota
	ctlReturn
	ctlBreak
	ctlContinue
	ctlEnd // path finished (panic, loop-next, unsupported)
)

type frame struct {
	env  map[types.Object]*Val
	ret  []*Val
	info *types.Info
}

type interp struct {
	p       *Program
	cfg     TableConfig
	choices []int
	npos    int
	limits  []int
	memo    map[string]*Atom
	stored  map[string]*Val // store forwarding: access path -> last stored value
	atoms   []*Atom
	effects []*Effect
	gen     int
	out     Outcome
	frames  []*frame
	depth   int
	uniq    int

	pendingEnd bool
}

type unsupported struct{ msg string }

func (in *interp) choose(n int) int {
	if n <= 1 {
		return 0
	}
	if in.npos < len(in.choices) {
		c := in.choices[in.npos]
		in.npos++
		return c
	}
	in.choices = append(in.choices, 0)
	in.limits = append(in.limits, n)
	in.npos++
	return 0
}

func (in *interp) fr() *frame { return in.frames[len(in.frames)-1] }

// ExtractTable computes the decision table of fn.
func ExtractTable(p *Program, fn *types.Func, cfg TableConfig) *Table {
	fd := p.Decl(fn)
	t := &Table{}
	if fd == nil || fd.Body == nil {
		t.Unsupported = append(t.Unsupported, "no body for "+FuncKey(fn))
		return t
	}
	pk := p.PkgOfDecl(fd)
	if cfg.Domain == nil {
		cfg.Domain = []int{0, 1, 2}
	}
	if cfg.MaxRows == 0 {
		cfg.MaxRows = 20000
	}
	if wideTables && !cfg.NoWiden {
		// thorough tier: one more value per integer quantity (catches conditions that
		// only differ beyond the quick domain); the row budget grows with it
		max := cfg.Domain[0]
		for _, d := range cfg.Domain {
			if d > max {
				max = d
			}
		}
		cfg.Domain = append(append([]int(nil), cfg.Domain...), max+1)
		cfg.MaxRows *= 4
	}
	var choices, limits []int
	for {
		in := &interp{p: p, cfg: cfg, choices: choices, limits: limits, memo: map[string]*Atom{}, stored: map[string]*Val{}}
		in.limits = in.limits[:len(in.choices)]
		f := &frame{env: map[types.Object]*Val{}, info: pk.TypesInfo}
		for k, v := range cfg.Bind {
			f.env[k] = v
		}
		in.frames = []*frame{f}
		body := fd.Body
		if cfg.Body != nil {
			body = cfg.Body
		}
		func() {
			defer func() {
				if r := recover(); r != nil {
					if u, ok := r.(unsupported); ok {
						in.out = Outcome{Kind: "unsupported", Detail: u.msg}
						return
					}
					panic(r)
				}
			}()
			c := in.block(body.List)
			switch c {
			case ctlNext:
				in.out = Outcome{Kind: "return"}
			case ctlReturn:
				in.out = Outcome{Kind: "return", Vals: f.ret}
			case ctlBreak, ctlContinue:
				in.out = Outcome{Kind: "loop-next"}
			}
		}()
		row := &Row{Atoms: in.atoms, Effects: in.effects, Out: in.out}
		if in.out.Kind == "unsupported" {
			t.Unsupported = append(t.Unsupported, in.out.Detail)
		}
		t.Rows = append(t.Rows, row)
		if len(t.Rows) >= cfg.MaxRows {
			t.Truncated = true
			return t
		}
		// advance DFS
		choices = in.choices
		limits = in.limits
		i := len(choices) - 1
		for i >= 0 && choices[i]+1 >= limits[i] {
			i--
		}
		if i < 0 {
			return t
		}
		choices = append([]int(nil), choices[:i+1]...)
		limits = append([]int(nil), limits[:i+1]...)
		choices[i]++
	}
}

func (in *interp) block(stmts []ast.Stmt) ctl {
	for _, s := range stmts {
		if c := in.stmt(s); c != ctlNext {
			return c
		}
	}
	return ctlNext
}

func isIntType(t types.Type) bool {
	if t == nil {
		return false
	}
	b, ok := t.Underlying().(*types.Basic)
	return ok && b.Info()&types.IsInteger != 0
}

func isBoolType(t types.Type) bool {
	if t == nil {
		return false
	}
	b, ok := t.Underlying().(*types.Basic)
	return ok && b.Info()&types.IsBoolean != 0
}

func (in *interp) typeOf(e ast.Expr) types.Type {
	if tv, ok := in.fr().info.Types[e]; ok {
		return tv.Type
	}
	if id, ok := e.(*ast.Ident); ok {
		if o := in.fr().info.ObjectOf(id); o != nil {
			return o.Type()
		}
	}
	return nil
}

func (in *interp) end(kind, detail string) ctl {
	in.out = Outcome{Kind: kind, Detail: detail}
	return ctlEnd
}

func (in *interp) stmt(s ast.Stmt) ctl {
	switch s := s.(type) {
	case *ast.BlockStmt:
		return in.block(s.List)
	case *ast.EmptyStmt:
		return ctlNext
	case *ast.ExprStmt:
		if call, ok := s.X.(*ast.CallExpr); ok {
			if in.isPanicCall(call) {
				in.addEffectsInArgs(call)
				return in.end("panic", in.str(call.Fun))
			}
		}
		in.evalNoForce(s.X)
		return in.pending()
	case *ast.DeclStmt:
		gd, ok := s.Decl.(*ast.GenDecl)
		if !ok || gd.Tok != token.VAR {
			return ctlNext
		}
		for _, sp := range gd.Specs {
			vs := sp.(*ast.ValueSpec)
			for i, n := range vs.Names {
				obj := in.fr().info.Defs[n]
				if obj == nil {
					continue
				}
				if i < len(vs.Values) {
					in.fr().env[obj] = in.bindVal(vs.Values[i])
				} else {
					in.fr().env[obj] = in.zeroVal(obj.Type(), n.Name)
				}
			}
		}
		return in.pending()
	case *ast.AssignStmt:
		in.assign(s)
		return in.pending()
	case *ast.IncDecStmt:
		if id, ok := s.X.(*ast.Ident); ok {
			if obj := in.fr().info.ObjectOf(id); obj != nil {
				if v, ok := in.fr().env[obj]; ok && isIntType(obj.Type()) {
					n := in.forceInt(v)
					if s.Tok == token.INC {
						n++
					} else {
						n--
					}
					in.fr().env[obj] = &Val{Kind: vInt, I: n, Type: obj.Type()}
					return ctlNext
				}
			}
		}
		path, str := in.pathOf(s.X)
		in.gen++
		in.effects = append(in.effects, &Effect{Kind: "incdec", Recv: path, RecvS: str, Args: []string{s.Tok.String()}, Str: str + s.Tok.String(), Node: s, Gen: in.gen})
		return ctlNext
	case *ast.ReturnStmt:
		var vals []*Val
		for _, r := range s.Results {
			v := in.evalNoForce(r)
			if in.pendingEnd {
				return in.pending()
			}
			if v.Kind == vBool {
				b := in.forceBool(v)
				v = &Val{Kind: vBool, B: b, Type: v.Type, Str: v.String(), Const: true}
			}
			vals = append(vals, v)
		}
		in.fr().ret = vals
		return ctlReturn
	case *ast.IfStmt:
		if s.Init != nil {
			if c := in.stmt(s.Init); c != ctlNext {
				return c
			}
		}
		cond := in.evalBool(s.Cond)
		if in.pendingEnd {
			return in.pending()
		}
		if cond {
			return in.block(s.Body.List)
		}
		if s.Else != nil {
			return in.stmt(s.Else)
		}
		return ctlNext
	case *ast.SwitchStmt:
		return in.switchStmt(s)
	case *ast.TypeSwitchStmt:
		return in.typeSwitch(s)
	case *ast.ForStmt:
		if s.Init != nil {
			if c := in.stmt(s.Init); c != ctlNext {
				return c
			}
		}
		if s.Cond != nil {
			if !in.evalBool(s.Cond) {
				return ctlNext
			}
			if in.pendingEnd {
				return in.pending()
			}
		}
		c := in.block(s.Body.List)
		switch c {
		case ctlBreak:
			return ctlNext
		case ctlNext, ctlContinue:
			if in.cfg.LoopsOnce && s.Cond != nil {
				in.effects = append(in.effects, &Effect{Kind: "loop-exit", Str: "after one iteration", Node: s, Gen: in.gen})
				return ctlNext
			}
			return in.end("loop-next", "")
		}
		return c
	case *ast.RangeStmt:
		xs := in.str(s.X)
		in.addEffectsInExpr(s.X)
		if in.chooseBool("range-nonempty(" + xs + ")") {
			for _, kv := range []ast.Expr{s.Key, s.Value} {
				if id, ok := kv.(*ast.Ident); ok && id.Name != "_" {
					if obj := in.fr().info.ObjectOf(id); obj != nil {
						in.uniq++
						nm := "value"
						if kv == s.Key {
							nm = "key"
						}
						label := fmt.Sprintf("%s-of(%s)#%s", nm, xs, id.Name)
						in.fr().env[obj] = &Val{Kind: vSym, Str: label, Path: []PathElem{{Obj: obj, Str: id.Name}}, Type: obj.Type()}
						if isIntType(obj.Type()) {
							in.fr().env[obj] = in.atomVal(label, []PathElem{{Obj: obj, Str: id.Name}}, kv, obj.Type())
						}
					}
				}
			}
			c := in.block(s.Body.List)
			switch c {
			case ctlBreak:
				return ctlNext
			case ctlNext, ctlContinue:
				if in.cfg.LoopsOnce {
					in.effects = append(in.effects, &Effect{Kind: "loop-exit", Str: "after one iteration", Node: s, Gen: in.gen})
					return ctlNext
				}
				return in.end("loop-next", "")
			}
			return c
		}
		return ctlNext
	case *ast.BranchStmt:
		switch s.Tok {
		case token.BREAK:
			if s.Label != nil {
				panic(unsupported{"labelled break"})
			}
			return ctlBreak
		case token.CONTINUE:
			if s.Label != nil {
				panic(unsupported{"labelled continue"})
			}
			return ctlContinue
		}
		panic(unsupported{"branch " + s.Tok.String()})
	case *ast.DeferStmt:
		in.recordCall(s.Call, "defer")
		return ctlNext
	case *ast.GoStmt:
		in.recordCall(s.Call, "go")
		return ctlNext
	case *ast.SendStmt:
		in.gen++
		in.effects = append(in.effects, &Effect{Kind: "send", RecvS: in.str(s.Chan), Args: []string{in.str(s.Value)}, Str: in.str(s.Chan) + " <- " + in.str(s.Value), Node: s, Gen: in.gen})
		return ctlNext
	case *ast.LabeledStmt:
		return in.stmt(s.Stmt)
	case *ast.SelectStmt:
		panic(unsupported{"select"})
	}
	panic(unsupported{fmt.Sprintf("statement %T", s)})
}

// pendingEnd is set when an inlined callee ended the path (panic / loop-next).
func (in *interp) pending() ctl {
	if in.pendingEnd {
		return ctlEnd
	}
	return ctlNext
}

func (in *interp) switchStmt(s *ast.SwitchStmt) ctl {
	if s.Init != nil {
		if c := in.stmt(s.Init); c != ctlNext {
			return c
		}
	}
	var clauses []*ast.CaseClause
	var def *ast.CaseClause
	for _, c := range s.Body.List {
		cc := c.(*ast.CaseClause)
		if cc.List == nil {
			def = cc
		} else {
			clauses = append(clauses, cc)
		}
	}
	run := func(cc *ast.CaseClause) ctl {
		c := in.block(cc.Body)
		if c == ctlBreak {
			return ctlNext
		}
		return c
	}
	if s.Tag == nil {
		for _, cc := range clauses {
			for _, e := range cc.List {
				if in.evalBool(e) {
					return run(cc)
				}
				if in.pendingEnd {
					return ctlEnd
				}
			}
		}
		if def != nil {
			return run(def)
		}
		return ctlNext
	}
	tag := in.evalNoForce(s.Tag)
	if tag.Kind == vBool {
		b := in.forceBool(tag)
		for _, cc := range clauses {
			for _, e := range cc.List {
				if in.evalBool(e) == b {
					return run(cc)
				}
			}
		}
		if def != nil {
			return run(def)
		}
		return ctlNext
	}
	// choice among clauses, recorded as one multi-valued atom
	key := "switch(" + tag.String() + ")"
	n := len(clauses) + 1
	idx := in.chooseAtomInt(key, n, tag, s.Tag)
	if idx < len(clauses) {
		return run(clauses[idx])
	}
	if def != nil {
		return run(def)
	}
	return ctlNext
}

// chooseAtomInt records a multi-way choice as an integer atom in [0,n).
func (in *interp) chooseAtomInt(key string, n int, v *Val, e ast.Expr) int {
	mk := fmt.Sprintf("%s@%d", key, in.genOf(v))
	if a, ok := in.memo[mk]; ok {
		return a.I
	}
	c := in.choose(n)
	path := v.Path
	if v.atom != nil {
		path = v.atom.path
	}
	a := &Atom{Key: key, Gen: in.genOf(v), I: c, Path: path, Expr: e}
	in.memo[mk] = a
	in.atoms = append(in.atoms, a)
	return c
}

func (in *interp) genOf(v *Val) int {
	if v != nil && v.atom != nil {
		return v.atom.gen
	}
	return in.gen
}

func (in *interp) typeSwitch(s *ast.TypeSwitchStmt) ctl {
	if s.Init != nil {
		if c := in.stmt(s.Init); c != ctlNext {
			return c
		}
	}
	var x ast.Expr
	var bind *ast.Ident
	switch a := s.Assign.(type) {
	case *ast.ExprStmt:
		x = a.X.(*ast.TypeAssertExpr).X
	case *ast.AssignStmt:
		x = a.Rhs[0].(*ast.TypeAssertExpr).X
		bind = a.Lhs[0].(*ast.Ident)
	}
	xv := in.evalNoForce(x)
	var clauses []*ast.CaseClause
	var def *ast.CaseClause
	for _, c := range s.Body.List {
		cc := c.(*ast.CaseClause)
		if cc.List == nil {
			def = cc
		} else {
			clauses = append(clauses, cc)
		}
	}
	idx := in.chooseAtomInt("typeswitch("+xv.String()+")", len(clauses)+1, xv, x)
	var cc *ast.CaseClause
	if idx < len(clauses) {
		cc = clauses[idx]
	} else {
		cc = def
	}
	if cc == nil {
		return ctlNext
	}
	if bind != nil {
		if obj := in.fr().info.Implicits[cc]; obj != nil {
			nv := *xv
			nv.Type = obj.Type()
			in.fr().env[obj] = &nv
		}
	}
	c := in.block(cc.Body)
	if c == ctlBreak {
		return ctlNext
	}
	return c
}

func (in *interp) isPanicCall(call *ast.CallExpr) bool {
	if id, ok := call.Fun.(*ast.Ident); ok && id.Name == "panic" {
		if _, isB := in.fr().info.ObjectOf(id).(*types.Builtin); isB {
			return true
		}
	}
	if f := in.callee(call); f != nil && f.Pkg() != nil {
		switch f.Pkg().Path() {
		case "log":
			n := f.Name()
			return strings.HasPrefix(n, "Panic") || strings.HasPrefix(n, "Fatal")
		case "os":
			return f.Name() == "Exit"
		}
	}
	return false
}

func (in *interp) callee(call *ast.CallExpr) *types.Func {
	f, _ := typeutil.Callee(in.fr().info, call).(*types.Func)
	return f
}

func (in *interp) isPure(f *types.Func) bool {
	if f == nil {
		return false
	}
	if in.cfg.Impure != nil && in.cfg.Impure(f) {
		return false
	}
	if in.cfg.Pure != nil && in.cfg.Pure(f) {
		return true
	}
	return pureNames[f.Name()]
}

func (in *interp) assign(s *ast.AssignStmt) {
	info := in.fr().info
	if len(s.Lhs) == len(s.Rhs) {
		vals := make([]*Val, len(s.Rhs))
		for i, r := range s.Rhs {
			if s.Tok != token.ASSIGN && s.Tok != token.DEFINE {
				vals[i] = nil
				continue
			}
			vals[i] = in.bindVal(r)
		}
		for i, l := range s.Lhs {
			if id, ok := l.(*ast.Ident); ok {
				if id.Name == "_" {
					continue
				}
				obj := info.ObjectOf(id)
				_, isLocal := in.fr().env[obj]
				if s.Tok == token.DEFINE || isLocal || in.isLocalVar(obj) {
					if s.Tok == token.ASSIGN || s.Tok == token.DEFINE {
						in.fr().env[obj] = vals[i]
						continue
					}
					// op-assign on a local
					if isIntType(obj.Type()) && isLocal {
						a := in.forceInt(in.fr().env[obj])
						b := in.forceInt(in.evalNoForce(s.Rhs[i]))
						switch s.Tok {
						case token.ADD_ASSIGN:
							a += b
						case token.SUB_ASSIGN:
							a -= b
						default:
							panic(unsupported{"op-assign " + s.Tok.String()})
						}
						in.fr().env[obj] = &Val{Kind: vInt, I: a, Type: obj.Type()}
						continue
					}
					in.uniq++
					in.fr().env[obj] = &Val{Kind: vSym, Str: fmt.Sprintf("%s%s%s", id.Name, s.Tok, in.str(s.Rhs[i])), Type: obj.Type()}
					continue
				}
			}
			path, str := in.pathOf(l)
			rhs := in.str(s.Rhs[i])
			in.addEffectsInExpr(s.Rhs[i])
			in.gen++
			e := &Effect{Kind: "store", Recv: path, RecvS: str, Args: []string{rhs}, Str: str + " " + s.Tok.String() + " " + rhs, Node: s, Gen: in.gen}
			if vals[i] != nil {
				e.ArgV = []*Val{vals[i]}
			}
			in.effects = append(in.effects, e)
			// store forwarding: a later read of the same access path sees this value
			if s.Tok == token.ASSIGN && vals[i] != nil {
				in.stored[str] = vals[i]
			} else {
				delete(in.stored, str)
			}
		}
		return
	}
	// tuple assignment from one expression
	if len(s.Rhs) != 1 {
		panic(unsupported{"assignment shape"})
	}
	rhs := ast.Unparen(s.Rhs[0])
	base := in.evalNoForce(rhs)
	for i, l := range s.Lhs {
		id, ok := l.(*ast.Ident)
		if !ok {
			path, str := in.pathOf(l)
			in.gen++
			in.effects = append(in.effects, &Effect{Kind: "store", Recv: path, RecvS: str, Args: []string{base.String()}, Str: str + " = " + base.String(), Node: s, Gen: in.gen})
			continue
		}
		if id.Name == "_" {
			continue
		}
		obj := info.ObjectOf(id)
		if obj == nil {
			continue
		}
		key := fmt.Sprintf("%s#%d", base.String(), i)
		isOK := false
		switch rhs.(type) {
		case *ast.TypeAssertExpr, *ast.IndexExpr, *ast.UnaryExpr:
			isOK = i == 1
		}
		if i == 0 {
			switch rhs.(type) {
			case *ast.TypeAssertExpr, *ast.IndexExpr, *ast.UnaryExpr:
				nv := *base
				nv.Type = obj.Type()
				in.fr().env[obj] = &nv
				continue
			}
		}
		if isOK {
			key = "ok(" + base.String() + ")"
		}
		if isBoolType(obj.Type()) || isIntType(obj.Type()) {
			in.fr().env[obj] = in.atomVal(key, base.Path, rhs, obj.Type())
		} else {
			in.fr().env[obj] = &Val{Kind: vSym, Str: key, Path: base.Path, Type: obj.Type()}
		}
	}
}

func (in *interp) isLocalVar(obj types.Object) bool {
	v, ok := obj.(*types.Var)
	if !ok || v.IsField() {
		return false
	}
	return v.Parent() != nil && v.Parent() != v.Pkg().Scope()
}

// bindVal evaluates an expression for binding to a local: integer/boolean leaves
// stay lazy (their value is chosen when first compared), with the generation
// captured now so that a snapshot taken before an effect is not conflated with a
// read after it.
func (in *interp) bindVal(e ast.Expr) *Val { return in.evalNoForce(e) }

func (in *interp) zeroVal(t types.Type, name string) *Val {
	switch {
	case isIntType(t):
		return &Val{Kind: vInt, I: 0, Type: t, Const: true}
	case isBoolType(t):
		return &Val{Kind: vBool, B: false, Type: t, Const: true}
	}
	return &Val{Kind: vSym, Str: "zero(" + name + ")", Type: t}
}

func (in *interp) atomVal(key string, path []PathElem, e ast.Expr, t types.Type) *Val {
	ar := &atomRef{key: key, gen: in.gen, isBool: isBoolType(t), path: path, expr: e}
	k := vInt
	if ar.isBool {
		k = vBool
	}
	return &Val{Kind: k, atom: ar, Type: t, Str: key, Path: path}
}

func (in *interp) forceInt(v *Val) int {
	if v == nil {
		panic(unsupported{"nil int value"})
	}
	if v.Kind != vInt {
		panic(unsupported{"non-integer value used as integer: " + v.String()})
	}
	if v.atom == nil {
		return v.I
	}
	mk := fmt.Sprintf("%s@%d", v.atom.key, v.atom.gen)
	if a, ok := in.memo[mk]; ok {
		return a.I
	}
	c := in.cfg.Domain[in.choose(len(in.cfg.Domain))]
	a := &Atom{Key: v.atom.key, Gen: v.atom.gen, I: c, Path: v.atom.path, Expr: v.atom.expr}
	in.memo[mk] = a
	in.atoms = append(in.atoms, a)
	return c
}

func (in *interp) forceBool(v *Val) bool {
	if v.Kind != vBool {
		panic(unsupported{"non-boolean value used as condition: " + v.String()})
	}
	if v.atom == nil {
		return v.B
	}
	mk := fmt.Sprintf("%s@%d", v.atom.key, v.atom.gen)
	if a, ok := in.memo[mk]; ok {
		return a.B
	}
	c := in.choose(2) == 1
	a := &Atom{Key: v.atom.key, Gen: v.atom.gen, IsBool: true, B: c, Path: v.atom.path, Expr: v.atom.expr}
	in.memo[mk] = a
	in.atoms = append(in.atoms, a)
	return c
}

func (in *interp) chooseBool(key string) bool {
	return in.forceBool(&Val{Kind: vBool, atom: &atomRef{key: key, gen: in.gen, isBool: true}})
}

func (in *interp) evalBool(e ast.Expr) bool {
	v := in.evalNoForce(e)
	if in.pendingEnd {
		return false
	}
	return in.forceBool(v)
}

// evalNoForce evaluates e to an abstract value, choosing values only where a
// comparison or arithmetic needs them. Symbolic values are stamped with the
// generation (number of preceding state-changing effects) at which they were
// first evaluated, so that a read before an effect can be told from one after it.
func (in *interp) evalNoForce(e ast.Expr) *Val {
	g := in.gen
	v := in.evalInner(e)
	if v != nil && v != pendingSentinel && !v.genSet {
		v.Gen = g
		v.genSet = true
	}
	return v
}

func (in *interp) evalInner(e ast.Expr) *Val {
	info := in.fr().info
	e = ast.Unparen(e)
	if tv, ok := info.Types[e]; ok && tv.Value != nil {
		switch tv.Value.Kind() {
		case constant.Int:
			if n, ok := constant.Int64Val(tv.Value); ok {
				return &Val{Kind: vInt, I: int(n), Type: tv.Type, Const: true, Str: in.constStr(e, tv)}
			}
		case constant.Bool:
			return &Val{Kind: vBool, B: constant.BoolVal(tv.Value), Type: tv.Type, Const: true}
		}
		return &Val{Kind: vSym, Str: tv.Value.ExactString(), Type: tv.Type, Const: true}
	}
	switch e := e.(type) {
	case *ast.Ident:
		obj := info.ObjectOf(e)
		if v, ok := in.fr().env[obj]; ok && v != nil {
			return v
		}
		if e.Name == "nil" {
			return &Val{Kind: vSym, Str: "nil", Const: true}
		}
		t := in.typeOf(e)
		path := []PathElem{{Obj: obj, Str: e.Name}}
		if isIntType(t) || isBoolType(t) {
			return in.atomVal(e.Name, path, e, t)
		}
		return &Val{Kind: vSym, Str: e.Name, Path: path, Type: t}
	case *ast.SelectorExpr:
		if sel, ok := info.Selections[e]; ok {
			base := in.evalNoForce(e.X)
			path := append(append([]PathElem(nil), basePath(base)...), PathElem{Obj: sel.Obj(), Str: e.Sel.Name})
			str := base.String() + "." + e.Sel.Name
			if sv, ok := in.stored[str]; ok && sv != nil {
				return sv
			}
			t := sel.Type()
			if isIntType(t) || isBoolType(t) {
				return in.atomVal(str, path, e, t)
			}
			return &Val{Kind: vSym, Str: str, Path: path, Type: t}
		}
		// qualified identifier
		obj := info.ObjectOf(e.Sel)
		t := in.typeOf(e)
		str := in.str(e)
		path := []PathElem{{Obj: obj, Str: str}}
		if isIntType(t) || isBoolType(t) {
			return in.atomVal(str, path, e, t)
		}
		return &Val{Kind: vSym, Str: str, Path: path, Type: t}
	case *ast.StarExpr:
		return in.evalNoForce(e.X)
	case *ast.UnaryExpr:
		switch e.Op {
		case token.NOT:
			v := in.evalNoForce(e.X)
			if in.pendingEnd {
				return v
			}
			return &Val{Kind: vBool, B: !in.forceBool(v), Type: v.Type}
		case token.AND:
			v := in.evalNoForce(e.X)
			nv := *v
			nv.Str = "&" + v.String()
			nv.Kind = vSym
			nv.atom = nil
			nv.Path = basePath(v)
			nv.Type = in.typeOf(e)
			return &nv
		case token.SUB:
			v := in.evalNoForce(e.X)
			return &Val{Kind: vInt, I: -in.forceInt(v), Type: v.Type}
		case token.ARROW:
			in.gen++
			str := "<-" + in.str(e.X)
			in.effects = append(in.effects, &Effect{Kind: "call", RecvS: in.str(e.X), Str: str, Node: e, Gen: in.gen})
			t := in.typeOf(e)
			in.uniq++
			return in.symOrAtom(fmt.Sprintf("%s#%d", str, in.uniq), nil, e, t)
		}
		panic(unsupported{"unary " + e.Op.String()})
	case *ast.BinaryExpr:
		return in.binary(e)
	case *ast.CallExpr:
		return in.call(e)
	case *ast.IndexExpr:
		base := in.evalNoForce(e.X)
		if tv, ok := info.Types[e.X]; ok {
			if _, isSig := tv.Type.Underlying().(*types.Signature); isSig {
				return base // generic instantiation
			}
		}
		idx := in.str(e.Index)
		path := append(append([]PathElem(nil), basePath(base)...), PathElem{Str: "[" + idx + "]"})
		if id, ok := ast.Unparen(e.Index).(*ast.Ident); ok {
			path[len(path)-1].Obj = info.ObjectOf(id)
		}
		str := base.String() + "[" + idx + "]"
		return in.symOrAtom(str, path, e, in.typeOf(e))
	case *ast.SliceExpr:
		base := in.evalNoForce(e.X)
		return &Val{Kind: vSym, Str: in.str(e), Path: basePath(base), Type: in.typeOf(e)}
	case *ast.TypeAssertExpr:
		base := in.evalNoForce(e.X)
		nv := *base
		nv.Kind = vSym
		nv.atom = nil
		nv.Path = basePath(base)
		nv.Str = base.String() + ".(" + in.str(e.Type) + ")"
		nv.Type = in.typeOf(e)
		return &nv
	case *ast.CompositeLit:
		in.addEffectsInExpr(e)
		return &Val{Kind: vSym, Str: in.str(e), Type: in.typeOf(e)}
	case *ast.FuncLit:
		return &Val{Kind: vSym, Str: "func-literal", Type: in.typeOf(e)}
	case *ast.BasicLit:
		return &Val{Kind: vSym, Str: e.Value, Type: in.typeOf(e), Const: true}
	case *ast.KeyValueExpr:
		return in.evalNoForce(e.Value)
	}
	panic(unsupported{fmt.Sprintf("expression %T", e)})
}

func (in *interp) constStr(e ast.Expr, tv types.TypeAndValue) string {
	return types.ExprString(e)
}

func basePath(v *Val) []PathElem {
	if v.atom != nil {
		return v.atom.path
	}
	return v.Path
}

func (in *interp) symOrAtom(str string, path []PathElem, e ast.Expr, t types.Type) *Val {
	if isIntType(t) || isBoolType(t) {
		return in.atomVal(str, path, e, t)
	}
	return &Val{Kind: vSym, Str: str, Path: path, Type: t}
}

func (in *interp) binary(e *ast.BinaryExpr) *Val {
	switch e.Op {
	case token.LAND:
		l := in.evalBool(e.X)
		if in.pendingEnd {
			return &Val{Kind: vBool}
		}
		if !l {
			return &Val{Kind: vBool, B: false}
		}
		return &Val{Kind: vBool, B: in.evalBool(e.Y)}
	case token.LOR:
		l := in.evalBool(e.X)
		if in.pendingEnd {
			return &Val{Kind: vBool}
		}
		if l {
			return &Val{Kind: vBool, B: true}
		}
		return &Val{Kind: vBool, B: in.evalBool(e.Y)}
	}
	lt := in.typeOf(e.X)
	rt := in.typeOf(e.Y)
	bothInt := isIntType(lt) && isIntType(rt)
	switch e.Op {
	case token.EQL, token.NEQ, token.LSS, token.LEQ, token.GTR, token.GEQ:
		l := in.evalNoForce(e.X)
		r := in.evalNoForce(e.Y)
		if in.pendingEnd {
			return &Val{Kind: vBool}
		}
		if bothInt && l.Kind == vInt && r.Kind == vInt {
			// enum-like comparison against a named constant outside the domain:
			// treat as an opaque boolean so that the domain need not contain it.
			if (l.Const && !in.inDomain(l.I)) || (r.Const && !in.inDomain(r.I)) {
				return in.opaqueCmp(e, l, r)
			}
			a, b := in.forceInt(l), in.forceInt(r)
			var res bool
			switch e.Op {
			case token.EQL:
				res = a == b
			case token.NEQ:
				res = a != b
			case token.LSS:
				res = a < b
			case token.LEQ:
				res = a <= b
			case token.GTR:
				res = a > b
			case token.GEQ:
				res = a >= b
			}
			return &Val{Kind: vBool, B: res}
		}
		if l.Kind == vBool && r.Kind == vBool && (e.Op == token.EQL || e.Op == token.NEQ) {
			a, b := in.forceBool(l), in.forceBool(r)
			return &Val{Kind: vBool, B: (a == b) == (e.Op == token.EQL)}
		}
		return in.opaqueCmp(e, l, r)
	case token.ADD, token.SUB:
		if bothInt {
			l := in.evalNoForce(e.X)
			r := in.evalNoForce(e.Y)
			if l.Kind == vInt && r.Kind == vInt {
				a, b := in.forceInt(l), in.forceInt(r)
				if e.Op == token.ADD {
					return &Val{Kind: vInt, I: a + b, Type: lt}
				}
				return &Val{Kind: vInt, I: a - b, Type: lt}
			}
		}
	}
	// other arithmetic: opaque leaf keyed by its canonical text
	str := in.str(e)
	in.addEffectsInExpr(e)
	return in.symOrAtom(str, nil, e, in.typeOf(e))
}

func (in *interp) inDomain(n int) bool {
	lo, hi := in.cfg.Domain[0], in.cfg.Domain[0]
	for _, d := range in.cfg.Domain {
		if d < lo {
			lo = d
		}
		if d > hi {
			hi = d
		}
	}
	return n >= lo-1 && n <= hi+1
}

func (in *interp) opaqueCmp(e *ast.BinaryExpr, l, r *Val) *Val {
	ls, rs := l.String(), r.String()
	op := e.Op
	neg := false
	switch op {
	case token.NEQ:
		op, neg = token.EQL, true
	case token.GEQ:
		op, neg = token.LSS, true
	case token.LEQ:
		op, neg = token.GTR, true
	}
	if op == token.EQL && ls > rs {
		ls, rs = rs, ls
	}
	key := ls + " " + op.String() + " " + rs
	path := append(append([]PathElem(nil), basePath(l)...), basePath(r)...)
	gen := in.gen
	if l.atom != nil && l.atom.gen < gen {
		gen = l.atom.gen
	}
	v := &Val{Kind: vBool, atom: &atomRef{key: key, gen: gen, isBool: true, path: path, expr: e}}
	b := in.forceBool(v)
	if neg {
		b = !b
	}
	return &Val{Kind: vBool, B: b}
}

// pathOf resolves an lvalue-like expression to an access path without choosing values.
func (in *interp) pathOf(e ast.Expr) ([]PathElem, string) {
	info := in.fr().info
	e = ast.Unparen(e)
	switch e := e.(type) {
	case *ast.Ident:
		obj := info.ObjectOf(e)
		if v, ok := in.fr().env[obj]; ok && v != nil && v.Kind == vSym {
			return v.Path, v.Str
		}
		return []PathElem{{Obj: obj, Str: e.Name}}, e.Name
	case *ast.SelectorExpr:
		if sel, ok := info.Selections[e]; ok {
			p, s := in.pathOf(e.X)
			s = strings.TrimPrefix(s, "&") // (&x).f is x.f
			return append(append([]PathElem(nil), p...), PathElem{Obj: sel.Obj(), Str: e.Sel.Name}), s + "." + e.Sel.Name
		}
		obj := info.ObjectOf(e.Sel)
		return []PathElem{{Obj: obj, Str: in.str(e)}}, in.str(e)
	case *ast.StarExpr:
		return in.pathOf(e.X)
	case *ast.IndexExpr:
		p, s := in.pathOf(e.X)
		idx := in.str(e.Index)
		pe := PathElem{Str: "[" + idx + "]"}
		if id, ok := ast.Unparen(e.Index).(*ast.Ident); ok {
			pe.Obj = info.ObjectOf(id)
		}
		return append(append([]PathElem(nil), p...), pe), s + "[" + idx + "]"
	case *ast.UnaryExpr:
		if e.Op == token.AND {
			p, s := in.pathOf(e.X)
			return p, "&" + s
		}
	case *ast.CallExpr:
		if f := in.callee(e); f != nil {
			if se, ok := ast.Unparen(e.Fun).(*ast.SelectorExpr); ok {
				if _, isSel := info.Selections[se]; isSel {
					p, s := in.pathOf(se.X)
					s = strings.TrimPrefix(s, "&")
					return append(append([]PathElem(nil), p...), PathElem{Obj: f, Str: f.Name() + "()"}), s + "." + f.Name() + "(" + in.strList(e.Args) + ")"
				}
			}
			return []PathElem{{Obj: f, Str: f.Name() + "()"}}, in.str(e)
		}
	case *ast.TypeAssertExpr:
		p, s := in.pathOf(e.X)
		return p, s + ".(" + in.str(e.Type) + ")"
	case *ast.SliceExpr:
		p, _ := in.pathOf(e.X)
		return p, in.str(e)
	}
	return nil, in.str(e)
}

func (in *interp) strList(es []ast.Expr) string {
	ss := make([]string, len(es))
	for i, e := range es {
		ss[i] = in.str(e)
	}
	return strings.Join(ss, ", ")
}

// str prints an expression canonically with bound locals substituted. It never
// chooses values.
func (in *interp) str(e ast.Expr) string {
	info := in.fr().info
	switch e := e.(type) {
	case nil:
		return ""
	case *ast.ParenExpr:
		return "(" + in.str(e.X) + ")"
	case *ast.Ident:
		if obj := info.ObjectOf(e); obj != nil {
			if v, ok := in.fr().env[obj]; ok && v != nil {
				if v.Kind == vSym || v.atom != nil {
					return v.String()
				}
				if v.Const {
					return v.String()
				}
			}
		}
		return e.Name
	case *ast.SelectorExpr:
		ss := in.str(e.X) + "." + e.Sel.Name
		if sv, ok := in.stored[ss]; ok && sv != nil {
			return sv.String()
		}
		return ss
	case *ast.StarExpr:
		return "*" + in.str(e.X)
	case *ast.UnaryExpr:
		return e.Op.String() + in.str(e.X)
	case *ast.BinaryExpr:
		return in.str(e.X) + " " + e.Op.String() + " " + in.str(e.Y)
	case *ast.CallExpr:
		return in.str(e.Fun) + "(" + in.strList(e.Args) + ")"
	case *ast.IndexExpr:
		return in.str(e.X) + "[" + in.str(e.Index) + "]"
	case *ast.SliceExpr:
		return in.str(e.X) + "[" + in.str(e.Low) + ":" + in.str(e.High) + "]"
	case *ast.TypeAssertExpr:
		return in.str(e.X) + ".(" + in.str(e.Type) + ")"
	case *ast.KeyValueExpr:
		return in.str(e.Key) + ": " + in.str(e.Value)
	case *ast.CompositeLit:
		parts := make([]string, len(e.Elts))
		for i, el := range e.Elts {
			if kv, ok := el.(*ast.KeyValueExpr); ok {
				parts[i] = types.ExprString(kv.Key) + ": " + in.str(kv.Value)
			} else {
				parts[i] = in.str(el)
			}
		}
		sort.Strings(parts)
		return types.ExprString(e.Type) + "{" + strings.Join(parts, ", ") + "}"
	}
	return types.ExprString(e)
}

// addEffectsInExpr records non-pure calls nested in an expression that is only
// printed, not evaluated.
func (in *interp) addEffectsInExpr(e ast.Expr) {
	ast.Inspect(e, func(n ast.Node) bool {
		switch n := n.(type) {
		case *ast.FuncLit:
			return false
		case *ast.CallExpr:
			in.addEffectsInArgs(n)
			f := in.callee(n)
			if f != nil && !in.isPure(f) {
				in.recordCallShallow(n, "call", f)
			}
			return false
		}
		return true
	})
}

func (in *interp) addEffectsInArgs(call *ast.CallExpr) {
	for _, a := range call.Args {
		in.addEffectsInExpr(a)
	}
	if se, ok := ast.Unparen(call.Fun).(*ast.SelectorExpr); ok {
		in.addEffectsInExpr(se.X)
	}
}

func (in *interp) recordCallShallow(call *ast.CallExpr, kind string, f *types.Func) *Effect {
	info := in.fr().info
	var recv []PathElem
	recvS := ""
	if se, ok := ast.Unparen(call.Fun).(*ast.SelectorExpr); ok {
		if _, isSel := info.Selections[se]; isSel {
			recv, recvS = in.pathOf(se.X)
		}
	}
	args := make([]string, len(call.Args))
	for i, a := range call.Args {
		args[i] = in.str(a)
	}
	name := in.str(call.Fun)
	in.gen++
	if !neutralCallee(f) {
		// an arbitrary callee may overwrite anything that was stored before
		in.stored = map[string]*Val{}
	}
	e := &Effect{Kind: kind, Callee: f, Recv: recv, RecvS: recvS, Args: args, Str: name + "(" + strings.Join(args, ", ") + ")", Node: call, Gen: in.gen}
	in.effects = append(in.effects, e)
	return e
}

func (in *interp) recordCall(call *ast.CallExpr, kind string) *Effect {
	in.addEffectsInArgs(call)
	return in.recordCallShallow(call, kind, in.callee(call))
}

var pendingSentinel = &Val{Kind: vSym, Str: "<ended>"}

func (in *interp) call(e *ast.CallExpr) *Val {
	info := in.fr().info
	// conversion
	if tv, ok := info.Types[e.Fun]; ok && tv.IsType() {
		if len(e.Args) == 1 {
			v := in.evalNoForce(e.Args[0])
			nv := *v
			nv.Type = tv.Type
			return &nv
		}
	}
	// builtins
	if id, ok := ast.Unparen(e.Fun).(*ast.Ident); ok {
		if _, isB := info.ObjectOf(id).(*types.Builtin); isB {
			switch id.Name {
			case "len", "cap":
				base := in.evalNoForce(e.Args[0])
				key := id.Name + "(" + base.String() + ")"
				path := append(append([]PathElem(nil), basePath(base)...), PathElem{Str: id.Name})
				return in.atomVal(key, path, e, types.Typ[types.Int])
			case "panic":
				in.pendingEnd = true
				in.out = Outcome{Kind: "panic", Detail: "panic"}
				return pendingSentinel
			case "append", "copy", "delete", "make", "new", "min", "max", "clear":
				str := in.str(e)
				in.addEffectsInArgs(e)
				if id.Name == "copy" || id.Name == "delete" || id.Name == "clear" {
					p, s := in.pathOf(e.Args[0])
					in.gen++
					args := make([]string, len(e.Args))
					for i, a := range e.Args {
						args[i] = in.str(a)
					}
					in.effects = append(in.effects, &Effect{Kind: "call", Recv: p, RecvS: s, Args: args, Str: str, Node: e, Gen: in.gen})
				}
				p, _ := in.pathOf(e.Args[0])
				return in.symOrAtom(str, p, e, in.typeOf(e))
			}
			panic(unsupported{"builtin " + id.Name})
		}
	}
	f := in.callee(e)
	if in.isPanicCall(e) {
		in.addEffectsInArgs(e)
		in.pendingEnd = true
		in.out = Outcome{Kind: "panic", Detail: in.str(e.Fun)}
		return pendingSentinel
	}
	if f != nil && in.cfg.Inline != nil && in.cfg.Inline(f) && in.depth < 6 {
		if fd := in.p.Decl(f); fd != nil && fd.Body != nil {
			return in.inline(e, f, fd)
		}
	}
	t := in.typeOf(e)
	if f != nil && in.isPure(f) {
		var base *Val
		if se, ok := ast.Unparen(e.Fun).(*ast.SelectorExpr); ok {
			if _, isSel := info.Selections[se]; isSel {
				base = in.evalNoForce(se.X)
			}
		}
		in.addEffectsInArgsOnly(e)
		var path []PathElem
		str := ""
		if base != nil {
			path = append(append([]PathElem(nil), basePath(base)...), PathElem{Obj: f, Str: f.Name() + "()"})
			for _, a := range e.Args {
				ap, _ := in.pathOf(a)
				path = append(path, ap...)
			}
			str = base.String() + "." + f.Name() + "(" + in.strList(e.Args) + ")"
		} else {
			path = []PathElem{{Obj: f, Str: f.Name() + "()"}}
			for _, a := range e.Args {
				p, _ := in.pathOf(a)
				path = append(path, p...)
			}
			str = in.str(e.Fun) + "(" + in.strList(e.Args) + ")"
		}
		if tup, ok := t.(*types.Tuple); ok && tup.Len() != 1 {
			return &Val{Kind: vSym, Str: str, Path: path, Type: t}
		}
		return in.symOrAtom(str, path, e, t)
	}
	// effectful or unknown call (including calls through function values)
	eff := in.recordCall(e, "call")
	in.uniq++
	str := eff.Str
	path := append(append([]PathElem(nil), eff.Recv...), PathElem{Obj: objOrNil(f), Str: str})
	if tup, ok := t.(*types.Tuple); ok && tup.Len() != 1 {
		return &Val{Kind: vSym, Str: str, Path: path, Type: t}
	}
	key := str
	if isIntType(t) || isBoolType(t) {
		key = fmt.Sprintf("%s#%d", str, len(in.effects))
	}
	return in.symOrAtom(key, path, e, t)
}

func objOrNil(f *types.Func) types.Object {
	if f == nil {
		return nil
	}
	return f
}

func (in *interp) addEffectsInArgsOnly(call *ast.CallExpr) {
	for _, a := range call.Args {
		in.addEffectsInExpr(a)
	}
}

func (in *interp) inline(call *ast.CallExpr, f *types.Func, fd *ast.FuncDecl) *Val {
	info := in.fr().info
	pk := in.p.PkgOfDecl(fd)
	nf := &frame{env: map[types.Object]*Val{}, info: pk.TypesInfo}
	// receiver
	if fd.Recv != nil && len(fd.Recv.List) == 1 && len(fd.Recv.List[0].Names) == 1 {
		if se, ok := ast.Unparen(call.Fun).(*ast.SelectorExpr); ok {
			if _, isSel := info.Selections[se]; isSel {
				robj := pk.TypesInfo.Defs[fd.Recv.List[0].Names[0]]
				if robj != nil {
					rv := in.evalNoForce(se.X)
					nf.env[robj] = rv
				}
			}
		}
	}
	i := 0
	for _, fl := range fd.Type.Params.List {
		for _, n := range fl.Names {
			if i < len(call.Args) {
				if obj := pk.TypesInfo.Defs[n]; obj != nil {
					nf.env[obj] = in.evalNoForce(call.Args[i])
				}
			}
			i++
		}
	}
	in.frames = append(in.frames, nf)
	in.depth++
	c := in.block(fd.Body.List)
	in.depth--
	in.frames = in.frames[:len(in.frames)-1]
	switch c {
	case ctlEnd:
		in.pendingEnd = true
		return pendingSentinel
	case ctlReturn:
		if len(nf.ret) == 1 {
			return nf.ret[0]
		}
		if len(nf.ret) == 0 {
			return &Val{Kind: vSym, Str: "void"}
		}
		strs := make([]string, len(nf.ret))
		for i, r := range nf.ret {
			strs[i] = r.String()
		}
		return &Val{Kind: vSym, Str: "(" + strings.Join(strs, ", ") + ")"}
	}
	return &Val{Kind: vSym, Str: "void"}
}

// neutralCallee reports callees that cannot modify the analysed object's state
// (locks, logging, formatting, id generation, tracing).
func neutralCallee(f *types.Func) bool {
	if f == nil || f.Pkg() == nil {
		return false
	}
	switch f.Pkg().Path() {
	case "sync", "sync/atomic", "log", "fmt", "errors", "reflect", ModPath + "/tracing", ModPath + "/timing":
		return f.Pkg().Path() != ModPath+"/timing" || f.Name() == "Generate" || f.Name() == "GetIDGenerator"
	}
	switch f.Name() {
	case "Lock", "Unlock", "RLock", "RUnlock", "InvokeHook", "Generate", "AsRemote":
		return true
	}
	return false
}
