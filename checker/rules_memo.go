package main

// memo-initialised: a "last result" memo that is consulted by comparing the input
// with a field of the receiver, and whose key field is written nowhere but later
// in the same function, answers from its zero value on the first call: an input
// equal to that zero value ("" or 0 — both legal keys) is served the zero result
// without the real lookup ever having run. (A sound memo carries a validity flag
// in the test, or its key field is initialised elsewhere to a value no input can
// take.)

import (
	"go/token"
	"go/types"

	"golang.org/x/tools/go/ssa"
)

func memoInitialisedRule(c *Ctx, rule string, pred func(string) bool) {
	p := c.P
	fns := p.SrcFuncs(pred)
	// where each field is stored
	storedIn := map[*types.Var]map[*ssa.Function][]*ssa.Store{}
	for _, fn := range fns {
		for _, b := range fn.Blocks {
			for _, in := range b.Instrs {
				if st, ok := in.(*ssa.Store); ok {
					if f := FieldOf(st.Addr); f != nil {
						if storedIn[f] == nil {
							storedIn[f] = map[*ssa.Function][]*ssa.Store{}
						}
						storedIn[f][fn] = append(storedIn[f][fn], st)
					}
				}
			}
		}
	}
	n := 0
	for _, fn := range fns {
		if fn.Signature.Recv() == nil || len(fn.Params) == 0 {
			continue
		}
		recv := ssa.Value(fn.Params[0])
		for _, b := range fn.Blocks {
			ifi, ok := b.Instrs[len(b.Instrs)-1].(*ssa.If)
			if !ok {
				continue
			}
			cmp, isCmp := ifi.Cond.(*ssa.BinOp)
			if !isCmp || cmp.Op != token.EQL {
				continue
			}
			// one side is a load of a receiver field, the other is not a constant
			var fld *types.Var
			for _, pair := range [][2]ssa.Value{{cmp.X, cmp.Y}, {cmp.Y, cmp.X}} {
				ld, isLd := pair[0].(*ssa.UnOp)
				if !isLd || ld.Op != token.MUL {
					continue
				}
				fa, isFA := ld.X.(*ssa.FieldAddr)
				if !isFA || memRoot(fa) != recv {
					continue
				}
				if _, isC := pair[1].(*ssa.Const); isC {
					continue
				}
				fld = FieldOf(fa)
			}
			if fld == nil {
				continue
			}
			// the hit branch returns at once
			hit := b.Succs[0]
			if _, isRet := hit.Instrs[len(hit.Instrs)-1].(*ssa.Return); !isRet || len(hit.Instrs) > 3 {
				continue
			}
			n++
			// the key field is written only here, and only after the test
			onlyHere := true
			for g := range storedIn[fld] {
				if g != fn {
					onlyHere = false
				}
			}
			primed := false
			for _, st := range storedIn[fld][fn] {
				if InstrDominates(st, ifi) {
					primed = true
				}
			}
			c.Check(!onlyHere || primed || len(storedIn[fld][fn]) == 0, rule, SSAFuncKey(fn)+"#"+fld.Name(), ifi.Cond.Pos(), "the memo's key field is initialised before it can hit",
				"the function returns a remembered result when its input equals the receiver's field "+fld.Name()+", but that field is assigned nowhere except later in this same function: on the first call it still holds its zero value, so an input equal to the zero value is answered from an empty memo (the real lookup never ran and no entry was created for it)")
		}
	}
	c.Note("%s: %d receiver-field equality tests with an immediate return inspected", rule, n)
}
