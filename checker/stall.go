package main

import (
	"go/token"
	"go/types"
	"strings"

	"golang.org/x/tools/go/ssa"
)

// stallSites finds, in fn, the branches "if !X.CanSend()/CanPush()/CanAccept()/CanDeliver() { return false }"
// and reports the state-changing instructions that dominate them (executed again on every retry).
type stallFinding struct {
	guard ssa.Instruction
	eff   ssa.Instruction
	what  string
}

func stallEffects(fn *ssa.Function) (sites int, out []stallFinding) {
	for _, b := range fn.Blocks {
		ifi, ok := b.Instrs[len(b.Instrs)-1].(*ssa.If)
		if !ok {
			continue
		}
		cond := ifi.Cond
		neg := false
		for {
			if u, isU := cond.(*ssa.UnOp); isU && u.Op == token.NOT {
				cond, neg = u.X, !neg
				continue
			}
			break
		}
		call, isCall := cond.(*ssa.Call)
		if !isCall {
			continue
		}
		name, pkg := calleeNamePkg(call)
		switch name {
		case "CanSend", "CanPush", "CanAccept", "CanDeliver":
		default:
			continue
		}
		if !strings.HasSuffix(pkg, "/messaging") && !strings.HasSuffix(pkg, "/queueing") {
			continue
		}
		// the branch taken when the guard is false
		stall := b.Succs[1]
		if neg {
			stall = b.Succs[0]
		}
		ret, isRet := stall.Instrs[len(stall.Instrs)-1].(*ssa.Return)
		if !isRet || len(stall.Instrs) > 2 {
			continue
		}
		if len(ret.Results) == 1 {
			if cst, isC := ret.Results[0].(*ssa.Const); !isC || cst.Value == nil || cst.Value.String() != "false" {
				continue
			}
		} else if len(ret.Results) != 0 {
			continue
		}
		sites++
		for _, bb := range fn.Blocks {
			for _, in := range bb.Instrs {
				if !InstrDominates(in, ifi) || in == ssa.Instruction(ifi) {
					continue
				}
				switch x := in.(type) {
				case *ssa.Store:
					if !stateRooted(x.Addr) {
						continue
					}
					// arithmetic updates are not idempotent; plain assignments of values that do not
					// depend on the old content are
					if bo, isBO := x.Val.(*ssa.BinOp); isBO && (bo.Op == token.ADD || bo.Op == token.SUB) && (loadOfKey(bo.X, VKey(x.Addr)) || loadOfKey(bo.Y, VKey(x.Addr))) {
						out = append(out, stallFinding{ifi, in, "updates " + shortKey(VKey(x.Addr)) + " arithmetically"})
					}
				case ssa.CallInstruction:
					n2, p2 := calleeNamePkg(x)
					if (takeNames[n2] || putNames[n2]) && (strings.HasSuffix(p2, "/messaging") || strings.HasSuffix(p2, "/queueing")) {
						out = append(out, stallFinding{ifi, in, "calls " + n2})
					}
				}
			}
		}
	}
	return
}

// invalidateSweepRule: the procedures that carry out an Invalidate (same-package
// closure of the function that acknowledges CmdInvalidate with success, limited
// to result-less functions that take the PID filter) sweep the cached entries in
// loops; such a loop may only end by exhaustion — an early return or break leaves
// matching entries valid although the invalidation is acknowledged.
func invalidateSweepRule(c *Ctx, rule string, rels []string, floor int) {
	p := c.P
	n := 0
	for _, rel := range rels {
		ctor, cmap := ctrlCtor(p, rel)
		if ctor == nil {
			c.Unknown(rule, rel, 0, "control-response constructor not found")
			continue
		}
		inval := constVal(p, mcp, "CmdInvalidate")
		inPkg := func(fn *ssa.Function) bool { return pkgOfFn(fn) == pkgPath(rel) }
		var handlers []*ssa.Function
		for _, f := range p.SrcFuncs(func(pp string) bool { return pp == pkgPath(rel) }) {
			for _, b := range f.Blocks {
				for _, in := range b.Instrs {
					call, ok := in.(ssa.CallInstruction)
					if !ok || call.Common().StaticCallee() == nil || call.Common().StaticCallee().Object() != ctor {
						continue
					}
					args := call.Common().Args
					if i, has := cmap["Command"]; has && i < len(args) {
						if cst, isC := args[i].(*ssa.Const); isC && cst.Value != nil && cst.Value.ExactString() == inval {
							handlers = append(handlers, f)
						}
					}
				}
			}
		}
		for g := range p.ModCG().Reach(handlers, inPkg) {
			if g.Signature.Results().Len() != 0 || g.Signature.Recv() != nil {
				continue
			}
			hasPID := false
			for _, pv := range g.Params {
				if strings.HasSuffix(pv.Type().String(), "vm.PID") {
					hasPID = true
				}
			}
			if !hasPID {
				continue
			}
			loops := loopsOf(g)
			if len(loops) == 0 {
				continue
			}
			n++
			why := ""
			for _, l := range loops {
				for blk := range l.blocks {
					for _, s := range blk.Succs {
						if l.blocks[s] || blk == l.header || endsInPanic(s) {
							continue
						}
						// leaving an inner loop into its enclosing loop is a "continue" of the outer one
						why = "a loop of the invalidation sweep can be left before all entries were visited (" + posOfBlock(g, blk) + ")"
					}
				}
			}
			c.Check(why == "", rule, SSAFuncKey(g), g.Pos(), "sweep loops end only by exhaustion ("+itoa(len(loops))+" loops)",
				why+": entries that match the filter but were not reached stay valid after the Invalidate is acknowledged — e.g. the same page cached for a second process — and keep serving the old mapping")
		}
	}
	c.Check(n >= floor, rule, "instances", 0, "sweep procedures found ("+itoa(n)+")", "only "+itoa(n)+" invalidation sweep procedures found (expected at least "+itoa(floor)+")")
}

// progressHonestFindings: functions with a single bool result ("made progress")
// in which a port/buffer hand-off can be followed, on some path, by a return of
// the constant false: the progress made is then not reported, the component is
// not ticked again, and whatever relied on the follow-up tick is stranded.
type progressFinding struct {
	fn  *ssa.Function
	op  ssa.Instruction
	ret ssa.Instruction
}

func progressHonestFindings(fns []*ssa.Function) (checked int, out []progressFinding) {
	for _, fn := range fns {
		res := fn.Signature.Results()
		if res.Len() != 1 || len(fn.Blocks) == 0 {
			continue
		}
		if b, ok := res.At(0).Type().Underlying().(*types.Basic); !ok || b.Kind() != types.Bool {
			continue
		}
		var ops []ssa.Instruction
		for _, b := range fn.Blocks {
			for _, in := range b.Instrs {
				if call, ok := in.(ssa.CallInstruction); ok {
					n, pk := calleeNamePkg(call)
					if strings.HasSuffix(pk, "/messaging") && (n == "Deliver" || n == "Send" || n == "RetrieveIncoming" || n == "RetrieveOutgoing") {
						ops = append(ops, in)
					}
				}
			}
		}
		// a same-package helper that returns true only after a hand-off counts as a
		// hand-off on the branch where its result was true
		var helperStarts []*ssa.BasicBlock
		var helperCalls []ssa.Instruction
		for _, b := range fn.Blocks {
			ifi, isIf := b.Instrs[len(b.Instrs)-1].(*ssa.If)
			if !isIf {
				continue
			}
			cond, neg := ifi.Cond, false
			for {
				if u, isU := cond.(*ssa.UnOp); isU && u.Op == token.NOT {
					cond, neg = u.X, !neg
					continue
				}
				break
			}
			call, isCall := cond.(*ssa.Call)
			if !isCall {
				continue
			}
			sc := call.Common().StaticCallee()
			if sc == nil || sc.Pkg != fn.Pkg || sc == fn || !handsOffWhenTrue(sc) {
				continue
			}
			succ := b.Succs[0]
			if neg {
				succ = b.Succs[1]
			}
			helperStarts = append(helperStarts, succ)
			helperCalls = append(helperCalls, call)
		}
		if len(ops) == 0 && len(helperStarts) == 0 {
			continue
		}
		checked++
		for _, b := range fn.Blocks {
			ret, ok := b.Instrs[len(b.Instrs)-1].(*ssa.Return)
			if !ok {
				continue
			}
			cst, isC := ret.Results[0].(*ssa.Const)
			if !isC || cst.Value == nil || cst.Value.String() != "false" {
				continue
			}
			afterPanic := false
			for _, in := range b.Instrs {
				if call, isCall := in.(ssa.CallInstruction); isCall {
					n, pk := calleeNamePkg(call)
					if pk == "log" && strings.HasPrefix(n, "Panic") || pk == "log" && strings.HasPrefix(n, "Fatal") {
						afterPanic = true
					}
				}
			}
			if afterPanic {
				continue // unreachable return after log.Panic*
			}
			found := false
			for _, op := range ops {
				if Reaches(op, ret) {
					out = append(out, progressFinding{fn, op, ret})
					found = true
					break
				}
			}
			if found {
				continue
			}
			for i, start := range helperStarts {
				if start == b || blockReaches(start, b) {
					out = append(out, progressFinding{fn, helperCalls[i], ret})
					break
				}
			}
		}
	}
	return
}

func blockReaches(from, to *ssa.BasicBlock) bool {
	seen := map[*ssa.BasicBlock]bool{from: true}
	work := []*ssa.BasicBlock{from}
	for len(work) > 0 {
		x := work[len(work)-1]
		work = work[:len(work)-1]
		for _, s := range x.Succs {
			if s == to {
				return true
			}
			if !seen[s] {
				seen[s] = true
				work = append(work, s)
			}
		}
	}
	return false
}

// handsOffWhenTrue: h has a single bool result, performs a port hand-off, and
// cannot return true without having performed one.
func handsOffWhenTrue(h *ssa.Function) bool {
	res := h.Signature.Results()
	if res.Len() != 1 || len(h.Blocks) == 0 {
		return false
	}
	if b, ok := res.At(0).Type().Underlying().(*types.Basic); !ok || b.Kind() != types.Bool {
		return false
	}
	cut := map[*ssa.BasicBlock]bool{}
	for _, b := range h.Blocks {
		for _, in := range b.Instrs {
			if call, ok := in.(ssa.CallInstruction); ok {
				n, pk := calleeNamePkg(call)
				if strings.HasSuffix(pk, "/messaging") && (n == "Send" || n == "Deliver") {
					cut[b] = true
				}
			}
		}
	}
	if len(cut) == 0 {
		return false
	}
	// can a "return true" be reached from the entry without crossing a hand-off block?
	seen := map[*ssa.BasicBlock]bool{}
	var walk func(b *ssa.BasicBlock) bool
	walk = func(b *ssa.BasicBlock) bool {
		if seen[b] || cut[b] {
			return false
		}
		seen[b] = true
		if ret, ok := b.Instrs[len(b.Instrs)-1].(*ssa.Return); ok {
			if cst, isC := ret.Results[0].(*ssa.Const); !isC || cst.Value == nil || cst.Value.String() != "false" {
				return true // returns true (or a computed value) without a hand-off
			}
			return false
		}
		for _, s := range b.Succs {
			if walk(s) {
				return true
			}
		}
		return false
	}
	return !walk(h.Blocks[0])
}

func progressHonestRule(c *Ctx, rule string, pred func(string) bool, floor int) {
	p := c.P
	n, fs := progressHonestFindings(p.SrcFuncs(pred))
	bad := map[*ssa.Function]string{}
	for _, f := range fs {
		bad[f.fn] += "after the hand-off at " + p.Rel(f.op.Pos()) + " the function can return false at " + p.Rel(f.ret.Pos()) + "; "
	}
	for fn, why := range bad {
		c.Fail(rule, SSAFuncKey(fn), fn.Pos(), "a stage that moved a message reports no progress: "+why+"the component is then not ticked again, and a notification that arrived at the same instant (dropped by the tick de-duplication) is never acted upon — messages stay queued although their destination can accept them")
	}
	if len(bad) == 0 {
		c.Ok(rule, "<all stages>", 0, "no stage returns the constant false after a port hand-off ("+itoa(n)+" functions)")
	}
	c.Check(n >= floor, rule, "instances", 0, "stages with hand-offs found ("+itoa(n)+")", "only "+itoa(n)+" progress-reporting stages with hand-offs found (expected at least "+itoa(floor)+")")
}

var lifecycleAPIs = map[string]bool{"StartTask": true, "EndTask": true, "TraceReqReceive": true, "TraceReqComplete": true, "TraceReqInitiate": true, "TraceReqFinalize": true}

// mayTouchLifecycle: the call starts or ends a tracing task, directly or through
// same-package helpers (two levels).
func mayTouchLifecycle(call ssa.CallInstruction, depth int) (bool, string) {
	if isTracingCall(call, "StartTask", "EndTask", "TraceReqReceive", "TraceReqComplete", "TraceReqInitiate", "TraceReqFinalize") {
		return true, call.Common().StaticCallee().Name()
	}
	sc := call.Common().StaticCallee()
	if sc == nil || depth <= 0 || len(sc.Blocks) == 0 || sc.Pkg == nil || !libComponentPkg(sc.Pkg.Pkg.Path()) {
		return false, ""
	}
	for _, b := range sc.Blocks {
		for _, in := range b.Instrs {
			if c2, ok := in.(ssa.CallInstruction); ok {
				if yes, what := mayTouchLifecycle(c2, depth-1); yes {
					return true, sc.Name() + "→" + what
				}
			}
		}
	}
	return false, ""
}

// lifecycleBeforeStallRule: a task start or end must not be executed before a
// "cannot send/push yet: return false" test in the same function: the stage is
// retried every cycle until the resource frees up, and the task would be started
// or ended once per retry instead of exactly once.
func lifecycleBeforeStallRule(c *Ctx, rule string, floor int) {
	p := c.P
	sites := 0
	for _, fn := range p.SrcFuncs(func(pp string) bool { return libComponentPkg(pp) }) {
		for _, b := range fn.Blocks {
			ifi, ok := b.Instrs[len(b.Instrs)-1].(*ssa.If)
			if !ok || !isStallGuard(ifi) {
				continue
			}
			sites++
			bad := ""
			for _, bb := range fn.Blocks {
				for _, in := range bb.Instrs {
					call, isCall := in.(ssa.CallInstruction)
					if !isCall || !InstrDominates(in, ifi) {
						continue
					}
					if v, isV := in.(ssa.Value); isV && condCall(ifi) == v {
						continue // the helper whose result is being tested: what it does happens on its own successful path
					}
					if yes, what := mayTouchLifecycle(call, 2); yes {
						bad = what + " at " + p.Rel(in.Pos())
					}
				}
			}
			if bad != "" {
				c.Fail(rule, SSAFuncKey(fn)+"#stall@"+itoa(stallOrdinal(fn, b)), ifi.Cond.Pos(), "a task is started or ended ("+bad+") before the stage tests whether it can hand its result on and returns false when it cannot: the stage is retried every cycle while the resource is busy, so the task is started or ended once per retry instead of exactly once")
			}
		}
	}
	c.Check(sites >= floor, rule, "<stall sites>", 0, itoa(sites)+" stall sites inspected; no task start/end precedes one", "fewer stall sites found than confirmed by hand")
}

func stallOrdinal(fn *ssa.Function, at *ssa.BasicBlock) int {
	k := 0
	for _, b := range fn.Blocks {
		if b == at {
			return k
		}
		if ifi, ok := b.Instrs[len(b.Instrs)-1].(*ssa.If); ok && isStallGuard(ifi) {
			k++
		}
	}
	return k
}

// isStallGuard: "if !X.CanSend()/CanPush()/CanAccept()/CanDeliver() { return false }".
func isStallGuard(ifi *ssa.If) bool {
	b := ifi.Block()
	cond := ifi.Cond
	neg := false
	for {
		if u, isU := cond.(*ssa.UnOp); isU && u.Op == token.NOT {
			cond, neg = u.X, !neg
			continue
		}
		break
	}
	call, isCall := cond.(*ssa.Call)
	if !isCall {
		return false
	}
	name, pkg := calleeNamePkg(call)
	switch name {
	case "CanSend", "CanPush", "CanAccept", "CanDeliver":
		if !strings.HasSuffix(pkg, "/messaging") && !strings.HasSuffix(pkg, "/queueing") {
			return false
		}
	default:
		// a same-package helper whose own false result comes from such a test
		sc := call.Common().StaticCallee()
		if sc == nil || sc.Pkg != b.Parent().Pkg || sc == b.Parent() || !stallsWhenBusy(sc) {
			return false
		}
	}
	stall := b.Succs[1]
	if neg {
		stall = b.Succs[0]
	}
	ret, isRet := stall.Instrs[len(stall.Instrs)-1].(*ssa.Return)
	if !isRet || len(stall.Instrs) > 2 {
		return false
	}
	if len(ret.Results) == 1 {
		cst, isC := ret.Results[0].(*ssa.Const)
		return isC && cst.Value != nil && cst.Value.String() == "false"
	}
	return len(ret.Results) == 0
}

// stallsWhenBusy: h is a bool function that contains a direct stall guard
// ("cannot send/push: return false").
func stallsWhenBusy(h *ssa.Function) bool {
	res := h.Signature.Results()
	if res.Len() != 1 || len(h.Blocks) == 0 {
		return false
	}
	for _, b := range h.Blocks {
		if ifi, ok := b.Instrs[len(b.Instrs)-1].(*ssa.If); ok {
			cond := ifi.Cond
			for {
				if u, isU := cond.(*ssa.UnOp); isU && u.Op == token.NOT {
					cond = u.X
					continue
				}
				break
			}
			if call, isCall := cond.(*ssa.Call); isCall {
				n, pk := calleeNamePkg(call)
				if (n == "CanSend" || n == "CanPush" || n == "CanAccept" || n == "CanDeliver") && (strings.HasSuffix(pk, "/messaging") || strings.HasSuffix(pk, "/queueing")) && isStallGuard(ifi) {
					return true
				}
			}
		}
	}
	return false
}

func condCall(ifi *ssa.If) ssa.Value {
	cond := ifi.Cond
	for {
		if u, isU := cond.(*ssa.UnOp); isU && u.Op == token.NOT {
			cond = u.X
			continue
		}
		break
	}
	return cond
}
