package main

// key-injective: lruset.KeyString encodes the pair (a, b) that identifies a
// cached translation (PID and virtual address, or PID and segment) as the map
// key of every TLB and MMU-cache set. Two different pairs must never yield the
// same key, or one process is served another process's page. The encoding is
// injective when the variable-width parts are separated by a constant separator,
// or when every part after the first has a fixed (zero-padded) width — the form
// the code uses today ("%d%016x"). Plain concatenation of variable-width numbers
// is not injective ("12"+"1000" == "1"+"21000").

import (
	"go/constant"
	"regexp"
	"strings"

	"golang.org/x/tools/go/ssa"
)

var fmtVerb = regexp.MustCompile(`%([-+# 0]*)(\d*)(?:\.\d+)?([a-zA-Z])`)

func keyInjectiveRule(c *Ctx, rule string) {
	p := c.P
	f := c.fn(rule, "mem/vm/lruset", "", "KeyString")
	if f == nil {
		return
	}
	fn := p.SSAFunc(f)
	if fn == nil {
		c.Unknown(rule, "mem/vm/lruset.KeyString", p.Decl(f).Pos(), "no SSA body")
		return
	}
	ok, why := false, "the key is built without a constant separator and without fixed-width fields: two different (a, b) pairs can produce the same string (a's decimal digits run into b's digits), so a lookup for one process can hit the way that caches another process's page"
	sawSprintf := false
	for _, b := range fn.Blocks {
		for _, in := range b.Instrs {
			call, isCall := in.(*ssa.Call)
			if !isCall {
				continue
			}
			name, pkg := calleeNamePkg(call)
			if pkg == "fmt" && name == "Sprintf" && len(call.Call.Args) >= 1 {
				sawSprintf = true
				cst, isC := call.Call.Args[0].(*ssa.Const)
				if !isC || cst.Value == nil || cst.Value.Kind() != constant.String {
					why = "the key format is not a constant"
					continue
				}
				format := constant.StringVal(cst.Value)
				ok = formatInjective(format)
				if !ok {
					why = "the key format " + strconvQuote(format) + " neither separates its fields by a constant nor gives every field after the first a fixed zero-padded width: two different (a, b) pairs can produce the same string, so a lookup for one process can hit the way that caches another process's page"
				}
			}
		}
	}
	if !sawSprintf {
		// concatenation forms: accept when a non-empty constant separator takes part
		for _, b := range fn.Blocks {
			for _, in := range b.Instrs {
				var ops []*ssa.Value
				for _, op := range in.Operands(ops) {
					if cst, isC := (*op).(*ssa.Const); isC && cst.Value != nil {
						switch cst.Value.Kind() {
						case constant.String:
							if s := constant.StringVal(cst.Value); s != "" && !isDigits(s) {
								ok = true
							}
						case constant.Int:
							// a separator appended as a byte/rune constant
							if v, exact := constant.Int64Val(cst.Value); exact && v > 32 && v < 127 && !(v >= '0' && v <= '9') && !(v >= 'a' && v <= 'f') {
								if _, isApp := in.(*ssa.Call); isApp && strings.Contains(in.String(), "append") {
									ok = true
								}
							}
						}
					}
				}
			}
		}
	}
	c.Check(ok, rule, "mem/vm/lruset.KeyString", p.Decl(f).Pos(), "the key encoding is injective (separator or fixed-width fields)", why)
}

func isDigits(s string) bool {
	for _, r := range s {
		if !(r >= '0' && r <= '9') && !(r >= 'a' && r <= 'f') {
			return false
		}
	}
	return true
}

func strconvQuote(s string) string { return "\"" + s + "\"" }

// formatInjective: between consecutive verbs there is literal text that is not
// made of hex digits, or every verb after the first is zero-padded to a fixed
// width that covers the 64-bit range in its base.
func formatInjective(format string) bool {
	locs := fmtVerb.FindAllStringSubmatchIndex(format, -1)
	if len(locs) < 2 {
		return false
	}
	for i := 1; i < len(locs); i++ {
		between := format[locs[i-1][1]:locs[i][0]]
		if between != "" && !isDigits(between) {
			continue
		}
		flags := format[locs[i][2]:locs[i][3]]
		width := format[locs[i][4]:locs[i][5]]
		verb := format[locs[i][6]:locs[i][7]]
		need := map[string]int{"x": 16, "X": 16, "d": 20, "o": 22, "b": 64}[verb]
		w := 0
		for _, r := range width {
			w = w*10 + int(r-'0')
		}
		if !strings.Contains(flags, "0") || need == 0 || w < need {
			return false
		}
	}
	return true
}
