package main

import (
	"fmt"
	"go/token"
	"go/types"
	"sort"
	"strings"
)

// Role binds a name used by a reference table to the atoms of a decision table.
type Role struct {
	Name   string
	Match  func(a *Atom) bool
	IsBool bool
	// Values the role may take when the code did not consult it on a path (the
	// reference table must then hold for every one of them). Defaults to the
	// table's integer domain, or {false,true}.
	Domain []int
}

// RoleVals is a complete assignment of roles for one region.
type RoleVals map[string]int

// B reads a boolean role.
func (v RoleVals) B(name string) bool { return v[name] != 0 }

// Expect decides whether a row is admissible in the region vals; why explains a
// rejection.
type Expect func(vals RoleVals, row *Row) (ok bool, why string)

// CheckTable compares a decision table with a reference table. For every row,
// roles that the code consulted take the chosen value; roles it did not consult
// range over their whole domain, so that ignoring a quantity the reference table
// depends on is reported. Rows in regions where feasible returns false are
// skipped. It returns the number of (row, region) cells checked.
func CheckTable(c *Ctx, rule, construct string, pos token.Pos, t *Table, roles []Role, domain []int,
	feasible func(RoleVals) bool, expect Expect) int {
	if len(t.Unsupported) > 0 {
		c.Unknown(rule, construct, pos, "construct outside the analysable fragment: "+strings.Join(uniqStr(t.Unsupported), "; "))
		return 0
	}
	if t.Truncated {
		c.Unknown(rule, construct, pos, "decision table exceeds the row budget")
		return 0
	}
	if len(t.Rows) == 0 {
		c.Unknown(rule, construct, pos, "empty decision table")
		return 0
	}
	cells := 0
	regions := map[string]bool{}
	var failures []string
	for _, row := range t.Rows {
		base := RoleVals{}
		var free []Role
		for _, r := range roles {
			// first matching atom with the lowest generation
			var found *Atom
			for _, a := range row.Atoms {
				if a.IsBool == r.IsBool && r.Match(a) {
					if found == nil || a.Gen < found.Gen {
						found = a
					}
				}
			}
			if found == nil {
				free = append(free, r)
				continue
			}
			if r.IsBool {
				if found.B {
					base[r.Name] = 1
				} else {
					base[r.Name] = 0
				}
			} else {
				base[r.Name] = found.I
			}
		}
		var rec func(i int, vals RoleVals)
		rec = func(i int, vals RoleVals) {
			if i == len(free) {
				if feasible != nil && !feasible(vals) {
					return
				}
				cells++
				regions[regionKey(vals)] = true
				if ok, why := expect(vals, row); !ok {
					if len(failures) < 3 {
						failures = append(failures, fmt.Sprintf("region %s: %s; path: %s", regionKey(vals), why, truncate(row.String(), 400)))
					}
				}
				return
			}
			r := free[i]
			dom := r.Domain
			if dom == nil {
				if r.IsBool {
					dom = []int{0, 1}
				} else {
					dom = domain
				}
			}
			for _, d := range dom {
				nv := RoleVals{}
				for k, v := range vals {
					nv[k] = v
				}
				nv[r.Name] = d
				rec(i+1, nv)
			}
		}
		rec(0, base)
	}
	if len(failures) > 0 {
		c.Fail(rule, construct, pos, strings.Join(failures, " || "))
	} else {
		c.Ok(rule, construct, pos, fmt.Sprintf("decision table agrees with the reference in all %d regions (%d paths, %d cells)", len(regions), len(t.Rows), cells))
	}
	return cells
}

func regionKey(v RoleVals) string {
	ks := make([]string, 0, len(v))
	for k := range v {
		ks = append(ks, k)
	}
	sort.Strings(ks)
	parts := make([]string, len(ks))
	for i, k := range ks {
		parts[i] = fmt.Sprintf("%s=%d", k, v[k])
	}
	return strings.Join(parts, ",")
}

func truncate(s string, n int) string {
	if len(s) > n {
		return s[:n] + "…"
	}
	return s
}

func uniqStr(in []string) []string {
	seen := map[string]bool{}
	var out []string
	for _, s := range in {
		if !seen[s] {
			seen[s] = true
			out = append(out, s)
		}
	}
	return out
}

// fn resolves a function anchor or records the failure.
func (c *Ctx) fn(rule, rel, recv, name string) *types.Func {
	f := c.P.LookupFunc(rel, recv, name)
	if f == nil || c.P.Decl(f) == nil {
		c.Unknown(rule, rel+"."+recv+"."+name, token.NoPos, "anchor function not found: the rule cannot be evaluated")
		return nil
	}
	c.Analysed(FuncKey(f))
	return f
}

// field resolves a field anchor or records the failure.
func (c *Ctx) field(rule, rel, typ, name string) *types.Var {
	v := c.P.Field(rel, typ, name)
	if v == nil {
		c.Unknown(rule, rel+"."+typ+"."+name, token.NoPos, "anchor field not found: the rule cannot be evaluated")
	}
	return v
}

// countCalls counts call effects to a method named name whose receiver path goes through obj.
func countCalls(row *Row, name string, through types.Object) int {
	n := 0
	for _, e := range row.Effects {
		if (e.Kind == "call") && e.Callee != nil && e.Callee.Name() == name && (through == nil || e.RecvHas(through)) {
			n++
		}
	}
	return n
}

func callIndex(row *Row, pred func(*Effect) bool) int {
	for i, e := range row.Effects {
		if pred(e) {
			return i
		}
	}
	return -1
}

// sameObj compares two objects modulo generic instantiation (fields and methods of
// an instantiated generic type are distinct objects from those of its origin).
func sameObj(a, b types.Object) bool {
	if a == nil || b == nil {
		return false
	}
	if a == b {
		return true
	}
	switch x := a.(type) {
	case *types.Var:
		if y, ok := b.(*types.Var); ok {
			return x.Origin() == y.Origin()
		}
	case *types.Func:
		if y, ok := b.(*types.Func); ok {
			return x.Origin() == y.Origin()
		}
	}
	return false
}
