package main

import (
	"go/token"
	"go/types"
	"sort"
	"strings"

	"golang.org/x/tools/go/ssa"
)

func init() {
	register("C40", PropertyMeta{
		Technique: "effect classification of every registered HTTP handler's call closure (simulation-state accesses) + dominance by the inspection window + lock-set typestate of pauseForInspection and its returned closures",
		Explanation: "Decides on monitoring2/monitor.go: (window-contract) pauseForInspection returns with engineControlMu still held on every path (no release, no deferred release), having either observed enginePaused or called engine.Pause; each closure it returns releases the mutex exactly once and never re-acquires it, the closure of the path that paused calls engine.Continue before releasing, the closure of the user-paused path does not; " +
			"(handler-window) for every handler registered in StartServer, every operation in its call closure that reads or writes simulation state — an engine method other than Pause/Continue/Run, a component method other than Name, reflection over a component (goseth Serialize), a buffer's Size/Capacity, starting/stopping the tracer (reads the engine clock) — is dominated in the handler by a pauseForInspection call whose result is deferred; " +
			"(control-lock) engine.Pause/Continue and the enginePaused flag are touched by the pause/continue/state handlers only with engineControlMu held. (round-barrier, run-loop) the parallel engine waits for every worker of a round before releasing the pause lock, so Pause returning means no handler is running.",
		NotDecided:  "that SerialEngine.Pause itself is a quiescent point (C05: known finding) — the window is only as good as the engine's pause; outcome equality after continue.",
		Assumptions: []string{"HTTP handlers run on their own goroutines concurrently with the engine"},
	}, runC40)
}

const mon = "monitoring2"

// simAccess classifies a call in the monitor as a simulation-state access.
func simAccess(call ssa.CallInstruction) string {
	cc := call.Common()
	if nm, pk := calleeNamePkg(call); strings.HasSuffix(pk, "goseth") && nm == "Serialize" {
		return "reflection over the component (goseth Serialize)"
	}
	if cc.IsInvoke() {
		it := cc.Value.Type().String()
		name := cc.Method.Name()
		switch {
		case strings.HasSuffix(it, "timing.Engine") || strings.HasSuffix(it, "timing.TimeTeller") || strings.HasSuffix(it, "timing.EventScheduler"):
			switch name {
			case "Pause", "Continue", "Run":
				return ""
			}
			return "engine." + name
		case strings.HasSuffix(it, "monitoring2.Component") || strings.HasSuffix(it, "tickingComponent") || strings.HasSuffix(it, "modeling.Component"):
			if name == "Name" {
				return ""
			}
			return "component." + name
		case strings.HasSuffix(it, "bufferState") || strings.HasSuffix(it, "queueing.Buffer"):
			if name == "Name" {
				return ""
			}
			return "buffer." + name
		}
		return ""
	}
	sc := cc.StaticCallee()
	if sc == nil || sc.Pkg == nil {
		return ""
	}
	switch {
	case strings.HasSuffix(sc.Pkg.Pkg.Path(), "goseth") && (sc.Name() == "Serialize"):
		return "reflection over the component (goseth.Serialize)"
	case sc.Pkg.Pkg.Path() == ModPath+"/tracing" && (sc.Name() == "StartTracing" || sc.Name() == "StopTracing"):
		return "tracer." + sc.Name() + " (reads the engine clock, marks running tasks)"
	}
	return ""
}

func runC40(c *Ctx) {
	// the inspection window relies on the engine's Pause being a quiescent point:
	// for the parallel engine, on the round barrier (runRound returns only after
	// every worker is done) being inside the pause lock
	c.Sub([]string{"round-barrier", "run-loop"}, runC04)
	p := c.P
	scope := p.SrcFuncs(func(pp string) bool { return pp == pkgPath(mon) })
	inPkg := func(fn *ssa.Function) bool { return pkgOfFn(fn) == pkgPath(mon) }
	byName := map[string]*ssa.Function{}
	for _, f := range scope {
		if f.Parent() == nil {
			byName[f.Name()] = f
		}
	}
	pfi := byName["pauseForInspection"]
	start := byName["StartServer"]
	if pfi == nil || start == nil {
		c.Unknown("window-contract", "monitoring2.Monitor.pauseForInspection", token.NoPos, "anchor functions not found")
		return
	}
	// ---- window contract ----
	{
		la := analyseLocks(pfi, lockSet{})
		why := ""
		deferredUnlock := false
		var pauseCalls []ssa.Instruction
		for _, b := range pfi.Blocks {
			for _, in := range b.Instrs {
				if d, ok := in.(*ssa.Defer); ok {
					if k, _, rel := lockOp(d); rel && k == "engineControlMu" {
						deferredUnlock = true
					}
				}
				if call, ok := in.(ssa.CallInstruction); ok && call.Common().IsInvoke() && call.Common().Method.Name() == "Pause" {
					pauseCalls = append(pauseCalls, in)
				}
			}
		}
		type retInfo struct {
			paused bool
			clo    *ssa.Function
		}
		var rets []retInfo
		for _, b := range pfi.Blocks {
			ret, ok := b.Instrs[len(b.Instrs)-1].(*ssa.Return)
			if !ok {
				continue
			}
			if !la.Before[ret]["engineControlMu"] || deferredUnlock {
				why = "pauseForInspection returns without engineControlMu held: inspections are no longer serialised with each other and with pause/continue, so one request's Continue resumes the engine while another is still walking component state"
			}
			userPaused := false
			for _, f := range FactsAt(b) {
				if u, isU := f.Cond.(*ssa.UnOp); isU && f.Truth {
					if fo := FieldOf(u.X); fo != nil && fo.Name() == "enginePaused" {
						userPaused = true
					}
				}
			}
			didPause := false
			for _, pc := range pauseCalls {
				if InstrDominates(pc, ret) {
					didPause = true
				}
			}
			if !userPaused && !didPause && why == "" {
				why = "pauseForInspection can return on a path where the engine is neither known to be paused nor paused by this call"
			}
			var clo *ssa.Function
			if len(ret.Results) == 1 {
				v := ret.Results[0]
				if mc, isMC := v.(*ssa.MakeClosure); isMC {
					clo, _ = mc.Fn.(*ssa.Function)
				} else if fnv, isF := v.(*ssa.Function); isF {
					clo = fnv
				}
			}
			rets = append(rets, retInfo{didPause && !userPaused, clo})
		}
		for _, r := range rets {
			if r.clo == nil {
				if why == "" {
					why = "the resume function returned by pauseForInspection is not a closure defined in place"
				}
				continue
			}
			unlocks, locks, continues := 0, 0, 0
			condContinue := false
			for _, b := range r.clo.Blocks {
				for _, in := range b.Instrs {
					call, ok := in.(ssa.CallInstruction)
					if !ok {
						continue
					}
					if k, acq, rel := lockOp(call); k == "engineControlMu" {
						if acq {
							locks++
						}
						if rel {
							unlocks++
						}
					}
					if call.Common().IsInvoke() && call.Common().Method.Name() == "Continue" {
						continues++
						if b != r.clo.Blocks[0] {
							condContinue = true
						}
					}
				}
			}
			switch {
			case locks > 0 && why == "":
				why = "the resume closure acquires engineControlMu: the mutex was meant to be held across the whole inspection"
			case unlocks != 1 && why == "":
				why = "the resume closure does not release engineControlMu exactly once"
			case r.paused && (continues != 1 || condContinue) && why == "":
				why = "the resume closure of the path that paused the engine does not unconditionally continue it"
			case !r.paused && continues != 0 && why == "":
				why = "the resume closure of the path that found the engine paused by the user continues it"
			}
		}
		c.Check(why == "" && len(rets) >= 2, "window-contract", "monitoring2.Monitor.pauseForInspection", pfi.Pos(), "the inspection window holds engineControlMu from pause to resume", why)
	}
	// ---- handlers ----
	var handlers []*ssa.Function
	for _, b := range start.Blocks {
		for _, in := range b.Instrs {
			call, ok := in.(ssa.CallInstruction)
			if !ok || call.Common().StaticCallee() == nil || call.Common().StaticCallee().Name() != "HandleFunc" {
				continue
			}
			h := call.Common().Args[len(call.Common().Args)-1]
			if mc, isMC := h.(*ssa.MakeClosure); isMC {
				if bound, isF := mc.Fn.(*ssa.Function); isF {
					// bound method wrapper: find the method it calls
					for _, bb := range bound.Blocks {
						for _, ii := range bb.Instrs {
							if cl, isCall := ii.(ssa.CallInstruction); isCall && cl.Common().StaticCallee() != nil && inPkg(cl.Common().StaticCallee()) {
								handlers = append(handlers, origin(cl.Common().StaticCallee()))
							}
						}
					}
				}
			}
		}
	}
	c.Check(len(handlers) >= 20, "handler-window", "instances", token.NoPos, "registered handlers found ("+itoa(len(handlers))+")", "only "+itoa(len(handlers))+" registered handlers were resolved from StartServer (expected at least 20)")
	cg := p.ModCG()
	hasAccess := map[*ssa.Function][]string{}
	for _, f := range scope {
		for _, b := range f.Blocks {
			for _, in := range b.Instrs {
				if call, ok := in.(ssa.CallInstruction); ok {
					if a := simAccess(call); a != "" {
						hasAccess[f] = append(hasAccess[f], a)
					}
				}
			}
		}
	}
	closureAccess := func(f *ssa.Function) []string {
		var out []string
		for g := range cg.Reach([]*ssa.Function{f}, inPkg) {
			if g == pfi {
				continue
			}
			out = append(out, hasAccess[g]...)
		}
		sort.Strings(out)
		return uniqStr(out)
	}
	for _, h := range handlers {
		c.Analysed(SSAFuncKey(h))
		// the window opening in this handler
		var opens []ssa.Instruction
		for _, b := range h.Blocks {
			for _, in := range b.Instrs {
				call, ok := in.(*ssa.Call)
				if !ok || call.Common().StaticCallee() == nil || origin(call.Common().StaticCallee()) != pfi {
					continue
				}
				deferred := false
				for _, ref := range *call.Referrers() {
					if d, isD := ref.(*ssa.Defer); isD && d.Call.Value == ssa.Value(call) {
						deferred = true
					}
				}
				if deferred {
					opens = append(opens, in)
				}
			}
		}
		covered := func(in ssa.Instruction) bool {
			for _, o := range opens {
				if InstrDominates(o, in) {
					return true
				}
			}
			return false
		}
		var bad []string
		n := 0
		for _, b := range h.Blocks {
			for _, in := range b.Instrs {
				call, ok := in.(ssa.CallInstruction)
				if !ok {
					continue
				}
				var what []string
				if a := simAccess(call); a != "" {
					what = []string{a}
				} else if sc := call.Common().StaticCallee(); sc != nil && inPkg(sc) && origin(sc) != pfi {
					what = closureAccess(origin(sc))
				}
				if _, isGo := in.(*ssa.Go); isGo {
					continue
				}
				if len(what) == 0 {
					continue
				}
				n++
				if !covered(in) {
					bad = append(bad, strings.Join(what, ", ")+" at "+p.Rel(in.Pos()))
				}
			}
		}
		for _, an := range h.AnonFuncs {
			if acc := closureAccess(an); len(acc) > 0 {
				isGo := false
				for _, b := range h.Blocks {
					for _, in := range b.Instrs {
						if g, ok := in.(*ssa.Go); ok {
							if mc, isMC := g.Call.Value.(*ssa.MakeClosure); isMC && mc.Fn == ssa.Value(an) {
								isGo = true
							}
							if g.Call.Value == ssa.Value(an) {
								isGo = true
							}
						}
					}
				}
				if !isGo {
					bad = append(bad, strings.Join(acc, ", ")+" in a closure of the handler")
				}
			}
		}
		c.Check(len(bad) == 0, "handler-window", "monitoring2.Monitor."+h.Name(), h.Pos(), "every simulation-state access of the handler ("+itoa(n)+") lies inside an inspection window",
			"the handler touches simulation state outside an inspection window ("+strings.Join(bad, "; ")+"): an HTTP request served while the engine is dispatching events reads or writes that state concurrently with event handling (a data race; for TickLater/Schedule also a corrupted event queue)")
	}
	// ---- control lock ----
	flag := p.Field(mon, "Monitor", "enginePaused")
	for _, name := range []string{"pauseEngine", "continueEngine", "apiEngineState"} {
		f := byName[name]
		if f == nil {
			c.Unknown("control-lock", "monitoring2.Monitor."+name, token.NoPos, "handler not found")
			continue
		}
		la := analyseLocks(f, lockSet{})
		why := ""
		check := func(fn *ssa.Function, held func(ssa.Instruction) bool) {
			for _, b := range fn.Blocks {
				for _, in := range b.Instrs {
					touch := ""
					if call, ok := in.(ssa.CallInstruction); ok && call.Common().IsInvoke() && (call.Common().Method.Name() == "Pause" || call.Common().Method.Name() == "Continue") {
						touch = "engine." + call.Common().Method.Name()
					}
					var addr ssa.Value
					switch x := in.(type) {
					case *ssa.Store:
						addr = x.Addr
					case *ssa.UnOp:
						if x.Op == token.MUL {
							addr = x.X
						}
					}
					if addr != nil && flag != nil {
						if fo := FieldOf(addr); fo != nil && sameObj(fo, types.Object(flag).(*types.Var)) {
							touch = "enginePaused"
						}
					}
					if touch != "" && !held(in) {
						why = touch + " is touched at " + p.Rel(in.Pos()) + " without engineControlMu held"
					}
				}
			}
		}
		check(f, func(in ssa.Instruction) bool { return la.Before[in]["engineControlMu"] })
		// helpers called with the lock held (…Locked)
		for _, b := range f.Blocks {
			for _, in := range b.Instrs {
				if call, ok := in.(ssa.CallInstruction); ok && call.Common().StaticCallee() != nil && inPkg(call.Common().StaticCallee()) {
					callee := origin(call.Common().StaticCallee())
					heldAtCall := la.Before[in]["engineControlMu"]
					check(callee, func(ssa.Instruction) bool { return heldAtCall })
				}
			}
		}
		c.Check(why == "", "control-lock", "monitoring2.Monitor."+name, f.Pos(), "engine pause state is read and changed only under engineControlMu", why)
	}
}
