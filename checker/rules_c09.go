package main

import (
	"go/types"
	"golang.org/x/tools/go/ssa"
	"strings"
)

func init() {
	register("C12", PropertyMeta{
		Technique: "decision-table extraction over orderings for the tick dedup guard + who-may-call audit of tick event construction + divisibility abstract interpretation of the clock-edge functions",
		Explanation: "Decides on modeling/ticker.go: TickNow/TickLater skip iff a tick is pending at a time >= the requested one, otherwise store the guard (pending=true, time=T) and then schedule exactly one tick event whose time is that same T, with T produced by ThisTick (TickNow) or NextTick (TickLater) of the current time and the secondary flag copied; " +
			"tick events are constructed only inside TickScheduler; TickingComponent.Handle calls Tick exactly once and re-ticks (TickLater) on every path where it reported progress; receive and port-free notifications lead to TickLater; (clock-grid) ThisTick, NextTick, NCyclesLater and NoEarlierThan return a value built as a multiple of the receiver's Period() (divisibility abstract interpretation: k*period, sums/differences of multiples, x - x%period, sibling calls), so every tick lands on one grid. (snapshot-verbatim) TickScheduler.snapshot returns the guard fields exactly as stored.",
		NotDecided:  "which multiple ThisTick/NextTick pick (rounding direction; C42, not applicable); that at most one tick runs per instant also depends on the guard being consumed (see C09's finding).",
		Assumptions: []string{"CurrentTime/ThisTick/NextTick are state-reading"},
	}, runC12)
	register("C13", PropertyMeta{
		Technique: "decision-table extraction over orderings of (pending wake-up, requested time) with the 'none pending' sentinel as a separate region",
		Explanation: "Decides on modeling/eventdriven.go: ScheduleWakeAt(t) schedules in exactly the regions {none pending, pending > t}, storing pending=t before scheduling one timer event at t, and does nothing where pending <= t; " +
			"Handle resets the guard before calling the processor exactly once with the event time; NotifyRecv/NotifyPortFree request a wake-up at the engine's current time.",
		NotDecided:  "what the processor does; engine ordering (C01).",
		Assumptions: []string{"math.MaxUint64 is the 'none pending' sentinel and compares above every requested time"},
	}, runC13)
	register("C09", PropertyMeta{
		Technique: "guard-consumption analysis (def-use of dedup guard fields across scheduler and handler) + notification-completeness tables over all implementations of the wake-up interfaces",
		Explanation: "Decides: (1) every dedup guard read by a wake-scheduling method is written by the handler that consumes the scheduled event before user code runs (otherwise a request made at the instant of an already-consumed event is indistinguishable from a duplicate and is dropped); " +
			"(2) every library implementation of Connection.NotifySend/NotifyAvailable and Component.NotifyRecv/NotifyPortFree schedules a wake-up on every path; (3) a tick that made progress re-ticks, and the direct connection reports progress whenever it forwarded a message; " +
			"(4) the port notification tables of C11 (a missing notification is a lost wake-up).",
		NotDecided:  "that a given topology actually drains; user-written components.",
		Assumptions: []string{"wake-scheduling methods are TickNow, TickLater, ScheduleWakeNow, ScheduleWakeAt"},
	}, runC09)
	register("C10", PropertyMeta{
		Technique: "decision-table extraction of the forwarding loop body + effect-sequence pairing (peek, capacity test, deliver, retrieve) on value-numbered receivers",
		Explanation: "Decides on noc/directconnection/comp.go: in forwardMany, a message is delivered only where the destination port's CanDeliver holds, the delivered value is exactly the head peeked from the source port, the destination port is the one looked up from that head's Meta().Dst (capacity test and delivery on the same port), and each delivery is followed by exactly one RetrieveOutgoing on the source port; an empty source or a full destination stops the loop without delivering or retrieving; " +
			"ports are registered under their own name; the round-robin cursor is advanced modulo the port count and written nowhere else. (port-notifications) the ports' full→not-full and empty→non-empty notification tables (as in C11), on which a back-pressured idle connection depends to be resumed.",
		NotDecided:  "fairness and eventual delivery under arbitrary back-pressure (with C09/C11 for wake-ups).",
		Assumptions: []string{"PeekOutgoing/Meta/CanDeliver are state-reading"},
	}, runC10)
}

// tickGuardTables checks TickNow and TickLater.
func tickGuardTables(c *Ctx, rule string) {
	p := c.P
	dom := []int{0, 1, 2}
	hasF := c.field(rule, "modeling", "TickScheduler", "hasScheduledTick")
	nextF := c.field(rule, "modeling", "TickScheduler", "nextTickTime")
	secF := c.field(rule, "modeling", "TickScheduler", "secondary")
	if hasF == nil || nextF == nil || secF == nil {
		return
	}
	mk := p.LookupFunc("modeling", "", "MakeTickEvent")
	for _, m := range []struct{ name, round string }{{"TickNow", "ThisTick"}, {"TickLater", "NextTick"}} {
		f := c.fn(rule, "modeling", "TickScheduler", m.name)
		if f == nil {
			continue
		}
		// unexported helpers of the scheduler itself (an extracted common tail) are interpreted in place
		t := ExtractTable(p, f, TableConfig{Domain: dom, Inline: func(g *types.Func) bool {
			sg, _ := g.Type().(*types.Signature)
			return sg != nil && sg.Recv() != nil && !g.Exported() && g.Pkg() == f.Pkg() && strings.HasSuffix(sg.Recv().Type().String(), ".TickScheduler")
		}})
		roles := []Role{
			{Name: "has", IsBool: true, Match: func(a *Atom) bool { return a.Has(hasF) }},
			{Name: "pending", Match: func(a *Atom) bool { return a.Has(nextF) }},
			{Name: "req", Match: func(a *Atom) bool { return a.HasName("CurrentTime") && !a.Has(nextF) }},
			{Name: "sec", IsBool: true, Match: func(a *Atom) bool { return a.Has(secF) }},
		}
		CheckTable(c, rule, "modeling.TickScheduler."+m.name, p.Decl(f).Pos(), t, roles, dom, nil, func(v RoleVals, r *Row) (bool, string) {
			sched := r.Calls(func(e *Effect) bool { return e.Kind == "call" && e.Callee != nil && e.Callee.Name() == "Schedule" })
			stT := r.Stores(func(e *Effect) bool { return e.RecvHas(nextF) })
			stH := r.Stores(func(e *Effect) bool { return e.RecvHas(hasF) })
			if v.B("has") && v["pending"] >= v["req"] {
				if len(sched)+len(stT)+len(stH) != 0 || r.Out.Kind != "return" {
					return false, "a tick already pending at or after the requested time must not be duplicated and the guard must stay as it is"
				}
				return true, ""
			}
			if len(sched) != 1 || r.Out.Kind != "return" {
				return false, "without a pending tick at or after the requested time, exactly one tick must be scheduled (otherwise the component starves)"
			}
			if len(stT) != 1 || len(stH) != 1 || len(stH[0].ArgV) != 1 || stH[0].ArgV[0] == nil || !stH[0].ArgV[0].Const || !stH[0].ArgV[0].B {
				return false, "the guard must record that a tick is pending, and at what time"
			}
			if stT[0].Gen > sched[0].Gen || stH[0].Gen > sched[0].Gen {
				return false, "the guard must be stored before the event is scheduled"
			}
			when := stT[0].Args[0]
			if !strings.Contains(when, m.round+"(") || !strings.Contains(when, "CurrentTime()") {
				return false, "the tick time must be the clock edge given by " + m.round + " of the current time"
			}
			mks := r.Calls(func(e *Effect) bool { return e.Callee == mk })
			if len(mks) != 1 || len(mks[0].Args) != 2 || mks[0].Args[1] != when {
				return false, "the scheduled tick event must carry exactly the time stored in the guard (guard and event must agree, or later requests are wrongly deduplicated)"
			}
			if len(sched[0].Args) != 1 || !strings.HasPrefix(sched[0].Args[0], "MakeTickEvent(") {
				return false, "the event passed to Schedule must be the tick event just built"
			}
			secStore := r.Stores(func(e *Effect) bool { return strings.HasSuffix(e.RecvS, ".Secondary") })
			if v.B("sec") && (len(secStore) != 1 || secStore[0].Args[0] != "true" || secStore[0].Gen > sched[0].Gen) {
				return false, "a secondary scheduler must mark its tick events secondary"
			}
			if !v.B("sec") && len(secStore) != 0 {
				return false, "a primary scheduler must not mark its tick events secondary"
			}
			return true, ""
		})
	}
	c.Floor(rule, 2)
}

func tickingHandleTable(c *Ctx, rule string) {
	p := c.P
	dom := []int{0, 1, 2}
	if f := c.fn(rule, "modeling", "TickingComponent", "Handle"); f != nil {
		t := ExtractTable(p, f, TableConfig{Domain: dom})
		roles := []Role{{Name: "progress", IsBool: true, Match: func(a *Atom) bool { return a.HasName("Tick") }}}
		CheckTable(c, rule, "modeling.TickingComponent.Handle", p.Decl(f).Pos(), t, roles, dom, nil, func(v RoleVals, r *Row) (bool, string) {
			ticks := r.Calls(func(e *Effect) bool { return e.Kind == "call" && e.Callee != nil && e.Callee.Name() == "Tick" })
			later := r.Calls(func(e *Effect) bool { return e.Kind == "call" && e.Callee != nil && e.Callee.Name() == "TickLater" })
			if len(ticks) != 1 {
				return false, "a tick event must tick the component exactly once"
			}
			if v.B("progress") && (len(later) == 0 || later[0].Gen < ticks[0].Gen) {
				return false, "after a tick that made progress the component must be ticked again at its next clock edge (TickLater)"
			}
			return true, ""
		})
	}
}

// wakeCallsOnEveryPath checks that every returning path of f calls one of the
// wake-scheduling methods (same-package helpers are interpreted in place).
func wakeCallsOnEveryPath(c *Ctx, rule string, f *types.Func) {
	p := c.P
	t := ExtractTable(p, f, TableConfig{Domain: []int{0, 1}, LoopsOnce: true, Inline: func(g *types.Func) bool {
		return g.Pkg() == f.Pkg() && p.Decl(g) != nil && !isWake(g) && g != f
	}})
	construct := FuncKey(f)
	if len(t.Unsupported) > 0 || len(t.Rows) == 0 {
		c.Unknown(rule, construct, p.Decl(f).Pos(), "outside the analysable fragment: "+strings.Join(uniqStr(t.Unsupported), "; "))
		return
	}
	bad := ""
	for _, r := range t.Rows {
		if r.Out.Kind == "panic" {
			continue
		}
		w := r.Calls(func(e *Effect) bool { return e.Kind == "call" && isWake(e.Callee) })
		if len(w) == 0 {
			bad = "a path returns without scheduling a wake-up: " + truncate(r.String(), 300)
			break
		}
	}
	c.Check(bad == "", rule, construct, p.Decl(f).Pos(), "schedules a wake-up on every path", bad)
}

func isWake(f *types.Func) bool {
	if f == nil {
		return false
	}
	switch f.Name() {
	case "TickNow", "TickLater", "ScheduleWakeNow", "ScheduleWakeAt":
		return true
	}
	return false
}

func runC12(c *Ctx) {
	p := c.P
	tickGuardTables(c, "tick-guard-table")
	tickingHandleTable(c, "progress-retick")
	clockGridRule(c, "clock-grid")
	snapshotVerbatimRule(c, "snapshot-verbatim")
	// the dedup guard may be dropped only with respect to the recorded tick time
	if hf, nf := p.Field("modeling", "TickScheduler", "hasScheduledTick"), p.Field("modeling", "TickScheduler", "nextTickTime"); hf == nil || nf == nil {
		c.Unknown("guard-clear", "modeling.TickScheduler.hasScheduledTick", 0, "anchor not found")
	} else {
		bad := ""
		for _, fn := range p.SrcFuncs(func(pp string) bool { return pp == pkgPath("modeling") }) {
			for _, b := range fn.Blocks {
				for _, in := range b.Instrs {
					st, ok := in.(*ssa.Store)
					if !ok {
						continue
					}
					if fo := FieldOf(st.Addr); fo == nil || !sameObj(fo, hf) {
						continue
					}
					cst, isC := st.Val.(*ssa.Const)
					if !isC || cst.Value == nil || cst.Value.String() != "false" {
						continue // restored from a snapshot, or set
					}
					if _, fresh := memRoot(st.Addr).(*ssa.Alloc); fresh {
						continue // initialising a scheduler under construction
					}
					cond := false
					for _, fact := range FactsAt(b) {
						for v := range DataSlice(fn, fact.Cond) {
							if u, isU := v.(*ssa.UnOp); isU {
								if fo := FieldOf(u.X); fo != nil && sameObj(fo, nf) {
									cond = true
								}
							}
						}
					}
					if !cond {
						bad += SSAFuncKey(fn) + " (" + p.Rel(st.Pos()) + "); "
					}
				}
			}
		}
		c.Check(bad == "", "guard-clear", "modeling.TickScheduler.hasScheduledTick", 0, "the tick dedup guard is never dropped without comparing against the recorded tick time",
			"the tick dedup guard is cleared unconditionally in "+bad+"a tick event for a later edge may still be queued, so the next wake-up schedules a second tick for that edge and the component ticks twice in one instant")
	}
	// who may build tick events
	mk := p.LookupFunc("modeling", "", "MakeTickEvent")
	if mk == nil {
		c.Unknown("tick-event-construction", "modeling.MakeTickEvent", 0, "anchor not found")
	} else {
		fns := p.SrcFuncs(func(pp string) bool { return !clientPkg(pp) })
		sites := CallSites(fns, func(f *types.Func) bool { return f == mk })
		// TickNow, TickLater, or an unexported helper of the scheduler that only they call
		var allowed func(fn *ssa.Function, depth int) bool
		allowed = func(fn *ssa.Function, depth int) bool {
			k := SSAFuncKey(fn)
			if k == "modeling.TickScheduler.TickNow" || k == "modeling.TickScheduler.TickLater" {
				return true
			}
			obj, _ := fn.Object().(*types.Func)
			if obj == nil || obj.Exported() || !strings.HasPrefix(k, "modeling.TickScheduler.") || depth > 2 {
				return false
			}
			callers := CallSites(fns, func(f *types.Func) bool { return f == obj })
			for _, cs := range callers {
				if !allowed(cs.Fn, depth+1) {
					return false
				}
			}
			// and never taken as a method value
			for _, g := range fns {
				for _, b := range g.Blocks {
					for _, in := range b.Instrs {
						if mc, isMC := in.(*ssa.MakeClosure); isMC {
							if bf, isF := mc.Fn.(*ssa.Function); isF && strings.HasPrefix(bf.Name(), obj.Name()+"$bound") {
								return false
							}
						}
					}
				}
			}
			return len(callers) > 0
		}
		for _, s := range sites {
			k := SSAFuncKey(s.Fn)
			c.Check(allowed(s.Fn, 0), "tick-event-construction", "MakeTickEvent@"+k, s.Pos(),
				"tick event built by the scheduler", "a tick event is built outside TickScheduler.TickNow/TickLater, bypassing the clock-edge rounding and the dedup guard")
		}
		c.Floor("tick-event-construction", 1)
	}
	for _, name := range []string{"NotifyRecv", "NotifyPortFree"} {
		if f := c.fn("notify-retick", "modeling", "TickingComponent", name); f != nil {
			t := ExtractTable(p, f, TableConfig{})
			ok := len(t.Rows) > 0 && len(t.Unsupported) == 0
			for _, r := range t.Rows {
				if len(r.Calls(func(e *Effect) bool { return e.Kind == "call" && e.Callee != nil && e.Callee.Name() == "TickLater" })) == 0 {
					ok = false
				}
			}
			c.Check(ok, "notify-retick", "modeling.TickingComponent."+name, p.Decl(f).Pos(), "leads to TickLater", "a notified ticking component must be ticked at a later clock edge (TickLater)")
		}
	}
}

func runC13(c *Ctx) {
	p := c.P
	dom := []int{0, 1, 2}
	pendF := c.field("anchors", "modeling", "EventDrivenComponent", "pendingWakeup")
	if pendF == nil {
		return
	}
	if f := c.fn("wake-table", "modeling", "EventDrivenComponent", "ScheduleWakeAt"); f != nil {
		tParam := f.Type().(*types.Signature).Params().At(0)
		t := ExtractTable(p, f, TableConfig{Domain: dom})
		mk := p.LookupFunc("modeling", "", "MakeTimerFiredEvent")
		roles := []Role{
			{Name: "none", IsBool: true, Match: func(a *Atom) bool { return a.Has(pendF) }},
			{Name: "pending", Match: func(a *Atom) bool { return a.Has(pendF) }},
			{Name: "t", Match: func(a *Atom) bool { return sameObj(a.pathObj(0), tParam) || a.Key == tParam.Name() }},
		}
		CheckTable(c, "wake-table", "modeling.EventDrivenComponent.ScheduleWakeAt", p.Decl(f).Pos(), t, roles, dom,
			func(v RoleVals) bool { return !v.B("none") || v["pending"] > v["t"] },
			func(v RoleVals, r *Row) (bool, string) {
				sched := r.Calls(func(e *Effect) bool { return e.Kind == "call" && e.Callee != nil && e.Callee.Name() == "Schedule" })
				st := r.Stores(func(e *Effect) bool { return e.RecvHas(pendF) })
				if !v.B("none") && v["pending"] <= v["t"] {
					if len(sched)+len(st) != 0 {
						return false, "a wake-up already pending at or before t must not be replaced or duplicated"
					}
					return true, ""
				}
				if len(sched) != 1 || len(st) != 1 {
					return false, "with no wake-up pending, or one pending later than t, a wake-up at t must be scheduled and recorded (otherwise the processor runs later than requested)"
				}
				if st[0].Args[0] != tParam.Name() || st[0].Gen > sched[0].Gen {
					return false, "the guard must record t before the event is scheduled"
				}
				mks := r.Calls(func(e *Effect) bool { return e.Callee == mk })
				if len(mks) != 1 || len(mks[0].Args) != 2 || mks[0].Args[1] != tParam.Name() {
					return false, "the timer event must fire at exactly t"
				}
				return true, ""
			})
	}
	edHandle(c, "wake-handle")
	for _, name := range []string{"NotifyRecv", "NotifyPortFree"} {
		f := c.fn("notify-wake-now", "modeling", "EventDrivenComponent", name)
		if f == nil {
			continue
		}
		swn := p.LookupFunc("modeling", "EventDrivenComponent", "ScheduleWakeNow")
		t := ExtractTable(p, f, TableConfig{Inline: func(g *types.Func) bool { return g == swn }})
		ok := len(t.Rows) > 0 && len(t.Unsupported) == 0
		for _, r := range t.Rows {
			w := r.Calls(func(e *Effect) bool {
				return e.Kind == "call" && e.Callee != nil && e.Callee.Name() == "ScheduleWakeAt"
			})
			if len(w) != 1 || len(w[0].Args) != 1 || !strings.HasSuffix(w[0].Args[0], "engine.CurrentTime()") {
				ok = false
			}
		}
		c.Check(ok, "notify-wake-now", "modeling.EventDrivenComponent."+name, p.Decl(f).Pos(), "requests a wake-up at the current instant",
			"a notification must request a wake-up at the engine's current time")
	}
}

// pathObj returns the i-th object of the atom's path (nil if absent).
func (a *Atom) pathObj(i int) types.Object {
	if i < len(a.Path) {
		return a.Path[i].Obj
	}
	return nil
}

func edHandle(c *Ctx, rule string) {
	p := c.P
	pendF := p.Field("modeling", "EventDrivenComponent", "pendingWakeup")
	if f := c.fn(rule, "modeling", "EventDrivenComponent", "Handle"); f != nil {
		t := ExtractTable(p, f, TableConfig{})
		ok, why := len(t.Rows) > 0 && len(t.Unsupported) == 0, "outside the analysable fragment"
		// the value stored into the guard is the constant 2^64-1 ('none'), however it is spelled
		noneSentinel := false
		if sf := p.SSAFunc(f); sf != nil {
			noneSentinel = true
			n := 0
			for _, b := range sf.Blocks {
				for _, in := range b.Instrs {
					if st, isSt := in.(*ssa.Store); isSt && FieldOf(st.Addr) != nil && pendF != nil && sameObj(FieldOf(st.Addr), pendF) {
						n++
						cst, isC := stripConv(st.Val).(*ssa.Const)
						if !isC || cst.Value == nil || cst.Value.ExactString() != "18446744073709551615" {
							noneSentinel = false
						}
					}
				}
			}
			noneSentinel = noneSentinel && n > 0
		}
		for _, r := range t.Rows {
			proc := r.Calls(func(e *Effect) bool { return e.Kind == "call" && e.Callee != nil && e.Callee.Name() == "Process" })
			st := r.Stores(func(e *Effect) bool { return e.RecvHas(pendF) })
			if len(proc) != 1 {
				ok, why = false, "a timer event must run the processor exactly once"
				continue
			}
			if len(st) == 0 || st[0].Gen > proc[0].Gen || !noneSentinel {
				ok, why = false, "the pending-wake-up guard must be reset (to 'none') before the processor runs; otherwise wake-ups requested by the processor or arriving later at this instant are treated as duplicates and lost"
			}
			if len(proc[0].Args) != 2 || !strings.HasSuffix(proc[0].Args[1], ".Time()") {
				ok, why = false, "the processor must be given the event's time"
			}
		}
		c.Check(ok, rule, "modeling.EventDrivenComponent.Handle", p.Decl(f).Pos(), "guard reset, then Process(c, e.Time()) once", why)
	}
}

func runC09(c *Ctx) {
	p := c.P
	progressHonestRule(c, "progress-honest", libComponentPkg, 100)
	// (1) guard consumption
	edHandle(c, "guard-consumption")
	if f := c.fn("guard-consumption", "modeling", "TickingComponent", "Handle"); f != nil {
		hasF := p.Field("modeling", "TickScheduler", "hasScheduledTick")
		nextF := p.Field("modeling", "TickScheduler", "nextTickTime")
		t := ExtractTable(p, f, TableConfig{Inline: func(g *types.Func) bool {
			return g.Pkg() == f.Pkg() && p.Decl(g) != nil && !isWake(g) && g.Name() != "Tick"
		}})
		ok := len(t.Rows) > 0 && len(t.Unsupported) == 0
		for _, r := range t.Rows {
			tick := r.Calls(func(e *Effect) bool { return e.Kind == "call" && e.Callee != nil && e.Callee.Name() == "Tick" })
			st := r.Stores(func(e *Effect) bool { return e.RecvHas(hasF) || e.RecvHas(nextF) })
			if len(tick) == 0 {
				continue
			}
			if len(st) == 0 || st[0].Gen > tick[0].Gen {
				ok = false
			}
		}
		c.Check(ok, "guard-consumption", "modeling.TickingComponent.Handle", p.Decl(f).Pos(), "the tick dedup guard is consumed before Tick runs",
			"the handler never writes the dedup guard (hasScheduledTick, nextTickTime) that TickNow/TickLater read: once the tick scheduled for instant T has run, a TickNow at T (e.g. a connection notified of a send at T after it already ticked at T without progress) is indistinguishable from a duplicate and is dropped, leaving a deliverable message queued with no event pending; the sibling EventDrivenComponent.Handle resets its guard")
	}
	// (2) notification completeness
	n := 0
	for _, pk := range p.All {
		if clientPkg(pk.PkgPath) {
			continue
		}
		scope := pk.Types.Scope()
		for _, name := range scope.Names() {
			tn, ok := scope.Lookup(name).(*types.TypeName)
			if !ok {
				continue
			}
			named, ok := tn.Type().(*types.Named)
			if !ok {
				continue
			}
			for i := 0; i < named.NumMethods(); i++ {
				m := named.Method(i)
				switch m.Name() {
				case "NotifyRecv", "NotifyPortFree", "NotifySend":
				case "NotifyAvailable":
					// the port-side NotifyAvailable() (no parameter) forwards to the owner
				default:
					continue
				}
				if p.Decl(m) == nil || strings.HasPrefix(name, "Mock") {
					continue
				}
				if m.Name() == "NotifyAvailable" && m.Type().(*types.Signature).Params().Len() == 0 {
					continue
				}
				n++
				wakeCallsOnEveryPath(c, "notification-completeness", m)
			}
		}
	}
	c.Floor("notification-completeness", 8)
	// (3) progress re-tick and progress reporting
	tickingHandleTable(c, "progress-retick")
	directTickProgress(c, "progress-report")
	// (4) port notifications
	portNotificationTables(c, "port-notifications")
	tickGuardTables(c, "tick-guard-table")
}

// portNotificationTables re-runs the notification clauses of C11 under another rule name.
func portNotificationTables(c *Ctx, rule string) {
	sub := newCtx(c.P, "C11", c.Tier)
	runC11(sub)
	for _, o := range sub.Obs {
		if o.Rule != "port-push-table" && o.Rule != "port-pop-table" {
			continue
		}
		no := o
		no.Property = c.Prop
		no.Rule = rule
		c.Obs = append(c.Obs, no)
		c.counts[rule]++
	}
	for k := range sub.analysed {
		c.analysed[k] = true
	}
	c.Floor(rule, 4)
}

func directTickProgress(c *Ctx, rule string) {
	p := c.P
	f := c.fn(rule, "noc/directconnection", "middleware", "Tick")
	if f == nil {
		return
	}
	fm := p.LookupFunc("noc/directconnection", "middleware", "forwardMany")
	t := ExtractTable(p, f, TableConfig{Domain: []int{0, 1, 2}, LoopsOnce: true})
	roles := []Role{{Name: "fwd", IsBool: true, Match: func(a *Atom) bool { return a.Has(fm) }}}
	CheckTable(c, rule, "noc/directconnection.middleware.Tick", p.Decl(f).Pos(), t, roles, []int{0, 1, 2}, nil, func(v RoleVals, r *Row) (bool, string) {
		if r.Out.Kind != "return" || len(r.Out.Vals) != 1 || r.Out.Vals[0].Kind != vBool {
			return false, "Tick must return whether it made progress"
		}
		called := len(r.Calls(func(e *Effect) bool { return e.Callee == fm })) > 0
		if called && v.B("fwd") && !r.Out.Vals[0].B {
			return false, "a tick that forwarded a message must report progress, so that the connection is ticked again (the progress-driven re-tick is what picks up a send notification that arrived at an instant the connection had already ticked)"
		}
		return true, ""
	})
}

func runC10(c *Ctx) {
	// a back-pressured connection goes idle and is resumed only by the
	// receiving port's NotifyAvailable (and by NotifySend for new traffic): the
	// ports' notification tables are part of "backpressure delays, never drops"
	portNotificationTables(c, "port-notifications")
	p := c.P
	progressHonestRule(c, "progress-honest", func(pp string) bool { return pp == pkgPath("noc/directconnection") }, 1)
	dom := []int{0, 1, 2}
	gpn := p.LookupFunc("noc/directconnection", "ports", "getPortByName")
	if f := c.fn("forward-table", "noc/directconnection", "middleware", "forwardMany"); f != nil {
		src := f.Type().(*types.Signature).Params().At(0)
		t := ExtractTable(p, f, TableConfig{Domain: dom, Pure: func(g *types.Func) bool { return g == gpn }})
		roles := []Role{
			{Name: "empty", IsBool: true, Match: func(a *Atom) bool { return strings.Contains(a.Key, "nil ==") && a.HasName("PeekOutgoing") }},
			{Name: "can", IsBool: true, Match: func(a *Atom) bool { return a.HasName("CanDeliver") }},
		}
		CheckTable(c, "forward-table", "noc/directconnection.middleware.forwardMany", p.Decl(f).Pos(), t, roles, dom, nil, func(v RoleVals, r *Row) (bool, string) {
			del := r.Calls(func(e *Effect) bool { return e.Kind == "call" && e.Callee != nil && e.Callee.Name() == "Deliver" })
			ret := r.Calls(func(e *Effect) bool {
				return e.Kind == "call" && e.Callee != nil && e.Callee.Name() == "RetrieveOutgoing"
			})
			if v.B("empty") || !v.B("can") {
				if len(del)+len(ret) != 0 {
					return false, "with an empty source or a full destination nothing may be delivered or removed (back-pressure must delay, not drop or duplicate)"
				}
				if r.Out.Kind != "return" {
					return false, "the forwarding loop must stop on an empty source or a full destination"
				}
				return true, ""
			}
			if len(del) != 1 || len(ret) != 1 {
				return false, "a deliverable head must be delivered exactly once and removed from the source exactly once"
			}
			peek := src.Name() + ".PeekOutgoing()"
			if len(del[0].Args) != 1 || del[0].Args[0] != peek {
				return false, "the delivered message must be exactly the head peeked from the source port, unmodified"
			}
			wantDst := "getPortByName(" + peek + ".Meta().Dst)"
			if !strings.HasSuffix(del[0].RecvS, wantDst) {
				return false, "the destination port must be the one looked up from the head's Meta().Dst"
			}
			can := r.Atom(func(a *Atom) bool { return a.HasName("CanDeliver") })
			if can == nil || !strings.HasPrefix(can.Key, del[0].RecvS+".CanDeliver(") {
				return false, "the capacity test must be made on the same port the message is delivered to"
			}
			if ret[0].RecvS != src.Name() || ret[0].Gen < del[0].Gen {
				return false, "after delivery the head must be removed from the source port it was peeked from"
			}
			if len(r.Stores(func(e *Effect) bool { return strings.Contains(e.RecvS, "PeekOutgoing()") })) != 0 {
				return false, "the message must not be modified in transit"
			}
			if r.Out.Kind != "loop-next" {
				return false, "the loop must go on to the next queued message"
			}
			return true, ""
		})
	}
	// port registry: a port is registered under its own remote name and the lookup returns that slot
	if f := c.fn("port-registry", "noc/directconnection", "ports", "addPort"); f != nil {
		portsF := c.field("port-registry", "noc/directconnection", "ports", "ports")
		mapF := c.field("port-registry", "noc/directconnection", "ports", "portMap")
		port := f.Type().(*types.Signature).Params().At(0)
		t := ExtractTable(p, f, TableConfig{})
		ok, why := len(t.Rows) > 0 && len(t.Unsupported) == 0, "outside the analysable fragment"
		for _, r := range t.Rows {
			app := r.Stores(func(e *Effect) bool {
				return e.RecvHas(portsF) && len(e.Recv) > 0 && sameObj(e.Recv[len(e.Recv)-1].Obj, portsF)
			})
			idx := r.Stores(func(e *Effect) bool { return e.RecvHas(mapF) })
			if len(app) != 1 || len(idx) != 1 || app[0].Gen > idx[0].Gen {
				ok, why = false, "addPort must append the port and then index it"
				continue
			}
			call := appendCall(app[0].Node)
			if call == nil || len(call.Args) != 2 || !exprIsObj(p, f, call.Args[1], port) {
				ok, why = false, "the plugged port itself must be appended"
			}
			if !strings.Contains(idx[0].RecvS, "["+port.Name()+".AsRemote()]") {
				ok, why = false, "the port must be indexed under its own remote name"
			}
			if !strings.HasPrefix(strings.ReplaceAll(idx[0].Args[0], " ", ""), "len(") || !strings.HasSuffix(strings.ReplaceAll(idx[0].Args[0], " ", ""), ")-1") {
				ok, why = false, "the index stored must be the appended slot (len-1)"
			}
		}
		c.Check(ok, "port-registry", "noc/directconnection.ports.addPort", p.Decl(f).Pos(), "append, then portMap[port.AsRemote()] = len-1", why)
	}
	if f := c.fn("port-registry", "noc/directconnection", "ports", "getPortByName"); f != nil {
		name := f.Type().(*types.Signature).Params().At(0)
		t := ExtractTable(p, f, TableConfig{})
		roles := []Role{{Name: "found", IsBool: true, Match: func(a *Atom) bool { return strings.HasPrefix(a.Key, "ok(") }}}
		CheckTable(c, "port-registry", "noc/directconnection.ports.getPortByName", p.Decl(f).Pos(), t, roles, []int{0, 1}, nil, func(v RoleVals, r *Row) (bool, string) {
			if !v.B("found") {
				if r.Out.Kind != "panic" {
					return false, "an unknown destination must not be silently mapped to some port"
				}
				return true, ""
			}
			if r.Out.Kind != "return" || len(r.Out.Vals) != 1 {
				return false, "must return the port"
			}
			s := strings.ReplaceAll(r.Out.Vals[0].Str, " ", "")
			if !strings.Contains(s, ".ports[") || !strings.Contains(s, "portMap["+name.Name()+"]") {
				return false, "must return the port stored at the index recorded for that name"
			}
			return true, ""
		})
	}
	// round-robin cursor
	if f := c.fn("round-robin", "noc/directconnection", "middleware", "Tick"); f != nil {
		npF := c.field("round-robin", "noc/directconnection", "State", "NextPortID")
		t := ExtractTable(p, f, TableConfig{Domain: dom, LoopsOnce: true})
		ok, why := len(t.Rows) > 0 && len(t.Unsupported) == 0, "outside the analysable fragment: "+strings.Join(t.Unsupported, ";")
		for _, r := range t.Rows {
			st := r.Stores(func(e *Effect) bool { return e.RecvHas(npF) })
			if r.Out.Kind != "return" {
				continue
			}
			if len(st) != 1 {
				ok, why = false, "the round-robin cursor must be advanced once per tick"
				continue
			}
			rhs := strings.ReplaceAll(st[0].Args[0], " ", "")
			if !strings.Contains(rhs, "NextPortID+1)%") {
				ok, why = false, "the cursor must advance by one modulo the number of ports"
			}
		}
		c.Check(ok, "round-robin", "noc/directconnection.middleware.Tick", p.Decl(f).Pos(), "cursor = (cursor+1) % numPorts once per tick", why)
		fns := p.SrcFuncs(func(pp string) bool { return strings.HasSuffix(pp, "/noc/directconnection") })
		for _, w := range FieldWrites(fns, npF) {
			k := SSAFuncKey(w.Fn)
			c.Check(k == "noc/directconnection.middleware.Tick", "round-robin", "State.NextPortID@"+k, w.Pos, "cursor written by Tick", "the round-robin cursor is written outside middleware.Tick")
		}
	}
	// the connection wakes on both notifications (shared with C09)
	for _, name := range []string{"NotifySend", "NotifyAvailable"} {
		if f := c.fn("connection-wake", "noc/directconnection", "Comp", name); f != nil {
			wakeCallsOnEveryPath(c, "connection-wake", f)
		}
	}
	directTickProgress(c, "progress-report")
}
