package main

// comparator-sound: an ordering function handed to a sort must be able to say
// "less". A three-way comparator written as int(a - b) over an unsigned type
// never returns a negative number (the difference wraps), so the sort makes no
// swaps and the "sorted" slice keeps whatever order it had — for keys collected
// from a map, Go's randomised iteration order. The same holds for a less function
// written as a-b < 0 over unsigned operands.

import (
	"go/token"
	"go/types"
	"strings"

	"golang.org/x/tools/go/ssa"
)

var sortEntry = map[string]map[string]bool{
	"slices": {"SortFunc": true, "SortStableFunc": true, "BinarySearchFunc": true, "MinFunc": true, "MaxFunc": true, "IsSortedFunc": true},
	"sort":   {"Slice": true, "SliceStable": true, "SliceIsSorted": true, "Search": true},
}

func isUnsigned(t types.Type) bool {
	b, ok := t.Underlying().(*types.Basic)
	return ok && b.Info()&types.IsUnsigned != 0
}

// wrapsUnsigned: v is (a conversion of) a difference of unsigned operands.
func wrapsUnsigned(v ssa.Value) bool {
	for i := 0; i < 4; i++ {
		switch x := v.(type) {
		case *ssa.Convert:
			v = x.X
			continue
		case *ssa.ChangeType:
			v = x.X
			continue
		case *ssa.BinOp:
			return x.Op == token.SUB && isUnsigned(x.X.Type()) && isUnsigned(x.Y.Type())
		}
		return false
	}
	return false
}

func comparatorSoundRule(c *Ctx, rule string, pred func(string) bool, floor int) {
	p := c.P
	n := 0
	for _, fn := range p.SrcFuncs(pred) {
		for _, b := range fn.Blocks {
			for _, in := range b.Instrs {
				call, ok := in.(ssa.CallInstruction)
				if !ok {
					continue
				}
				name, pkg := calleeNamePkg(call)
				if !sortEntry[pkg][name] {
					continue
				}
				// the ordering function: the last function-typed argument
				var cmp *ssa.Function
				for _, a := range call.Common().Args {
					switch x := a.(type) {
					case *ssa.MakeClosure:
						cmp, _ = x.Fn.(*ssa.Function)
					case *ssa.Function:
						cmp = x
					}
				}
				if cmp == nil || len(cmp.Blocks) == 0 {
					continue
				}
				n++
				bad := ""
				for _, cb := range cmp.Blocks {
					for _, ci := range cb.Instrs {
						switch x := ci.(type) {
						case *ssa.Return:
							for _, r := range x.Results {
								if wrapsUnsigned(r) {
									bad = "returns int(a - b) over unsigned operands, which is never negative"
								}
							}
						case *ssa.BinOp:
							if (x.Op == token.LSS || x.Op == token.LEQ || x.Op == token.GTR || x.Op == token.GEQ) && wrapsUnsigned(x.X) {
								if cst, isC := x.Y.(*ssa.Const); isC && constIs(cst, "0") {
									bad = "compares an unsigned difference with 0, which never reports 'less'"
								}
							}
						}
					}
				}
				c.Check(bad == "", rule, SSAFuncKey(fn)+"#"+pkg+"."+name+"@"+itoa(n), in.Pos(), "the ordering function can report every order",
					"the ordering function passed to "+pkg+"."+name+" "+bad+": the sort makes no swaps and the slice keeps its incoming order (for keys collected from a map, Go's randomised iteration order), so results that depend on this order differ between identical runs")
			}
		}
	}
	c.Check(n >= floor, rule, "<sort sites>", 0, itoa(n)+" ordering functions inspected", "fewer sort sites found than confirmed by hand")
	_ = strings.Contains
}
