package main

// Guard dominance (analysis A3 of DESIGN.md): every call of a guarded operation
// must be dominated by the successful branch of its guard on the same receiver.

import (
	"fmt"
	"go/token"
	"go/types"
	"regexp"
	"sort"
	"strings"

	"golang.org/x/tools/go/ssa"
)

// GuardPair names an operation and the guard that must precede it.
type GuardPair struct {
	Name  string
	Op    func(f *types.Func) bool
	Guard func(f *types.Func) bool
}

// normKey normalises a receiver access path for comparison between a guard and
// its operation: address-of and dereference are dropped, and the root variable of
// a component State access (cur / next / *next / comp.State) is dropped so that a
// guard evaluated on a by-value copy of the State matches the operation on the
// State itself.
func normKey(k string) string {
	k = strings.TrimLeft(k, "&*")
	k = strings.ReplaceAll(k, "&", "")
	return k
}

var rootRe = regexp.MustCompile(`^[A-Za-z_][A-Za-z0-9_:]*`)

// suffixKey drops the root variable of an access path.
func suffixKey(k string) string {
	k = normKey(k)
	if i := strings.Index(k, ".State."); i >= 0 {
		return k[i+len(".State"):]
	}
	loc := rootRe.FindStringIndex(k)
	if loc != nil && loc[1] < len(k) && (k[loc[1]] == '.' || k[loc[1]] == '[') {
		return k[loc[1]:]
	}
	return k
}

// keysMatch compares two receiver keys: exactly, or by State-relative suffix when
// both have at least one field step.
func keysMatch(a, b string) bool {
	a, b = normKey(a), normKey(b)
	if a == b {
		return true
	}
	sa, sb := suffixKey(a), suffixKey(b)
	return sa == sb && strings.Contains(sa, ".") && sa != a && sb != b
}

// guardFactAt reports whether a guard call with a known true result on a matching
// receiver dominates block b.
func guardFactAt(b *ssa.BasicBlock, guard func(*types.Func) bool, recvKey string) bool {
	for _, g := range GuardsAt(b) {
		if !g.Truth {
			continue
		}
		f, _ := calleeOf(g.Call)
		if f == nil || !guard(f) {
			continue
		}
		cs := CallSite{Fn: b.Parent(), Instr: g.Call, Callee: f}
		if r := cs.Recv(); r != nil && keysMatch(VKey(r), recvKey) {
			return true
		}
	}
	return false
}

// substituteParams rewrites a key expressed over fn's parameters into the
// caller's terms, given the call instruction.
func substituteParams(key string, fn *ssa.Function, call ssa.CallInstruction) string {
	args := call.Common().Args
	if call.Common().IsInvoke() {
		return key
	}
	type rep struct{ from, to string }
	var reps []rep
	for i, p := range fn.Params {
		if i < len(args) {
			reps = append(reps, rep{p.Name(), VKey(args[i])})
		}
	}
	sort.Slice(reps, func(i, j int) bool { return len(reps[i].from) > len(reps[j].from) })
	for _, r := range reps {
		re := regexp.MustCompile(`(^|[^A-Za-z0-9_.])` + regexp.QuoteMeta(r.from) + `($|[^A-Za-z0-9_])`)
		key = re.ReplaceAllString(key, "${1}"+strings.ReplaceAll(r.to, "$", "$$")+"${2}")
	}
	return key
}

// GuardResult is the verdict for one operation site.
type GuardResult struct {
	Site   CallSite
	OK     bool
	How    string // intra | caller | wrapper:<name> | unguarded
	Detail string
}

type guardChecker struct {
	p       *Program
	fns     []*ssa.Function
	callers map[*ssa.Function][]CallSite
	assume  []condFact
}

// condFact is a non-call branch condition (a comparison) known at a point,
// identified by the field it reads, the operator and the other operand.
type condFact struct {
	key   string
	truth bool
}

func condFactsAt(b *ssa.BasicBlock) []condFact {
	var out []condFact
	for _, f := range FactsAt(b) {
		bo, ok := f.Cond.(*ssa.BinOp)
		if !ok {
			continue
		}
		k := VKey(bo)
		// keep the last field step of the left operand: "(spec.BankLatency>0:int)" -> "BankLatency>0:int)"
		if i := strings.LastIndex(k, "."); i >= 0 {
			k = k[i+1:]
		}
		out = append(out, condFact{k, f.Truth})
	}
	return out
}

func contradicts(a, b []condFact) bool {
	for _, x := range a {
		for _, y := range b {
			if x.key == y.key && x.truth != y.truth {
				return true
			}
		}
	}
	return false
}

func newGuardChecker(p *Program, fns []*ssa.Function) *guardChecker {
	g := &guardChecker{p: p, fns: fns, callers: map[*ssa.Function][]CallSite{}}
	for _, fn := range fns {
		for _, b := range fn.Blocks {
			for _, in := range b.Instrs {
				ci, ok := in.(ssa.CallInstruction)
				if !ok {
					continue
				}
				if sc := ci.Common().StaticCallee(); sc != nil {
					if sc.Origin() != nil {
						sc = sc.Origin()
					}
					f, _ := calleeOf(ci)
					g.callers[sc] = append(g.callers[sc], CallSite{Fn: fn, Instr: ci, Callee: f})
				}
			}
		}
	}
	return g
}

// guarded decides whether the operation with receiver key recvKey, executed at
// block b of fn, is dominated by its guard — in fn, or at every call site of fn.
func (g *guardChecker) guarded(fn *ssa.Function, b *ssa.BasicBlock, pair GuardPair, recvKey string, depth int) (bool, string) {
	if guardFactAt(b, pair.Guard, recvKey) {
		return true, "intra"
	}
	// a dominating wrapper call that returns true only if the guard holds
	for _, gc := range GuardsAt(b) {
		if !gc.Truth {
			continue
		}
		sc := gc.Call.Common().StaticCallee()
		if sc == nil || sc.Blocks == nil {
			continue
		}
		if ok := g.wrapperImplies(sc, pair, func(k string) string { return substituteParams(k, sc, gc.Call) }, recvKey, 0); ok {
			return true, "wrapper:" + sc.Name()
		}
	}
	if depth >= 3 {
		return false, "unguarded"
	}
	// closures: look at the enclosing function at the point the closure is made
	callers := g.callers[fn]
	if len(callers) == 0 {
		return false, "unguarded"
	}
	// Conditions under which the operation runs inside fn (e.g. a Spec switch
	// between a pipeline and a bypass buffer): a guard wrapper that branches on
	// the same condition only has to establish the guard on the matching branch.
	saved := g.assume
	g.assume = append(append([]condFact(nil), g.assume...), condFactsAt(b)...)
	defer func() { g.assume = saved }()
	for _, cs := range callers {
		k := substituteParams(recvKey, fn, cs.Instr)
		ok, _ := g.guarded(cs.Fn, cs.Instr.Block(), pair, k, depth+1)
		if !ok {
			return false, fmt.Sprintf("unguarded (caller %s does not establish the guard)", SSAFuncKey(cs.Fn))
		}
	}
	return true, "caller"
}

// wrapperImplies reports whether every `return true` of w is dominated by the
// guard holding on the receiver (after mapping w's parameters with subst).
func (g *guardChecker) wrapperImplies(w *ssa.Function, pair GuardPair, subst func(string) string, recvKey string, depth int) bool {
	if depth > 2 {
		return false
	}
	sig := w.Signature
	if sig.Results().Len() != 1 || !isBoolType(sig.Results().At(0).Type()) {
		return false
	}
	found := false
	for _, b := range w.Blocks {
		ret, ok := b.Instrs[len(b.Instrs)-1].(*ssa.Return)
		if !ok || len(ret.Results) != 1 {
			continue
		}
		if contradicts(condFactsAt(b), g.assume) {
			continue // this return is not taken under the operation's own conditions
		}
		if !g.valueImpliesGuard(ret.Results[0], b, pair, subst, recvKey, depth, map[ssa.Value]bool{}) {
			return false
		}
		found = true
	}
	return found
}

// valueImpliesGuard: whenever v is true at block b, the guard holds.
func (g *guardChecker) valueImpliesGuard(v ssa.Value, b *ssa.BasicBlock, pair GuardPair, subst func(string) string, recvKey string, depth int, seen map[ssa.Value]bool) bool {
	if seen[v] {
		return true
	}
	seen[v] = true
	switch v := v.(type) {
	case *ssa.Const:
		if v.Value != nil && v.Value.String() == "false" {
			return true
		}
		// constant true: the guard must already be established by dominating facts
		for _, gc := range GuardsAt(b) {
			if !gc.Truth {
				continue
			}
			f, _ := calleeOf(gc.Call)
			if f != nil && pair.Guard(f) {
				cs := CallSite{Fn: b.Parent(), Instr: gc.Call, Callee: f}
				if r := cs.Recv(); r != nil && keysMatch(subst(VKey(r)), recvKey) {
					return true
				}
			}
		}
		return false
	case *ssa.Call:
		f, _ := calleeOf(v)
		if f != nil && pair.Guard(f) {
			cs := CallSite{Fn: b.Parent(), Instr: v, Callee: f}
			if r := cs.Recv(); r != nil && keysMatch(subst(VKey(r)), recvKey) {
				return true
			}
		}
		if sc := v.Common().StaticCallee(); sc != nil && sc.Blocks != nil {
			inner := func(k string) string { return subst(substituteParams(k, sc, v)) }
			return g.wrapperImplies(sc, pair, inner, recvKey, depth+1)
		}
		return false
	case *ssa.Phi:
		for i, e := range v.Edges {
			if !g.valueImpliesGuard(e, v.Block().Preds[i], pair, subst, recvKey, depth, seen) {
				return false
			}
		}
		return true
	case *ssa.BinOp:
		if v.Op == token.AND {
			return g.valueImpliesGuard(v.X, b, pair, subst, recvKey, depth, seen) || g.valueImpliesGuard(v.Y, b, pair, subst, recvKey, depth, seen)
		}
	}
	return false
}

// CheckGuardPair evaluates every operation site of a pair in fns.
func (g *guardChecker) CheckGuardPair(pair GuardPair, filter func(CallSite) bool) []GuardResult {
	var out []GuardResult
	for _, s := range CallSites(g.fns, pair.Op) {
		if filter != nil && !filter(s) {
			continue
		}
		r := s.Recv()
		if r == nil {
			out = append(out, GuardResult{Site: s, OK: false, How: "unguarded", Detail: "no receiver"})
			continue
		}
		ok, how := g.guarded(s.Fn, s.Instr.Block(), pair, VKey(r), 0)
		out = append(out, GuardResult{Site: s, OK: ok, How: how, Detail: VKey(r)})
	}
	return out
}

// Standard pairs.
var (
	pairSend = GuardPair{Name: "Send/CanSend",
		Op:    func(f *types.Func) bool { return methodOf(f, "messaging", "", "Send") },
		Guard: func(f *types.Func) bool { return methodOf(f, "messaging", "", "CanSend") }}
	pairDeliver = GuardPair{Name: "Deliver/CanDeliver",
		Op:    func(f *types.Func) bool { return methodOf(f, "messaging", "", "Deliver") },
		Guard: func(f *types.Func) bool { return methodOf(f, "messaging", "", "CanDeliver") }}
	pairAccept = GuardPair{Name: "Accept/CanAccept",
		Op: func(f *types.Func) bool {
			return methodOf(f, "queueing", "Pipeline", "Accept") || methodOf(f, "queueing", "Pipeline", "AcceptWithDelay")
		},
		Guard: func(f *types.Func) bool { return methodOf(f, "queueing", "Pipeline", "CanAccept") }}
	pairPush = GuardPair{Name: "PushTyped/CanPush",
		Op:    func(f *types.Func) bool { return f.Name() == "PushTyped" && (methodOf(f, "queueing", "", "PushTyped")) },
		Guard: func(f *types.Func) bool { return f.Name() == "CanPush" && methodOf(f, "queueing", "", "CanPush") }}
)

func guardSurvey(p *Program) {
	fns := p.SrcFuncs(func(pp string) bool { return !clientPkg(pp) })
	g := newGuardChecker(p, fns)
	for _, pair := range []GuardPair{pairSend, pairDeliver, pairAccept, pairPush} {
		res := g.CheckGuardPair(pair, nil)
		okN := 0
		for _, r := range res {
			if r.OK {
				okN++
			}
		}
		fmt.Printf("== %s: %d sites, %d guarded\n", pair.Name, len(res), okN)
		for _, r := range res {
			if !r.OK {
				fmt.Printf("   %s %s recv=%s: %s\n", p.Rel(r.Site.Pos()), SSAFuncKey(r.Site.Fn), r.Detail, r.How)
			}
		}
	}
}
