package main

// Save/Load symmetry (analyses A6/A10 of DESIGN.md) for checkpoint and JSON
// marshaler pairs, decided on SSA dependence slices.

import (
	"fmt"
	"go/types"
	"sort"
	"strings"

	"golang.org/x/tools/go/ssa"
)

// objRoot reports whether the memory root of v is the designated object (a
// parameter, or the stack slot a by-value parameter was spilled into).
func objRoot(v ssa.Value, obj *ssa.Parameter) bool {
	r := memRoot(v)
	if r == obj {
		return true
	}
	if al, ok := r.(*ssa.Alloc); ok && al.Referrers() != nil {
		for _, ref := range *al.Referrers() {
			if st, ok := ref.(*ssa.Store); ok && st.Addr == al && st.Val == obj {
				return true
			}
		}
	}
	return false
}

// objFieldsOnPath lists the struct fields stepped through from obj to v.
func objFieldsOnPath(v ssa.Value, obj *ssa.Parameter) []*types.Var {
	var out []*types.Var
	for i := 0; i < 20 && v != nil; i++ {
		switch x := v.(type) {
		case *ssa.FieldAddr:
			if f := FieldOf(x); f != nil {
				out = append(out, f.Origin())
			}
			v = x.X
		case *ssa.Field:
			if f := FieldOf(x); f != nil {
				out = append(out, f.Origin())
			}
			v = x.X
		case *ssa.IndexAddr:
			v = x.X
		case *ssa.Slice:
			v = x.X
		case *ssa.UnOp:
			v = x.X
		case *ssa.ChangeType:
			v = x.X
		case *ssa.Convert:
			v = x.X
		default:
			return out
		}
	}
	return out
}

func objFieldsIn(slice map[ssa.Value]bool, obj *ssa.Parameter) map[*types.Var]bool {
	out := map[*types.Var]bool{}
	for v := range slice {
		switch v.(type) {
		case *ssa.FieldAddr, *ssa.Field:
			if objRoot(v, obj) {
				for _, f := range objFieldsOnPath(v, obj) {
					out[f] = true
				}
			}
		}
	}
	return out
}

// dtoStructOf returns the named struct type (declared in pkg) a value's type
// denotes, through pointers.
func dtoStructOf(t types.Type, pkg *types.Package) *types.Named {
	for {
		if pt, ok := t.Underlying().(*types.Pointer); ok {
			t = pt.Elem()
			continue
		}
		break
	}
	n, ok := t.(*types.Named)
	if !ok || n.Obj().Pkg() != pkg {
		return nil
	}
	if _, ok := n.Underlying().(*types.Struct); !ok {
		return nil
	}
	return n
}

func fieldSetString(m map[*types.Var]bool) string {
	var s []string
	for f := range m {
		s = append(s, f.Name())
	}
	sort.Strings(s)
	return "{" + strings.Join(s, ",") + "}"
}

// SymmetryReport is the outcome of comparing a save function with its load.
type SymmetryReport struct {
	DTOTypes  []string
	DTOFields int
	Problems  []string
}

// ckptSymmetry compares save and load. objS/objL are the parameters holding the
// object being saved/restored. required lists object fields that must be carried
// both ways (nil: not checked).
func ckptSymmetry(save, load *ssa.Function, objS, objL *ssa.Parameter, required []*types.Var) SymmetryReport {
	var rep SymmetryReport
	pkg := save.Pkg.Pkg
	// DTO types: structs of the same package allocated in save
	dto := map[*types.TypeName]*types.Named{}
	for _, b := range save.Blocks {
		for _, in := range b.Instrs {
			if al, ok := in.(*ssa.Alloc); ok {
				if n := dtoStructOf(al.Type(), pkg); n != nil && n.Origin().Obj() != recvTypeName(save) {
					dto[n.Origin().Obj()] = n
				}
			}
		}
	}
	if len(dto) == 0 {
		rep.Problems = append(rep.Problems, "no serialised record type found in "+save.Name())
		return rep
	}
	isDTOField := func(v ssa.Value) *types.Var {
		var xt types.Type
		switch x := v.(type) {
		case *ssa.FieldAddr:
			xt = x.X.Type()
		case *ssa.Field:
			xt = x.X.Type()
		default:
			return nil
		}
		n := dtoStructOf(xt, pkg)
		if n == nil || dto[n.Origin().Obj()] == nil {
			return nil
		}
		if f := FieldOf(v); f != nil {
			return f.Origin()
		}
		return nil
	}
	// ---- save side
	R := map[*types.Var]map[*types.Var]bool{}
	set := map[*types.Var]bool{}
	for _, b := range save.Blocks {
		for _, in := range b.Instrs {
			st, ok := in.(*ssa.Store)
			if !ok {
				continue
			}
			x := isDTOField(st.Addr)
			if x == nil {
				continue
			}
			set[x] = true
			fs := objFieldsIn(DataSlice(save, st.Val), objS)
			if R[x] == nil {
				R[x] = map[*types.Var]bool{}
			}
			for f := range fs {
				R[x][f] = true
			}
		}
	}
	// ---- load side
	read := map[*types.Var]bool{}
	S := map[*types.Var]map[*types.Var]bool{}
	dtoFieldsIn := func(slice map[ssa.Value]bool) map[*types.Var]bool {
		out := map[*types.Var]bool{}
		for v := range slice {
			if x := isDTOField(v); x != nil {
				out[x] = true
			}
		}
		return out
	}
	addS := func(xs map[*types.Var]bool, fs []*types.Var) {
		for x := range xs {
			if S[x] == nil {
				S[x] = map[*types.Var]bool{}
			}
			for _, f := range fs {
				S[x][f] = true
			}
		}
	}
	for _, b := range load.Blocks {
		for _, in := range b.Instrs {
			if v, ok := in.(ssa.Value); ok {
				if x := isDTOField(v); x != nil {
					// a field address used only as a store target is not a read
					onlyTarget := true
					if refs := v.Referrers(); refs != nil {
						for _, r := range *refs {
							if st, isSt := r.(*ssa.Store); isSt && st.Addr == v {
								continue
							}
							onlyTarget = false
						}
					}
					if !onlyTarget {
						read[x] = true
					}
				}
			}
			switch x := in.(type) {
			case *ssa.Store:
				if objRoot(x.Addr, objL) {
					addS(dtoFieldsIn(DataSlice(load, x.Val)), objFieldsOnPath(x.Addr, objL))
				}
			case ssa.CallInstruction:
				var objArgs []*types.Var
				var others []ssa.Value
				args := x.Common().Args
				if x.Common().IsInvoke() {
					args = append([]ssa.Value{x.Common().Value}, args...)
				}
				for _, a := range args {
					if objRoot(a, objL) && len(objFieldsOnPath(a, objL)) > 0 {
						objArgs = append(objArgs, objFieldsOnPath(a, objL)...)
					} else {
						others = append(others, a)
					}
				}
				if len(objArgs) > 0 && len(others) > 0 {
					addS(dtoFieldsIn(DataSlice(load, others...)), objArgs)
				}
			}
		}
	}
	// ---- verdicts
	var names []string
	for tn, n := range dto {
		names = append(names, tn.Name())
		st := n.Origin().Underlying().(*types.Struct)
		for i := 0; i < st.NumFields(); i++ {
			f := st.Field(i).Origin()
			rep.DTOFields++
			if !set[f] {
				rep.Problems = append(rep.Problems, fmt.Sprintf("%s never sets %s.%s: that part of the state is not saved", save.Name(), tn.Name(), f.Name()))
			}
			if !read[f] {
				rep.Problems = append(rep.Problems, fmt.Sprintf("%s never reads %s.%s: that part of the saved state is not restored (or not checked)", load.Name(), tn.Name(), f.Name()))
			}
		}
	}
	sort.Strings(names)
	rep.DTOTypes = names
	for x, sx := range S {
		rx := R[x]
		if len(rx) == 0 || len(sx) == 0 {
			continue
		}
		for y, ry := range R {
			if y == x {
				continue
			}
			for f := range sx {
				if ry[f] && !rx[f] {
					rep.Problems = append(rep.Problems, fmt.Sprintf("record field %s is saved from %s but restored into %s, which is what %s was saved from (cross-wired)", x.Name(), fieldSetString(rx), f.Name(), y.Name()))
				}
			}
		}
	}
	for _, f := range required {
		ok := false
		for x, rx := range R {
			if rx[f] && S[x][f] {
				ok = true
			}
		}
		if !ok {
			rep.Problems = append(rep.Problems, fmt.Sprintf("field %s of the object is not carried through %s and back by %s", f.Name(), save.Name(), load.Name()))
		}
	}
	sort.Strings(rep.Problems)
	rep.Problems = uniqStr(rep.Problems)
	return rep
}

// isReflectNew recognises reflect.New(t).Interface() (possibly via a local).
func isReflectNew(v ssa.Value) bool {
	call, ok := v.(*ssa.Call)
	if !ok {
		return false
	}
	f, _ := calleeOf(call)
	if f == nil || f.Pkg() == nil || f.Pkg().Path() != "reflect" || f.Name() != "Interface" {
		return false
	}
	if len(call.Common().Args) == 0 {
		return false
	}
	inner, ok := call.Common().Args[0].(*ssa.Call)
	if !ok {
		return false
	}
	g, _ := calleeOf(inner)
	return g != nil && g.Pkg() != nil && g.Pkg().Path() == "reflect" && g.Name() == "New"
}

func recvTypeName(fn *ssa.Function) *types.TypeName {
	if fn.Signature.Recv() == nil {
		return nil
	}
	t := fn.Signature.Recv().Type()
	if pt, ok := t.(*types.Pointer); ok {
		t = pt.Elem()
	}
	if n, ok := t.(*types.Named); ok {
		return n.Origin().Obj()
	}
	return nil
}

// freshDecodeTargets checks every json.Unmarshal / (*json.Decoder).Decode in fn:
// the target must be the address of a local that still holds its zero value.
// Decoding into live state merges with what is already there (existing map
// entries and omitted fields survive), so the result is not the saved value.
func freshDecodeTargets(fn *ssa.Function) (sites int, problems []string) {
	for _, b := range fn.Blocks {
		for _, in := range b.Instrs {
			ci, ok := in.(ssa.CallInstruction)
			if !ok {
				continue
			}
			f, _ := calleeOf(ci)
			if f == nil || f.Pkg() == nil || f.Pkg().Path() != "encoding/json" {
				continue
			}
			var target ssa.Value
			switch f.Name() {
			case "Unmarshal":
				if len(ci.Common().Args) == 2 {
					target = ci.Common().Args[1]
				}
			case "Decode":
				if n := len(ci.Common().Args); n >= 1 {
					target = ci.Common().Args[n-1]
				}
			default:
				continue
			}
			if target == nil {
				continue
			}
			sites++
			if mi, ok := target.(*ssa.MakeInterface); ok {
				target = mi.X
			}
			if isReflectNew(target) {
				continue // reflect.New(t).Interface(): a fresh zero value by construction
			}
			al, ok := target.(*ssa.Alloc)
			if !ok {
				problems = append(problems, "decodes into "+VKey(target)+", which is not a fresh local: JSON decoding merges into existing content")
				continue
			}
			// no store into the allocation may precede the call
			dirty := false
			var walk func(v ssa.Value, depth int)
			walk = func(v ssa.Value, depth int) {
				if depth > 3 || v.Referrers() == nil {
					return
				}
				for _, r := range *v.Referrers() {
					switch x := r.(type) {
					case *ssa.Store:
						if x.Addr == v {
							if c, isC := x.Val.(*ssa.Const); isC && c.Value == nil {
								continue // explicit zero
							}
							if InstrDominates(x, ci) || Reaches(x, ci) {
								dirty = true
							}
						}
					case *ssa.FieldAddr:
						if x.X == v {
							walk(x, depth+1)
						}
					case *ssa.IndexAddr:
						if x.X == v {
							walk(x, depth+1)
						}
					}
				}
			}
			walk(al, 0)
			if dirty {
				problems = append(problems, "decodes into local "+al.Comment+" after it was given non-zero content: JSON decoding merges into existing content")
			}
		}
	}
	return sites, problems
}
