package main

import (
	"go/types"
	"strings"

	"golang.org/x/tools/go/ssa"
)

func init() {
	register("C04", PropertyMeta{
		Technique: "decision-table extraction over orderings + effect-sequence (typestate) checks on the round barrier",
		Explanation: "Decides on timing/parallelengine.go: determineWhatToRun selects a primary round iff t_primary <= t_secondary and sets the clock to that class's earliest time; " +
			"runEventsUntilConflict's inner body pops and runs an event iff its time equals now, panics for an earlier one and stops the queue for a later one, returning every queue to its channel exactly once; " +
			"every goroutine start is preceded by waitGroup.Add(1), the worker calls Handle exactly once and then Done; runRound checks out the selected class's queues, dispatches, and waits on the WaitGroup before returning; " +
			"Run re-selects only after runRound returned; Schedule rejects past events and pushes exactly once into a queue of the event's class which it returns to the same channel; (push-shape, pop-shape) the per-worker heap (EventQueueImpl) appends, stamps and sifts the last slot up on every Push and sifts the stored slice down on every pop, so the root each round reads is the earliest event.",
		NotDecided:  "behaviour under the Go scheduler's interleavings and the memory model (needs a race detector or model checker: other technique families); the (time, seq) comparison of the heap (C01).",
		Assumptions: []string{"sync.WaitGroup and channel semantics as documented", "readNow/earliestTimeInQueueGroup/Len/Peek/Time are state-reading"},
	}, runC04)
	register("C05", PropertyMeta{
		Technique: "lock-coverage analysis of Pause against the handler call sites + decision tables for the pause flag protocol",
		Explanation: "Decides, per engine: Pause is a quiescent point only if (a) it returns holding a lock that the run loop holds around every handler execution (parallel engine: pauseLock held across determineWhatToRun, runRound and its WaitGroup wait), or (b) it blocks on an acknowledgement from the run loop. " +
			"Also: the serial run loops test the pause flag before every dispatch and wait for resume when it is set; waitForResume returns only when the flag is clear; Continue clears the flag and wakes the waiter under the mutex the waiter uses. (window-contract, round-barrier, run-loop) the monitor's inspection window never resumes an engine the user paused, and the parallel engine's round barrier sits inside the pause lock (decided by the C40 and C04 code).",
		NotDecided:  "timing of the pause; that every event is still handled after Continue follows from C01's Run clause.",
		Assumptions: []string{"sync.Mutex/sync.Cond semantics as documented"},
	}, runC05)
}

func runC04(c *Ctx) {
	p := c.P
	dom := []int{0, 1, 2}
	qF := c.field("anchors", "timing", "ParallelEngine", "queues")
	sF := c.field("anchors", "timing", "ParallelEngine", "secondaryQueues")
	qcF := c.field("anchors", "timing", "ParallelEngine", "queueChan")
	scF := c.field("anchors", "timing", "ParallelEngine", "secondaryQueueChan")
	rsF := c.field("anchors", "timing", "ParallelEngine", "runningSecondaryEvents")
	wgF := c.field("anchors", "timing", "ParallelEngine", "waitGroup")
	if qF == nil || sF == nil || qcF == nil || scF == nil || rsF == nil || wgF == nil {
		return
	}
	earliest := p.LookupFunc("timing", "ParallelEngine", "earliestTimeInQueueGroup")
	readNow := p.LookupFunc("timing", "ParallelEngine", "readNow")
	writeNow := p.LookupFunc("timing", "ParallelEngine", "writeNow")
	pure := func(f *types.Func) bool { return f == earliest || f == readNow }

	// the per-worker heaps are EventQueueImpl: the round time is the root of each
	// heap, so heap order (sift after every push, sift after every pop) is what
	// "no event starts while an earlier one is pending" rests on
	pushShapeRule(c, dom, []string{"EventQueueImpl"})
	c.Floor("push-shape", 1)
	popShapeRule(c)

	// determineWhatToRun
	if f := c.fn("round-selection", "timing", "ParallelEngine", "determineWhatToRun"); f != nil {
		t := ExtractTable(p, f, TableConfig{Domain: dom, Pure: pure})
		roles := []Role{
			{Name: "tp", Match: func(a *Atom) bool { return a.Has(earliest) && a.Has(qF) }},
			{Name: "ts", Match: func(a *Atom) bool { return a.Has(earliest) && a.Has(sF) }},
		}
		CheckTable(c, "round-selection", "timing.ParallelEngine.determineWhatToRun", p.Decl(f).Pos(), t, roles, dom, nil, func(v RoleVals, r *Row) (bool, string) {
			st := r.Stores(func(e *Effect) bool { return e.RecvHas(rsF) })
			wn := r.Calls(func(e *Effect) bool { return e.Callee == writeNow })
			if len(st) != 1 || len(wn) != 1 || len(st[0].ArgV) != 1 || st[0].ArgV[0] == nil || st[0].ArgV[0].Kind != vBool || st[0].ArgV[0].atom != nil {
				return false, "must set the round class once and the clock once"
			}
			wantSecondary := !(v["tp"] <= v["ts"])
			if st[0].ArgV[0].B != wantSecondary {
				return false, "a primary round must be selected iff the earliest primary time is <= the earliest secondary time"
			}
			arg := wn[0].Args[0]
			if wantSecondary && !strings.Contains(arg, "secondaryQueues") {
				return false, "the clock must be set to the earliest secondary time in a secondary round"
			}
			if !wantSecondary && (strings.Contains(arg, "secondaryQueues") || !strings.Contains(arg, "queues")) {
				return false, "the clock must be set to the earliest primary time in a primary round"
			}
			return true, ""
		})
	}

	// runEventsUntilConflict
	if f := c.fn("conflict-loop", "timing", "ParallelEngine", "runEventsUntilConflict"); f != nil {
		runTW := p.LookupFunc("timing", "ParallelEngine", "runEventWithTempWorker")
		t := ExtractTable(p, f, TableConfig{Domain: dom, Pure: pure})
		roles := []Role{
			{Name: "nonempty", IsBool: true, Match: func(a *Atom) bool { return strings.HasPrefix(a.Key, "range-nonempty(") }},
			{Name: "len", Match: func(a *Atom) bool { return a.HasName("Len") }},
			{Name: "te", Match: func(a *Atom) bool { return a.HasName("Time") }},
			{Name: "now", Match: func(a *Atom) bool { return a.Has(readNow) }},
		}
		CheckTable(c, "conflict-loop", "timing.ParallelEngine.runEventsUntilConflict", p.Decl(f).Pos(), t, roles, dom, nil, func(v RoleVals, r *Row) (bool, string) {
			pops := r.Calls(func(e *Effect) bool { return e.Callee != nil && e.Callee.Name() == "Pop" })
			runs := r.Calls(func(e *Effect) bool { return e.Callee == runTW })
			var sends []*Effect
			for _, e := range r.Effects {
				if e.Kind == "send" {
					sends = append(sends, e)
				}
			}
			if !v.B("nonempty") {
				if len(pops)+len(runs)+len(sends) != 0 || r.Out.Kind != "return" {
					return false, "nothing to do without queues"
				}
				return true, ""
			}
			if v["len"] == 0 || v["te"] > v["now"] {
				if len(pops) != 0 || len(runs) != 0 {
					return false, "an event later than now (or an empty queue) must not be popped or run in this round"
				}
				if len(sends) != 1 || !strings.HasPrefix(sends[0].Args[0], "value-of(") {
					return false, "the queue must be returned to its channel exactly once when the round is done with it"
				}
				return true, ""
			}
			if v["te"] < v["now"] {
				if r.Out.Kind != "panic" || len(runs) != 0 {
					return false, "an event earlier than now must never be run"
				}
				return true, ""
			}
			// te == now
			if len(pops) != 1 || len(runs) != 1 {
				return false, "an event at the current instant must be popped once and run once"
			}
			if len(runs[0].Args) != 1 || !strings.Contains(runs[0].Args[0], "Peek()") {
				return false, "the event that is run must be the queue head that was examined"
			}
			if r.Out.Kind != "loop-next" {
				return false, "the queue must be re-examined after running an event"
			}
			return true, ""
		})
	}

	// runEventWithTempWorker: Add(1) before go
	if f := c.fn("barrier", "timing", "ParallelEngine", "runEventWithTempWorker"); f != nil {
		t := ExtractTable(p, f, TableConfig{Domain: dom})
		ok, why := len(t.Unsupported) == 0 && len(t.Rows) > 0, "outside the analysable fragment"
		for _, r := range t.Rows {
			add := callIndex(r, func(e *Effect) bool {
				return e.Kind == "call" && e.Callee != nil && e.Callee.Name() == "Add" && e.RecvHas(wgF) && len(e.Args) == 1 && e.Args[0] == "1"
			})
			gos := callIndex(r, func(e *Effect) bool { return e.Kind == "go" })
			ngo := 0
			for _, e := range r.Effects {
				if e.Kind == "go" {
					ngo++
				}
			}
			if ngo != 1 || add < 0 || add > gos {
				ok, why = false, "each worker goroutine must be started exactly once, after waitGroup.Add(1)"
			}
		}
		c.Check(ok, "barrier", "timing.ParallelEngine.runEventWithTempWorker", p.Decl(f).Pos(), "Add(1) precedes the go statement", why)
	}
	// every go statement of the engine lives in runEventWithTempWorker
	{
		for _, fn := range p.SrcFuncs(func(pp string) bool { return pp == ModPath+"/timing" }) {
			if !strings.Contains(p.DeclFile(fn), "parallelengine.go") {
				continue
			}
			for _, b := range fn.Blocks {
				for _, in := range b.Instrs {
					if g, isGo := in.(*ssa.Go); isGo {
						k := SSAFuncKey(fn)
						c.Check(k == "timing.ParallelEngine.runEventWithTempWorker", "barrier", "go@"+k, g.Pos(),
							"goroutine started by the barrier-protected helper", "a goroutine is started outside runEventWithTempWorker, bypassing the WaitGroup barrier")
					}
				}
			}
		}
	}

	// tempWorkerRun: exactly one Handle, then Done
	if f := c.fn("barrier", "timing", "ParallelEngine", "tempWorkerRun"); f != nil {
		t := ExtractTable(p, f, TableConfig{Domain: dom, Pure: pure})
		roles := []Role{{Name: "te", Match: func(a *Atom) bool { return a.HasName("Time") }}, {Name: "now", Match: func(a *Atom) bool { return a.Has(readNow) }}}
		CheckTable(c, "barrier", "timing.ParallelEngine.tempWorkerRun", p.Decl(f).Pos(), t, roles, dom, nil, func(v RoleVals, r *Row) (bool, string) {
			if r.Out.Kind == "panic" {
				if v["te"] < v["now"] {
					return true, ""
				}
				return false, "must not panic for an event at or after now"
			}
			h := r.Calls(func(e *Effect) bool { return e.Callee != nil && e.Callee.Name() == "Handle" })
			d := r.Calls(func(e *Effect) bool { return e.Callee != nil && e.Callee.Name() == "Done" && e.RecvHas(wgF) })
			if v["te"] < v["now"] {
				return false, "an event in the past must not be handled"
			}
			if len(h) != 1 || len(d) != 1 || h[0].Gen > d[0].Gen {
				return false, "the worker must handle its event exactly once and then signal Done exactly once"
			}
			if len(h[0].Args) != 1 || !strings.Contains(h[0].RecvS, "HandlerID()") {
				return false, "the handler must be looked up by the event's handler id and receive the event"
			}
			return true, ""
		})
	}

	// runRound
	if f := c.fn("round-barrier", "timing", "ParallelEngine", "runRound"); f != nil {
		empty := p.LookupFunc("timing", "ParallelEngine", "emptyQueueChan")
		ruc := p.LookupFunc("timing", "ParallelEngine", "runEventsUntilConflict")
		t := ExtractTable(p, f, TableConfig{Domain: dom})
		roles := []Role{{Name: "sec", IsBool: true, Match: func(a *Atom) bool { return a.Has(rsF) }}}
		CheckTable(c, "round-barrier", "timing.ParallelEngine.runRound", p.Decl(f).Pos(), t, roles, dom, nil, func(v RoleVals, r *Row) (bool, string) {
			e1 := r.Calls(func(e *Effect) bool { return e.Callee == empty })
			e2 := r.Calls(func(e *Effect) bool { return e.Callee == ruc })
			w := r.Calls(func(e *Effect) bool { return e.Callee != nil && e.Callee.Name() == "Wait" && e.RecvHas(wgF) })
			if len(e1) != 1 || len(e2) != 1 || len(w) != 1 || !(e1[0].Gen < e2[0].Gen && e2[0].Gen < w[0].Gen) {
				return false, "a round must check out the queues, dispatch, and then wait for every worker before returning"
			}
			wantQ, wantC := "e.queues", "e.queueChan"
			if v.B("sec") {
				wantQ, wantC = "e.secondaryQueues", "e.secondaryQueueChan"
			}
			for _, e := range []*Effect{e1[0], e2[0]} {
				if len(e.Args) != 2 || !strings.HasSuffix(e.Args[0], strings.TrimPrefix(wantQ, "e")) || !strings.HasSuffix(e.Args[1], strings.TrimPrefix(wantC, "e")) {
					return false, "the round must operate on the queues and the channel of the selected class (" + wantQ + ", " + wantC + ")"
				}
			}
			return true, ""
		})
	}

	// emptyQueueChan: one receive per queue
	if f := c.fn("queue-checkout", "timing", "ParallelEngine", "emptyQueueChan"); f != nil {
		t := ExtractTable(p, f, TableConfig{Domain: dom})
		roles := []Role{{Name: "nonempty", IsBool: true, Match: func(a *Atom) bool { return strings.HasPrefix(a.Key, "range-nonempty(queues") }}}
		CheckTable(c, "queue-checkout", "timing.ParallelEngine.emptyQueueChan", p.Decl(f).Pos(), t, roles, dom, nil, func(v RoleVals, r *Row) (bool, string) {
			n := 0
			for _, e := range r.Effects {
				if strings.HasPrefix(e.Str, "<-queueChan") {
					n++
				}
			}
			if v.B("nonempty") && n != 1 {
				return false, "one queue must be received from the channel per queue of the class"
			}
			if !v.B("nonempty") && n != 0 {
				return false, "no receive without a queue"
			}
			return true, ""
		})
	}

	// Run: Lock; determineWhatToRun; runRound; Unlock — and return only when no event remains
	if f := c.fn("run-loop", "timing", "ParallelEngine", "Run"); f != nil {
		hme := p.LookupFunc("timing", "ParallelEngine", "hasMoreEvents")
		dwr := p.LookupFunc("timing", "ParallelEngine", "determineWhatToRun")
		rr := p.LookupFunc("timing", "ParallelEngine", "runRound")
		plF := c.field("run-loop", "timing", "ParallelEngine", "pauseLock")
		t := ExtractTable(p, f, TableConfig{Domain: dom, Pure: func(g *types.Func) bool { return g == hme }})
		roles := []Role{{Name: "more", IsBool: true, Match: func(a *Atom) bool { return a.Has(hme) }}}
		CheckTable(c, "run-loop", "timing.ParallelEngine.Run", p.Decl(f).Pos(), t, roles, dom, nil, func(v RoleVals, r *Row) (bool, string) {
			d := r.Calls(func(e *Effect) bool { return e.Callee == dwr })
			rn := r.Calls(func(e *Effect) bool { return e.Callee == rr })
			if !v.B("more") {
				if r.Out.Kind != "return" || len(d)+len(rn) != 0 {
					return false, "Run must return (only) when no event remains"
				}
				return true, ""
			}
			lk := r.Calls(func(e *Effect) bool { return e.Callee != nil && e.Callee.Name() == "Lock" && e.RecvHas(plF) })
			ul := r.Calls(func(e *Effect) bool { return e.Callee != nil && e.Callee.Name() == "Unlock" && e.RecvHas(plF) })
			if r.Out.Kind != "loop-next" || len(d) != 1 || len(rn) != 1 || len(lk) != 1 || len(ul) != 1 {
				return false, "each iteration must select a round and run it once, under the pause lock"
			}
			if !(lk[0].Gen < d[0].Gen && d[0].Gen < rn[0].Gen && rn[0].Gen < ul[0].Gen) {
				return false, "the round must be selected and completed while the pause lock is held (Lock; determineWhatToRun; runRound; Unlock)"
			}
			return true, ""
		})
	}

	// hasMore*: each class inspects its own queues; hasMoreEvents is their disjunction
	for _, pair := range [][2]string{{"hasMorePrimaryEvents", "queues"}, {"hasMoreSecondaryEvents", "secondaryQueues"}} {
		f := c.fn("has-more", "timing", "ParallelEngine", pair[0])
		if f == nil {
			continue
		}
		fld := qF
		if pair[1] == "secondaryQueues" {
			fld = sF
		}
		t := ExtractTable(p, f, TableConfig{Domain: dom})
		roles := []Role{
			{Name: "nonempty", IsBool: true, Match: func(a *Atom) bool {
				return strings.HasPrefix(a.Key, "range-nonempty(") && a.Key == "range-nonempty(e."+pair[1]+")"
			}},
			{Name: "len", Match: func(a *Atom) bool { return a.HasName("Len") }},
		}
		_ = fld
		CheckTable(c, "has-more", "timing.ParallelEngine."+pair[0], p.Decl(f).Pos(), t, roles, dom, nil, func(v RoleVals, r *Row) (bool, string) {
			if r.Out.Kind == "return" && len(r.Out.Vals) == 1 && r.Out.Vals[0].Kind == vBool {
				got := r.Out.Vals[0].B
				if !v.B("nonempty") && got {
					return false, "no queue of the class: must report no events"
				}
				if v.B("nonempty") && got != (v["len"] > 0) {
					return false, "a non-empty queue of the class must be reported, an empty one must not"
				}
				return true, ""
			}
			if r.Out.Kind == "loop-next" && v.B("nonempty") && v["len"] == 0 {
				return true, ""
			}
			return false, "unexpected outcome " + r.Out.Kind
		})
	}
	if f := c.fn("has-more", "timing", "ParallelEngine", "hasMoreEvents"); f != nil {
		hp := p.LookupFunc("timing", "ParallelEngine", "hasMorePrimaryEvents")
		hs := p.LookupFunc("timing", "ParallelEngine", "hasMoreSecondaryEvents")
		t := ExtractTable(p, f, TableConfig{Domain: dom, Pure: func(g *types.Func) bool { return g == hp || g == hs }})
		roles := []Role{{Name: "p", IsBool: true, Match: func(a *Atom) bool { return a.Has(hp) }}, {Name: "s", IsBool: true, Match: func(a *Atom) bool { return a.Has(hs) }}}
		CheckTable(c, "has-more", "timing.ParallelEngine.hasMoreEvents", p.Decl(f).Pos(), t, roles, dom, nil, func(v RoleVals, r *Row) (bool, string) {
			if r.Out.Kind != "return" || len(r.Out.Vals) != 1 || r.Out.Vals[0].Kind != vBool {
				return false, "must return a boolean"
			}
			if r.Out.Vals[0].B != (v.B("p") || v.B("s")) {
				return false, "events remain iff a primary or a secondary event remains"
			}
			return true, ""
		})
	}

	// Schedule
	if f := c.fn("schedule-table", "timing", "ParallelEngine", "Schedule"); f != nil {
		t := ExtractTable(p, f, TableConfig{Domain: dom, Pure: pure})
		roles := []Role{
			{Name: "te", Match: func(a *Atom) bool { return a.HasName("Time") }},
			{Name: "now", Match: func(a *Atom) bool { return a.Has(readNow) }},
			{Name: "sec", IsBool: true, Match: func(a *Atom) bool { return a.HasName("IsSecondary") }},
		}
		CheckTable(c, "schedule-table", "timing.ParallelEngine.Schedule", p.Decl(f).Pos(), t, roles, dom, nil, func(v RoleVals, r *Row) (bool, string) {
			push := r.Calls(func(e *Effect) bool { return e.Callee != nil && e.Callee.Name() == "Push" })
			if v["te"] < v["now"] {
				if r.Out.Kind != "panic" || len(push) != 0 {
					return false, "an event earlier than now must be rejected without being queued"
				}
				return true, ""
			}
			if r.Out.Kind != "return" || len(push) != 1 {
				return false, "a non-past event must be pushed exactly once"
			}
			ch := "e.queueChan"
			if v.B("sec") {
				ch = "e.secondaryQueueChan"
			}
			if !strings.Contains(push[0].RecvS, "<-"+ch) {
				return false, "the event must be pushed into a queue checked out from its own class's channel (" + ch + ")"
			}
			nsend := 0
			for _, e := range r.Effects {
				if e.Kind == "send" {
					nsend++
					if e.RecvS != ch || !strings.Contains(e.Args[0], "<-"+ch) {
						return false, "the checked-out queue must be returned to the same channel"
					}
				}
			}
			if nsend != 1 {
				return false, "the checked-out queue must be returned exactly once"
			}
			return true, ""
		})
	}
}

func runC05(c *Ctx) {
	// the monitor pauses and resumes the engine on the user's behalf: an
	// inspection during a user pause must not resume it (no handler starts until
	// Continue is called)
	c.Sub([]string{"window-contract"}, runC40)
	p := c.P
	dom := []int{0, 1, 2}

	// ---- parallel engine: Pause returns holding pauseLock, which Run holds around each round
	if f := c.fn("pause-quiescence", "timing", "ParallelEngine", "Pause"); f != nil {
		plF := c.field("pause-quiescence", "timing", "ParallelEngine", "pauseLock")
		wgF := c.field("pause-quiescence", "timing", "ParallelEngine", "waitGroup")
		t := ExtractTable(p, f, TableConfig{Domain: dom})
		held := len(t.Rows) > 0 && len(t.Unsupported) == 0
		for _, r := range t.Rows {
			lk := r.Calls(func(e *Effect) bool {
				return e.Kind == "call" && e.Callee != nil && e.Callee.Name() == "Lock" && e.RecvHas(plF)
			})
			ul := r.Calls(func(e *Effect) bool { return e.Callee != nil && e.Callee.Name() == "Unlock" && e.RecvHas(plF) })
			if len(lk) != 1 || len(ul) != 0 {
				held = false
			}
		}
		// the run loop holds the same lock around the whole round, including the wait
		covered := false
		if run := p.LookupFunc("timing", "ParallelEngine", "Run"); run != nil {
			rr := p.LookupFunc("timing", "ParallelEngine", "runRound")
			hme := p.LookupFunc("timing", "ParallelEngine", "hasMoreEvents")
			rt := ExtractTable(p, run, TableConfig{Domain: dom, Pure: func(g *types.Func) bool { return g == hme }})
			covered = len(rt.Rows) > 0 && len(rt.Unsupported) == 0
			for _, r := range rt.Rows {
				rn := r.Calls(func(e *Effect) bool { return e.Callee == rr })
				if len(rn) == 0 {
					continue
				}
				lk := r.Calls(func(e *Effect) bool { return e.Callee != nil && e.Callee.Name() == "Lock" && e.RecvHas(plF) })
				ul := r.Calls(func(e *Effect) bool { return e.Callee != nil && e.Callee.Name() == "Unlock" && e.RecvHas(plF) })
				if len(lk) != 1 || lk[0].Gen > rn[0].Gen || (len(ul) > 0 && ul[0].Gen < rn[len(rn)-1].Gen) {
					covered = false
				}
			}
			// runRound must end by waiting for the workers
			if rrd := p.Decl(rr); rrd != nil {
				t2 := ExtractTable(p, rr, TableConfig{Domain: dom})
				for _, r := range t2.Rows {
					w := r.Calls(func(e *Effect) bool { return e.Callee != nil && e.Callee.Name() == "Wait" && e.RecvHas(wgF) })
					if len(w) == 0 || r.Effects[len(r.Effects)-1] != w[len(w)-1] {
						covered = false
					}
				}
			}
		}
		c.Check(held && covered, "pause-quiescence", "timing.ParallelEngine.Pause", p.Decl(f).Pos(),
			"Pause returns holding pauseLock; Run holds it from round selection until every worker of the round has finished",
			"Pause can return while a handler is executing: it must return holding the lock that Run holds across a whole round (including the WaitGroup wait)")
		if g := c.fn("pause-quiescence", "timing", "ParallelEngine", "Continue"); g != nil {
			t3 := ExtractTable(p, g, TableConfig{Domain: dom})
			ok := len(t3.Rows) > 0 && len(t3.Unsupported) == 0
			for _, r := range t3.Rows {
				ul := r.Calls(func(e *Effect) bool { return e.Callee != nil && e.Callee.Name() == "Unlock" && e.RecvHas(plF) })
				if len(ul) != 1 {
					ok = false
				}
			}
			c.Check(ok, "pause-quiescence", "timing.ParallelEngine.Continue", p.Decl(g).Pos(), "Continue releases the pause lock", "Continue must release the pause lock exactly once")
		}
	}

	// ---- serial engine
	pausedF := c.field("pause-flag", "timing", "SerialEngine", "paused")
	pmF := c.field("pause-flag", "timing", "SerialEngine", "pauseMu")
	pcF := c.field("pause-flag", "timing", "SerialEngine", "pauseCond")
	srlF := c.field("pause-flag", "timing", "SerialEngine", "singleRunLock")
	if pausedF == nil || pmF == nil || pcF == nil || srlF == nil {
		return
	}
	dn := p.LookupFunc("timing", "SerialEngine", "dispatchNext")
	wfr := p.LookupFunc("timing", "SerialEngine", "waitForResume")
	nme := p.LookupFunc("timing", "SerialEngine", "noMoreEvent")
	net := p.LookupFunc("timing", "SerialEngine", "nextEventTime")

	// run loops check the flag before each dispatch
	for _, name := range []string{"Run", "RunUntil"} {
		f := c.fn("pause-check", "timing", "SerialEngine", name)
		if f == nil {
			continue
		}
		t := ExtractTable(p, f, TableConfig{Domain: dom, Pure: func(g *types.Func) bool { return g == nme || g == net }})
		roles := []Role{{Name: "paused", Match: func(a *Atom) bool { return a.Has(pausedF) }}}
		CheckTable(c, "pause-check", "timing.SerialEngine."+name, p.Decl(f).Pos(), t, roles, dom, nil, func(v RoleVals, r *Row) (bool, string) {
			disp := r.Calls(func(e *Effect) bool { return e.Callee == dn && e.Kind == "call" })
			if len(disp) == 0 {
				return true, ""
			}
			wait := r.Calls(func(e *Effect) bool { return e.Callee == wfr && e.Kind == "call" })
			if v["paused"] != 0 && (len(wait) != 1 || wait[0].Gen > disp[0].Gen) {
				return false, "with the pause flag set the loop must wait for resume before dispatching the next event"
			}
			return true, ""
		})
	}

	// waitForResume returns only when the flag is clear
	if f := c.fn("pause-flag", "timing", "SerialEngine", "waitForResume"); f != nil {
		t := ExtractTable(p, f, TableConfig{Domain: dom})
		roles := []Role{{Name: "paused", Match: func(a *Atom) bool { return a.Has(pausedF) }}}
		CheckTable(c, "pause-flag", "timing.SerialEngine.waitForResume", p.Decl(f).Pos(), t, roles, dom, nil, func(v RoleVals, r *Row) (bool, string) {
			w := r.Calls(func(e *Effect) bool { return e.Callee != nil && e.Callee.Name() == "Wait" && e.RecvHas(pcF) })
			lk := r.Calls(func(e *Effect) bool { return e.Callee != nil && e.Callee.Name() == "Lock" && e.RecvHas(pmF) })
			if len(lk) != 1 {
				return false, "the flag must be re-tested under the pause mutex"
			}
			if v["paused"] != 0 {
				if r.Out.Kind != "loop-next" || len(w) != 1 || w[0].Gen < lk[0].Gen {
					return false, "while the flag is set the waiter must block on the condition variable and test again"
				}
				return true, ""
			}
			if r.Out.Kind != "return" || len(w) != 0 {
				return false, "with the flag clear the waiter must return"
			}
			return true, ""
		})
	}
	storeOf := func(r *Row, val string) []*Effect {
		return r.Calls(func(e *Effect) bool {
			return e.Callee != nil && strings.HasPrefix(e.Callee.Name(), "Store") && len(e.Args) == 2 && strings.Contains(e.Args[0], "paused") && e.Args[1] == val
		})
	}
	if f := c.fn("pause-flag", "timing", "SerialEngine", "Pause"); f != nil {
		t := ExtractTable(p, f, TableConfig{Domain: dom})
		ok := len(t.Rows) > 0 && len(t.Unsupported) == 0
		for _, r := range t.Rows {
			if len(storeOf(r, "1")) != 1 || len(storeOf(r, "0")) != 0 {
				ok = false
			}
		}
		c.Check(ok, "pause-flag", "timing.SerialEngine.Pause", p.Decl(f).Pos(), "Pause sets the flag", "Pause must set the pause flag on every path")
	}
	if f := c.fn("pause-flag", "timing", "SerialEngine", "Continue"); f != nil {
		t := ExtractTable(p, f, TableConfig{Domain: dom})
		ok, why := len(t.Rows) > 0 && len(t.Unsupported) == 0, "outside the analysable fragment"
		for _, r := range t.Rows {
			st := storeOf(r, "0")
			bc := r.Calls(func(e *Effect) bool {
				return e.Kind == "call" && e.Callee != nil && (e.Callee.Name() == "Broadcast" || e.Callee.Name() == "Signal") && e.RecvHas(pcF)
			})
			lk := r.Calls(func(e *Effect) bool {
				return e.Kind == "call" && e.Callee != nil && e.Callee.Name() == "Lock" && e.RecvHas(pmF)
			})
			if len(st) != 1 || len(bc) != 1 || len(lk) != 1 || !(lk[0].Gen < st[0].Gen && st[0].Gen < bc[0].Gen) {
				ok, why = false, "Continue must clear the flag and then wake the waiter, both under the pause mutex (otherwise a wake-up can be lost between the waiter's test and its Wait)"
			}
			ul := r.Calls(func(e *Effect) bool {
				return e.Kind == "call" && e.Callee != nil && e.Callee.Name() == "Unlock" && e.RecvHas(pmF)
			})
			if len(ul) > 0 && len(bc) > 0 && ul[0].Gen < bc[0].Gen {
				ok, why = false, "the waiter must be woken before the pause mutex is released"
			}
		}
		c.Check(ok, "pause-flag", "timing.SerialEngine.Continue", p.Decl(f).Pos(), "Continue clears the flag and broadcasts under pauseMu", why)
	}

	// lock coverage for the serial engine (quiescence)
	if f := c.fn("pause-quiescence", "timing", "SerialEngine", "Pause"); f != nil {
		t := ExtractTable(p, f, TableConfig{Domain: dom})
		heldOnReturn := map[string]bool{}
		blocks := false
		for _, r := range t.Rows {
			held := map[string]bool{}
			for _, e := range r.Effects {
				if e.Callee == nil {
					if strings.HasPrefix(e.Str, "<-") {
						blocks = true
					}
					continue
				}
				switch e.Callee.Name() {
				case "Lock":
					if e.Kind == "call" {
						held[e.RecvS] = true
					}
				case "Unlock":
					delete(held, e.RecvS)
				case "Wait":
					blocks = true
				}
			}
			for k := range held {
				heldOnReturn[k] = true
			}
		}
		// locks held around the handler call in the run loops
		runHeld := map[string]bool{}
		if run := p.LookupFunc("timing", "SerialEngine", "Run"); run != nil {
			rt := ExtractTable(p, run, TableConfig{Domain: dom, Pure: func(g *types.Func) bool { return g == nme }})
			for _, r := range rt.Rows {
				held := map[string]bool{}
				for _, e := range r.Effects {
					if e.Callee == nil {
						continue
					}
					if e.Callee == dn {
						for k := range held {
							runHeld[k] = true
						}
					}
					switch {
					case e.Callee.Name() == "Lock" && e.Kind == "call":
						held[e.RecvS] = true
					case e.Callee.Name() == "Unlock" && e.Kind == "call":
						delete(held, e.RecvS)
					}
				}
			}
		}
		common := false
		for k := range heldOnReturn {
			if runHeld[k] {
				common = true
			}
		}
		c.Check(common || blocks, "pause-quiescence", "timing.SerialEngine.Pause", p.Decl(f).Pos(),
			"Pause synchronises with handler execution",
			"Pause can return while a handler is executing: the run loop executes handlers holding only singleRunLock, Pause acquires only pauseMu (released on return) and does not wait for an acknowledgement from the loop; schedule: goroutine A is inside dispatchNext→Handle, goroutine B calls Pause, takes the free pauseMu, stores the flag and returns while A's handler still runs")
	}

	// who may write the pause flag: only Pause and Continue (and construction)
	if pausedF != nil {
		fns := p.SrcFuncs(func(pp string) bool { return pp == pkgPath("timing") })
		n := 0
		for _, fn := range fns {
			for _, b := range fn.Blocks {
				for _, in := range b.Instrs {
					writes := false
					switch x := in.(type) {
					case *ssa.Store:
						if fo := FieldOf(x.Addr); fo != nil && sameObj(fo, pausedF) {
							writes = true
						}
					case ssa.CallInstruction:
						nm, pk := calleeNamePkg(x)
						if pk == "sync/atomic" && (strings.HasPrefix(nm, "Store") || strings.HasPrefix(nm, "Swap") || strings.HasPrefix(nm, "CompareAndSwap") || strings.HasPrefix(nm, "Add")) && len(x.Common().Args) > 0 {
							if fo := FieldOf(x.Common().Args[0]); fo != nil && sameObj(fo, pausedF) {
								writes = true
							}
						}
					}
					if !writes {
						continue
					}
					n++
					owner := fn.Name() == "Pause" || fn.Name() == "Continue" || strings.HasPrefix(fn.Name(), "NewSerialEngine")
					c.Check(owner, "pause-flag-ownership", SSAFuncKey(fn)+"@paused", in.Pos(), "the pause flag is written only by Pause and Continue",
						SSAFuncKey(fn)+" writes the engine's pause flag: a Pause requested before or between runs is then silently discarded, so handlers start although Continue was never called")
				}
			}
		}
		c.Check(n >= 2, "pause-flag-ownership", "instances", 0, "writes of the pause flag found", "fewer than two writes of the pause flag were found")
	}
}
