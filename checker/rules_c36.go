package main

import (
	"go/types"
	"strings"
)

func init() {
	register("C36", PropertyMeta{
		Technique: "decision-table extraction of the DBTracer event handlers compared with a reference recording automaton",
		Explanation: "Decides on tracing/dbtracer.go, for every combination of (task known, tracing on, marked for recording): StartTask creates or updates the entry with all six fields from the event and marks it for recording exactly when tracing is on — also when the entry pre-exists from a tag or milestone; StartTracing turns tracing on, records the window's start time and marks every running task; " +
			"EndTask on an unknown task does nothing, on a known task removes the entry and — exactly when it is marked — writes one trace row carrying ID, parent, kind, what, location, start and the event's end time, then every milestone and every tag of the task; unmarked tasks write nothing; AddMilestone appends unless a milestone with the same time exists (and only then), creating a placeholder entry for an unknown task; AddTaskTag always appends; " +
			"StopTracing writes one segment row (window start, current time) and turns tracing off; every handler holds the tracer's mutex for its whole body. StartTracing and StopTracing consult isTracing: a start inside an open window does not move the window's start, a stop without an open window records no segment.",
		NotDecided:  "the backend's persistence (C34), termination ordering across goroutines, and histories' global exactly-once (follows from the per-event automaton given unique task IDs).",
		Assumptions: []string{"task IDs are unique (C41)"},
	}, runC36)
}

func runC36(c *Ctx) {
	p := c.P
	rel := "tracing"
	lockHeld := func(r *Row) bool {
		l := callIndex(r, func(e *Effect) bool {
			return e.Callee != nil && e.Callee.Name() == "Lock" && strings.HasSuffix(e.RecvS, ".mu")
		})
		if l != 0 {
			return false
		}
		for _, e := range r.Effects {
			if e.Kind == "defer" && e.Callee != nil && e.Callee.Name() == "Unlock" {
				return true
			}
		}
		return false
	}
	inserts := func(r *Row, table string) []*Effect {
		return r.Calls(func(e *Effect) bool {
			return e.Callee != nil && e.Callee.Name() == "InsertData" && len(e.Args) > 0 && e.Args[0] == table
		})
	}
	// unexported helpers of the tracer itself (an extracted block of one of its operations) are interpreted in place
	inl := func(g *types.Func) bool {
		sg, _ := g.Type().(*types.Signature)
		return sg != nil && sg.Recv() != nil && !g.Exported() && strings.HasSuffix(sg.Recv().Type().String(), "tracing.DBTracer")
	}
	known := Role{Name: "known", IsBool: true, Match: func(a *Atom) bool { return strings.HasPrefix(a.Key, "ok(") && strings.Contains(a.Key, "tracingTasks[") }}
	tracing := Role{Name: "tracing", IsBool: true, Match: func(a *Atom) bool { return strings.HasSuffix(a.Key, ".isTracing") }}
	marked := Role{Name: "marked", IsBool: true, Match: func(a *Atom) bool { return strings.HasSuffix(a.Key, ".toRecord") }}

	if f := c.fn("start-task", rel, "DBTracer", "StartTask"); f != nil {
		t := ExtractTable(p, f, TableConfig{Inline: inl})
		CheckTable(c, "start-task", "tracing.DBTracer.StartTask", p.Decl(f).Pos(), t, []Role{known, tracing}, nil, nil, func(v RoleVals, r *Row) (bool, string) {
			if r.Out.Kind == "panic" {
				return true, ""
			}
			if !lockHeld(r) {
				return false, "the handler must hold the tracer's mutex for its whole body"
			}
			for _, fld := range [][2]string{{"ID", "ID"}, {"ParentID", "ParentID"}, {"Kind", "Kind"}, {"What", "What"}, {"Location", "Location"}, {"StartTime", "Time"}} {
				st := r.Stores(func(e *Effect) bool { return strings.HasSuffix(e.RecvS, "."+fld[0]) })
				if len(st) != 1 || !strings.HasSuffix(st[0].Args[0], "."+fld[1]) {
					return false, "the task's " + fld[0] + " must be recorded from the start event's " + fld[1]
				}
			}
			if !v.B("known") {
				if len(r.Stores(func(e *Effect) bool {
					return strings.Contains(e.RecvS, "tracingTasks[") && strings.HasSuffix(e.RecvS, "]")
				})) != 1 {
					return false, "a task not yet known must be entered into the running-task table"
				}
			}
			mk := r.Stores(func(e *Effect) bool { return strings.HasSuffix(e.RecvS, ".toRecord") })
			isMarked := len(mk) > 0 && mk[len(mk)-1].Args[0] == "true"
			for _, e := range r.Effects { // marked at construction
				if e.Kind == "store" && strings.Contains(e.Str, "toRecord: true") {
					isMarked = true
				}
				if e.Kind == "store" && len(mk) == 0 && strings.HasSuffix(strings.TrimSuffix(literalField(e.Str, "toRecord"), "}"), ".isTracing") {
					isMarked = v.B("tracing") // constructed with the current tracing flag
				}
			}
			if v.B("tracing") && !isMarked {
				return false, "a task that starts while tracing is on must be marked for recording — also when its entry already exists because a tag or milestone mentioned it first; otherwise it is missing from the trace"
			}
			if !v.B("tracing") && len(mk) > 0 && mk[len(mk)-1].Args[0] == "true" {
				return false, "a task that starts while tracing is off must not be marked (it is marked by StartTracing if still running then)"
			}
			return true, ""
		})
	}
	if f := c.fn("start-tracing", rel, "DBTracer", "StartTracing"); f != nil {
		t := ExtractTable(p, f, TableConfig{Inline: inl})
		ne := Role{Name: "running", IsBool: true, Match: func(a *Atom) bool {
			return strings.HasPrefix(a.Key, "range-nonempty(") && strings.Contains(a.Key, "tracingTasks")
		}}
		CheckTable(c, "start-tracing", "tracing.DBTracer.StartTracing", p.Decl(f).Pos(), t, []Role{ne}, nil, nil, func(v RoleVals, r *Row) (bool, string) {
			if !lockHeld(r) {
				return false, "must hold the mutex"
			}
			// a second StartTracing while a window is open must not move the window's
			// start: the segment written at StopTracing would no longer cover the tasks
			// recorded since the first start
			already := r.Atom(func(a *Atom) bool { return a.IsBool && strings.HasSuffix(a.Key, ".isTracing") })
			if already == nil {
				return false, "must look at whether a tracing window is already open (a second start would overwrite the window's start time and truncate its segment)"
			}
			if already.B {
				if len(r.Stores(func(e *Effect) bool { return strings.HasSuffix(e.RecvS, ".tracingStartTime") })) != 0 {
					return false, "with a window already open the recorded start time must not change"
				}
				return true, ""
			}
			on := r.Stores(func(e *Effect) bool { return strings.HasSuffix(e.RecvS, ".isTracing") })
			if len(on) != 1 || on[0].Args[0] != "true" {
				return false, "must turn tracing on"
			}
			ts := r.Stores(func(e *Effect) bool { return strings.HasSuffix(e.RecvS, ".tracingStartTime") })
			if len(ts) != 1 || !strings.Contains(ts[0].Args[0], "CurrentTime()") {
				return false, "must record the window's start time from the clock"
			}
			if v.B("running") {
				mk := r.Stores(func(e *Effect) bool {
					return strings.HasSuffix(e.RecvS, ".toRecord") && strings.Contains(e.RecvS, "value-of(")
				})
				if len(mk) != 1 || mk[0].Args[0] != "true" {
					return false, "every task running when tracing is switched on overlaps the window and must be marked for recording"
				}
			}
			return true, ""
		})
	}
	if f := c.fn("end-task", rel, "DBTracer", "EndTask"); f != nil {
		t := ExtractTable(p, f, TableConfig{LoopsOnce: true, Inline: inl})
		ms := Role{Name: "milestones", IsBool: true, Match: func(a *Atom) bool {
			return strings.HasPrefix(a.Key, "range-nonempty(") && strings.HasSuffix(a.Key, ".Milestones)")
		}}
		tg := Role{Name: "tags", IsBool: true, Match: func(a *Atom) bool {
			return strings.HasPrefix(a.Key, "range-nonempty(") && strings.HasSuffix(a.Key, ".Tags)")
		}}
		CheckTable(c, "end-task", "tracing.DBTracer.EndTask", p.Decl(f).Pos(), t, []Role{known, marked, ms, tg}, nil,
			func(v RoleVals) bool { return v.B("known") || (!v.B("marked") && !v.B("milestones") && !v.B("tags")) },
			func(v RoleVals, r *Row) (bool, string) {
				if !lockHeld(r) {
					return false, "must hold the mutex"
				}
				tr, mi, ta := inserts(r, "traceTableName"), inserts(r, "milestoneTableName"), inserts(r, "tagTableName")
				del := r.Calls(func(e *Effect) bool {
					return e.Callee == nil && strings.HasPrefix(e.Str, "delete(") || (e.Callee != nil && e.Callee.Name() == "delete")
				})
				if !v.B("known") {
					if len(tr)+len(mi)+len(ta) > 0 {
						return false, "ending an unknown task must record nothing"
					}
					return true, ""
				}
				if len(del) != 1 && !strings.Contains(r.String(), "delete(") {
					return false, "an ended task must be removed from the running-task table (otherwise a second end records it twice)"
				}
				if !v.B("marked") {
					if len(tr)+len(mi)+len(ta) > 0 {
						return false, "a task that never overlapped a tracing window must not be recorded"
					}
					return true, ""
				}
				if len(tr) != 1 {
					return false, "a marked task must be written to the trace table exactly once when it ends"
				}
				row := tr[0].Args[1]
				for _, kv := range [][2]string{{"ID", ".ID"}, {"ParentID", ".ParentID"}, {"Kind", ".Kind"}, {"What", ".What"}, {"Location", ".Location"}, {"StartTime", ".StartTime)"}, {"EndTime", ".Time)"}} {
					val := literalField(row, kv[0])
					if !strings.HasSuffix(val, kv[1]) {
						return false, "the trace row's " + kv[0] + " is not taken from the task's " + strings.Trim(kv[1], ".)") + " (got " + val + ")"
					}
				}
				if v.B("milestones") && len(mi) != 1 {
					return false, "every milestone of a recorded task must be written with it"
				}
				if v.B("tags") && len(ta) != 1 {
					return false, "every tag of a recorded task must be written with it"
				}
				for _, e := range mi {
					for _, k := range []string{"ID", "TaskID", "Time", "Kind", "What"} {
						val := strings.TrimSuffix(literalField(e.Args[1], k), ")")
						if !strings.HasSuffix(val, "."+k) {
							return false, "milestone row field " + k + " is not the milestone's " + k
						}
					}
				}
				for _, e := range ta {
					for _, k := range []string{"ID", "TaskID", "Time", "What"} {
						val := strings.TrimSuffix(literalField(e.Args[1], k), ")")
						if !strings.HasSuffix(val, "."+k) {
							return false, "tag row field " + k + " is not the tag's " + k
						}
					}
				}
				return true, ""
			})
	}
	if f := c.fn("add-milestone", rel, "DBTracer", "AddMilestone"); f != nil {
		t := ExtractTable(p, f, TableConfig{LoopsOnce: true, Inline: inl})
		ne := Role{Name: "has", IsBool: true, Match: func(a *Atom) bool {
			return strings.HasPrefix(a.Key, "range-nonempty(") && strings.HasSuffix(a.Key, ".Milestones)")
		}}
		// the scanned element is the range value or an indexed element of the list
		scanned := func(k string) bool { return strings.Contains(k, "value-of(") || strings.Contains(k, ".Milestones[") }
		et := Role{Name: "et", Match: func(a *Atom) bool { return scanned(a.Key) && strings.HasSuffix(a.Key, ".Time") }}
		mt := Role{Name: "mt", Match: func(a *Atom) bool { return !scanned(a.Key) && strings.HasSuffix(a.Key, ".Time") }}
		CheckTable(c, "add-milestone", "tracing.DBTracer.AddMilestone", p.Decl(f).Pos(), t, []Role{known, ne, et, mt}, []int{0, 1, 2},
			func(v RoleVals) bool { return v.B("known") || !v.B("has") },
			func(v RoleVals, r *Row) (bool, string) {
				if !lockHeld(r) {
					return false, "must hold the mutex"
				}
				app := r.Stores(func(e *Effect) bool {
					return strings.HasSuffix(e.RecvS, ".Milestones") && strings.HasPrefix(e.Args[0], "append(")
				})
				has := v.B("has")
				// index-loop form of the scan: "non-empty" is the length the loop condition read
				if r.Atom(ne.Match) == nil {
					if la := r.Atom(func(a *Atom) bool {
						return !a.IsBool && strings.HasPrefix(a.Key, "len(") && strings.HasSuffix(a.Key, ".Milestones)")
					}); la != nil {
						has = la.I > 0
						if has && !v.B("known") {
							return true, "" // a record created by this call has no milestones: infeasible
						}
					}
				}
				dup := has && v["et"] == v["mt"]
				if dup && len(app) != 0 {
					return false, "at most one milestone per instant may be kept for a task"
				}
				if !dup && len(app) != 1 {
					return false, "a milestone at a new instant must be kept (also when kind and what repeat)"
				}
				if !v.B("known") && len(r.Stores(func(e *Effect) bool {
					return strings.Contains(e.RecvS, "tracingTasks[") && strings.HasSuffix(e.RecvS, "]")
				})) != 1 {
					return false, "a milestone that mentions an unknown task must create its entry"
				}
				return true, ""
			})
	}
	if f := c.fn("add-tag", rel, "DBTracer", "AddTaskTag"); f != nil {
		t := ExtractTable(p, f, TableConfig{Inline: inl})
		CheckTable(c, "add-tag", "tracing.DBTracer.AddTaskTag", p.Decl(f).Pos(), t, []Role{known}, nil, nil, func(v RoleVals, r *Row) (bool, string) {
			if !lockHeld(r) {
				return false, "must hold the mutex"
			}
			app := r.Stores(func(e *Effect) bool {
				return strings.HasSuffix(e.RecvS, ".Tags") && strings.HasPrefix(e.Args[0], "append(")
			})
			if len(app) != 1 {
				return false, "every tag must be kept"
			}
			if !v.B("known") && len(r.Stores(func(e *Effect) bool {
				return strings.Contains(e.RecvS, "tracingTasks[") && strings.HasSuffix(e.RecvS, "]")
			})) != 1 {
				return false, "a tag that mentions an unknown task must create its entry"
			}
			return true, ""
		})
	}
	if f := c.fn("stop-tracing", rel, "DBTracer", "StopTracing"); f != nil {
		t := ExtractTable(p, f, TableConfig{Inline: inl})
		CheckTable(c, "stop-tracing", "tracing.DBTracer.StopTracing", p.Decl(f).Pos(), t, nil, nil, nil, func(v RoleVals, r *Row) (bool, string) {
			if !lockHeld(r) {
				return false, "must hold the mutex"
			}
			seg := inserts(r, "segmentTableName")
			open := r.Atom(func(a *Atom) bool { return a.IsBool && strings.HasSuffix(a.Key, ".isTracing") })
			if open == nil {
				return false, "must look at whether a tracing window is open (a stop without one records a segment that was never captured)"
			}
			if !open.B {
				if len(seg) != 0 {
					return false, "without an open window no segment may be recorded"
				}
				return true, ""
			}
			if len(seg) != 1 {
				return false, "each tracing window must be recorded as exactly one segment"
			}
			if !strings.HasSuffix(strings.TrimSuffix(literalField(seg[0].Args[1], "StartTime"), ")"), ".tracingStartTime") || !strings.Contains(literalField(seg[0].Args[1], "EndTime"), "CurrentTime()") {
				return false, "the segment must span from the recorded window start to the current time"
			}
			off := r.Stores(func(e *Effect) bool { return strings.HasSuffix(e.RecvS, ".isTracing") })
			if len(off) != 1 || off[0].Args[0] != "false" {
				return false, "must turn tracing off"
			}
			return true, ""
		})
	}
}
