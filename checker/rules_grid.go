package main

// clock-grid: divisibility abstract interpretation over timing.Freq.
//
// A ticking component is ticked at freq.ThisTick(now) or freq.NextTick(now);
// "ticked only at multiples of its clock period" therefore rests on those
// functions (and NCyclesLater, NoEarlierThan) returning a multiple of the SAME
// period — Period(), the truncated whole-picosecond quotient. The abstract value
// "multiple of the period" is closed under: k*period, period*k, sum/difference of
// multiples, x - x%period, conversions, phis, and calls to the sibling functions
// on the same receiver.

import (
	"go/token"

	"golang.org/x/tools/go/ssa"
)

var gridFuncs = []string{"ThisTick", "NextTick", "NCyclesLater", "NoEarlierThan"}

func clockGridRule(c *Ctx, rule string) {
	p := c.P
	isGrid := map[string]bool{}
	for _, n := range gridFuncs {
		isGrid[n] = true
	}
	for _, name := range gridFuncs {
		f := c.fn(rule, "timing", "Freq", name)
		if f == nil {
			continue
		}
		fn := p.SSAFunc(f)
		if fn == nil || len(fn.Params) == 0 {
			c.Unknown(rule, "timing.Freq."+name, p.Decl(f).Pos(), "no SSA body")
			continue
		}
		recv := ssa.Value(fn.Params[0])
		var isPeriod func(v ssa.Value) bool
		isPeriod = func(v ssa.Value) bool {
			v = stripConv(v)
			switch x := v.(type) {
			case *ssa.Call:
				if sc := x.Common().StaticCallee(); sc != nil && sc.Name() == "Period" && len(x.Common().Args) == 1 && stripConv(x.Common().Args[0]) == recv {
					return true
				}
			case *ssa.BinOp:
				// psPerSecond / uint64(f), the body of Period()
				if x.Op == token.QUO && constIs(x.X, "1000000000000") && stripConv(x.Y) == recv {
					return true
				}
			}
			return false
		}
		var mult func(v ssa.Value, seen map[ssa.Value]bool) bool
		mult = func(v ssa.Value, seen map[ssa.Value]bool) bool {
			v = stripConv(v)
			if seen[v] {
				return true
			}
			seen[v] = true
			switch x := v.(type) {
			case *ssa.Const:
				return constIs(x, "0")
			case *ssa.BinOp:
				switch x.Op {
				case token.MUL:
					return isPeriod(x.X) || isPeriod(x.Y) || mult(x.X, seen) || mult(x.Y, seen)
				case token.ADD:
					return mult(x.X, seen) && mult(x.Y, seen)
				case token.SUB:
					if r, isR := stripConv(x.Y).(*ssa.BinOp); isR && r.Op == token.REM && stripConv(r.X) == stripConv(x.X) && isPeriod(r.Y) {
						return true
					}
					return mult(x.X, seen) && mult(x.Y, seen)
				}
				return isPeriod(x)
			case *ssa.Call:
				if isPeriod(x) {
					return true
				}
				if sc := x.Common().StaticCallee(); sc != nil && isGrid[sc.Name()] && sc.Signature.Recv() != nil && len(x.Common().Args) >= 1 && stripConv(x.Common().Args[0]) == recv {
					return true
				}
			case *ssa.Phi:
				for _, e := range x.Edges {
					if !mult(e, seen) {
						return false
					}
				}
				return true
			}
			return false
		}
		ok, nret := true, 0
		for _, b := range fn.Blocks {
			if ret, isRet := b.Instrs[len(b.Instrs)-1].(*ssa.Return); isRet && len(ret.Results) == 1 {
				nret++
				if !mult(ret.Results[0], map[ssa.Value]bool{}) {
					ok = false
				}
			}
		}
		c.Check(ok && nret > 0, rule, "timing.Freq."+name, p.Decl(f).Pos(), "the result is a multiple of Period() by construction",
			"the returned time is not built as a multiple of the receiver's Period() (k*period, sums of such, x - x%period): ticks scheduled through it leave the clock grid that ThisTick/Cycle use, so a component is ticked at times that are not multiples of its period")
	}
	c.Floor(rule, 4)
}
