package main

// storage-write-mask: a controller that commits the payload of a write request
// to backing storage must honour the request's dirty mask — only bytes whose mask
// bit is set may change. A function that hands a WriteReq's Data to Storage.Write
// therefore has to consult the same request's DirtyMask (nil = all bytes). The
// ideal controller and the banked memory do; a controller that does not
// overwrites the unmasked bytes of every partial write a cache sends it.

import (
	"strings"

	"golang.org/x/tools/go/ssa"
)

func storageWriteMaskRule(c *Ctx, rule string, floor int) {
	p := c.P
	n := 0
	for _, fn := range p.SrcFuncs(func(pp string) bool { return libComponentPkg(pp) && strings.HasPrefix(pp, ModPath+"/mem/") }) {
		for _, b := range fn.Blocks {
			for _, in := range b.Instrs {
				call, ok := in.(ssa.CallInstruction)
				if !ok {
					continue
				}
				name, pkg := calleeNamePkg(call)
				if name != "Write" || pkg != ModPath+"/mem" || len(call.Common().Args) < 3 {
					continue
				}
				sc := call.Common().StaticCallee()
				if sc == nil || sc.Signature.Recv() == nil || !strings.HasSuffix(sc.Signature.Recv().Type().String(), "mem.Storage") {
					continue
				}
				// does the data come from a write request's payload?
				fromReq := false
				for x := range DataSlice(fn, call.Common().Args[2]) {
					if f := FieldOf(x); f != nil && (f.Name() == "Data" || f.Name() == "WriteData") {
						owner := ""
						switch y := x.(type) {
						case *ssa.FieldAddr:
							owner = y.X.Type().String()
						case *ssa.Field:
							owner = y.X.Type().String()
						}
						if strings.Contains(owner, "WriteReq") || strings.Contains(owner, "ransaction") || strings.Contains(owner, "tx") || strings.Contains(owner, "State") {
							fromReq = true
						}
					}
				}
				if !fromReq {
					continue
				}
				n++
				// the function (or the callers' closure is not needed: the idiom is local) reads a DirtyMask
				readsMask := false
				for _, b2 := range fn.Blocks {
					for _, in2 := range b2.Instrs {
						if v, isV := in2.(ssa.Value); isV {
							if f := FieldOf(v); f != nil && strings.Contains(f.Name(), "DirtyMask") {
								readsMask = true
							}
						}
					}
				}
				c.Check(readsMask, rule, SSAFuncKey(fn)+"#Storage.Write", in.Pos(), "the write honours the request's dirty mask",
					"the payload of a write request is committed to backing storage without the request's DirtyMask being consulted: a partial (masked) write overwrites the bytes whose mask bit is false, so a later read does not return what a flat memory would hold")
			}
		}
	}
	c.Floor(rule, floor)
}
