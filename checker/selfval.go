package main

import (
	"encoding/json"
	"os"
	"os/exec"
	"path/filepath"
	"sort"
	"strings"
	"sync"
)

// thoroughExtras runs the checker's self-validation for one property: every
// mutant patch that is recorded as breaking this property must be reported, and
// every behaviour-preserving variant must stay silent. Patches are applied in
// memory (go/packages overlay) in a child process each; nothing is written to
// /repo. The outcome is recorded in the evidence and never changes the verdict
// for the tree under test.
func thoroughExtras(c *Ctx, verif, root string, extra map[string]any) {
	exe, err := os.Executable()
	if err != nil {
		return
	}
	type job struct {
		kind, name, patch string
	}
	var jobs []job
	// seeded/<name>/meta.json lists the property the change breaks
	seeded, _ := filepath.Glob(filepath.Join(verif, "seeded", "*", "patch.diff"))
	for _, p := range seeded {
		dir := filepath.Dir(p)
		mb, err := os.ReadFile(filepath.Join(dir, "meta.json"))
		if err != nil {
			continue
		}
		var m struct {
			Property   string   `json:"property"`
			DetectedBy []string `json:"detected_by"`
		}
		if json.Unmarshal(mb, &m) != nil {
			continue
		}
		match := m.Property == c.Prop
		for _, d := range m.DetectedBy {
			if d == c.Prop {
				match = true
			}
		}
		if match {
			jobs = append(jobs, job{"mutant", "seeded/" + filepath.Base(dir), p})
		}
	}
	mut, _ := filepath.Glob(filepath.Join(verif, "mutants", c.Prop, "*.patch"))
	for _, p := range mut {
		jobs = append(jobs, job{"mutant", "mutants/" + c.Prop + "/" + filepath.Base(p), p})
	}
	ben, _ := filepath.Glob(filepath.Join(verif, "benign", c.Prop, "*.patch"))
	for _, p := range ben {
		jobs = append(jobs, job{"benign", "benign/" + c.Prop + "/" + filepath.Base(p), p})
	}
	sort.Slice(jobs, func(i, j int) bool { return jobs[i].name < jobs[j].name })
	type res struct {
		Name    string `json:"name"`
		Kind    string `json:"kind"`
		Outcome string `json:"outcome"`
		Report  string `json:"report,omitempty"`
	}
	results := make([]res, len(jobs))
	sem := make(chan struct{}, 4)
	var wg sync.WaitGroup
	for i, j := range jobs {
		wg.Add(1)
		go func(i int, j job) {
			defer wg.Done()
			sem <- struct{}{}
			defer func() { <-sem }()
			cmd := exec.Command(exe, "-p", c.Prop, "-root", root, "-verif", verif, "-patch", j.patch, "-no-evidence")
			out, err := cmd.CombinedOutput()
			r := res{Name: j.name, Kind: j.kind}
			code := 0
			if ee, ok := err.(*exec.ExitError); ok {
				code = ee.ExitCode()
			}
			switch {
			case code == 3:
				r.Outcome = "skipped: tree drifted"
			case code == 1:
				r.Outcome = "reported"
				for _, l := range strings.Split(string(out), "\n") {
					if strings.Contains(l, "VIOLATED") || strings.Contains(l, "UNDECIDED") {
						r.Report = l
						break
					}
				}
			case code == 0:
				r.Outcome = "silent"
			default:
				r.Outcome = "error"
				r.Report = string(out)
			}
			results[i] = r
		}(i, j)
	}
	wg.Wait()
	killed, mutants, silent, benign := 0, 0, 0, 0
	for _, r := range results {
		if r.Kind == "mutant" && !strings.HasPrefix(r.Outcome, "skipped") {
			mutants++
			if r.Outcome == "reported" {
				killed++
			}
		}
		if r.Kind == "benign" && !strings.HasPrefix(r.Outcome, "skipped") {
			benign++
			if r.Outcome == "silent" {
				silent++
			}
		}
	}
	extra["self_validation"] = map[string]any{
		"mutants_killed": killed, "mutants_total": mutants,
		"benign_silent": silent, "benign_total": benign,
		"results": results,
	}
}
