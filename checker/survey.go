package main

import (
	"fmt"
	"sort"
	"strings"
)

// libComponentPkg selects the packages whose runtime code must keep all mutable
// simulation data in component State.
func libComponentPkg(pp string) bool {
	if clientPkg(pp) {
		return false
	}
	rel := strings.TrimPrefix(pp, ModPath+"/")
	return strings.HasPrefix(rel, "mem/") || strings.HasPrefix(rel, "noc/") || rel == "mem"
}

func stateSurvey(p *Program) {
	reach := p.RuntimeClosure(func(pp string) bool { return !clientPkg(pp) })
	st := p.stateTypeClosure()
	fmt.Println("runtime closure:", len(reach), "functions; state types:", len(st))
	type key struct{ kind, typ, fields string }
	groups := map[key][]string{}
	for fn := range reach {
		root := fn
		for root.Parent() != nil {
			root = root.Parent()
		}
		if root.Pkg == nil || !libComponentPkg(root.Pkg.Pkg.Path()) {
			continue
		}
		for _, s := range StoresIn(fn) {
			if s.Class.Kind == "local" || s.Class.Kind == "state" {
				continue
			}
			if (s.Class.Kind == "param-pointee" || s.Class.Kind == "receiver-field" || s.Class.Kind == "call-result" || s.Class.Kind == "free") && st[s.Class.Type] {
				continue
			}
			k := key{s.Class.Kind, s.Class.Type, strings.Join(s.Class.Fields, ".")}
			groups[k] = append(groups[k], p.Rel(s.Pos)+" "+SSAFuncKey(fn))
		}
	}
	var ks []key
	for k := range groups {
		ks = append(ks, k)
	}
	sort.Slice(ks, func(i, j int) bool { return fmt.Sprint(ks[i]) < fmt.Sprint(ks[j]) })
	for _, k := range ks {
		fmt.Printf("%s %s .%s  (%d) e.g. %s\n", k.kind, k.typ, k.fields, len(groups[k]), groups[k][0])
	}
}
