package main

import (
	"go/ast"
	"go/token"
	"go/types"
	"sort"
	"strings"

	"golang.org/x/tools/go/ssa"
)

func init() {
	register("C06", PropertyMeta{
		Technique: "effects/ownership analysis of the runtime closure (no hidden state) + save/load dependence-slice symmetry + entity-coverage audit",
		Explanation: "Decides: (1) no hidden runtime state — every store executed by the runtime closure of the memory and network component packages targets component State (through the State field, or through a pointer to a type reachable from some State type), a registered resource (Storage, page table) or a local; a store to a middleware/stage/builder field or to a package variable is reported; " +
			"(2) every concrete type handed to Register{Component,Connection,Resource,Port} in library code has both SaveCheckpoint and LoadCheckpoint; " +
			"(3) for each of the checkpoint pairs (engine, component, event-driven component, port and its buffer helper, page table, ID generator) every field of the serialised record is set by Save and read by Load, and no record field is restored into the object field another record field was saved from; " +
			"(4) every JSON decode on a load path targets a fresh zero-valued local (decoding into live state merges instead of replacing); " +
			"(5) the event queue snapshot orders a copy with the heap's own less and does not modify the queue, and restore re-pushes in the given order. (load-passive) nothing reachable from a load entry point schedules an event, ticks or notifies a component or connection, or draws an ID.",
		NotDecided:  "equality of traces and of final state for actual runs; Storage's binary format (decided under C20).",
		Assumptions: []string{"types reachable from a State type are only instantiated inside component State", "tracing/recording state is observer-side (the property says tracing off)"},
	}, runC06)
	register("C07", PropertyMeta{
		Technique: "load-path panic reachability over the module call graph + shape-check dominance (every successful return dominated by each comparison of saved and rebuilt shape) + canonical-archive structure",
		Explanation: "Decides: (1) no explicit panic/log.Panic/log.Fatal/os.Exit and no unchecked type assertion is reachable from any LoadCheckpoint, UnmarshalJSON of checkpointed types, the archive reader or the codec's decode path, except the allow-listed spec-hash marshal failure (it depends on the rebuilt Spec, not on the archive) and Buffer.Restore where every call on a load path is dominated by a length-against-capacity test; " +
			"(2) in each LoadCheckpoint every `return nil` is dominated by the passing branch of each required shape comparison (spec hash; capacity of the buffer being restored; storage capacity and unit size; log2 page size; generator kind; empty queues; known handler for every decoded event; build id; entity coverage in both directions) and the failing branch returns an error; " +
			"(3) the archive writer iterates a sorted copy, rejects duplicates, and writes only constant ModTime/Mode header fields; no wall-clock/random source in any SaveCheckpoint closure; (restore-loop-total) a loop on a load path that deposits decoded entries into the restored object deposits on every iteration it completes (no saved entry is skipped, so save/load/save cannot shrink); (4) fresh decode targets as in C06. (header-sized-allocation) no buffer on a load path is allocated with a size taken from a tar header. (gzip-drained) the archive reader reads the gzip stream to its end after the tar entries, so the checksum trailer is verified; (bounded-decoded-allocation) a count read from the checkpoint stream is compared with a bound before it sizes a map or slice.",
		NotDecided:  "byte identity of real archives; behaviour of compress/gzip and archive/tar; implicit panics on arithmetic over decoded integers (none of the load paths indexes or divides by a decoded value today — checked by the unchecked-assertion and index audit only for explicit forms).",
		Assumptions: []string{"encoding/json and the standard archive packages return errors rather than panic on malformed input"},
	}, runC07)
}

// ckptPairSpec names a save/load pair.
type ckptPairSpec struct {
	rel, recv  string
	save, load string
	objParam   int // index of the parameter holding the object (0 = receiver)
}

var ckptPairs = []ckptPairSpec{
	{"timing", "SerialEngine", "SaveCheckpoint", "LoadCheckpoint", 0},
	{"timing", "sequentialIDGenerator", "SaveCheckpoint", "LoadCheckpoint", 0},
	{"modeling", "Component", "SaveCheckpoint", "LoadCheckpoint", 0},
	{"modeling", "EventDrivenComponent", "SaveCheckpoint", "LoadCheckpoint", 0},
	{"messaging", "defaultPort", "SaveCheckpoint", "LoadCheckpoint", 0},
	{"messaging", "", "saveBuffer", "loadBuffer", 0},
	{"mem/vm", "pageTableImpl", "SaveCheckpoint", "LoadCheckpoint", 0},
}

func symmetryRule(c *Ctx, rule string) {
	p := c.P
	for _, sp := range ckptPairs {
		sf := c.fn(rule, sp.rel, sp.recv, sp.save)
		lf := c.fn(rule, sp.rel, sp.recv, sp.load)
		if sf == nil || lf == nil {
			continue
		}
		s, l := p.SSAFunc(sf), p.SSAFunc(lf)
		if s == nil || l == nil || len(s.Params) <= sp.objParam || len(l.Params) <= sp.objParam {
			c.Unknown(rule, FuncKey(sf), p.Decl(sf).Pos(), "no SSA for the pair")
			continue
		}
		rep := ckptSymmetry(s, l, s.Params[sp.objParam], l.Params[sp.objParam], nil)
		c.Check(len(rep.Problems) == 0, rule, FuncKey(sf)+"/"+sp.load, p.Decl(lf).Pos(),
			"record "+strings.Join(rep.DTOTypes, ",")+": every field set by save and read by load; no cross-wiring", strings.Join(rep.Problems, "; "))
	}
	c.Floor(rule, len(ckptPairs))
}

func freshDecodeRule(c *Ctx, rule string) {
	p := c.P
	n := 0
	for _, fn := range p.SrcFuncs(func(pp string) bool { return !clientPkg(pp) }) {
		root := fn
		for root.Parent() != nil {
			root = root.Parent()
		}
		switch root.Name() {
		case "LoadCheckpoint", "UnmarshalJSON", "loadBuffer", "decodeOne", "DecodeSlice", "decodeEvents":
		default:
			continue
		}
		sites, probs := freshDecodeTargets(fn)
		if sites == 0 {
			continue
		}
		n++
		c.Check(len(probs) == 0, rule, SSAFuncKey(fn), fn.Pos(), "decodes into fresh zero-valued locals", strings.Join(probs, "; "))
	}
	c.Floor(rule, 8)
}

func runC06(c *Ctx) {
	p := c.P
	// (1) hidden state
	reach := p.RuntimeClosure(func(pp string) bool { return !clientPkg(pp) })
	st := p.stateTypeClosure()
	resources := map[string]bool{"mem.Storage": true, "mem.storageUnit": true, "mem/vm.pageTableImpl": true, "mem/vm.processTable": true}
	nFn, nStores := 0, 0
	for fn := range reach {
		root := fn
		for root.Parent() != nil {
			root = root.Parent()
		}
		if root.Pkg == nil || !libComponentPkg(root.Pkg.Pkg.Path()) {
			continue
		}
		nFn++
		var bad []string
		var badPos token.Pos
		for _, s := range StoresIn(fn) {
			nStores++
			k := s.Class.Kind
			if k == "local" || k == "state" {
				continue
			}
			if st[s.Class.Type] || resources[s.Class.Type] {
				continue
			}
			if k != "global" && !strings.Contains(s.Class.Type, ".") {
				continue // unnamed data slices ([]byte, []bool) handed in by the caller
			}
			if k == "call-result" {
				continue // element of a freshly returned value
			}
			bad = append(bad, k+" "+s.Class.Type+" ."+strings.Join(s.Class.Fields, ".")+" at "+p.Rel(s.Pos))
			badPos = s.Pos
		}
		if len(bad) > 0 {
			c.Fail("no-hidden-state", SSAFuncKey(fn), badPos, "runtime code writes storage that no checkpoint captures: "+strings.Join(bad, "; ")+
				" (reached via "+PathTo(reach, fn)+"); mutable simulation data must live in component State or a registered resource")
		}
	}
	c.Check(nFn >= 400 && nStores >= 1500, "no-hidden-state", "<runtime closure>", 0,
		"every store of the component packages' runtime closure targets State, a registered resource or a local",
		"the runtime closure has shrunk below the size confirmed by hand")
	c.Note("no-hidden-state: %d runtime functions, %d stores classified; %d State-reachable types", nFn, nStores, len(st))

	// (2) entity coverage
	fns := p.SrcFuncs(func(pp string) bool { return !clientPkg(pp) })
	for _, s := range CallSites(fns, func(f *types.Func) bool {
		switch f.Name() {
		case "RegisterComponent", "RegisterConnection", "RegisterResource", "RegisterPort":
			return methodOf(f, "modeling", "", f.Name()) || methodOf(f, "simulation", "", f.Name())
		}
		return false
	}) {
		args := s.Args()
		if len(args) != 1 {
			continue
		}
		v := args[0]
		if mi, ok := v.(*ssa.MakeInterface); ok {
			v = mi.X
		}
		t := v.Type()
		if _, isIface := t.Underlying().(*types.Interface); isIface {
			continue // forwarded interface value: the concrete type is checked where it is made
		}
		ms := types.NewMethodSet(t)
		has := func(name string) bool { return ms.Lookup(nil, name) != nil || ms.Lookup(s.Fn.Pkg.Pkg, name) != nil }
		okBoth := has("SaveCheckpoint") && has("LoadCheckpoint")
		c.Check(okBoth, "entity-coverage", s.Callee.Name()+"@"+SSAFuncKey(s.Fn), s.Pos(), types.TypeString(t, nil)+" is checkpointable",
			"a value of type "+types.TypeString(t, nil)+" is registered as a simulation entity but has no SaveCheckpoint/LoadCheckpoint: saving fails or its state is lost")
	}
	c.Floor("entity-coverage", 15)

	// (3) symmetry, (4) decode targets
	symmetryRule(c, "save-load-symmetry")
	freshDecodeRule(c, "fresh-decode-target")
	loadReplacesRule(c, "load-replaces")
	loadPassiveRule(c, "load-passive", 40)
	loadRestoresRule(c, "load-restores", func(pp string) bool { return !clientPkg(pp) }, 5)
	savedCoversWrittenRule(c, "saved-covers-written", func(pp string) bool { return !clientPkg(pp) }, 6)

	// (5) queue snapshot / restore
	queueSnapshotRule(c, "queue-snapshot")
}

func queueSnapshotRule(c *Ctx, rule string) {
	p := c.P
	less := p.LookupFunc("timing", "eventHeap", "less")
	if f := c.fn(rule, "timing", "unsafeEventQueue", "snapshot"); f != nil && less != nil {
		fn := p.SSAFunc(f)
		evF := p.Field("timing", "unsafeEventQueue", "events")
		// a sort call whose comparator calls eventHeap.less
		usesLess := false
		sortsCopy := false
		for _, b := range fn.Blocks {
			for _, in := range b.Instrs {
				ci, ok := in.(ssa.CallInstruction)
				if !ok {
					continue
				}
				g, _ := calleeOf(ci)
				if g == nil || g.Pkg() == nil || (g.Pkg().Path() != "sort" && g.Pkg().Path() != "slices") {
					continue
				}
				for _, a := range ci.Common().Args {
					mc, isMC := a.(*ssa.MakeClosure)
					if !isMC {
						continue
					}
					cf := mc.Fn.(*ssa.Function)
					for _, cb := range cf.Blocks {
						for _, cin := range cb.Instrs {
							if cc, isCall := cin.(ssa.CallInstruction); isCall {
								if h, _ := calleeOf(cc); h != nil && sameObj(h, less) {
									usesLess = true
								}
							}
						}
					}
				}
				// first argument must not be the queue's own slice
				if len(ci.Common().Args) > 0 {
					a0 := ci.Common().Args[0]
					if mi, isMI := a0.(*ssa.MakeInterface); isMI {
						a0 = mi.X
					}
					sortsCopy = !strings.HasSuffix(VKey(a0), ".events")
				}
			}
		}
		writes := FieldWrites([]*ssa.Function{fn}, evF)
		for _, a := range fn.AnonFuncs {
			writes = append(writes, FieldWrites([]*ssa.Function{a}, evF)...)
		}
		why := ""
		switch {
		case !usesLess:
			why = "the snapshot is not ordered with the heap's own (time, seq) comparison: same-time events can be saved out of schedule order, and restore re-stamps sequence numbers in that wrong order"
		case !sortsCopy:
			why = "the snapshot sorts the queue's own storage instead of a copy, destroying the heap"
		case len(writes) > 0:
			why = "the snapshot modifies the queue"
		}
		c.Check(why == "", rule, "timing.unsafeEventQueue.snapshot", p.Decl(f).Pos(), "sorts a copy with eventHeap.less; queue untouched", why)
	}
	if f := c.fn(rule, "timing", "unsafeEventQueue", "restore"); f != nil {
		t := ExtractTable(p, f, TableConfig{LoopsOnce: true})
		ok, why := len(t.Rows) > 0 && len(t.Unsupported) == 0, "outside the analysable fragment"
		sawPush := false
		for _, r := range t.Rows {
			ne := r.Atom(func(a *Atom) bool { return strings.HasPrefix(a.Key, "range-nonempty(") })
			pushes := r.Calls(func(e *Effect) bool { return e.Kind == "call" && e.Callee != nil && e.Callee.Name() == "Push" })
			if ne != nil && ne.B {
				if len(pushes) != 1 || len(pushes[0].Args) != 1 || !strings.HasPrefix(pushes[0].Args[0], "value-of(") {
					ok, why = false, "restore must push every given event, in the given order"
				}
				sawPush = true
			}
		}
		if fd := p.Decl(f); fd != nil && ok {
			// the range must be over the parameter itself (not reversed / re-sorted)
			ast.Inspect(fd.Body, func(n ast.Node) bool {
				if rs, isRS := n.(*ast.RangeStmt); isRS {
					if _, isID := ast.Unparen(rs.X).(*ast.Ident); !isID {
						ok, why = false, "restore must iterate the given slice in order"
					}
				}
				return true
			})
		}
		c.Check(ok && sawPush, rule, "timing.unsafeEventQueue.restore", p.Decl(f).Pos(), "re-pushes in input order", why)
	}
	// the engine uses them
	if f := c.fn(rule, "timing", "SerialEngine", "SaveCheckpoint"); f != nil {
		snap := p.LookupFunc("timing", "unsafeEventQueue", "snapshot")
		n := len(CallSites([]*ssa.Function{p.SSAFunc(f)}, func(g *types.Func) bool { return g == snap }))
		c.Check(n == 2, rule, "timing.SerialEngine.SaveCheckpoint", p.Decl(f).Pos(), "both queues saved through snapshot", "both event queues must be saved through the pop-order snapshot")
	}
	if f := c.fn(rule, "timing", "SerialEngine", "LoadCheckpoint"); f != nil {
		rs := p.LookupFunc("timing", "unsafeEventQueue", "restore")
		n := len(CallSites([]*ssa.Function{p.SSAFunc(f)}, func(g *types.Func) bool { return g == rs }))
		c.Check(n == 2, rule, "timing.SerialEngine.LoadCheckpoint", p.Decl(f).Pos(), "both queues restored through restore", "both event queues must be restored through restore (re-push in pop order)")
	}
}

// shapeCheck verifies that fn contains a comparison involving an anchored value
// whose passing branch dominates every successful return and whose failing
// branch returns an error.
func shapeCheck(fn *ssa.Function, anchor func(v ssa.Value) bool) (found bool, why string) {
	type cand struct {
		blk  *ssa.BasicBlock
		pass *ssa.BasicBlock
		fail *ssa.BasicBlock
	}
	var cands []cand
	for _, b := range fn.Blocks {
		ifi, ok := b.Instrs[len(b.Instrs)-1].(*ssa.If)
		if !ok {
			continue
		}
		cond := ifi.Cond
		neg := false
		for {
			if u, isU := cond.(*ssa.UnOp); isU && u.Op == token.NOT {
				cond = u.X
				neg = !neg
				continue
			}
			break
		}
		var passTrue bool
		switch x := cond.(type) {
		case *ssa.BinOp:
			// `err != nil` is a comparison with nil, not of a saved value with a
			// rebuilt one — unless the anchor is the very call that produced err
			if isNilConst(x.X) || isNilConst(x.Y) {
				direct := false
				for _, side := range []ssa.Value{x.X, x.Y} {
					if ex, isEx := side.(*ssa.Extract); isEx && anchor(ex.Tuple) {
						direct = true
					}
					if anchor(side) {
						direct = true
					}
				}
				if !direct {
					continue
				}
			}
			switch x.Op {
			case token.EQL:
				passTrue = true
			case token.NEQ, token.GTR, token.LSS:
				passTrue = false
			default:
				continue
			}
		case *ssa.Extract: // comma-ok result
			passTrue = true
		case *ssa.Call:
			passTrue = true
		default:
			continue
		}
		if neg {
			passTrue = !passTrue
		}
		sl := DataSlice(fn, cond)
		hit := false
		for v := range sl {
			if anchor(v) {
				hit = true
				break
			}
		}
		if !hit {
			continue
		}
		c := cand{blk: b, pass: b.Succs[0], fail: b.Succs[1]}
		if !passTrue {
			c.pass, c.fail = c.fail, c.pass
		}
		cands = append(cands, c)
	}
	if len(cands) == 0 {
		return false, "no comparison of the saved value with the rebuilt one"
	}
	for _, cd := range cands {
		ok := true
		// failing branch must return a non-nil error
		if !returnsError(cd.fail) {
			ok = false
		}
		// a check made once per element inside a loop: the failing branch returning
		// an error is the whole obligation (the loop visits every element)
		if ok && inLoop(cd.blk) {
			return true, ""
		}
		for _, b := range fn.Blocks {
			ret, isRet := b.Instrs[len(b.Instrs)-1].(*ssa.Return)
			if !isRet || len(ret.Results) == 0 {
				continue
			}
			last := ret.Results[len(ret.Results)-1]
			if cst, isC := last.(*ssa.Const); isC && cst.Value == nil {
				if !(cd.pass.Dominates(b) && onlyFrom(cd.pass, cd.blk)) && cd.pass != b {
					ok = false
				}
				if cd.pass == b && !onlyFrom(cd.pass, cd.blk) {
					ok = false
				}
			}
		}
		if ok {
			return true, ""
		}
	}
	return false, "a comparison exists but a successful return is not dominated by its passing branch, or its failing branch does not return an error"
}

func isNilConst(v ssa.Value) bool {
	c, ok := v.(*ssa.Const)
	return ok && c.Value == nil
}

// inLoop reports whether a block can reach itself.
func inLoop(b *ssa.BasicBlock) bool {
	seen := map[*ssa.BasicBlock]bool{}
	var walk func(x *ssa.BasicBlock) bool
	walk = func(x *ssa.BasicBlock) bool {
		for _, s := range x.Succs {
			if s == b {
				return true
			}
			if !seen[s] {
				seen[s] = true
				if walk(s) {
					return true
				}
			}
		}
		return false
	}
	return walk(b)
}

func returnsError(b *ssa.BasicBlock) bool {
	seen := map[*ssa.BasicBlock]bool{}
	for i := 0; i < 6 && b != nil && !seen[b]; i++ {
		seen[b] = true
		switch x := b.Instrs[len(b.Instrs)-1].(type) {
		case *ssa.Return:
			if len(x.Results) == 0 {
				return false
			}
			last := x.Results[len(x.Results)-1]
			if cst, isC := last.(*ssa.Const); isC && cst.Value == nil {
				return false
			}
			return true
		case *ssa.Jump:
			b = b.Succs[0]
		default:
			return false
		}
	}
	return false
}

func runC07(c *Ctx) {
	p := c.P
	// (1) explicit panics on load paths
	roots := p.loadRoots()
	reach := p.ModCG().Reach(roots, nil)
	allow := map[string]string{
		"modeling.Component.specHash":            "marshal failure of the rebuilt Spec, not archive-derived",
		"modeling.EventDrivenComponent.specHash": "marshal failure of the rebuilt Spec, not archive-derived",
	}
	restore := p.LookupFunc("queueing", "Buffer", "Restore")
	nPanic := 0
	for fn := range reach {
		for _, s := range panicSitesIn(fn) {
			k := SSAFuncKey(fn)
			nPanic++
			if why, ok := allow[k]; ok {
				c.Ok("load-path-panic", k+"#"+s.What, s.Pos, "allow-listed: "+why)
				continue
			}
			if restore != nil && sameObj(fn.Object().(*types.Func), restore) {
				// discharged per call site below
				continue
			}
			c.Fail("load-path-panic", k+"#"+s.What, s.Pos, s.What+" is reachable while loading a checkpoint ("+PathTo(reach, fn)+"): a malformed or mismatching archive must produce an error, never a panic")
		}
		// unchecked type assertions
		for _, b := range fn.Blocks {
			for _, in := range b.Instrs {
				if ta, ok := in.(*ssa.TypeAssert); ok && !ta.CommaOk {
					if _, isIface := ta.X.Type().Underlying().(*types.Interface); isIface && ta.Pos().IsValid() {
						c.Fail("load-path-panic", SSAFuncKey(fn)+"#type-assertion", ta.Pos(), "unchecked type assertion on a load path ("+PathTo(reach, fn)+") panics on unexpected data")
					}
				}
			}
		}
	}
	// Buffer.Restore call sites on load paths must be dominated by a length check
	var reachFns []*ssa.Function
	for fn := range reach {
		reachFns = append(reachFns, fn)
	}
	for _, s := range CallSites(reachFns, func(f *types.Func) bool { return restore != nil && sameObj(f, restore) }) {
		ok := false
		args := s.Args()
		recv := s.Recv()
		if len(args) == 1 && recv != nil {
			for _, f := range FactsAt(s.Instr.Block()) {
				bo, isBO := f.Cond.(*ssa.BinOp)
				if !isBO {
					continue
				}
				lenSide, capSide := -1, -1
				for i, side := range []ssa.Value{bo.X, bo.Y} {
					if isLenOf(side, args[0]) {
						lenSide = i
					}
					if isCapacityOf(side, recv) {
						capSide = i
					}
				}
				if lenSide < 0 || capSide < 0 {
					continue
				}
				// normalise to "len OP cap"
				op := bo.Op
				if lenSide == 1 {
					op = flipOp(op)
				}
				switch {
				case op == token.GTR && !f.Truth, op == token.LEQ && f.Truth:
					ok = true
				}
			}
		}
		c.Check(ok, "load-path-panic", "Buffer.Restore@"+SSAFuncKey(s.Fn), s.Pos(), "dominated by len(elements) <= Capacity()",
			"Buffer.Restore panics when given more elements than the capacity; on a load path the call must be dominated by a check of the decoded element count against the capacity that returns an error")
	}
	c.Floor("load-path-panic", 3)
	c.Note("load closure: %d functions from %d roots; %d explicit panic sites examined", len(reach), len(roots), nPanic)

	// (2) shape checks
	type shape struct {
		rel, recv, fn, what string
		anchor              func(v ssa.Value) bool
	}
	fieldAnchor := func(rel, typ, name string) func(ssa.Value) bool {
		f := p.Field(rel, typ, name)
		return func(v ssa.Value) bool {
			switch v.(type) {
			case *ssa.FieldAddr, *ssa.Field:
				return f != nil && sameObj(FieldOf(v), f)
			}
			return false
		}
	}
	callAnchor := func(name string) func(ssa.Value) bool {
		return func(v ssa.Value) bool {
			if ci, ok := v.(*ssa.Call); ok {
				if g, _ := calleeOf(ci); g != nil && g.Name() == name {
					return true
				}
			}
			return false
		}
	}
	paramAnchor := func(name string) func(ssa.Value) bool {
		return func(v ssa.Value) bool {
			pv, ok := v.(*ssa.Parameter)
			return ok && pv.Name() == name
		}
	}
	lookupOK := func(v ssa.Value) bool {
		if lk, ok := v.(*ssa.Lookup); ok && lk.CommaOk {
			return true
		}
		return false
	}
	shapes := []shape{
		{"modeling", "Component", "LoadCheckpoint", "spec hash", callAnchor("specHash")},
		{"modeling", "EventDrivenComponent", "LoadCheckpoint", "spec hash", callAnchor("specHash")},
		{"messaging", "", "loadBuffer", "buffer capacity", callAnchor("Capacity")},
		{"mem", "Storage", "LoadCheckpoint", "storage capacity", fieldAnchor("mem", "Storage", "capacity")},
		{"mem", "Storage", "LoadCheckpoint", "storage unit size", fieldAnchor("mem", "Storage", "unitSize")},
		{"mem/vm", "pageTableImpl", "LoadCheckpoint", "log2 page size", fieldAnchor("mem/vm", "pageTableImpl", "log2PageSize")},
		{"timing", "sequentialIDGenerator", "LoadCheckpoint", "generator kind", fieldAnchor("timing", "idGeneratorCheckpoint", "Kind")},
		{"timing", "SerialEngine", "LoadCheckpoint", "empty primary queue", fieldAnchor("timing", "SerialEngine", "queue")},
		{"timing", "SerialEngine", "LoadCheckpoint", "empty secondary queue", fieldAnchor("timing", "SerialEngine", "secondaryQueue")},
		{"timing", "SerialEngine", "decodeEvents", "known handler for every decoded event", lookupOK},
		{"simulation", "Simulation", "LoadCheckpoint", "build id", paramAnchor("buildID")},
		{"simulation", "Simulation", "LoadCheckpoint", "entity coverage", callAnchor("checkpointCoverage")},
	}
	for _, sh := range shapes {
		f := c.fn("shape-check", sh.rel, sh.recv, sh.fn)
		if f == nil {
			continue
		}
		ok, why := shapeCheck(p.SSAFunc(f), sh.anchor)
		c.Check(ok, "shape-check", FuncKey(f)+"#"+sh.what, p.Decl(f).Pos(), "every successful return is dominated by the "+sh.what+" check",
			"loading must fail with an error when the "+sh.what+" differs from the rebuilt simulation: "+why)
	}
	// both buffers of a port go through loadBuffer
	if f := c.fn("shape-check", "messaging", "defaultPort", "LoadCheckpoint"); f != nil {
		lb := p.LookupFunc("messaging", "", "loadBuffer")
		n := len(CallSites([]*ssa.Function{p.SSAFunc(f)}, func(g *types.Func) bool { return g == lb }))
		c.Check(n == 2, "shape-check", "messaging.defaultPort.LoadCheckpoint#both-buffers", p.Decl(f).Pos(), "both buffers restored through the capacity-checking helper", "both port buffers must be restored through loadBuffer (capacity check)")
	}
	// coverage in both directions
	if f := c.fn("shape-check", "simulation", "Simulation", "checkpointCoverage"); f != nil {
		fn := p.SSAFunc(f)
		errRets := 0
		for _, b := range fn.Blocks {
			if ret, ok := b.Instrs[len(b.Instrs)-1].(*ssa.Return); ok && len(ret.Results) == 1 {
				if cst, isC := ret.Results[0].(*ssa.Const); !isC || cst.Value != nil {
					errRets++
				}
			}
		}
		nLookups := 0
		for _, b := range fn.Blocks {
			for _, in := range b.Instrs {
				if lk, ok := in.(*ssa.Lookup); ok && lk.CommaOk {
					nLookups++
				}
			}
		}
		c.Check(errRets >= 2 && nLookups >= 2, "shape-check", "simulation.Simulation.checkpointCoverage#both-directions", p.Decl(f).Pos(),
			"saved-but-not-rebuilt and rebuilt-but-not-saved both rejected", "the entity sets must be compared in both directions, each mismatch returning an error")
	}
	c.Floor("shape-check", 13)

	// (3) canonical archive
	archiveRule(c, "canonical-archive")
	var saveRoots []*ssa.Function
	for _, fn := range p.SrcFuncs(func(pp string) bool { return !clientPkg(pp) }) {
		if (fn.Name() == "SaveCheckpoint" || fn.Name() == "writeArchiveStream" || fn.Name() == "writeArchive") && fn.Parent() == nil {
			saveRoots = append(saveRoots, fn)
		}
	}
	sv := p.ModCG().Reach(saveRoots, nil)
	nondetRule(c, "save-nondeterminism", sv, func(pp string) bool { return !clientPkg(pp) })
	mapRangeRule(c, "save-map-iteration", func(pp string) bool {
		return strings.HasSuffix(pp, "/simulation") || strings.HasSuffix(pp, "/timing") || strings.HasSuffix(pp, "/modeling") || strings.HasSuffix(pp, "/messaging") || strings.HasSuffix(pp, "/mem") || strings.HasSuffix(pp, "/mem/vm") || strings.HasSuffix(pp, "/internal/codec")
	}, 4)
	// (4)
	var loadFns []*ssa.Function
	for fn := range reach {
		if fn.Pkg != nil && strings.HasPrefix(fn.Pkg.Pkg.Path(), ModPath) && !clientPkg(fn.Pkg.Pkg.Path()) {
			loadFns = append(loadFns, fn)
		}
	}
	sort.Slice(loadFns, func(i, j int) bool { return SSAFuncKey(loadFns[i]) < SSAFuncKey(loadFns[j]) })
	restoreLoopTotalRule(c, "restore-loop-total", loadFns, 2)
	headerSizedAllocRule(c, "header-sized-allocation", loadFns)
	boundedDecodedAllocRule(c, "bounded-decoded-allocation", loadFns)
	gzipDrainedRule(c, "gzip-drained")
	freshDecodeRule(c, "fresh-decode-target")
	symmetryRule(c, "save-load-symmetry")
}

func isLenOf(v ssa.Value, of ssa.Value) bool {
	ci, ok := v.(*ssa.Call)
	if !ok {
		return false
	}
	b, isB := ci.Common().Value.(*ssa.Builtin)
	return isB && b.Name() == "len" && len(ci.Common().Args) == 1 && ci.Common().Args[0] == of
}

func isCapacityOf(v ssa.Value, recv ssa.Value) bool {
	ci, ok := v.(*ssa.Call)
	if !ok {
		return false
	}
	f, _ := calleeOf(ci)
	if f == nil || f.Name() != "Capacity" {
		return false
	}
	cs := CallSite{Fn: ci.Parent(), Instr: ci, Callee: f}
	r := cs.Recv()
	return r != nil && VKey(r) == VKey(recv)
}

func flipOp(op token.Token) token.Token {
	switch op {
	case token.LSS:
		return token.GTR
	case token.GTR:
		return token.LSS
	case token.LEQ:
		return token.GEQ
	case token.GEQ:
		return token.LEQ
	}
	return op
}

func archiveRule(c *Ctx, rule string) {
	p := c.P
	if f := c.fn(rule, "simulation", "", "writeTarEntry"); f != nil {
		fd := p.Decl(f)
		info := p.PkgOfDecl(fd).TypesInfo
		ok, why := false, "no tar.Header literal found"
		ast.Inspect(fd.Body, func(n ast.Node) bool {
			cl, isCL := n.(*ast.CompositeLit)
			if !isCL {
				return true
			}
			tv, has := info.Types[cl]
			if !has || !strings.HasSuffix(tv.Type.String(), "tar.Header") {
				return true
			}
			ok, why = true, ""
			for _, el := range cl.Elts {
				kv, isKV := el.(*ast.KeyValueExpr)
				if !isKV {
					continue
				}
				key := kv.Key.(*ast.Ident).Name
				switch key {
				case "Name", "Size", "Typeflag", "Format":
				case "Mode":
					if v, h := info.Types[kv.Value]; !h || v.Value == nil {
						ok, why = false, "the tar entry mode must be a constant"
					}
				case "ModTime", "AccessTime", "ChangeTime":
					if !constTimeExpr(kv.Value, info) {
						ok, why = false, "tar entry "+key+" must be a constant time (e.g. time.Unix(0, 0)); anything else makes archives differ between saves"
					}
				default:
					ok, why = false, "tar header field "+key+" is written: only Name, Size, constant Mode and constant ModTime keep the archive canonical"
				}
			}
			return true
		})
		c.Check(ok, rule, "simulation.writeTarEntry", fd.Pos(), "constant header metadata", why)
	}
	if f := c.fn(rule, "simulation", "", "writeArchiveStream"); f != nil {
		fd := p.Decl(f)
		info := p.PkgOfDecl(fd).TypesInfo
		var sortedObj types.Object
		cmpOK := false
		gzTimeOK := true
		ast.Inspect(fd.Body, func(n ast.Node) bool {
			switch x := n.(type) {
			case *ast.CallExpr:
				if se, isSel := x.Fun.(*ast.SelectorExpr); isSel {
					if pk, isID := se.X.(*ast.Ident); isID && (pk.Name == "sort" || pk.Name == "slices") && len(x.Args) >= 2 {
						if a0, isA := ast.Unparen(x.Args[0]).(*ast.Ident); isA {
							sortedObj = info.ObjectOf(a0)
						}
						if fl, isFL := x.Args[1].(*ast.FuncLit); isFL {
							ast.Inspect(fl.Body, func(m ast.Node) bool {
								if be, isBE := m.(*ast.BinaryExpr); isBE && (be.Op == token.LSS || be.Op == token.GTR) {
									if strings.HasSuffix(types.ExprString(be.X), ".name") && strings.HasSuffix(types.ExprString(be.Y), ".name") {
										cmpOK = true
									}
								}
								return true
							})
						}
					}
				}
			case *ast.AssignStmt:
				for i, l := range x.Lhs {
					if se, isSel := l.(*ast.SelectorExpr); isSel && se.Sel.Name == "ModTime" && i < len(x.Rhs) {
						if !constTimeExpr(x.Rhs[i], info) {
							gzTimeOK = false
						}
					}
				}
			}
			return true
		})
		rangesSorted := false
		dupCheck := false
		ast.Inspect(fd.Body, func(n ast.Node) bool {
			if rs, isRS := n.(*ast.RangeStmt); isRS {
				if id, isID := ast.Unparen(rs.X).(*ast.Ident); isID && sortedObj != nil && info.ObjectOf(id) == sortedObj {
					rangesSorted = true
					ast.Inspect(rs.Body, func(m ast.Node) bool {
						if ifs, isIf := m.(*ast.IfStmt); isIf && ifs.Init != nil {
							if as, isAs := ifs.Init.(*ast.AssignStmt); isAs && len(as.Lhs) == 2 {
								for _, st := range ifs.Body.List {
									if _, isRet := st.(*ast.ReturnStmt); isRet {
										dupCheck = true
									}
								}
							}
						}
						return true
					})
				}
			}
			return true
		})
		why := ""
		switch {
		case sortedObj == nil || !cmpOK:
			why = "entries are not sorted by entity name before being written"
		case !rangesSorted:
			why = "the writer does not iterate the sorted copy"
		case !dupCheck:
			why = "duplicate entity names are not rejected"
		case !gzTimeOK:
			why = "the gzip header time is not constant"
		}
		c.Check(why == "", rule, "simulation.writeArchiveStream", fd.Pos(), "sorted entries, duplicates rejected, constant gzip time", why)
	}
}

func constTimeExpr(e ast.Expr, info *types.Info) bool {
	call, ok := ast.Unparen(e).(*ast.CallExpr)
	if !ok {
		if cl, isCL := ast.Unparen(e).(*ast.CompositeLit); isCL && len(cl.Elts) == 0 {
			return true // time.Time{}
		}
		return false
	}
	se, ok := call.Fun.(*ast.SelectorExpr)
	if !ok {
		return false
	}
	pk, ok := se.X.(*ast.Ident)
	if !ok || pk.Name != "time" || (se.Sel.Name != "Unix" && se.Sel.Name != "UnixMilli" && se.Sel.Name != "Date") {
		return false
	}
	for _, a := range call.Args {
		if tv, has := info.Types[a]; !has || tv.Value == nil {
			if types.ExprString(a) == "time.UTC" {
				continue
			}
			return false
		}
	}
	return true
}

// loadReplacesRule: a LoadCheckpoint that fills a container reached from its
// receiver element by element (map update, indexed store, append) must first
// replace that container with a fresh one (or have refused a non-empty one) on
// every path: the rebuilt simulation's setup may already have populated it, and
// entries absent from the checkpoint must not survive the load.
func loadReplacesRule(c *Ctx, rule string) {
	p := c.P
	n := 0
	for _, fn := range p.SrcFuncs(func(pp string) bool { return !clientPkg(pp) }) {
		if fn.Name() != "LoadCheckpoint" || fn.Signature.Recv() == nil || len(fn.Blocks) == 0 || len(fn.Params) == 0 {
			continue
		}
		recv := fn.Params[0]
		n++
		fromRecv := func(addr ssa.Value) (string, bool) {
			// the container expression: a load of a field (path) of the receiver
			for a, d := addr, 0; a != nil && d < 10; d++ {
				switch y := a.(type) {
				case *ssa.UnOp:
					if fa, ok := y.X.(*ssa.FieldAddr); ok && memRoot(fa) == ssa.Value(recv) {
						return VKey(fa), true
					}
					a = y.X
				case *ssa.IndexAddr:
					a = y.X
				case *ssa.FieldAddr:
					if memRoot(y) == ssa.Value(recv) {
						return VKey(y), true
					}
					a = y.X
				default:
					a = nil
				}
			}
			return "", false
		}
		fresh := func(v ssa.Value, key string) bool {
			switch x := v.(type) {
			case *ssa.MakeMap, *ssa.MakeSlice, *ssa.Alloc:
				return true
			case *ssa.Const:
				return x.Value == nil
			case *ssa.Call:
				for y := range DataSlice(fn, x) {
					if u, ok := y.(*ssa.UnOp); ok && VKey(u.X) == key {
						return false
					}
				}
				return true
			}
			return false
		}
		why := ""
		for _, b := range fn.Blocks {
			for _, in := range b.Instrs {
				var key string
				var ok bool
				switch x := in.(type) {
				case *ssa.MapUpdate:
					key, ok = fromRecv(x.Map)
				case *ssa.Store:
					if ia, isIA := x.Addr.(*ssa.IndexAddr); isIA {
						key, ok = fromRecv(ia.X)
					} else if call, isCall := x.Val.(*ssa.Call); isCall {
						if bi, isB := call.Call.Value.(*ssa.Builtin); isB && bi.Name() == "append" {
							if k2, ok2 := fromRecv(x.Addr); ok2 && len(call.Call.Args) > 0 && loadOfKey(call.Call.Args[0], k2) {
								key, ok = k2, true
							}
						}
					}
				}
				if !ok {
					continue
				}
				replaced := false
				for _, bb := range fn.Blocks {
					for _, in2 := range bb.Instrs {
						st, isSt := in2.(*ssa.Store)
						if !isSt || VKey(st.Addr) != key || !InstrDominates(in2, in) {
							continue
						}
						if fresh(st.Val, key) {
							replaced = true
						}
					}
				}
				// or: refused when non-empty
				if !replaced {
					for _, fact := range FactsAt(b) {
						for y := range DataSlice(fn, fact.Cond) {
							if u, isU := y.(*ssa.UnOp); isU && VKey(u.X) == key {
								if bo, isBO := fact.Cond.(*ssa.BinOp); isBO && ((bo.Op == token.EQL && fact.Truth) || (bo.Op == token.NEQ && !fact.Truth)) && (constIs(bo.Y, "0") || constIs(bo.X, "0")) {
									replaced = true
								}
							}
						}
					}
				}
				if !replaced {
					why = "LoadCheckpoint fills " + shortKey(key) + " entry by entry (" + p.Rel(in.Pos()) + ") without first replacing it with a fresh container on every path: entries the rebuilt simulation's setup put there and that are absent from the checkpoint survive the load, so the resumed run differs from the uninterrupted one"
				}
			}
		}
		c.Check(why == "", rule, SSAFuncKey(fn), fn.Pos(), "containers filled by the load are replaced first", why)
	}
	c.Floor(rule, 7)
}

// restoringOps lists the instructions of a LoadCheckpoint that put decoded data
// into the receiver: stores to receiver-rooted memory, atomic stores on receiver
// fields, and restore/Restore calls on receiver fields.
func restoringOps(fn *ssa.Function) []ssa.Instruction {
	recv := fn.Params[0]
	var out []ssa.Instruction
	for _, b := range fn.Blocks {
		for _, in := range b.Instrs {
			switch x := in.(type) {
			case *ssa.Store:
				if memRoot(x.Addr) == ssa.Value(recv) {
					out = append(out, in)
				}
			case ssa.CallInstruction:
				n, pk := calleeNamePkg(x)
				args := x.Common().Args
				if pk == "sync/atomic" && strings.HasPrefix(n, "Store") && len(args) > 0 && memRoot(args[0]) == ssa.Value(recv) {
					out = append(out, in)
				}
				if (n == "restore" || n == "Restore") && len(args) > 0 && memRoot(args[0]) == ssa.Value(recv) {
					out = append(out, in)
				}
			}
		}
	}
	return out
}

// absentPartReturn: the return is the early exit of a guard clause whose condition
// is decided by the receiver alone (the guard-clause form of
// `if c.part != nil { c.part.restore(...) }`, possibly through a predicate method
// of the receiver): nothing decoded from the stream takes part in it.
func absentPartReturn(fn *ssa.Function, r ssa.Instruction) bool {
	b := r.Block()
	for len(b.Preds) == 1 {
		pr := b.Preds[0]
		if iff, ok := pr.Instrs[len(pr.Instrs)-1].(*ssa.If); ok {
			if len(fn.Params) == 0 {
				return false
			}
			// operands only: a load of the receiver's field is decided by the receiver
			sl := map[ssa.Value]bool{}
			var walk func(v ssa.Value)
			walk = func(v ssa.Value) {
				if v == nil || sl[v] {
					return
				}
				sl[v] = true
				if in, isI := v.(ssa.Instruction); isI {
					for _, op := range in.Operands(nil) {
						if *op != nil {
							walk(*op)
						}
					}
				}
			}
			walk(iff.Cond)
			for v := range sl {
				switch x := v.(type) {
				case *ssa.Parameter:
					if x != fn.Params[0] {
						return false
					}
				case *ssa.Alloc, *ssa.Extract, *ssa.Phi, *ssa.MakeInterface, *ssa.TypeAssert, *ssa.Lookup, *ssa.Global, *ssa.FreeVar:
					return false
				case *ssa.Call:
					// a predicate of the receiver only
					if x.Common().IsInvoke() || len(x.Common().Args) != 1 || memRoot(x.Common().Args[0]) != ssa.Value(fn.Params[0]) {
						return false
					}
				}
			}
			return true
		}
		if len(pr.Succs) != 1 {
			return false
		}
		b = pr
	}
	return false
}

// loadRestoresRule: an operation of LoadCheckpoint that restores part of the
// receiver on one successful path must be performed on every successful path: a
// load that returns nil without having restored a field leaves that field at
// whatever the rebuilt (or still running) object held.
func loadRestoresRule(c *Ctx, rule string, pred func(string) bool, floor int) {
	p := c.P
	n := 0
	for _, fn := range p.SrcFuncs(pred) {
		if fn.Name() != "LoadCheckpoint" || fn.Signature.Recv() == nil || len(fn.Blocks) == 0 || len(fn.Params) == 0 {
			continue
		}
		var rets []ssa.Instruction
		for _, b := range fn.Blocks {
			if ret, ok := b.Instrs[len(b.Instrs)-1].(*ssa.Return); ok && len(ret.Results) > 0 && isNilConst(ret.Results[len(ret.Results)-1]) {
				rets = append(rets, ret)
			}
		}
		ops := restoringOps(fn)
		if len(ops) == 0 || len(rets) == 0 {
			continue
		}
		n++
		why := ""
		for _, op := range ops {
			some, all := false, true
			var missed ssa.Instruction
			for _, r := range rets {
				if InstrDominates(op, r) {
					some = true
				} else if absentPartReturn(fn, r) {
					// `if c.part == nil { return nil }`: the part this restore fills does
					// not exist in this object; nothing read from the stream decides it
				} else {
					all = false
					missed = r
				}
			}
			if some && !all {
				why = "the restore at " + p.Rel(op.Pos()) + " is skipped on the successful return at " + p.Rel(missed.Pos())
			}
		}
		c.Check(why == "", rule, SSAFuncKey(fn), fn.Pos(), "every successful path performs every restore ("+itoa(len(ops))+" restores, "+itoa(len(rets))+" successful returns)",
			why+": loading such a checkpoint reports success but leaves the object's own value in place, so the resumed run does not continue the saved one (e.g. an ID counter saved at 0 is not restored into a generator that has already advanced)")
	}
	c.Floor(rule, floor)
}

// savedCoversWrittenRule: every field of a type with SaveCheckpoint that one of
// the type's own methods stores into at run time must be read by SaveCheckpoint
// (or be a synchronisation primitive): a memo or cursor that survives only in
// memory makes behaviour depend on history that a checkpoint does not carry.
func savedCoversWrittenRule(c *Ctx, rule string, pred func(string) bool, floor int) {
	p := c.P
	cg := p.ModCG()
	n := 0
	for _, save := range p.SrcFuncs(pred) {
		if save.Name() != "SaveCheckpoint" || save.Signature.Recv() == nil || len(save.Blocks) == 0 || save.Origin() != nil {
			continue
		}
		rt := save.Signature.Recv().Type()
		if pt, ok := rt.(*types.Pointer); ok {
			rt = pt.Elem()
		}
		st, ok := rt.Underlying().(*types.Struct)
		if !ok {
			continue
		}
		named, _ := rt.(*types.Named)
		if named == nil || strings.HasSuffix(named.Obj().Name(), "Simulation") {
			continue
		}
		pkgP := named.Obj().Pkg().Path()
		inPkg := func(fn *ssa.Function) bool { return pkgOfFn(fn) == pkgP }
		read := map[*types.Var]bool{}
		for g := range cg.Reach([]*ssa.Function{save}, inPkg) {
			for _, b := range g.Blocks {
				for _, in := range b.Instrs {
					if fa, isFA := in.(*ssa.FieldAddr); isFA {
						if fo := FieldOf(fa); fo != nil {
							read[fo] = true
						}
					}
					if f, isF := in.(*ssa.Field); isF {
						if s2, isS := f.X.Type().Underlying().(*types.Struct); isS {
							read[s2.Field(f.Field)] = true
						}
					}
				}
			}
		}
		isRead := func(f *types.Var) bool {
			for r := range read {
				if sameObj(r, f) {
					return true
				}
			}
			return false
		}
		n++
		for i := 0; i < st.NumFields(); i++ {
			fld := st.Field(i)
			ts := fld.Type().String()
			if strings.HasPrefix(ts, "sync.") || strings.HasPrefix(ts, "*sync.") || fld.Embedded() {
				continue
			}
			// run-time writers: methods of the type (not Load/restore/constructors) that store the field
			writer := ""
			for _, fn := range p.SrcFuncs(func(pp string) bool { return pp == pkgP }) {
				if fn.Signature.Recv() == nil || fn.Name() == "LoadCheckpoint" || strings.HasPrefix(strings.ToLower(fn.Name()), "restore") || strings.HasPrefix(fn.Name(), "With") || strings.HasPrefix(fn.Name(), "Set") || strings.HasPrefix(fn.Name(), "Register") || strings.HasPrefix(fn.Name(), "Assign") || strings.HasPrefix(fn.Name(), "Add") || strings.HasPrefix(fn.Name(), "Declare") || strings.HasPrefix(fn.Name(), "Plug") || strings.HasPrefix(fn.Name(), "Accept") {
					continue
				}
				r2 := fn.Signature.Recv().Type()
				if pt, isP := r2.(*types.Pointer); isP {
					r2 = pt.Elem()
				}
				if n2, isN := r2.(*types.Named); !isN || n2.Origin() != named.Origin() {
					continue
				}
				for _, b := range fn.Blocks {
					for _, in := range b.Instrs {
						if s3, isSt := in.(*ssa.Store); isSt {
							if fo := FieldOf(s3.Addr); fo != nil && sameObj(fo, fld) && len(fn.Params) > 0 && memRoot(s3.Addr) == ssa.Value(fn.Params[0]) {
								writer = SSAFuncKey(fn) + " (" + p.Rel(s3.Pos()) + ")"
							}
						}
					}
				}
			}
			if writer == "" {
				continue
			}
			c.Check(isRead(fld), rule, typeShort(rt)+"."+fld.Name(), save.Pos(), "written at run time and read by SaveCheckpoint",
				"field "+fld.Name()+" of "+typeShort(rt)+" is assigned at run time by "+writer+" but SaveCheckpoint never reads it: it is run-time state that a checkpoint does not carry, so a restored object (or one that was never queried) behaves differently from the original")
		}
	}
	c.Check(n >= floor, rule, "instances", 0, "checkpointed types inspected ("+itoa(n)+")", "fewer checkpointed types than expected were inspected")
}

// restoreLoopTotalRule: a loop of LoadCheckpoint that deposits decoded entries
// into the receiver deposits on every iteration it completes: an iteration that
// reaches the loop's back edge without having deposited anything has dropped a
// saved entry, so the next SaveCheckpoint writes fewer entries than were loaded
// and the archive is no longer a fixed point of save/load/save.
func restoreLoopTotalRule(c *Ctx, rule string, fns []*ssa.Function, floor int) {
	n := 0
	for _, fn := range fns {
		if len(fn.Blocks) == 0 || len(fn.Params) == 0 || fn.Synthetic != "" {
			continue
		}
		// the restored object: the receiver, or for a plain helper any pointer parameter
		targets := map[ssa.Value]bool{}
		if fn.Signature.Recv() != nil {
			targets[fn.Params[0]] = true
		} else {
			for _, pa := range fn.Params {
				if _, isPtr := pa.Type().Underlying().(*types.Pointer); isPtr {
					targets[pa] = true
				}
			}
		}
		isT := func(v ssa.Value) bool { return targets[memRoot(v)] }
		deposit := func(in ssa.Instruction) bool {
			switch x := in.(type) {
			case *ssa.Store:
				return isT(x.Addr)
			case *ssa.MapUpdate:
				return isT(x.Map)
			case ssa.CallInstruction:
				cc := x.Common()
				if _, isB := cc.Value.(*ssa.Builtin); isB {
					return false
				}
				if cc.IsInvoke() && isT(cc.Value) {
					return true
				}
				for _, a := range cc.Args {
					if _, isPtr := a.Type().Underlying().(*types.Pointer); isPtr && isT(a) {
						return true
					}
				}
			}
			return false
		}
		for _, l := range loopsOf(fn) {
			cut := map[*ssa.BasicBlock]bool{}
			for b := range l.blocks {
				for _, in := range b.Instrs {
					if deposit(in) {
						cut[b] = true
					}
				}
			}
			if len(cut) == 0 {
				continue
			}
			n++
			// is a back edge reachable from the header without crossing a deposit?
			var skipAt *ssa.BasicBlock
			if !cut[l.header] {
				seen := map[*ssa.BasicBlock]bool{l.header: true}
				work := []*ssa.BasicBlock{l.header}
				for len(work) > 0 && skipAt == nil {
					b := work[len(work)-1]
					work = work[:len(work)-1]
					for _, s := range b.Succs {
						if s == l.header {
							skipAt = b
							break
						}
						if !l.blocks[s] || cut[s] || seen[s] {
							continue
						}
						seen[s] = true
						work = append(work, s)
					}
				}
			}
			why := ""
			if skipAt != nil {
				why = "the loop (" + posOfBlock(fn, l.header) + ") can finish an iteration (back edge from " + posOfBlock(fn, skipAt) + ") without depositing the decoded entry into the receiver: a saved entry is dropped by the load, so saving again does not reproduce the archive"
			}
			c.Check(why == "", rule, SSAFuncKey(fn)+"#loop@"+itoa(loopOrdinal(fn, l)), fn.Pos(), "every completed iteration deposits into the receiver", why)
		}
	}
	_ = n
	c.Floor(rule, floor)
}

// loopOrdinal numbers a loop by the order of its header block in the function.
func loopOrdinal(fn *ssa.Function, l *loopInfo) int {
	k := 0
	for _, b := range fn.Blocks {
		if b == l.header {
			return k
		}
		for _, s := range b.Succs {
			if s.Dominates(b) && s == b {
				break
			}
		}
		isHeader := false
		for _, pb := range b.Preds {
			if b.Dominates(pb) {
				isHeader = true
			}
		}
		if isHeader {
			k++
		}
	}
	return k
}

// loadPassiveRule: loading a checkpoint only restores state. Nothing reachable
// from a load entry point schedules an event, ticks or notifies a component or a
// connection, or draws an ID: each of those makes the resumed run handle an event
// (or hand out an ID) that the uninterrupted run never saw.
func loadPassiveRule(c *Ctx, rule string, floor int) {
	p := c.P
	roots := p.loadRoots()
	reach := p.ModCG().Reach(roots, nil)
	active := map[string]bool{"Schedule": true, "TickLater": true, "TickNow": true, "NotifyRecv": true, "NotifyPortFree": true,
		"NotifyAvailable": true, "NotifySend": true, "Generate": true, "ScheduleWakeAt": true, "ScheduleWakeNow": true}
	var fns []*ssa.Function
	for fn := range reach {
		fns = append(fns, fn)
	}
	sort.Slice(fns, func(i, j int) bool { return SSAFuncKey(fns[i]) < SSAFuncKey(fns[j]) })
	n := 0
	for _, fn := range fns {
		if fn.Pkg == nil || !strings.HasPrefix(fn.Pkg.Pkg.Path(), ModPath) || clientPkg(fn.Pkg.Pkg.Path()) {
			continue
		}
		n++
		for _, b := range fn.Blocks {
			for _, in := range b.Instrs {
				call, ok := in.(ssa.CallInstruction)
				if !ok {
					continue
				}
				name, pkg := calleeNamePkg(call)
				if !active[name] || !strings.HasPrefix(pkg, ModPath) {
					continue
				}
				c.Fail(rule, SSAFuncKey(fn)+"#"+name, in.Pos(), "a checkpoint load path calls "+name+" ("+PathTo(reach, fn)+"): loading must only restore state; an event scheduled, a component woken or an ID drawn during the load is one the uninterrupted run never had, so the resumed run diverges from it")
			}
		}
	}
	c.Check(n >= floor, rule, "<load closure>", 0, itoa(n)+" functions reachable from the load entry points inspected; none schedules, ticks, notifies or draws an ID", "the load closure has shrunk below the size confirmed by hand")
}

// headerSizedAllocRule: nothing on a load path allocates a buffer whose size is
// taken from the archive (a tar header's Size, or any decoded integer field named
// Size/Len/Length/Count of the archive structures): a hand-crafted header that
// claims 2^62 bytes makes make() panic ("len out of range") or exhaust memory
// before a single payload byte is checked.
func headerSizedAllocRule(c *Ctx, rule string, fns []*ssa.Function) {
	n := 0
	for _, fn := range fns {
		for _, b := range fn.Blocks {
			for _, in := range b.Instrs {
				ms, ok := in.(*ssa.MakeSlice)
				if !ok {
					continue
				}
				n++
				bad := ""
				for _, sz := range []ssa.Value{ms.Len, ms.Cap} {
					for y := range DataSlice(fn, sz) {
						f := FieldOf(y)
						if f == nil || f.Pkg() == nil {
							continue
						}
						if f.Pkg().Path() == "archive/tar" && f.Name() == "Size" {
							bad = "archive/tar.Header.Size"
						}
					}
				}
				c.Check(bad == "", rule, SSAFuncKey(fn)+"#make@"+itoa(n), in.Pos(), "the allocation is not sized from the archive",
					"a buffer on the checkpoint load path is allocated with a size read from "+bad+": a malformed or hand-crafted archive whose header claims an absurd size makes the load panic (makeslice: len out of range) or run out of memory instead of returning an error")
			}
		}
	}
	c.Note("%s: %d slice allocations on load paths inspected", rule, n)
}
