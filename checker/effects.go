package main

// Effects and ownership (analysis A5 of DESIGN.md): which storage does the
// runtime closure of the library write, classified by the root of the access path.

import (
	"go/token"
	"go/types"
	"sort"
	"strings"

	"golang.org/x/tools/go/callgraph"
	"golang.org/x/tools/go/ssa"
)

// runtimeRootNames are the entry points of simulation-time code.
var runtimeRootNames = map[string]bool{
	"Tick": true, "Handle": true, "Process": true, "NotifyRecv": true, "NotifyPortFree": true,
	"NotifySend": true, "NotifyAvailable": true,
}

// RuntimeClosure returns the library functions reachable (VTA call graph) from
// the runtime entry points of library packages, with one witness caller each.
func (p *Program) RuntimeClosure(libPred func(pkgPath string) bool) map[*ssa.Function]*ssa.Function {
	var roots []*ssa.Function
	for _, fn := range p.SrcFuncs(libPred) {
		if fn.Parent() == nil && runtimeRootNames[fn.Name()] && fn.Signature.Recv() != nil {
			roots = append(roots, fn)
		}
	}
	inLib := func(fn *ssa.Function) bool {
		for fn.Parent() != nil {
			fn = fn.Parent()
		}
		fn = origin(fn)
		return fn.Pkg != nil && strings.HasPrefix(fn.Pkg.Pkg.Path(), ModPath) && libPred(fn.Pkg.Pkg.Path())
	}
	return p.ModCG().Reach(roots, inLib)
}

var _ = callgraph.Graph{}

// WriteClass classifies the root of a written address.
type WriteClass struct {
	Kind   string // local | state | global | receiver-field | param-pointee | free
	Root   string // description of the root
	Type   string // named type of the root object (receiver/param pointee)
	Fields []string
}

// classifyAddr walks an address back to its root.
func classifyAddr(addr ssa.Value) WriteClass {
	var fields []string
	v := addr
	throughState := false
	for i := 0; i < 40; i++ {
		switch x := v.(type) {
		case *ssa.FieldAddr:
			f := FieldOf(x)
			if f != nil {
				fields = append(fields, f.Name())
				if f.Name() == "State" {
					throughState = true
				}
			}
			v = x.X
			continue
		case *ssa.Field:
			f := FieldOf(x)
			if f != nil {
				fields = append(fields, f.Name())
				if f.Name() == "State" {
					throughState = true
				}
			}
			v = x.X
			continue
		case *ssa.IndexAddr:
			v = x.X
			continue
		case *ssa.Index:
			v = x.X
			continue
		case *ssa.Lookup:
			v = x.X
			continue
		case *ssa.Slice:
			v = x.X
			continue
		case *ssa.UnOp:
			if x.Op == token.MUL {
				v = x.X
				continue
			}
		case *ssa.ChangeType:
			v = x.X
			continue
		case *ssa.Convert:
			v = x.X
			continue
		case *ssa.MakeInterface:
			v = x.X
			continue
		case *ssa.TypeAssert:
			v = x.X
			continue
		case *ssa.Phi:
			// follow the first non-nil edge (pointers to the same kind of object)
			if len(x.Edges) > 0 {
				v = x.Edges[0]
				continue
			}
		case *ssa.Extract:
			v = x.Tuple
			continue
		}
		break
	}
	reverse(fields)
	wc := WriteClass{Fields: fields}
	named := func(t types.Type) string {
		for {
			if pt, ok := t.Underlying().(*types.Pointer); ok {
				t = pt.Elem()
				continue
			}
			break
		}
		switch n := t.(type) {
		case *types.Named:
			if n.Obj().Pkg() != nil {
				return strings.TrimPrefix(n.Obj().Pkg().Path(), ModPath+"/") + "." + n.Obj().Name()
			}
			return n.Obj().Name()
		case *types.Alias:
			return n.Obj().Name()
		}
		return t.String()
	}
	if throughState {
		wc.Kind = "state"
		return wc
	}
	switch x := v.(type) {
	case *ssa.Alloc:
		if x.Heap {
			wc.Kind = "local"
		} else {
			wc.Kind = "local"
		}
		wc.Root = x.Comment
	case *ssa.Global:
		wc.Kind = "global"
		wc.Root = x.String()
	case *ssa.Parameter:
		fn := x.Parent()
		wc.Type = named(x.Type())
		wc.Root = x.Name()
		if fn.Signature.Recv() != nil && len(fn.Params) > 0 && fn.Params[0] == x {
			wc.Kind = "receiver-field"
		} else {
			wc.Kind = "param-pointee"
		}
	case *ssa.FreeVar:
		wc.Kind = "free"
		wc.Root = x.Name()
		wc.Type = named(x.Type())
	case *ssa.Call, *ssa.MakeMap, *ssa.MakeSlice, *ssa.MakeChan, *ssa.Const:
		wc.Kind = "local"
		if c, ok := x.(*ssa.Call); ok {
			wc.Kind = "call-result"
			wc.Type = named(c.Type())
			wc.Root = VKey(c)
		}
	default:
		wc.Kind = "other"
		if v != nil {
			wc.Root = v.String()
			wc.Type = named(v.Type())
		}
	}
	return wc
}

func reverse(s []string) {
	for i, j := 0, len(s)-1; i < j; i, j = i+1, j-1 {
		s[i], s[j] = s[j], s[i]
	}
}

// StoreSite is one write instruction.
type StoreSite struct {
	Fn    *ssa.Function
	Pos   token.Pos
	Class WriteClass
}

// StoresIn lists every store / map update in fn with the class of its target.
func StoresIn(fn *ssa.Function) []StoreSite {
	var out []StoreSite
	for _, b := range fn.Blocks {
		for _, in := range b.Instrs {
			switch x := in.(type) {
			case *ssa.Store:
				out = append(out, StoreSite{fn, x.Pos(), classifyAddr(x.Addr)})
			case *ssa.MapUpdate:
				out = append(out, StoreSite{fn, x.Pos(), classifyAddr(x.Map)})
			}
		}
	}
	return out
}

// stateTypeClosure returns the named types reachable by fields from the State
// type arguments of modeling.Component / EventDrivenComponent instantiations.
func (p *Program) stateTypeClosure() map[string]bool {
	out := map[string]bool{}
	var visit func(t types.Type)
	visit = func(t types.Type) {
		switch x := t.(type) {
		case *types.Pointer:
			visit(x.Elem())
		case *types.Slice:
			visit(x.Elem())
		case *types.Array:
			visit(x.Elem())
		case *types.Map:
			visit(x.Key())
			visit(x.Elem())
		case *types.Alias:
			visit(types.Unalias(x))
		case *types.Named:
			key := x.Origin().Obj().Name()
			if x.Obj().Pkg() != nil {
				key = strings.TrimPrefix(x.Obj().Pkg().Path(), ModPath+"/") + "." + key
			}
			if ta := x.TypeArgs(); ta != nil {
				for i := 0; i < ta.Len(); i++ {
					visit(ta.At(i))
				}
			}
			if out[key] {
				return
			}
			out[key] = true
			visit(x.Underlying())
		case *types.Struct:
			for i := 0; i < x.NumFields(); i++ {
				visit(x.Field(i).Type())
			}
		}
	}
	for _, pk := range p.All {
		for _, inst := range pk.TypesInfo.Instances {
			n, ok := inst.Type.(*types.Named)
			if !ok || n.Obj().Pkg() == nil || n.Obj().Pkg().Path() != ModPath+"/modeling" {
				continue
			}
			if n.Obj().Name() != "Component" && n.Obj().Name() != "EventDrivenComponent" {
				continue
			}
			if inst.TypeArgs.Len() >= 2 {
				visit(inst.TypeArgs.At(1))
			}
		}
	}
	return out
}

func sortedKeys(m map[string]bool) []string {
	var ks []string
	for k := range m {
		ks = append(ks, k)
	}
	sort.Strings(ks)
	return ks
}
