package main

// Release of receiver-registry entries (tracing.MsgIDAtReceiver mints an entry in
// a process-global registry keyed by (component name, message ID); only
// TraceReqComplete, EndReqInOnReset or ForgetMsgIDAtReceiver release it).
//
//  live-release-id   the ID handed to a release API is not a state field that is
//                    always zero at that point (a field cleared before the
//                    release is read): such a release is a no-op and the entry
//                    leaks.
//  mint-release      a function that mints an entry for a message of a type the
//                    package never hands to TraceReqReceive (so no completion
//                    path will ever release it) releases it itself on every path
//                    to return, or parks the ID in a state field that a release
//                    elsewhere in the package reads.
//
// A leaked entry outlives the simulation that made it: a later simulation in the
// same process that reuses the component name and restarts the ID sequence finds
// the stale entry instead of drawing a fresh task ID, and every ID after that
// point shifts (C03); the task accounting of the tracer is off by that entry
// (C32).

import (
	"go/types"
	"sort"

	"golang.org/x/tools/go/ssa"
)

var releaseAPIs = map[string]int{ // name -> index of the uint64 ID argument
	"ForgetMsgIDAtReceiver":       0,
	"ForgetMsgIDAtIncomingBuffer": 0,
	"EndReqInOnReset":             1,
	"EndTaskOnReset":              1,
}

// idOfMsg reports whether v is the ID field of message value msg (through the
// embedded meta struct, conversions and the spill cell of a by-value parameter).
func idOfMsg(v ssa.Value, msg map[ssa.Value]bool) bool {
	v = stripConv(v)
	if u, ok := v.(*ssa.UnOp); ok {
		v = u.X
	}
	f := FieldOf(v)
	if f == nil || f.Name() != "ID" {
		return false
	}
	for i := 0; i < 6; i++ {
		switch x := v.(type) {
		case *ssa.Field:
			v = x.X
		case *ssa.FieldAddr:
			v = x.X
		case *ssa.UnOp:
			v = x.X
		default:
			return msg[v]
		}
		if msg[v] {
			return true
		}
	}
	return msg[v]
}

func receiverReleaseRules(c *Ctx, floorLive, floorMint int) {
	p := c.P
	byPkg := map[string][]*ssa.Function{}
	var pkgs []string
	for _, fn := range p.SrcFuncs(func(pp string) bool { return libComponentPkg(pp) }) {
		k := pkgOfFn(fn)
		if byPkg[k] == nil {
			pkgs = append(pkgs, k)
		}
		byPkg[k] = append(byPkg[k], fn)
	}
	sort.Strings(pkgs)
	for _, k := range pkgs {
		fns := byPkg[k]
		// message types the package registers through TraceReqReceive, and state
		// fields whose value some release call reads
		received := map[string]bool{}
		releasedFrom := map[*types.Var]bool{}
		type site struct {
			fn   *ssa.Function
			call ssa.CallInstruction
			arg  ssa.Value
		}
		var releases []site
		for _, fn := range fns {
			for _, b := range fn.Blocks {
				for _, in := range b.Instrs {
					call, ok := in.(ssa.CallInstruction)
					if !ok {
						continue
					}
					if isTracingCall(call, "TraceReqReceive") && len(call.Common().Args) >= 2 {
						a := call.Common().Args[1]
						if mi, isMI := a.(*ssa.MakeInterface); isMI {
							received[mi.X.Type().String()] = true
						} else {
							received["*"] = true // an interface value: any type may be registered
						}
					}
					sc := call.Common().StaticCallee()
					if sc == nil || sc.Pkg == nil || sc.Pkg.Pkg.Path() != ModPath+"/tracing" {
						continue
					}
					if idx, isRel := releaseAPIs[sc.Name()]; isRel && len(call.Common().Args) > idx {
						a := call.Common().Args[idx]
						releases = append(releases, site{fn, call, a})
						if ld, isLd := stripConv(a).(*ssa.UnOp); isLd {
							if f := FieldOf(ld.X); f != nil {
								releasedFrom[f] = true
							}
						}
					}
				}
			}
		}
		// live-release-id
		for _, s := range releases {
			ld, isLd := stripConv(s.arg).(*ssa.UnOp)
			if !isLd {
				continue
			}
			fa, isFA := ld.X.(*ssa.FieldAddr)
			if !isFA || !stateRooted(fa) {
				continue
			}
			f := FieldOf(fa)
			if f == nil {
				continue
			}
			vs := analyseFieldVS(p, fns, []*ssa.Function{s.fn}, f)
			set, reached := vs.At(s.call)
			construct := SSAFuncKey(s.fn) + "#" + s.call.Common().StaticCallee().Name() + "(" + f.Name() + ")"
			if !reached {
				c.Ok("live-release-id", construct, s.call.Pos(), "release site analysed")
				continue
			}
			c.Check(vs.String(set) != "{0}", "live-release-id", construct, s.call.Pos(), "the released ID may be a live one here ("+vs.String(set)+")",
				"the ID read from "+f.Name()+" is always 0 at this release (the field is cleared before it is read): the call releases nothing and the entry minted for the command stays in the process-global registry, where a later run in the same process finds it")
		}
		// mint-release
		if received["*"] {
			continue
		}
		for _, fn := range fns {
			for _, b := range fn.Blocks {
				for i, in := range b.Instrs {
					call, ok := in.(ssa.CallInstruction)
					if !ok || !isTracingCall(call, "MsgIDAtReceiver") || len(call.Common().Args) < 1 {
						continue
					}
					mi, isMI := call.Common().Args[0].(*ssa.MakeInterface)
					if !isMI || received[mi.X.Type().String()] {
						continue
					}
					msg := map[ssa.Value]bool{mi.X: true}
					if ld, isLd := mi.X.(*ssa.UnOp); isLd {
						msg[ld.X] = true
						if al, isAl := ld.X.(*ssa.Alloc); isAl {
							for _, ref := range *al.Referrers() {
								if st, isSt := ref.(*ssa.Store); isSt && st.Addr == ssa.Value(al) {
									msg[st.Val] = true
								}
							}
						}
					}
					isRelease := func(x ssa.Instruction) bool {
						rc, isC := x.(ssa.CallInstruction)
						if !isC {
							return false
						}
						if isTracingCall(rc, "TraceReqComplete") && len(rc.Common().Args) >= 2 {
							if m2, ok2 := rc.Common().Args[1].(*ssa.MakeInterface); ok2 && msg[m2.X] {
								return true
							}
						}
						return isTracingCall(rc, "ForgetMsgIDAtReceiver") && len(rc.Common().Args) >= 1 && idOfMsg(rc.Common().Args[0], msg)
					}
					// deferred: the ID is parked in a state field that a release reads
					parked := false
					for _, b2 := range fn.Blocks {
						for _, in2 := range b2.Instrs {
							if st, isSt := in2.(*ssa.Store); isSt && stateRooted(st.Addr) && idOfMsg(st.Val, msg) {
								if f := FieldOf(st.Addr); f != nil && releasedFrom[f] {
									parked = true
								}
							}
						}
					}
					// local: every path from the mint to a return crosses a release
					escaped := false
					seen := map[*ssa.BasicBlock]bool{}
					var walk func(bb *ssa.BasicBlock, from int)
					walk = func(bb *ssa.BasicBlock, from int) {
						for _, x := range bb.Instrs[from:] {
							if isRelease(x) {
								return
							}
							if _, isRet := x.(*ssa.Return); isRet {
								escaped = true
								return
							}
						}
						for _, s := range bb.Succs {
							if !seen[s] {
								seen[s] = true
								walk(s, 0)
							}
						}
					}
					walk(b, i+1)
					construct := SSAFuncKey(fn) + "#mint(" + types.TypeString(mi.X.Type(), func(pk *types.Package) string { return pk.Name() }) + ")"
					c.Check(!escaped || parked, "mint-release", construct, call.Pos(), "the minted receiver entry is released before return, or its ID is parked where a release reads it",
						"MsgIDAtReceiver mints a receiver-registry entry for a message type this package never registers with TraceReqReceive, and a path returns without ForgetMsgIDAtReceiver for that message's ID (nor is the ID parked in a field a release reads): the entry is never released and survives in the process-global registry")
				}
			}
		}
	}
	c.Floor("live-release-id", floorLive)
	c.Floor("mint-release", floorMint)
}
