package main

import (
	"go/ast"
	"go/token"
	"go/types"
	"strings"

	"golang.org/x/tools/go/ssa"
)

func init() {
	register("C30", PropertyMeta{
		Technique: "reset-completeness (field write sets) + structural invariant of the all-pairs relaxation (pivot loop outermost) + decision table of mesh FindPort against the extracted neighbour wiring",
		Explanation: "Decides: (1) Connector.NewNetwork re-initialises every field that the topology-building methods append to or increment, so a connector reused for a second network starts from the state of a fresh one; " +
			"(2) in the Floyd-Warshall routine the relaxation d[i][j] > d[i][k] + d[k][j] is nested with the pivot k as the outermost of its three loops (the algorithm's correctness condition), updates distance and next hop together from the [i][k] entry, and the routing tables are filled from table[switch][device].nextHop; " +
			"(3) mesh FindPort, in every ordering of destination and own coordinates on the three axes, returns the port wired (in mesh.go) to the neighbour one step closer on an axis where they differ, and the local port iff all coordinates are equal. (router-stateless) no method of the route computer stores into the router, so nothing survives from one network to the next. (unique-names) as in C29. (wrapper-reset) every field of a connector wrapper (nvlink, pcie, mesh) that its Add*/PlugIn* methods grow is re-initialised by CreateNetwork.",
		NotDecided:  "shortest-path optimality on arbitrary graphs as an arithmetic fact; the bandwidth-first router.",
		Assumptions: []string{"mesh wiring functions name the neighbour by a coordinate minus one"},
	}, runC30)
	register("C34", PropertyMeta{
		Technique: "information-flow rules on the tracer state (dependence slices) + decision tables of the per-event updates",
		Explanation: "Decides: (1) no tracer statistic is stored as the result of a division that also reads the same field (a running quotient truncates at every step; the average must be derived from an exact sum and a count when asked); the total- and average-time tracers add exactly end minus recorded start for tracked tasks and forget the task; " +
			"(2) in the busy-time interval merge, the overlap test reads the interval being extended (the accumulated interval, not the seed task), repeats until nothing joins, and the 'oldest incomplete task' used to decide when intervals may be collapsed is found by scanning from the front of the start-ordered list; " +
			"(3) the tag-count tracer counts every tag and counts a tracked task at most once per tag name. (tracer-locked) every exported method of the four aggregate tracers that touches the tracer's own map or list holds the tracer's mutex.",
		NotDecided:  "the numbers themselves on actual streams.",
		Assumptions: []string{"task starts arrive in time order (the property's quantifier)"},
	}, runC34)
	register("C35", PropertyMeta{
		Technique: "guarded-by lock-set analysis (must-held mutex sets, interprocedural by call-site agreement) + initialise-once rule for the location dictionary",
		Explanation: "Decides on datarecording/datarecorder.go: the batch state — tables, a table's buffered entries, the entry counter and the location dictionary — is accessed only while the writer's mutex is held, at every site outside construction (helpers are analysed with the locks all their callers hold); " +
			"the location dictionary is created only when it is still nil (re-creating it while rows already persist would hand out duplicate IDs). (memo-initialised) a last-result memo keyed on a receiver field is not consulted before that field was ever assigned (its zero value is a legal key). (allowed-kinds) every field kind isAllowedType accepts is one database/sql can bind.",
		NotDecided:  "SQL-level contents; exactly-once persistence of each entry (follows from the lock discipline plus the batch reset, which is not derived).",
		Assumptions: []string{"sync.Mutex semantics"},
	}, runC35)
	register("C41", PropertyMeta{
		Technique:   "atomic-only access audit + decision tables of Generate and of the lazy initialisation (check, lock, re-check)",
		Explanation: "Decides on timing/idgenerator.go: the counter of both generators is touched only as an argument of sync/atomic functions; Generate returns the result of adding one atomically (so it is non-zero and never repeats short of wrap-around); the global generator is installed only under the mutex after re-checking, under the mutex, that none is installed yet; the sequential generator's checkpoint pair carries the counter both ways.",
		NotDecided:  "wrap-around after 2^64 IDs; the unlocked fast-path read of the 'instantiated' flag (a data race by the memory model, benign on the supported platforms).",
		Assumptions: []string{},
	}, runC41)
}

func runC30(c *Ctx) {
	wrapperResetRule(c, "wrapper-reset", []string{"noc/networking/nvlink", "noc/networking/pcie", "noc/networking/mesh"})
	uniqueNamesRule(c, "unique-names")
	routerStatelessRule(c, "router-stateless")
	// every port given to AddTile is registered with its tile and merged into it
	if f := c.fn("tile-registration", "noc/networking/mesh", "Connector", "AddTile"); f != nil {
		fn := c.P.SSAFunc(f)
		loops := loopsOf(fn)
		why := ""
		n := 0
		for _, b := range fn.Blocks {
			for _, in := range b.Instrs {
				mu, ok := in.(*ssa.MapUpdate)
				if !ok || !strings.HasSuffix(VKey(mu.Map), "dstTable") {
					continue
				}
				n++
				l := innermost(loops, b)
				if l == nil {
					why = "ports are not registered in a loop over the given ports"
					continue
				}
				for _, bp := range l.back {
					if !b.Dominates(bp) {
						why = "a port handed to AddTile can be skipped without being registered in the destination table (" + posOfBlock(fn, bp) + "): every switch then routes that port by a stale or missing entry — to the tile of an earlier network built with the same connector, or nowhere"
					}
				}
			}
			for _, in := range b.Instrs {
				if call, ok := in.(*ssa.Call); ok && call.Common().StaticCallee() != nil && call.Common().StaticCallee().Name() == "mergePorts" {
					args := call.Common().Args
					if _, isParam := args[len(args)-1].(*ssa.Parameter); !isParam && why == "" {
						why = "the tile is given a filtered port list instead of the ports handed to AddTile"
					}
				}
			}
		}
		c.Check(n >= 1 && why == "", "tile-registration", "noc/networking/mesh.Connector.AddTile", c.P.Decl(f).Pos(), "every given port is registered and merged", why)
	}

	// every tile slot that is allocated gets a routing table: FindPort dereferences the
	// destination tile's table unconditionally, and tiles are reached through pointers
	// that survive a re-allocation of the grid
	{
		p := c.P
		n := 0
		for _, fn := range p.SrcFuncs(func(pp string) bool { return pp == pkgPath("noc/networking/mesh") }) {
			allocs := false
			setsRT := false
			for _, b := range fn.Blocks {
				for _, in := range b.Instrs {
					if x, ok := in.(*ssa.MakeSlice); ok && strings.HasSuffix(x.Type().String(), "mesh.tile") {
						allocs = true
					}
				}
			}
			// the table may be assigned by the allocating function or by a helper it calls
			for g := range p.ModCG().Reach([]*ssa.Function{fn}, func(h *ssa.Function) bool { return pkgOfFn(h) == pkgPath("noc/networking/mesh") }) {
				for _, b := range g.Blocks {
					for _, in := range b.Instrs {
						if x, ok := in.(*ssa.Store); ok {
							if fo := FieldOf(x.Addr); fo != nil && fo.Name() == "rt" && !isNilConst(x.Val) {
								setsRT = true
							}
						}
					}
				}
			}
			if !allocs {
				continue
			}
			n++
			c.Check(setsRT, "tile-table", SSAFuncKey(fn), fn.Pos(), "allocated tile slots are given a routing table",
				SSAFuncKey(fn)+" allocates tile slots but gives them no routing table: destination lookups keep pointers to tiles across grid re-allocations and dereference the tile's table unconditionally, so a tile left with a nil table makes every route to its ports fail (nil dereference) once the mesh outgrows the initial grid")
		}
		c.Check(n >= 1, "tile-table", "instances", 0, "tile allocations found", "no allocation of tile slots found in the mesh connector")
	}

	p := c.P
	// (1) reset completeness
	nn := c.fn("reset-completeness", "noc/networking/networkconnector", "Connector", "NewNetwork")
	tn := p.LookupType("noc/networking/networkconnector", "Connector")
	if nn != nil && tn != nil {
		st := tn.Type().Underlying().(*types.Struct)
		fns := p.SrcFuncs(func(pp string) bool { return strings.HasSuffix(pp, "/networkconnector") })
		nnFn := p.SSAFunc(nn)
		checked := 0
		for i := 0; i < st.NumFields(); i++ {
			fld := st.Field(i)
			var writers []string
			resets := false
			for _, w := range FieldWrites(fns, fld) {
				if w.Fn == nnFn {
					if w.Kind == "store" {
						resets = true
					}
					continue
				}
				sig := w.Fn.Signature
				if sig.Recv() == nil {
					continue
				}
				if _, isPtr := sig.Recv().Type().(*types.Pointer); !isPtr {
					continue // value-receiver With* builder methods configure a copy
				}
				writers = append(writers, SSAFuncKey(w.Fn))
			}
			if len(writers) == 0 {
				continue
			}
			checked++
			c.Check(resets, "reset-completeness", "networkconnector.Connector."+fld.Name(), p.Decl(nn).Pos(), "re-initialised by NewNetwork",
				"field "+fld.Name()+" is modified while a network is built ("+strings.Join(uniqStr(writers), ", ")+") but NewNetwork does not reset it: a connector reused for a second network carries the first network's "+fld.Name()+" over")
		}
		c.Floor("reset-completeness", 3)
		_ = checked
	}
	// (2) Floyd-Warshall structure
	if f := c.fn("relaxation-structure", "noc/networking/networkconnector", "FloydWarshallRouter", "floydWarshall"); f != nil {
		fd := p.Decl(f)
		info := p.PkgOfDecl(fd).TypesInfo
		// collect nested range/for loops with their loop variables
		type loop struct {
			v     types.Object
			depth int
			node  ast.Node
		}
		var loops []loop
		var walk func(n ast.Node, depth int)
		why := ""
		found := false
		subst := map[types.Object]types.Object{}
		helperDepth := 0
		walk = func(n ast.Node, depth int) {
			ast.Inspect(n, func(m ast.Node) bool {
				if m == n {
					return true
				}
				switch x := m.(type) {
				case *ast.RangeStmt:
					if id, ok := x.Key.(*ast.Ident); ok {
						loops = append(loops, loop{info.ObjectOf(id), depth, x})
					}
					walk(x.Body, depth+1)
					return false
				case *ast.ForStmt:
					if as, ok := x.Init.(*ast.AssignStmt); ok && len(as.Lhs) == 1 {
						if id, ok := as.Lhs[0].(*ast.Ident); ok {
							loops = append(loops, loop{info.ObjectOf(id), depth, x})
						}
					}
					walk(x.Body, depth+1)
					return false
				case *ast.CallExpr:
					// the relaxation step may live in a helper of the package that is handed
					// the loop variables: its parameters stand for them
					var callee *types.Func
					switch fe := x.Fun.(type) {
					case *ast.Ident:
						callee, _ = info.ObjectOf(fe).(*types.Func)
					case *ast.SelectorExpr:
						callee, _ = info.ObjectOf(fe.Sel).(*types.Func)
					}
					if callee == nil || callee.Pkg() != f.Pkg() || helperDepth > 0 {
						return true
					}
					gd := p.Decl(callee)
					if gd == nil || gd.Body == nil {
						return true
					}
					ps := callee.Type().(*types.Signature).Params()
					if ps.Len() != len(x.Args) {
						return true
					}
					for i, a := range x.Args {
						if id, isID := ast.Unparen(a).(*ast.Ident); isID {
							subst[ps.At(i)] = info.ObjectOf(id)
						}
					}
					helperDepth++
					walk(gd.Body, depth)
					helperDepth--
					return true
				case *ast.BinaryExpr:
					if x.Op != token.ADD {
						return true
					}
					// d[a][k] + d[k][b]
					la, lk, ok1 := twoIndex(x.X, info)
					rk, rb, ok2 := twoIndex(x.Y, info)
					if !ok1 || !ok2 {
						return true
					}
					for _, o := range []*types.Object{&la, &lk, &rk, &rb} {
						if so, has := subst[*o]; has {
							*o = so
						}
					}
					var pivot types.Object
					switch {
					case lk == rk:
						pivot = lk
					case la == rb:
						pivot = la
					default:
						return true
					}
					_ = rb
					found = true
					pd, maxd := -1, -1
					for _, l := range loops {
						if l.v == pivot {
							pd = l.depth
						}
					}
					for _, l := range loops {
						if l.v == la || l.v == rb || l.v == lk || l.v == rk {
							if l.depth > maxd {
								maxd = l.depth
							}
							if l.v != pivot && pd > l.depth {
								why = "the pivot index of the relaxation d[i][k] + d[k][j] is not the outermost of the three loops: a row is then relaxed against pivot rows that are not final yet, and the tables contain non-shortest or looping next hops"
							}
						}
					}
					if pd < 0 {
						why = "the pivot of the relaxation is not a loop variable"
					}
				}
				return true
			})
		}
		walk(fd.Body, 0)
		if !found {
			why = "no relaxation of the form d[i][k] + d[k][j] found: shape not understood"
			c.Unknown("relaxation-structure", "networkconnector.FloydWarshallRouter.floydWarshall", fd.Pos(), why)
		} else {
			c.Check(why == "", "relaxation-structure", "networkconnector.FloydWarshallRouter.floydWarshall#pivot-outermost", fd.Pos(), "pivot loop outermost", why)
		}
		// the update takes distance and next hop together from [i][k]
		t := ExtractTable(p, f, TableConfig{Domain: []int{0, 1, 2}, LoopsOnce: true, Inline: func(g *types.Func) bool {
			return g.Pkg() == f.Pkg() && !g.Exported() && p.Decl(g) != nil
		}})
		ok, why2 := len(t.Unsupported) == 0 && len(t.Rows) > 0, "outside the analysable fragment: "+strings.Join(t.Unsupported, ";")
		sawUpdate := false
		for _, r := range t.Rows {
			d := r.Stores(func(e *Effect) bool { return strings.HasSuffix(e.RecvS, ".distance") })
			nh := r.Stores(func(e *Effect) bool { return strings.HasSuffix(e.RecvS, ".nextHop") })
			if len(d)+len(nh) == 0 {
				continue
			}
			sawUpdate = true
			if len(d) != 1 || len(nh) != 1 {
				ok, why2 = false, "a shorter route must update the distance and the next hop together"
				continue
			}
			// nextHop comes from table[i][k] where d's target is table[i][j]
			tgt := strings.TrimSuffix(nh[0].RecvS, ".nextHop")
			src := strings.TrimSuffix(nh[0].Args[0], ".nextHop")
			if tgt != strings.TrimSuffix(d[0].RecvS, ".distance") || src == tgt || !strings.HasSuffix(nh[0].Args[0], ".nextHop") {
				ok, why2 = false, "the next hop of the improved route i->j must be copied from the route i->k"
			}
		}
		c.Check(ok && sawUpdate, "relaxation-structure", "networkconnector.FloydWarshallRouter.floydWarshall#update", fd.Pos(), "distance and next hop updated together from [i][k]", why2)
	}
	// (3) mesh
	meshRule(c)
}

// twoIndex matches X[a][b].field and returns the objects of a and b.
func twoIndex(e ast.Expr, info *types.Info) (a, b types.Object, ok bool) {
	e = ast.Unparen(e)
	if se, isSel := e.(*ast.SelectorExpr); isSel {
		e = se.X
	}
	outer, isIdx := ast.Unparen(e).(*ast.IndexExpr)
	if !isIdx {
		return nil, nil, false
	}
	inner, isIdx2 := ast.Unparen(outer.X).(*ast.IndexExpr)
	if !isIdx2 {
		return nil, nil, false
	}
	ia, okA := ast.Unparen(inner.Index).(*ast.Ident)
	ib, okB := ast.Unparen(outer.Index).(*ast.Ident)
	if !okA || !okB {
		return nil, nil, false
	}
	return info.ObjectOf(ia), info.ObjectOf(ib), true
}

func meshRule(c *Ctx) {
	p := c.P
	pk := p.Pkg("noc/networking/mesh")
	fp := c.fn("mesh-findport-table", "noc/networking/mesh", "meshRoutingTable", "FindPort")
	if pk == nil || fp == nil {
		return
	}
	// wiring: field -> (axis, direction)
	type wire struct {
		axis string
		dir  int
	}
	wiring := map[string]wire{}
	for _, file := range pk.Syntax {
		for _, d := range file.Decls {
			fd, ok := d.(*ast.FuncDecl)
			if !ok || fd.Body == nil {
				continue
			}
			// locals defined as param - 1
			minusOne := map[string]string{} // local -> axis param
			gridLocal := map[string][3]string{}
			ast.Inspect(fd.Body, func(n ast.Node) bool {
				as, ok := n.(*ast.AssignStmt)
				if !ok || len(as.Lhs) != 1 || len(as.Rhs) != 1 {
					return true
				}
				lhs, isID := as.Lhs[0].(*ast.Ident)
				if !isID {
					return true
				}
				if be, isBE := as.Rhs[0].(*ast.BinaryExpr); isBE && be.Op == token.SUB {
					if x, isX := be.X.(*ast.Ident); isX {
						if lit, isLit := be.Y.(*ast.BasicLit); isLit && lit.Value == "1" {
							minusOne[lhs.Name] = x.Name
						}
					}
				}
				// curr := c.grid[a][b][d]
				if i3, is3 := as.Rhs[0].(*ast.IndexExpr); is3 {
					if i2, is2 := i3.X.(*ast.IndexExpr); is2 {
						if i1, is1 := i2.X.(*ast.IndexExpr); is1 && strings.HasSuffix(types.ExprString(i1.X), ".grid") {
							gridLocal[lhs.Name] = [3]string{types.ExprString(i1.Index), types.ExprString(i2.Index), types.ExprString(i3.Index)}
						}
					}
				}
				return true
			})
			ast.Inspect(fd.Body, func(n ast.Node) bool {
				as, ok := n.(*ast.AssignStmt)
				if !ok || len(as.Lhs) != 1 {
					return true
				}
				se, isSel := as.Lhs[0].(*ast.SelectorExpr)
				if !isSel {
					return true
				}
				rt, isRT := se.X.(*ast.SelectorExpr)
				if !isRT || rt.Sel.Name != "rt" {
					return true
				}
				tile, isID := rt.X.(*ast.Ident)
				if !isID {
					return true
				}
				idx, has := gridLocal[tile.Name]
				if !has {
					return true
				}
				// is this tile the minus-one neighbour on some axis?
				neighbourAxis := ""
				for pos, ix := range idx {
					if ax, isM := minusOne[ix]; isM {
						_ = pos
						neighbourAxis = ax
					}
				}
				// the axis of the function = the axis some local of it is minus-one of
				fnAxis := ""
				for _, ax := range minusOne {
					fnAxis = ax
				}
				if fnAxis == "" {
					return true
				}
				if neighbourAxis != "" {
					wiring[se.Sel.Name] = wire{neighbourAxis, +1} // from the lower neighbour, this port leads up
				} else {
					wiring[se.Sel.Name] = wire{fnAxis, -1}
				}
				return true
			})
		}
	}
	if len(wiring) != 6 {
		c.Unknown("mesh-findport-table", "noc/networking/mesh wiring", token.NoPos, "could not extract the six neighbour ports from the wiring functions (found "+itoa(len(wiring))+")")
		return
	}
	dom := []int{0, 1, 2}
	t := ExtractTable(p, fp, TableConfig{Domain: dom})
	isDst := func(ax string) func(a *Atom) bool {
		return func(a *Atom) bool { return strings.Contains(a.Key, "dstTable") && strings.HasSuffix(a.Key, "."+ax) }
	}
	isOwn := func(ax string) func(a *Atom) bool {
		return func(a *Atom) bool { return !strings.Contains(a.Key, "dstTable") && strings.HasSuffix(a.Key, "."+ax) }
	}
	roles := []Role{
		{Name: "dx", Match: isDst("x")}, {Name: "dy", Match: isDst("y")}, {Name: "dz", Match: isDst("z")},
		{Name: "ox", Match: isOwn("x")}, {Name: "oy", Match: isOwn("y")}, {Name: "oz", Match: isOwn("z")},
	}
	CheckTable(c, "mesh-findport-table", "noc/networking/mesh.meshRoutingTable.FindPort", p.Decl(fp).Pos(), t, roles, dom, nil, func(v RoleVals, r *Row) (bool, string) {
		if r.Out.Kind != "return" || len(r.Out.Vals) != 1 {
			return false, "every destination must be routed (no panic, no fall-through)"
		}
		ret := r.Out.Vals[0].String()
		field := ret[strings.LastIndex(ret, ".")+1:]
		diff := map[string]int{"x": v["dx"] - v["ox"], "y": v["dy"] - v["oy"], "z": v["dz"] - v["oz"]}
		if diff["x"] == 0 && diff["y"] == 0 && diff["z"] == 0 {
			if field != "local" {
				return false, "a destination on this tile must be delivered through the local port"
			}
			return true, ""
		}
		w, has := wiring[field]
		if !has {
			return false, "a destination on another tile must leave through one of the six neighbour ports, not " + field
		}
		d := diff[w.axis]
		if d == 0 || (d < 0) != (w.dir < 0) {
			return false, "the chosen port (" + field + ", wired towards " + w.axis + map[bool]string{true: "-1", false: "+1"}[w.dir < 0] + ") does not lead one step closer to the destination: the route would not reach it in Manhattan-distance hops"
		}
		return true, ""
	})
}

func runC34(c *Ctx) {
	tracerLockedRule(c, "tracer-locked", 8)
	p := c.P
	// (1) no running quotient
	for _, typ := range []string{"TotalTimeTracer", "AverageTimeTracer", "BusyTimeTracer", "TagCountTracer"} {
		tn := p.LookupType("tracing", typ)
		if tn == nil {
			c.Unknown("no-running-quotient", "tracing."+typ, 0, "anchor type not found")
			continue
		}
		named := tn.Type().(*types.Named)
		st := named.Underlying().(*types.Struct)
		for i := 0; i < named.NumMethods(); i++ {
			m := named.Method(i)
			fn := p.SSAFunc(m)
			if fn == nil {
				continue
			}
			bad := ""
			for _, b := range fn.Blocks {
				for _, in := range b.Instrs {
					stor, ok := in.(*ssa.Store)
					if !ok {
						continue
					}
					fa, isFA := stor.Addr.(*ssa.FieldAddr)
					if !isFA {
						continue
					}
					fld := FieldOf(fa)
					own := false
					for j := 0; j < st.NumFields(); j++ {
						if sameObj(st.Field(j), fld) {
							own = true
						}
					}
					if !own {
						continue
					}
					sl := DataSlice(fn, stor.Val)
					hasDiv, readsSelf := false, false
					for v := range sl {
						if bo, isBO := v.(*ssa.BinOp); isBO && bo.Op == token.QUO {
							hasDiv = true
						}
						switch v.(type) {
						case *ssa.FieldAddr, *ssa.Field:
							if sameObj(FieldOf(v), fld) && v != ssa.Value(fa) {
								readsSelf = true
							}
							if sameObj(FieldOf(v), fld) {
								if refs := v.Referrers(); refs != nil {
									for _, r := range *refs {
										if u, isU := r.(*ssa.UnOp); isU && u.Op == token.MUL && sl[u] {
											readsSelf = true
										}
									}
								}
							}
						}
					}
					if hasDiv && readsSelf {
						bad = "field " + fld.Name() + " is updated from its own previous value through a division: the truncation of every step accumulates (keep the exact sum and divide when the statistic is read)"
					}
				}
			}
			if bad != "" {
				c.Fail("no-running-quotient", "tracing."+typ+"."+m.Name(), p.Decl(m).Pos(), bad)
			} else if m.Name() == "EndTask" || m.Name() == "AddTaskTag" {
				c.Ok("no-running-quotient", "tracing."+typ+"."+m.Name(), p.Decl(m).Pos(), "no statistic is fed back through a division")
			}
		}
	}
	c.Floor("no-running-quotient", 4)
	// duration accounting
	for _, spec := range []struct{ typ, sum string }{{"TotalTimeTracer", "totalTime"}, {"AverageTimeTracer", "totalTime"}} {
		f := c.fn("duration-accounting", "tracing", spec.typ, "EndTask")
		if f == nil {
			continue
		}
		sumF := p.Field("tracing", spec.typ, spec.sum)
		cntF := p.Field("tracing", spec.typ, "taskCount")
		// the start-time table is the tracer's map field, whatever it is called
		var inflF *types.Var
		if recv := f.Type().(*types.Signature).Recv(); recv != nil {
			rt := recv.Type()
			if pt, isP := rt.(*types.Pointer); isP {
				rt = pt.Elem()
			}
			if stt, isS := rt.Underlying().(*types.Struct); isS {
				nm := 0
				for i := 0; i < stt.NumFields(); i++ {
					if _, isM := stt.Field(i).Type().Underlying().(*types.Map); isM {
						inflF = stt.Field(i)
						nm++
					}
				}
				if nm != 1 {
					inflF = nil
				}
			}
		}
		evName := "task"
		if ps := f.Type().(*types.Signature).Params(); ps.Len() == 1 {
			evName = ps.At(0).Name()
		}
		if sumF == nil || inflF == nil {
			c.Unknown("duration-accounting", "tracing."+spec.typ+".EndTask", p.Decl(f).Pos(), "the tracer no longer has an exact-sum field "+spec.sum)
			continue
		}
		t := ExtractTable(p, f, TableConfig{})
		roles := []Role{{Name: "tracked", IsBool: true, Match: func(a *Atom) bool { return strings.HasPrefix(a.Key, "ok(") }}}
		CheckTable(c, "duration-accounting", "tracing."+spec.typ+".EndTask", p.Decl(f).Pos(), t, roles, []int{0, 1}, nil, func(v RoleVals, r *Row) (bool, string) {
			st := r.Stores(func(e *Effect) bool { return e.RecvHas(sumF) })
			del := r.Calls(func(e *Effect) bool { return strings.HasPrefix(e.Str, "delete(") && e.RecvHas(inflF) })
			if !v.B("tracked") {
				if len(st)+len(del) != 0 {
					return false, "the end of a task that is not tracked must not change the statistic"
				}
				return true, ""
			}
			if len(st) != 1 || !strings.Contains(st[0].Str, "+=") {
				return false, "the duration of a tracked task must be added to the exact sum, once"
			}
			rhs := strings.ReplaceAll(st[0].Args[0], " ", "")
			if !strings.HasPrefix(rhs, evName+".Time-") || !strings.Contains(rhs, inflF.Name()+"["+evName+".ID]") {
				return false, "the duration added must be the end time minus the recorded start time of that task"
			}
			if len(del) != 1 {
				return false, "the task must be forgotten once it has ended (otherwise a second end counts it twice)"
			}
			if cntF != nil {
				cn := r.Stores(func(e *Effect) bool { return e.RecvHas(cntF) })
				if len(cn) != 1 {
					return false, "the task count must advance by one per ended task"
				}
			}
			return true, ""
		})
	}
	if f := c.fn("duration-accounting", "tracing", "AverageTimeTracer", "AverageTime"); f != nil {
		fn := p.SSAFunc(f)
		sumF := p.Field("tracing", "AverageTimeTracer", "totalTime")
		cntF := p.Field("tracing", "AverageTimeTracer", "taskCount")
		ok := false
		for _, b := range fn.Blocks {
			if ret, isRet := b.Instrs[len(b.Instrs)-1].(*ssa.Return); isRet && len(ret.Results) == 1 {
				for v := range DataSlice(fn, ret.Results[0]) {
					if bo, isBO := v.(*ssa.BinOp); isBO && bo.Op == token.QUO {
						if SliceReadsField(DataSlice(fn, bo.X), sumF) && SliceReadsField(DataSlice(fn, bo.Y), cntF) {
							ok = true
						}
					}
				}
			}
		}
		c.Check(ok && sumF != nil && cntF != nil, "duration-accounting", "tracing.AverageTimeTracer.AverageTime", p.Decl(f).Pos(), "exact sum divided by count when read",
			"the average must be computed as the exact sum of durations divided by their count at the time it is read")
	}
	// (2) busy time
	if f := c.fn("interval-merge", "tracing", "BusyTimeTracer", "taskBusyTime"); f != nil {
		fn := p.SSAFunc(f)
		ov := p.LookupFunc("tracing", "BusyTimeTracer", "taskTimeOverlap")
		ex := p.LookupFunc("tracing", "BusyTimeTracer", "extendTaskTime")
		ovs := CallSites([]*ssa.Function{fn}, func(g *types.Func) bool { return g == ov })
		exs := CallSites([]*ssa.Function{fn}, func(g *types.Func) bool { return g == ex })
		if len(ovs) == 0 && len(exs) == 0 {
			// the merging loop may live in an unexported helper that taskBusyTime calls
			for _, b := range fn.Blocks {
				for _, in := range b.Instrs {
					cl, isCall := in.(*ssa.Call)
					if !isCall || len(ovs) > 0 {
						continue
					}
					if g := cl.Common().StaticCallee(); g != nil && len(g.Blocks) > 0 && pkgOfFn(g) == pkgOfFn(fn) {
						ovs = CallSites([]*ssa.Function{g}, func(h *types.Func) bool { return h == ov })
						exs = CallSites([]*ssa.Function{g}, func(h *types.Func) bool { return h == ex })
					}
				}
			}
		}
		why := ""
		if len(ovs) == 0 || len(exs) == 0 {
			why = "overlap test or extension not found: shape not understood"
		} else {
			target := exs[0].Args()[0]
			reads := false
			for _, s := range ovs {
				for _, a := range s.Args() {
					if a == target {
						reads = true
					}
				}
			}
			if !reads {
				why = "the overlap test does not read the interval being extended (it compares against the seed task), so a chain of overlapping tasks is split and the overlap counted twice"
			}
			// the merge must repeat until nothing joins, or the tasks must be known sorted: require a loop around the inner loop that depends on a changed flag
			if why == "" && !inLoop(ovs[0].Instr.Block()) {
				why = "the overlap test is not inside the merging loop"
			}
		}
		c.Check(why == "", "interval-merge", "tracing.BusyTimeTracer.taskBusyTime", p.Decl(f).Pos(), "overlap tested against the accumulated interval", why)
	}
	if f := c.fn("interval-merge", "tracing", "BusyTimeTracer", "startTimeOfFirstImcompleteTask"); f != nil {
		fn := p.SSAFunc(f)
		front, back := 0, 0
		for _, s := range CallSites([]*ssa.Function{fn}, func(g *types.Func) bool { return g.Pkg() != nil && g.Pkg().Path() == "container/list" }) {
			switch s.Callee.Name() {
			case "Front":
				front++
			case "Back", "Prev":
				back++
			}
		}
		c.Check(front >= 1 && back == 0, "interval-merge", "tracing.BusyTimeTracer.startTimeOfFirstImcompleteTask", p.Decl(f).Pos(), "scans the start-ordered list from the front",
			"the oldest incomplete task must be found by scanning the start-ordered list from its front; looking at the newest task lets intervals be collapsed while an older overlapping task is still running, and the overlap is counted twice")
	}
	if f := c.fn("interval-merge", "tracing", "BusyTimeTracer", "collapse"); f != nil {
		t := ExtractTable(p, f, TableConfig{Domain: []int{0, 1, 2}, LoopsOnce: true, Pure: func(g *types.Func) bool { return g.Name() == "startTimeOfFirstImcompleteTask" }})
		ok, why := len(t.Unsupported) == 0 && len(t.Rows) > 0, "outside the analysable fragment: "+strings.Join(t.Unsupported, ";")
		for _, r := range t.Rows {
			found := r.Atom(func(a *Atom) bool { return a.IsBool && strings.Contains(a.Key, "startTimeOfFirstImcompleteTask") })
			tm := r.Atom(func(a *Atom) bool { return !a.IsBool && strings.Contains(a.Key, "startTimeOfFirstImcompleteTask") })
			now := r.Atom(func(a *Atom) bool { return a.Key == "now" })
			if found != nil && found.B && tm != nil && now != nil && tm.I < now.I {
				if len(r.Stores(func(e *Effect) bool { return strings.HasSuffix(e.RecvS, ".busyTime") })) != 0 {
					ok, why = false, "intervals are collapsed although a task that started before now is still running"
				}
			}
		}
		c.Check(ok, "interval-merge", "tracing.BusyTimeTracer.collapse", p.Decl(f).Pos(), "no collapse while an older task is running", why)
	}
	// (3) tag counts
	if f := c.fn("tag-counting", "tracing", "TagCountTracer", "AddTaskTag"); f != nil {
		tcF := p.Field("tracing", "TagCountTracer", "tagCount")
		twF := p.Field("tracing", "TagCountTracer", "taskWithTagCount")
		t := ExtractTable(p, f, TableConfig{})
		roles := []Role{
			{Name: "tracked", IsBool: true, Match: func(a *Atom) bool { return strings.HasPrefix(a.Key, "ok(") && strings.Contains(a.Key, "inflightTasks") }},
			{Name: "seen", IsBool: true, Match: func(a *Atom) bool {
				return strings.Contains(a.Key, "[tag.What]") && !strings.HasPrefix(a.Key, "ok(") && strings.Contains(a.Key, "inflightTasks")
			}},
		}
		CheckTable(c, "tag-counting", "tracing.TagCountTracer.AddTaskTag", p.Decl(f).Pos(), t, roles, []int{0, 1}, nil, func(v RoleVals, r *Row) (bool, string) {
			tc := r.Stores(func(e *Effect) bool { return e.RecvHas(tcF) })
			tw := r.Stores(func(e *Effect) bool { return e.RecvHas(twF) })
			if len(tc) != 1 || !strings.Contains(tc[0].RecvS, "[tag.What]") {
				return false, "every recorded tag must be counted once under its name"
			}
			want := 0
			if v.B("tracked") && !v.B("seen") {
				want = 1
			}
			if len(tw) != want {
				return false, "a tracked task must be counted once per tag name, the first time it carries it"
			}
			if want == 1 {
				mark := r.Stores(func(e *Effect) bool {
					return strings.Contains(e.RecvS, "inflightTasks[tag.TaskID]") && e.Args[0] == "true"
				})
				if len(mark) != 1 {
					return false, "the tag name must be remembered for the task so that it is not counted again"
				}
			}
			return true, ""
		})
	}
}

func runC35(c *Ctx) {
	allowedKindsRule(c, "allowed-kinds")
	p := c.P
	pkgFns := p.SrcFuncs(func(pp string) bool { return strings.HasSuffix(pp, "/datarecording") })
	var fns []*ssa.Function
	for _, f := range pkgFns {
		if p.DeclFile(f) == "datarecording/datarecorder.go" {
			fns = append(fns, f)
		}
	}
	construction := func(fn *ssa.Function) bool {
		for fn.Parent() != nil {
			fn = fn.Parent()
		}
		switch fn.Name() {
		case "NewDataRecorder", "NewDataRecorderWithDB", "Init":
			return true
		}
		return false
	}
	isRoot := func(fn *ssa.Function) bool {
		if fn.Parent() != nil {
			return false
		}
		if fn.Signature.Recv() == nil {
			return true
		}
		return ast.IsExported(fn.Name())
	}
	lp := analyseLockProgram(fns, isRoot)
	guarded := []struct{ typ, fld string }{{"sqliteWriter", "tables"}, {"sqliteWriter", "entryCount"}, {"sqliteWriter", "locationInfo"}, {"table", "entries"}}
	n := 0
	for _, g := range guarded {
		fld := c.field("guarded-by", "datarecording", g.typ, g.fld)
		if fld == nil {
			continue
		}
		for _, fn := range fns {
			if construction(fn) {
				continue
			}
			an := lp.An[fn]
			if an == nil {
				continue
			}
			bad := ""
			var pos token.Pos
			acc := fieldAccesses(fn, fld)
			for _, ins := range acc {
				n++
				if !an.Before[ins]["mu"] {
					bad = "accessed at " + p.Rel(ins.Pos()) + " with locks " + setString(an.Before[ins]) + " held (entered with " + setString(lp.Entry[fn]) + ")"
					pos = ins.Pos()
				}
			}
			if len(acc) == 0 {
				continue
			}
			c.Check(bad == "", "guarded-by", g.typ+"."+g.fld+"@"+SSAFuncKey(fn), pos, "accessed under mu",
				g.typ+"."+g.fld+" is shared between inserting goroutines and is "+bad+": without the mutex a concurrent insert can see or reset a half-written batch (entries lost or written twice, a transaction started inside a transaction)")
		}
	}
	c.Floor("guarded-by", 12)
	c.Note("guarded-by: %d accesses in %d functions analysed", n, len(fns))
	// dictionary initialised once
	if li := p.Field("datarecording", "sqliteWriter", "locationInfo"); li != nil {
		for _, w := range FieldWrites(fns, li) {
			if w.Kind != "store" || construction(w.Fn) {
				continue
			}
			// find the store instruction
			okInit := false
			for _, b := range w.Fn.Blocks {
				for _, ins := range b.Instrs {
					st, isSt := ins.(*ssa.Store)
					if !isSt || st.Pos() != w.Pos {
						continue
					}
					for _, f := range FactsAt(b) {
						bo, isBO := f.Cond.(*ssa.BinOp)
						if !isBO || !(isNilConst(bo.X) || isNilConst(bo.Y)) {
							continue
						}
						other := bo.X
						if isNilConst(bo.X) {
							other = bo.Y
						}
						if strings.HasSuffix(VKey(other), ".locationInfo") && ((bo.Op == token.EQL && f.Truth) || (bo.Op == token.NEQ && !f.Truth)) {
							okInit = true
						}
					}
				}
			}
			c.Check(okInit, "dictionary-once", "sqliteWriter.locationInfo@"+SSAFuncKey(w.Fn), w.Pos, "created only while still nil",
				"the location dictionary is re-created although it may already hold interned locations whose rows are persisted: IDs are then handed out again and one ID maps to two strings")
		}
		c.Floor("dictionary-once", 1)
		memoInitialisedRule(c, "memo-initialised", func(pp string) bool { return pp == pkgPath("datarecording") })
	}
	// a column that holds Go strings must not get a declared type with NUMERIC (or INTEGER/REAL)
	// affinity: SQLite converts numeric-looking text stored in such a column
	{
		affinity := func(t string) string {
			u := strings.ToUpper(t)
			switch {
			case u == "":
				return "NONE"
			case strings.Contains(u, "INT"):
				return "INTEGER"
			case strings.Contains(u, "CHAR"), strings.Contains(u, "CLOB"), strings.Contains(u, "TEXT"):
				return "TEXT"
			case strings.Contains(u, "BLOB"):
				return "NONE"
			case strings.Contains(u, "REAL"), strings.Contains(u, "FLOA"), strings.Contains(u, "DOUB"):
				return "REAL"
			}
			return "NUMERIC"
		}
		bad := ""
		for _, fn := range pkgFns {
			res := fn.Signature.Results()
			if res.Len() != 1 || !types.Identical(res.At(0).Type().Underlying(), types.Typ[types.String]) {
				continue
			}
			for _, b := range fn.Blocks {
				ret, ok := b.Instrs[len(b.Instrs)-1].(*ssa.Return)
				if !ok {
					continue
				}
				cst, isC := ret.Results[0].(*ssa.Const)
				if !isC || cst.Value == nil {
					continue
				}
				forString := false
				for _, fact := range FactsAt(b) {
					bo, isBO := fact.Cond.(*ssa.BinOp)
					if !isBO || bo.Op != token.EQL || !fact.Truth {
						continue
					}
					if k, isK := bo.Y.(*ssa.Const); isK && k.Value != nil && k.Value.String() == "24" { // reflect.String
						if cl, isCall := bo.X.(*ssa.Call); isCall {
							if nm, _ := calleeNamePkg(cl); nm == "Kind" {
								forString = true
							}
						}
					}
				}
				if forString {
					if a := affinity(constText(cst)); a != "TEXT" && a != "NONE" {
						bad += SSAFuncKey(fn) + " declares string columns as " + constText(cst) + " (SQLite affinity " + a + "); "
					}
				}
			}
		}
		c.Check(bad == "", "string-affinity", "datarecording:column-types", 0, "no string column is declared with a converting type affinity",
			bad+"SQLite converts text that looks like a number when it is stored in such a column (\"0042\" comes back as \"42\", \"1e3\" as \"1000\"): recorded string values and interned location strings are not read back unchanged")
	}
	// counted ⇔ buffered: an entry is in its table's buffer before the batch it belongs to is flushed
	if f := c.fn("insert-order", "datarecording", "sqliteWriter", "InsertData"); f != nil {
		t := ExtractTable(p, f, TableConfig{})
		ok, why := len(t.Rows) > 0 && len(t.Unsupported) == 0, "outside the analysable fragment"
		for _, r := range t.Rows {
			if r.Out.Kind == "panic" {
				continue
			}
			app := r.Stores(func(e *Effect) bool {
				return strings.HasSuffix(e.RecvS, ".entries") && len(e.Args) > 0 && strings.HasPrefix(e.Args[0], "append(")
			})
			cnt := r.Stores(func(e *Effect) bool { return strings.HasSuffix(e.RecvS, ".entryCount") })
			fl := r.Calls(func(e *Effect) bool { return e.Callee != nil && e.Callee.Name() == "flushLocked" })
			if len(app) != 1 || len(cnt) != 1 {
				ok, why = false, "every insert must buffer the entry once and count it once"
				continue
			}
			if len(fl) > 0 && !(effIndex(r, app[0]) < effIndex(r, fl[0]) && effIndex(r, cnt[0]) < effIndex(r, fl[0])) {
				ok, why = false, "the automatic flush runs before the new entry is buffered: the flush resets the pending count to zero while the entry stays in the buffer, and a later Flush/Close sees a count of zero and returns without writing it — the entry that completes a batch is lost when it is the last one"
			}
		}
		c.Check(ok, "insert-order", "datarecording.sqliteWriter.InsertData", p.Decl(f).Pos(), "the entry is buffered and counted before any flush of its batch", why)
	}
}

func effIndex(r *Row, e *Effect) int {
	for i, x := range r.Effects {
		if x == e {
			return i
		}
	}
	return -1
}

func runC41(c *Ctx) {
	p := c.P
	loadRestoresRule(c, "load-restores", func(pp string) bool { return pp == pkgPath("timing") }, 2)
	fns := p.SrcFuncs(func(pp string) bool { return strings.HasSuffix(pp, "/timing") })
	for _, typ := range []string{"sequentialIDGenerator", "parallelIDGenerator"} {
		fld := c.field("atomic-only", "timing", typ, "nextID")
		if fld == nil {
			continue
		}
		n := 0
		for _, fn := range fns {
			for _, ins := range fieldAccesses(fn, fld) {
				n++
				v := ins.(ssa.Value)
				ok := true
				if refs := v.Referrers(); refs != nil {
					for _, r := range *refs {
						ci, isCall := r.(ssa.CallInstruction)
						if !isCall {
							ok = false
							continue
						}
						g, _ := calleeOf(ci)
						if g == nil || g.Pkg() == nil || g.Pkg().Path() != "sync/atomic" {
							ok = false
						}
					}
				}
				c.Check(ok, "atomic-only", "timing."+typ+".nextID@"+SSAFuncKey(fn), ins.Pos(), "accessed through sync/atomic",
					"the ID counter is read or written without sync/atomic: concurrent callers can be handed the same ID")
			}
		}
		if f := c.fn("generate-table", "timing", typ, "Generate"); f != nil {
			t := ExtractTable(p, f, TableConfig{})
			ok := len(t.Rows) == 1 && len(t.Unsupported) == 0
			for _, r := range t.Rows {
				add := r.Calls(func(e *Effect) bool { return e.Callee != nil && e.Callee.Name() == "AddUint64" })
				if len(add) != 1 || len(add[0].Args) != 2 || !strings.HasSuffix(add[0].Args[0], ".nextID") || add[0].Args[1] != "1" {
					ok = false
					continue
				}
				if r.Out.Kind != "return" || len(r.Out.Vals) != 1 || !strings.HasPrefix(r.Out.Vals[0].String(), "atomic.AddUint64(") {
					ok = false
				}
			}
			c.Check(ok, "generate-table", "timing."+typ+".Generate", p.Decl(f).Pos(), "returns atomic.AddUint64(&nextID, 1)",
				"Generate must return the value produced by atomically adding one to the counter (a separate load or a non-unit step can repeat or skip to zero)")
		}
	}
	c.Floor("atomic-only", 4)
	c.Floor("generate-table", 2)
	// lazy initialisation
	for _, name := range []string{"GetIDGenerator", "UseSequentialIDGenerator", "UseParallelIDGenerator"} {
		f := c.fn("install-once", "timing", "", name)
		if f == nil {
			continue
		}
		t := ExtractTable(p, f, TableConfig{})
		ok, why := len(t.Rows) > 0 && len(t.Unsupported) == 0, "outside the analysable fragment"
		sawInstall := false
		for _, r := range t.Rows {
			st := r.Stores(func(e *Effect) bool { return e.RecvS == "idGenerator" })
			if len(st) == 0 {
				continue
			}
			sawInstall = true
			lk := r.Calls(func(e *Effect) bool { return e.Kind == "call" && e.Callee != nil && e.Callee.Name() == "Lock" })
			if len(lk) != 1 || lk[0].Gen > st[0].Gen {
				ok, why = false, "the generator must be installed under the mutex"
				continue
			}
			recheck := r.Atom(func(a *Atom) bool {
				return a.IsBool && a.Key == "idGeneratorInstantiated" && a.Gen >= lk[0].Gen && !a.B
			})
			if recheck == nil {
				ok, why = false, "after taking the mutex the 'already installed' flag must be tested again before installing: two first-time callers that both passed the unlocked test would otherwise each install a generator, and the second restarts the ID sequence"
			}
			flag := r.Stores(func(e *Effect) bool { return e.RecvS == "idGeneratorInstantiated" && e.Args[0] == "true" })
			if len(flag) != 1 {
				ok, why = false, "installing the generator must set the 'installed' flag"
			}
		}
		c.Check(ok && sawInstall, "install-once", "timing."+name, p.Decl(f).Pos(), "check, lock, re-check, install", why)
	}
	// checkpoint symmetry
	sf, lf := p.LookupFunc("timing", "sequentialIDGenerator", "SaveCheckpoint"), p.LookupFunc("timing", "sequentialIDGenerator", "LoadCheckpoint")
	if sf != nil && lf != nil {
		s, l := p.SSAFunc(sf), p.SSAFunc(lf)
		nid := p.Field("timing", "sequentialIDGenerator", "nextID")
		rep := ckptSymmetry(s, l, s.Params[0], l.Params[0], []*types.Var{nid})
		c.Check(len(rep.Problems) == 0, "checkpoint-symmetry", "timing.sequentialIDGenerator", p.Decl(lf).Pos(), "counter carried both ways", strings.Join(rep.Problems, "; "))
	} else {
		c.Unknown("checkpoint-symmetry", "timing.sequentialIDGenerator", 0, "checkpoint pair not found")
	}
}
