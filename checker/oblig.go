package main

import (
	"encoding/json"
	"fmt"
	"go/token"
	"os"
	"path/filepath"
	"sort"
	"strings"
	"time"
)

// Status of an obligation.
const (
	Discharged = "discharged"
	Violated   = "violated"
	Undecided  = "undecided"
)

// Obligation is one decided instance of a rule.
type Obligation struct {
	Property  string `json:"property"`
	Rule      string `json:"rule"`
	Construct string `json:"construct"`
	Status    string `json:"status"`
	Pos       string `json:"pos,omitempty"`
	Msg       string `json:"msg,omitempty"`
}

// Key identifies an obligation independently of line numbers.
func (o Obligation) Key() string { return o.Property + "/" + o.Rule + "/" + o.Construct }

// Ctx is handed to every rule of one property.
type Ctx struct {
	P        *Program
	Prop     string
	Tier     string
	Obs      []Obligation
	seen     map[string]int
	floors   map[string]int // rule -> minimum instance count
	counts   map[string]int
	notes    []string
	analysed map[string]bool // functions analysed
	only     map[string]bool // when set (inside Sub): record only these rules
}

func newCtx(p *Program, prop, tier string) *Ctx {
	return &Ctx{P: p, Prop: prop, Tier: tier, seen: map[string]int{}, floors: map[string]int{}, counts: map[string]int{}, analysed: map[string]bool{}}
}

func (c *Ctx) add(rule, construct, status string, pos token.Pos, msg string) {
	if c.only != nil && !c.only[rule] {
		return
	}
	o := Obligation{Property: c.Prop, Rule: rule, Construct: construct, Status: status, Msg: msg}
	if pos.IsValid() {
		o.Pos = c.P.Rel(pos)
	}
	k := o.Key()
	if n := c.seen[k]; n > 0 {
		o.Construct = fmt.Sprintf("%s#%d", construct, n+1)
	}
	c.seen[k]++
	c.counts[rule]++
	c.Obs = append(c.Obs, o)
}

// Ok records a discharged obligation.
func (c *Ctx) Ok(rule, construct string, pos token.Pos, msg string) {
	c.add(rule, construct, Discharged, pos, msg)
}

// Fail records a violated obligation.
func (c *Ctx) Fail(rule, construct string, pos token.Pos, msg string) {
	c.add(rule, construct, Violated, pos, msg)
}

// Unknown records an obligation the rule could not decide (fails the check).
func (c *Ctx) Unknown(rule, construct string, pos token.Pos, msg string) {
	c.add(rule, construct, Undecided, pos, msg)
}

// Check records Ok or Fail depending on cond.
func (c *Ctx) Check(cond bool, rule, construct string, pos token.Pos, okMsg, failMsg string) bool {
	if cond {
		c.Ok(rule, construct, pos, okMsg)
	} else {
		c.Fail(rule, construct, pos, failMsg)
	}
	return cond
}

// Floor declares the minimum number of instances a rule must match.
func (c *Ctx) Floor(rule string, n int) {
	if c.only != nil && !c.only[rule] {
		return
	}
	c.floors[rule] = n
}

// Sub runs another property's rule set but records only the named rules: a
// clause of one property that is a necessary condition of another is decided by
// the same code under both.
func (c *Ctx) Sub(rules []string, run func(*Ctx)) {
	saved := c.only
	c.only = map[string]bool{}
	for _, r := range rules {
		c.only[r] = true
	}
	notes := len(c.notes)
	run(c)
	c.notes = c.notes[:notes]
	c.only = saved
}

// Note adds a free-text line to the evidence.
func (c *Ctx) Note(format string, a ...any) { c.notes = append(c.notes, fmt.Sprintf(format, a...)) }

// Analysed records that a function was inspected.
func (c *Ctx) Analysed(key string) { c.analysed[key] = true }

// KnownFinding is one entry of known_findings.json.
type KnownFinding struct {
	Property  string `json:"property"`
	Rule      string `json:"rule"`
	Construct string `json:"construct"`
	What      string `json:"what"`
	Status    string `json:"status"` // "open" or "fixed: <commit>"
}

func loadKnown(path string) ([]KnownFinding, error) {
	b, err := os.ReadFile(path)
	if err != nil {
		if os.IsNotExist(err) {
			return nil, nil
		}
		return nil, err
	}
	var out struct {
		Findings []KnownFinding `json:"findings"`
	}
	if err := json.Unmarshal(b, &out); err != nil {
		return nil, err
	}
	return out.Findings, nil
}

// PropertyMeta is static text per property for the evidence file.
type PropertyMeta struct {
	Explanation string
	NotDecided  string
	Assumptions []string
	Technique   string
}

type evidence struct {
	PropertyID  string         `json:"property_id"`
	Tier        string         `json:"tier"`
	Seed        int            `json:"seed"`
	Level       string         `json:"level"`
	Coverage    map[string]any `json:"coverage"`
	Assumptions []string       `json:"assumptions"`
	WallS       float64        `json:"wall_s"`
	Violations  int            `json:"violations"`
}

// finish applies floors and known findings, writes evidence and replay files and
// prints the verdict lines. It returns the process exit code.
func (c *Ctx) finish(verifDir string, meta PropertyMeta, known []KnownFinding, seed int, start time.Time, extra map[string]any) int {
	// floors
	rules := make([]string, 0, len(c.floors))
	for r := range c.floors {
		rules = append(rules, r)
	}
	sort.Strings(rules)
	for _, r := range rules {
		if c.counts[r] < c.floors[r] {
			c.add(r, "<instance-floor>", Undecided, token.NoPos,
				fmt.Sprintf("rule matched %d instances, below the floor %d confirmed by hand: the rule no longer sees the constructs it was written for", c.counts[r], c.floors[r]))
		}
	}
	openKnown := map[string]KnownFinding{}
	for _, k := range known {
		if k.Property == c.Prop && k.Status == "open" {
			openKnown[k.Property+"/"+k.Rule+"/"+k.Construct] = k
		}
	}
	var bad, knownHit []Obligation
	discharged := 0
	for _, o := range c.Obs {
		switch o.Status {
		case Discharged:
			discharged++
		default:
			if _, ok := openKnown[o.Key()]; ok {
				knownHit = append(knownHit, o)
			} else {
				bad = append(bad, o)
			}
		}
	}
	evDir := filepath.Join(verifDir, "evidence")
	_ = os.MkdirAll(filepath.Join(evDir, "replay"), 0o755)

	perRule := map[string]map[string]int{}
	for _, o := range c.Obs {
		m := perRule[o.Rule]
		if m == nil {
			m = map[string]int{}
			perRule[o.Rule] = m
		}
		m[o.Status]++
	}
	ruleCounts := map[string]any{}
	for r, m := range perRule {
		e := map[string]any{"instances": m[Discharged] + m[Violated] + m[Undecided], "discharged": m[Discharged], "violated": m[Violated], "undecided": m[Undecided]}
		if f, ok := c.floors[r]; ok {
			e["floor"] = f
		}
		ruleCounts[r] = e
	}
	// samples: first obligation of each rule, plus all non-discharged
	var samples []any
	seenRule := map[string]int{}
	for _, o := range c.Obs {
		if o.Status != Discharged || seenRule[o.Rule] < 2 {
			if len(samples) < 60 {
				samples = append(samples, o)
			}
			seenRule[o.Rule]++
		}
	}
	fns := make([]string, 0, len(c.analysed))
	for f := range c.analysed {
		fns = append(fns, f)
	}
	sort.Strings(fns)
	cov := map[string]any{
		"obligations":        len(c.Obs),
		"discharged":         discharged,
		"known_findings":     len(knownHit),
		"explanation":        meta.Explanation + " NOT DECIDED: " + meta.NotDecided,
		"samples":            samples,
		"checker_cmd":        fmt.Sprintf("bin/akitacheck -p %s -tier %s", c.Prop, c.Tier),
		"trusted_base":       []string{"go1.26.8 go/types", "golang.org/x/tools v0.50.0 go/packages, go/ssa, go/callgraph/{cha,vta}", "rule tables frozen in /verif/checker"},
		"rules":              ruleCounts,
		"functions_analysed": fns,
		"packages_loaded":    len(c.P.All),
		"notes":              c.notes,
	}
	for k, v := range extra {
		cov[k] = v
	}
	ev := evidence{PropertyID: c.Prop, Tier: c.Tier, Seed: seed, Level: "other", Coverage: cov,
		Assumptions: meta.Assumptions, WallS: time.Since(start).Seconds(), Violations: len(bad)}
	if ev.Assumptions == nil {
		ev.Assumptions = []string{}
	}
	b, _ := json.MarshalIndent(ev, "", " ")
	if err := os.WriteFile(filepath.Join(evDir, c.Prop+".json"), append(b, '\n'), 0o644); err != nil {
		fmt.Fprintln(os.Stderr, "cannot write evidence:", err)
		return 2
	}
	for _, o := range knownHit {
		k := openKnown[o.Key()]
		fmt.Printf("KNOWN-FINDING: property=%s %s/%s %s (%s)\n", c.Prop, o.Rule, o.Construct, k.What, o.Pos)
	}
	if len(bad) == 0 {
		fmt.Printf("OK property=%s obligations=%d discharged=%d known=%d\n", c.Prop, len(c.Obs), discharged, len(knownHit))
		return 0
	}
	for i, o := range bad {
		name := fmt.Sprintf("%s-%d.json", c.Prop, i+1)
		rp := filepath.Join(evDir, "replay", name)
		rb, _ := json.MarshalIndent(map[string]any{"obligation": o, "rerun": fmt.Sprintf("bin/akitacheck -p %s -only %q", c.Prop, o.Rule+"/"+o.Construct)}, "", " ")
		_ = os.WriteFile(rp, append(rb, '\n'), 0o644)
		fmt.Printf("%s: %s [%s] %s: %s\n", o.Pos, strings.ToUpper(o.Status), o.Rule, o.Construct, o.Msg)
		fmt.Printf("VIOLATION property=%s replay=%s\n", c.Prop, rp)
	}
	return 1
}
