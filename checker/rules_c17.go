package main

import (
	"go/token"
	"go/types"
	"sort"
	"strings"

	"golang.org/x/tools/go/ssa"
)

func init() {
	register("C17", PropertyMeta{
		Technique: "decision tables of the flush filter and of the completion gate + effect audit of the flusher's closure + sibling agreement of the flush and invalidate filters",
		Explanation: "Decides on mem/cache/writeback (flusher.go, ctrlmiddleware.go): (1) a block is selected for write-back iff it is valid and dirty, the process filter is zero or equal to the block's process, and the address list is empty or contains the block's line (addresses aligned down to the line size); the same block reference goes into the work list and into the list of lines to mark clean; " +
			"(2) selection happens only after the no-in-flight-transaction test; (3) the flush is acknowledged only when the work list is empty, the completion predicate holds and the control port can send, and the completion predicate fails while any container that carries write-back work is non-empty (directory-to-bank buffers, bank in-flight counters, write buffer, pending and in-flight evictions, in-flight fetches); " +
			"(4) nothing reachable from the flusher marks a block invalid, and the only blocks it marks clean are the ones recorded for this flush; (5) the invalidate filter applies the same process/address rule (sibling agreement); (slot-pinning) a transaction slot whose index is still held by a pending or in-flight eviction or fetch list is never handed out again, so the write-back a flush waits for carries the evicted line's own data. (flush-sweep) the flusher's walk over the directory that builds the flush list ends only by exhaustion.",
		NotDecided:  "that backing memory holds the latest bytes (value-level); the bank and write-buffer stages' handling of the eviction itself.",
		Assumptions: []string{"the containers listed in (3) are the ones eviction work travels through (frozen list, one reason each in the rule)"},
	}, runC17)
	register("C19", PropertyMeta{
		Technique: "field-ownership audit of the recency order + decision tables of the directory operations + guard dominance at every victim-selection site",
		Explanation: "Decides on mem/cache/directory_ops.go and its six victim-selection call sites: the recency order of a set is written only by DirectoryVisit (remove the way if listed, append it: a permutation stays a permutation) and DirectoryReset (identity); DirectoryFindVictim returns, while scanning in recency order, only a block that is neither locked nor being read; lookup and victim selection map an address to its set with the same function; " +
			"at every call site, every use of the selected victim (the calls that evict, fetch into or write it) is dominated by the failing branches of `IsLocked` and `ReadCount > 0` tests on that victim, so the fallback (least recent block when all are busy) is never replaced while busy. (reader-count-steps) a block's outstanding-reader count is only ever incremented or decremented by one, never assigned. (tag-install-sets-pid) every function that stores a block's Tag also stores its PID. (invalidate-inflight) the write-back cache's Invalidate handler looks at IsLocked/ReadCount or the in-flight transactions (reported as a known finding today).",
		NotDecided:  "reader counts never negative; uniqueness of valid tags per process — both depend on cross-event transaction flows.",
		Assumptions: []string{},
	}, runC19)
	register("C27", PropertyMeta{
		Technique:   "guard dominance (insert only after a failed lookup of the same key) + decision table of the frame allocator's loop body",
		Explanation: "Decides on mem/vm/mmu/translationmw.go: a page is inserted into the page table only on the path where the lookup of that same process and virtual address failed and auto-allocation is on (a miss without auto-allocation panics; a hit inserts nothing); the allocator returns a frame only when the reverse lookup of exactly that frame found no page, stores the cursor one page past it on that path, and otherwise advances the cursor by one page and probes again. (insert-alias) no in-place insertion into an index the allocator's ReverseLookup depends on aliases its own tail.",
		NotDecided:  "overlap with pre-inserted pages of other sizes or alignments: the probe is an equality lookup on the frame base, a numeric matter.",
		Assumptions: []string{},
	}, runC27)
}

func runC17(c *Ctx) {
	sweepExhaustiveRule(c, "flush-sweep", "mem/cache/writeback", "flusher", "prepareBlockToFlushList",
		"the directory is keyed by process and address, so the same line address can be resident once per process; a walk that stops after 'enough' matches leaves the remaining matching dirty lines unwritten and dirty although the flush is acknowledged")
	evictionFieldsRule(c, "writeback-request-fields")
	// a slot whose index is still queued for (or awaiting) an eviction
	// write-back must not be reused: the write-back would carry another
	// transaction's data and the dirty line never reaches backing memory
	slotPinningRule(c, "slot-pinning")
	p := c.P
	dom := []int{0, 1, 2}
	norm := func(s string) string { return strings.ReplaceAll(strings.ReplaceAll(s, "&", ""), " ", "") }
	filterRoles := func(pidParam string) []Role {
		return []Role{
			{Name: "valid", IsBool: true, Match: func(a *Atom) bool { return a.HasName("IsValid") }},
			{Name: "dirty", IsBool: true, Match: func(a *Atom) bool { return a.HasName("IsDirty") }},
			{Name: "fpid", Match: func(a *Atom) bool { return a.HasName("FilterPID") || a.Key == pidParam }},
			{Name: "bpid", Match: func(a *Atom) bool {
				return a.HasName("PID") && !a.HasName("FilterPID") && a.Key != pidParam
			}},
			{Name: "naddr", Match: func(a *Atom) bool { return a.HasLenOf() && strings.HasPrefix(a.Key, "len(make(") }},
			{Name: "match", IsBool: true, Match: func(a *Atom) bool { return a.HasName("Tag") || strings.HasSuffix(a.Key, ".Tag]") }},
			{Name: "rc", Match: func(a *Atom) bool { return a.HasName("ReadCount") }},
			{Name: "locked", IsBool: true, Match: func(a *Atom) bool { return a.HasName("IsLocked") }},
		}
	}
	selectedBy := func(v RoleVals, needDirty bool) bool {
		if !v.B("valid") || (needDirty && !v.B("dirty")) {
			return false
		}
		if v["fpid"] != 0 && v["bpid"] != v["fpid"] {
			return false
		}
		if v["naddr"] > 0 && !v.B("match") {
			return false
		}
		return true
	}
	// (1) flush filter
	if f := c.fn("flush-filter-table", "mem/cache/writeback", "flusher", "prepareBlockToFlushList"); f != nil {
		t := ExtractTable(p, f, TableConfig{Domain: dom, LoopsOnce: true, MaxRows: 60000})
		CheckTable(c, "flush-filter-table", "mem/cache/writeback.flusher.prepareBlockToFlushList", p.Decl(f).Pos(), t, filterRoles(""), dom, nil, func(v RoleVals, r *Row) (bool, string) {
			if r.Atom(func(a *Atom) bool { return a.HasName("IsValid") }) == nil {
				return true, "" // the path never reached a block
			}
			if r.Out.Kind == "panic" {
				return true, ""
			}
			work := r.Stores(func(e *Effect) bool { return strings.HasSuffix(norm(e.RecvS), "FlusherBlockToEvictRefs") })
			clean := r.Stores(func(e *Effect) bool { return strings.HasSuffix(norm(e.RecvS), "FlushedRefs") })
			want := selectedBy(v, true)
			if want != (len(work) == 1) || want != (len(clean) == 1) {
				return false, "a block must be queued for write-back, and recorded to be marked clean, iff it is valid, dirty and matches the process and address filters"
			}
			if want {
				wa, ca := norm(work[0].Args[0]), norm(clean[0].Args[0])
				if wa[strings.LastIndex(wa, ","):] != ca[strings.LastIndex(ca, ","):] {
					return false, "the same block reference must go into the work list and the clean list"
				}
			}
			return true, ""
		})
		// address alignment of the filter
		fd := p.Decl(f)
		aligned := false
		for _, r := range t.Rows {
			for _, e := range r.Effects {
				if e.Kind == "store" && strings.Contains(norm(e.RecvS), "/blockSize*blockSize]") {
					aligned = true
				}
				if e.Kind == "store" && strings.HasPrefix(e.RecvS, "make(map") {
					// index of the form X / D * D
					k := norm(e.RecvS)
					idx := k[strings.LastIndex(k, "[")+1 : len(k)-1]
					if i := strings.Index(idx, "/"); i > 0 {
						rest := idx[i+1:]
						if j := strings.Index(rest, "*"); j > 0 && rest[:j] == rest[j+1:] {
							aligned = true
						}
					}
				}
			}
		}
		c.Check(aligned, "flush-filter-table", "mem/cache/writeback.flusher.prepareBlockToFlushList#alignment", fd.Pos(), "filter addresses are aligned down to the line size", "filter addresses must be aligned down to the cache-line size before being compared with block tags")
	}
	// (5) invalidate sibling
	if f := c.fn("invalidate-filter-table", "mem/cache/writeback", "", "invalidateBlocks"); f != nil {
		pidName := f.Type().(*types.Signature).Params().At(3).Name()
		t := ExtractTable(p, f, TableConfig{Domain: dom, LoopsOnce: true, MaxRows: 60000})
		roles := filterRoles(pidName)
		roles[4] = Role{Name: "naddr", Match: func(a *Atom) bool { return a.HasLenOf() && strings.Contains(a.Key, "addresses") }}
		CheckTable(c, "invalidate-filter-table", "mem/cache/writeback.invalidateBlocks", p.Decl(f).Pos(), t, roles, dom, nil, func(v RoleVals, r *Row) (bool, string) {
			if r.Atom(func(a *Atom) bool { return a.HasName("IsValid") }) == nil {
				return true, ""
			}
			inv := r.Stores(func(e *Effect) bool { return strings.HasSuffix(e.RecvS, ".IsValid") && e.Args[0] == "false" })
			if selectedBy(v, false) != (len(inv) == 1) {
				return false, "a block must be invalidated iff it is valid and matches the process and address filters (zero process = all, empty address list = all)"
			}
			return true, ""
		})
	}
	// (2) pre-flush gate
	if f := c.fn("preflush-gate", "mem/cache/writeback", "flusher", "processPreFlushing"); f != nil {
		exist := p.LookupFunc("mem/cache/writeback", "flusher", "existInflightTransaction")
		prep := p.LookupFunc("mem/cache/writeback", "flusher", "prepareBlockToFlushList")
		t := ExtractTable(p, f, TableConfig{Domain: dom, Pure: func(g *types.Func) bool { return g == exist }})
		roles := []Role{{Name: "inflight", IsBool: true, Match: func(a *Atom) bool { return a.Has(exist) }}}
		CheckTable(c, "preflush-gate", "mem/cache/writeback.flusher.processPreFlushing", p.Decl(f).Pos(), t, roles, dom, nil, func(v RoleVals, r *Row) (bool, string) {
			n := len(r.Calls(func(e *Effect) bool { return e.Callee == prep }))
			if v.B("inflight") && n != 0 {
				return false, "blocks must not be selected for write-back while a transaction is still in flight (its data could still change a line)"
			}
			if !v.B("inflight") && n != 1 {
				return false, "once nothing is in flight the blocks to flush must be selected"
			}
			return true, ""
		})
	}
	if f := c.fn("preflush-gate", "mem/cache/writeback", "flusher", "existInflightTransaction"); f != nil {
		t := ExtractTable(p, f, TableConfig{Domain: dom, LoopsOnce: true})
		ok := len(t.Unsupported) == 0 && len(t.Rows) > 0
		for _, r := range t.Rows {
			rem := r.Atom(func(a *Atom) bool { return a.HasName("Removed") })
			if r.Out.Kind == "return" && len(r.Out.Vals) == 1 && r.Out.Vals[0].Kind == vBool {
				if rem != nil && !rem.B && !r.Out.Vals[0].B {
					ok = false
				}
			}
		}
		c.Check(ok, "preflush-gate", "mem/cache/writeback.flusher.existInflightTransaction", p.Decl(f).Pos(), "a transaction that is not removed counts as in flight", "a transaction that has not been removed must count as in flight")
	}
	// (3) completion gate
	if f := c.fn("completion-gate", "mem/cache/writeback", "flusher", "finalizeFlushing"); f != nil {
		fc := p.LookupFunc("mem/cache/writeback", "flusher", "flushCompleted")
		t := ExtractTable(p, f, TableConfig{Domain: dom, LoopsOnce: true, Pure: func(g *types.Func) bool { return g == fc }})
		roles := []Role{
			{Name: "work", Match: func(a *Atom) bool { return a.HasLenOf() && a.HasName("FlusherBlockToEvictRefs") }},
			{Name: "done", IsBool: true, Match: func(a *Atom) bool { return a.Has(fc) }},
			{Name: "can", IsBool: true, Match: func(a *Atom) bool { return a.HasName("CanSend") }},
		}
		CheckTable(c, "completion-gate", "mem/cache/writeback.flusher.finalizeFlushing", p.Decl(f).Pos(), t, roles, dom, nil, func(v RoleVals, r *Row) (bool, string) {
			send := r.Calls(func(e *Effect) bool { return e.Kind == "call" && e.Callee != nil && e.Callee.Name() == "Send" })
			if v["work"] > 0 || !v.B("done") || !v.B("can") {
				if len(send) != 0 {
					return false, "the flush must not be acknowledged while blocks are still queued, write-backs are outstanding, or the control port is full"
				}
				return true, ""
			}
			if len(send) != 1 {
				return false, "a completed flush must be acknowledged exactly once"
			}
			return true, ""
		})
		// the blocks marked clean are the ones recorded for this flush
		fn := p.SSAFunc(f)
		n, bad := 0, ""
		for _, b := range fn.Blocks {
			for _, in := range b.Instrs {
				st, ok := in.(*ssa.Store)
				if !ok {
					continue
				}
				fa, isFA := st.Addr.(*ssa.FieldAddr)
				if !isFA || FieldOf(fa) == nil || FieldOf(fa).Name() != "IsDirty" {
					continue
				}
				n++
				from := false
				for v := range DataSlice(fn, fa) {
					switch v.(type) {
					case *ssa.FieldAddr, *ssa.Field:
						if FieldOf(v) != nil && FieldOf(v).Name() == "FlushedRefs" {
							from = true
						}
					}
				}
				if !from {
					bad = "a block is marked clean although it is not one of the blocks recorded for this flush (non-matching dirty lines must stay dirty)"
				}
			}
		}
		c.Check(bad == "" && n >= 1, "completion-gate", "mem/cache/writeback.flusher.finalizeFlushing#mark-clean", p.Decl(f).Pos(), "only the recorded blocks are marked clean", bad)
	}
	if f := c.fn("completion-gate", "mem/cache/writeback", "flusher", "flushCompleted"); f != nil {
		fn := p.SSAFunc(f)
		// containers that carry write-back work, each with the reason it must be empty
		need := map[string]string{
			"DirToBankBufs":           "flush transactions are queued here for the bank",
			"BankInflightTransCounts": "the bank is reading the victim line",
			"WriteBufferBuf":          "the victim line waits to enter the write buffer",
			"PendingEvictionIndices":  "the write-back is queued behind the in-flight eviction limit",
			"InflightEvictionIndices": "the write-back was sent and not yet acknowledged",
			"InflightFetchIndices":    "a fetch that can still install or evict a line",
		}
		for name, why := range need {
			c.Check(readsFieldNamed(fn, name, 0, map[*ssa.Function]bool{}), "completion-gate", "flushCompleted#"+name, p.Decl(f).Pos(), "consulted: "+why,
				"the flush completion predicate does not look at "+name+" ("+why+"): the flush can be acknowledged, and the cache paused, while dirty data has not reached memory")
		}
		t := ExtractTable(p, f, TableConfig{Domain: dom, LoopsOnce: true})
		ok := len(t.Unsupported) == 0 && len(t.Rows) > 0
		for _, r := range t.Rows {
			if r.Out.Kind != "return" || len(r.Out.Vals) != 1 || r.Out.Vals[0].Kind != vBool || !r.Out.Vals[0].B {
				continue
			}
			for _, a := range r.Atoms {
				if !a.IsBool && (a.HasName("Size") || a.HasLenOf() || a.HasName("BankInflightTransCounts")) && !strings.HasPrefix(a.Key, "key-of") && a.I > 0 {
					if strings.Contains(a.Key, "range") {
						continue
					}
					ok = false
				}
			}
		}
		c.Check(ok, "completion-gate", "mem/cache/writeback.flusher.flushCompleted#table", p.Decl(f).Pos(), "true only when every consulted container is empty", "the completion predicate returns true although a consulted container is non-empty")
	}
	// (4) effects of the flusher's closure
	if f := c.fn("flusher-effects", "mem/cache/writeback", "flusher", "Tick"); f != nil {
		root := p.SSAFunc(f)
		reach := p.ModCG().Reach([]*ssa.Function{root}, func(fn *ssa.Function) bool {
			return strings.HasSuffix(pkgOfFn(fn), "/mem/cache/writeback") && strings.HasPrefix(p.DeclFile(fn), "mem/cache/writeback/flusher.go")
		})
		n := 0
		for fn := range reach {
			n++
			for _, b := range fn.Blocks {
				for _, in := range b.Instrs {
					st, ok := in.(*ssa.Store)
					if !ok {
						continue
					}
					fa, isFA := st.Addr.(*ssa.FieldAddr)
					if !isFA || FieldOf(fa) == nil || FieldOf(fa).Name() != "IsValid" {
						continue
					}
					if cst, isC := st.Val.(*ssa.Const); isC && cst.Value != nil && cst.Value.String() == "false" {
						c.Fail("flusher-effects", SSAFuncKey(fn)+"#IsValid=false", st.Pos(), "the flusher marks a block invalid: a flush must leave every line valid")
					}
				}
			}
		}
		c.Check(n >= 8, "flusher-effects", "<flusher closure>", p.Decl(f).Pos(), "no store of IsValid=false in the flusher", "the flusher's closure is smaller than confirmed by hand")
	}
	// processFlush: head of the work list, bankEvict, guarded push
	if f := c.fn("flush-dispatch", "mem/cache/writeback", "flusher", "processFlush"); f != nil {
		t := ExtractTable(p, f, TableConfig{Domain: dom})
		roles := []Role{
			{Name: "n", Match: func(a *Atom) bool { return a.HasLenOf() && a.HasName("FlusherBlockToEvictRefs") }},
			{Name: "can", IsBool: true, Match: func(a *Atom) bool { return a.HasName("CanPush") }},
		}
		CheckTable(c, "flush-dispatch", "mem/cache/writeback.flusher.processFlush", p.Decl(f).Pos(), t, roles, dom, nil, func(v RoleVals, r *Row) (bool, string) {
			push := r.Calls(func(e *Effect) bool { return e.Kind == "call" && e.Callee != nil && e.Callee.Name() == "PushTyped" })
			adv := r.Stores(func(e *Effect) bool { return strings.HasSuffix(norm(e.RecvS), "FlusherBlockToEvictRefs") })
			if v["n"] == 0 || !v.B("can") {
				if len(push)+len(adv) != 0 {
					return false, "no write-back is dispatched without work or without room in the bank buffer"
				}
				return true, ""
			}
			if len(push) != 1 || len(adv) != 1 || norm(adv[0].Args[0]) != norm(adv[0].RecvS)+"[1:]" {
				return false, "exactly the head of the work list is dispatched and removed"
			}
			alloc := r.Calls(func(e *Effect) bool { return e.Callee != nil && e.Callee.Name() == "allocTransaction" })
			if len(alloc) != 1 {
				return false, "one eviction transaction per dispatched block"
			}
			a := norm(alloc[0].Args[0])
			for _, w := range []string{"Action:bankEvict", "HasFlush:true", "EvictingAddr:", "FlusherBlockToEvictRefs[0]"} {
				if !strings.Contains(a, w) {
					return false, "the eviction transaction must evict the head block of the work list (missing " + w + ")"
				}
			}
			return true, ""
		})
	}
}

func runC19(c *Ctx) {
	invalidateInflightRule(c, "invalidate-inflight", []string{"mem/cache/writeback"})
	tagInstallSetsPIDRule(c, "tag-install-sets-pid", 5)
	readerCountRule(c, "reader-count-steps")
	idempotentStallRule(c, "idempotent-stall", func(pp string) bool { return strings.HasPrefix(pp, ModPath+"/mem/cache") }, 10)
	p := c.P
	dom := []int{0, 1, 2}
	lruF := c.field("anchors", "mem/cache", "SetState", "LRUOrder")
	if lruF == nil {
		return
	}
	fns := p.SrcFuncs(func(pp string) bool { return !clientPkg(pp) })
	for _, w := range FieldWrites(fns, lruF) {
		k := SSAFuncKey(w.Fn)
		okW := k == "mem/cache.DirectoryVisit" || k == "mem/cache.DirectoryReset"
		c.Check(okW, "recency-ownership", "SetState.LRUOrder@"+k, w.Pos, "written by DirectoryVisit/DirectoryReset", "the recency order is modified outside DirectoryVisit/DirectoryReset ("+w.Kind+"): nothing then keeps it a permutation of the ways")
	}
	c.Floor("recency-ownership", 3)
	norm := func(s string) string { return strings.ReplaceAll(strings.ReplaceAll(s, "&", ""), " ", "") }
	if f := c.fn("directory-table", "mem/cache", "", "DirectoryVisit"); f != nil {
		t := ExtractTable(p, f, TableConfig{Domain: dom, LoopsOnce: true})
		ok, why := len(t.Unsupported) == 0 && len(t.Rows) > 0, "outside the analysable fragment"
		for _, r := range t.Rows {
			if r.Out.Kind != "return" {
				continue
			}
			st := r.Stores(func(e *Effect) bool { return e.RecvHas(lruF) })
			hit := r.Atom(func(a *Atom) bool { return !a.IsBool && strings.HasPrefix(a.Key, "value-of(") })
			way := r.Atom(func(a *Atom) bool { return a.Key == "wayID" })
			last := ""
			if len(st) > 0 {
				last = norm(st[len(st)-1].Args[0])
			}
			if len(st) == 0 || !strings.HasPrefix(last, "append(") || !strings.HasSuffix(last, ",wayID)") {
				ok, why = false, "a visit must end by appending the way at the most-recent end"
			}
			if hit != nil && way != nil && hit.I == way.I {
				if len(st) != 2 || !strings.Contains(norm(st[0].Args[0]), "[:") {
					ok, why = false, "a way already listed must be removed before it is appended (otherwise it is listed twice)"
				}
			}
		}
		c.Check(ok, "directory-table", "mem/cache.DirectoryVisit", p.Decl(f).Pos(), "remove if listed; append", why)
	}
	if f := c.fn("directory-table", "mem/cache", "", "DirectoryFindVictim"); f != nil {
		t := ExtractTable(p, f, TableConfig{Domain: dom, LoopsOnce: true})
		ok, why := len(t.Unsupported) == 0 && len(t.Rows) > 0, "outside the analysable fragment: "+strings.Join(t.Unsupported, "; ")
		inLoopReturn := false
		for _, r := range t.Rows {
			lk := r.Atom(func(a *Atom) bool { return a.IsBool && a.HasName("IsLocked") })
			rc := r.Atom(func(a *Atom) bool { return !a.IsBool && a.HasName("ReadCount") })
			if r.Out.Kind == "return" && lk != nil {
				// returned from inside the scan unless it fell through to the fallback
				ret := r.Out.Vals[1].String()
				if strings.HasPrefix(ret, "value-of(") {
					inLoopReturn = true
					if lk.B || rc == nil || rc.I != 0 {
						ok, why = false, "the scan returns a block that is locked or being read"
					}
				}
			}
		}
		if ok && !inLoopReturn {
			// the scan is not a `range` loop (index loop, guard clauses): decide the same
			// thing on SSA — every return inside the loop is reached only with IsLocked
			// found false and ReadCount found zero
			if sf := p.SSAFunc(f); sf != nil {
				loops := loopsOf(sf)
				for _, b := range sf.Blocks {
					if _, isRet := b.Instrs[len(b.Instrs)-1].(*ssa.Return); !isRet {
						continue
					}
					// leaves the loop from its body (the exit from the header is the fallback)
					fromBody := false
					for _, pr := range b.Preds {
						for _, l := range loops {
							if l.blocks[pr] && pr != l.header {
								fromBody = true
							}
						}
					}
					if !fromBody {
						continue
					}
					inLoopReturn = true
					unlocked, unread := false, false
					for _, fact := range FactsAt(b) {
						if valueReadsField(fact.Cond, "IsLocked") && !fact.Truth {
							unlocked = true
						}
						if bo, isBO := fact.Cond.(*ssa.BinOp); isBO && valueReadsField(bo.X, "ReadCount") && constIs(bo.Y, "0") {
							if (bo.Op == token.EQL && fact.Truth) || ((bo.Op == token.NEQ || bo.Op == token.GTR) && !fact.Truth) {
								unread = true
							}
						}
					}
					if !unlocked || !unread {
						ok, why = false, "the scan returns a block that is locked or being read"
					}
				}
			}
		}
		c.Check(ok && inLoopReturn, "directory-table", "mem/cache.DirectoryFindVictim", p.Decl(f).Pos(), "the scan returns only a block that is neither locked nor being read", why)
		fd := p.Decl(f)
		_ = fd
	}
	if f := c.fn("directory-table", "mem/cache", "", "DirectoryReset"); f != nil {
		t := ExtractTable(p, f, TableConfig{Domain: dom, LoopsOnce: true})
		ok := len(t.Unsupported) == 0 && len(t.Rows) > 0
		saw := false
		for _, r := range t.Rows {
			for _, s := range r.Stores(func(e *Effect) bool {
				return e.RecvHas(lruF) && strings.HasSuffix(e.RecvS, "]") && !strings.HasSuffix(e.RecvS, "LRUOrder")
			}) {
				saw = true
				if !strings.HasSuffix(s.RecvS, "["+s.Args[0]+"]") {
					ok = false // slot j must hold way j
				}
			}
		}
		c.Check(ok && saw, "directory-table", "mem/cache.DirectoryReset", p.Decl(f).Pos(), "recency order initialised to the identity", "a reset must list every way exactly once in the recency order")
	}
	// same set function
	setID := p.LookupFunc("mem/cache", "", "DirectorySetID")
	for _, name := range []string{"DirectoryLookup", "DirectoryFindVictim"} {
		f := c.fn("set-mapping", "mem/cache", "", name)
		if f == nil || setID == nil {
			continue
		}
		sites := CallSites([]*ssa.Function{p.SSAFunc(f)}, func(g *types.Func) bool { return g == setID })
		ok := len(sites) == 1
		if ok {
			args := sites[0].Args()
			ok = len(args) == 3 && VKey(args[0]) == "addr" && VKey(args[1]) == "blockSize" && VKey(args[2]) == "numSets"
		}
		c.Check(ok, "set-mapping", "mem/cache."+name, p.Decl(f).Pos(), "set = DirectorySetID(addr, blockSize, numSets)", "lookup and victim selection must map an address to its set with the same function and arguments, or a line is installed in a set where lookups never find it")
	}
	// a block that is given a new tag must stay visible to lookups
	nTag := 0
	for _, fn := range p.SrcFuncs(func(pp string) bool { return strings.Contains(pp, "/mem/cache") && !clientPkg(pp) }) {
		var tagStores, invalidations []*ssa.Store
		for _, b := range fn.Blocks {
			for _, in := range b.Instrs {
				st, ok := in.(*ssa.Store)
				if !ok {
					continue
				}
				fa, isFA := st.Addr.(*ssa.FieldAddr)
				if !isFA || FieldOf(fa) == nil || !strings.HasSuffix(types.TypeString(fa.X.Type(), nil), "BlockState") {
					continue
				}
				switch FieldOf(fa).Name() {
				case "Tag":
					tagStores = append(tagStores, st)
				case "IsValid":
					if cst, isC := st.Val.(*ssa.Const); isC && cst.Value != nil && cst.Value.String() == "false" {
						invalidations = append(invalidations, st)
					}
				}
			}
		}
		if len(tagStores) == 0 {
			continue
		}
		nTag++
		bad := ""
		for _, ts := range tagStores {
			for _, iv := range invalidations {
				if VKey(ts.Addr.(*ssa.FieldAddr).X) == VKey(iv.Addr.(*ssa.FieldAddr).X) {
					bad = "the block is given a new tag and marked invalid in the same step (" + p.Rel(iv.Pos()) + "): lookups skip invalid blocks, so while the line is in flight a second request for it misses, picks another victim, and two ways end up holding the same line"
				}
			}
		}
		c.Check(bad == "", "tag-install-visible", SSAFuncKey(fn), tagStores[0].Pos(), "a retagged block is not invalidated in the same step", bad)
	}
	c.Floor("tag-install-visible", 5)

	// victim use sites
	fv := p.LookupFunc("mem/cache", "", "DirectoryFindVictim")
	for _, s := range CallSites(fns, func(g *types.Func) bool { return fv != nil && g == fv }) {
		call, ok := s.Instr.(*ssa.Call)
		if !ok || call.Referrers() == nil {
			continue
		}
		idx := map[ssa.Value]bool{}
		for _, r := range *call.Referrers() {
			if ex, isEx := r.(*ssa.Extract); isEx {
				idx[ex] = true
			}
		}
		uses, bad := victimUsesGuarded(p, s.Fn, idx, s.Instr, 0)
		c.Check(bad == "" && uses >= 1, "victim-guard", "DirectoryFindVictim@"+SSAFuncKey(s.Fn), s.Pos(), "every use of the victim is dominated by not-locked and no-readers",
			bad+": when every way is busy the selector falls back to the least recent block, which must not be replaced while locked or read")
	}
	c.Floor("victim-guard", 6)
}

func runC27(c *Ctx) {
	// the allocator asks the page table whether a frame is mapped (ReverseLookup);
	// an index the table keeps for that must not lose entries when it is updated
	insertAliasRule(c, "insert-alias", func(pp string) bool { return pp == pkgPath("mem/vm") || pp == pkgPath("mem/vm/mmu") })
	indexMaintenanceRule(c, "index-maintenance")
	p := c.P
	dom := []int{0, 1, 2}
	norm := func(s string) string { return strings.ReplaceAll(strings.ReplaceAll(s, "&", ""), " ", "") }
	if f := c.fn("insert-after-miss", "mem/vm/mmu", "translationMW", "finalizePageWalk"); f != nil {
		t := ExtractTable(p, f, TableConfig{Domain: dom})
		roles := []Role{
			{Name: "found", IsBool: true, Match: func(a *Atom) bool { return strings.Contains(a.Key, "Find(") && strings.HasSuffix(a.Key, "#1") }},
			{Name: "auto", IsBool: true, Match: func(a *Atom) bool { return a.HasName("AutoPageAllocation") }},
		}
		CheckTable(c, "insert-after-miss", "mem/vm/mmu.translationMW.finalizePageWalk", p.Decl(f).Pos(), t, roles, dom, nil, func(v RoleVals, r *Row) (bool, string) {
			ins := r.Calls(func(e *Effect) bool { return e.Kind == "call" && e.Callee != nil && e.Callee.Name() == "Insert" })
			find := r.Calls(func(e *Effect) bool { return e.Kind == "call" && e.Callee != nil && e.Callee.Name() == "Find" })
			if len(find) != 1 {
				return false, "the page table must be consulted exactly once per walk"
			}
			if v.B("found") {
				if len(ins) != 0 {
					return false, "a page that exists must not be inserted again (each process/virtual page gets exactly one mapping)"
				}
				return true, ""
			}
			if !v.B("auto") {
				if r.Out.Kind != "panic" || len(ins) != 0 {
					return false, "a missing page without auto-allocation must not be invented"
				}
				return true, ""
			}
			if len(ins) != 1 || ins[0].Gen < find[0].Gen {
				return false, "a missing page is allocated and inserted exactly once, after the lookup failed"
			}
			cd := r.Calls(func(e *Effect) bool { return e.Callee != nil && e.Callee.Name() == "createDefaultPage" })
			if len(cd) != 1 || len(cd[0].Args) < 2 || norm(cd[0].Args[0]) != norm(find[0].Args[0]) || norm(cd[0].Args[1]) != norm(find[0].Args[1]) {
				return false, "the inserted page must be created for the same process and virtual address that the failed lookup asked for"
			}
			return true, ""
		})
	}
	if f := c.fn("allocator-table", "mem/vm/mmu", "translationMW", "allocatePhysicalPage"); f != nil {
		npF := p.Field("mem/vm/mmu", "State", "NextPhysicalPage")
		t := ExtractTable(p, f, TableConfig{Domain: dom})
		roles := []Role{{Name: "taken", IsBool: true, Match: func(a *Atom) bool { return strings.Contains(a.Key, "ReverseLookup(") }}}
		CheckTable(c, "allocator-table", "mem/vm/mmu.translationMW.allocatePhysicalPage", p.Decl(f).Pos(), t, roles, dom, nil, func(v RoleVals, r *Row) (bool, string) {
			probe := r.Calls(func(e *Effect) bool { return e.Kind == "call" && e.Callee != nil && e.Callee.Name() == "ReverseLookup" })
			st := r.Stores(func(e *Effect) bool { return npF != nil && e.RecvHas(npF) })
			if len(probe) != 1 {
				return false, "each candidate frame must be probed with a reverse lookup"
			}
			cand := norm(probe[0].Args[0])
			if v.B("taken") {
				if r.Out.Kind != "loop-next" || len(st) != 1 {
					return false, "an occupied frame must be skipped (cursor advanced by one page) and the next one probed"
				}
				return true, ""
			}
			if r.Out.Kind != "return" || len(r.Out.Vals) != 1 {
				return false, "a free frame must be returned"
			}
			if norm(r.Out.Vals[0].String()) != cand {
				return false, "the returned frame must be exactly the frame whose reverse lookup found no page (a frame that was not probed may belong to another page)"
			}
			if len(st) != 1 || !strings.HasPrefix(norm(st[0].Args[0]), cand+"+") {
				return false, "the cursor must be stored one page past the returned frame"
			}
			return true, ""
		})
		// every return of the function is inside the probing loop
		fn := p.SSAFunc(f)
		rl := 0
		for _, s := range CallSites([]*ssa.Function{fn}, func(g *types.Func) bool { return g.Name() == "ReverseLookup" }) {
			_ = s
			rl++
		}
		other := 0
		for _, s := range CallSites([]*ssa.Function{fn}, func(g *types.Func) bool { return g.Name() == "Find" && methodOf(g, "mem/vm", "", "Find") }) {
			_ = s
			other++
		}
		c.Check(rl == 1 && other == 0, "allocator-table", "mem/vm/mmu.translationMW.allocatePhysicalPage#probe", p.Decl(f).Pos(), "frames are vetted by reverse lookup only", "the allocator must vet every frame it hands out with a reverse lookup; skipping frames through forward lookups leaves the returned frame unchecked")
	}
}

// victimUsesGuarded checks every use of a selected victim (identified by the
// index values idx) inside fn: calls into the cache packages that receive an
// index, and stores into the block addressed by them, must be dominated by the
// failing branches of IsLocked and ReadCount>0 tests on that block. A callee of
// the same package that receives the indices may perform the tests itself.
func victimUsesGuarded(p *Program, fn *ssa.Function, idx map[ssa.Value]bool, skip ssa.Instruction, depth int) (int, string) {
	derives := func(v ssa.Value) bool {
		for x := range DataSlice(fn, v) {
			if idx[x] {
				return true
			}
		}
		return false
	}
	guardedAt := func(b *ssa.BasicBlock) bool {
		lockedFalse, readersFalse := false, false
		for _, f := range FactsAt(b) {
			for x := range DataSlice(fn, f.Cond) {
				switch x.(type) {
				case *ssa.FieldAddr, *ssa.Field:
					fo := FieldOf(x)
					if fo == nil || !derives(x) {
						continue
					}
					if fo.Name() == "IsLocked" && !f.Truth {
						lockedFalse = true
					}
					if fo.Name() == "ReadCount" {
						if bo, isBO := f.Cond.(*ssa.BinOp); isBO {
							if (bo.Op == token.GTR && !f.Truth) || (bo.Op == token.EQL && f.Truth) || (bo.Op == token.NEQ && !f.Truth) {
								readersFalse = true
							}
						}
					}
				}
			}
		}
		return lockedFalse && readersFalse
	}
	uses, bad := 0, ""
	for _, b := range fn.Blocks {
		for _, in := range b.Instrs {
			if in == skip {
				continue
			}
			switch x := in.(type) {
			case *ssa.Store:
				fa, isFA := x.Addr.(*ssa.FieldAddr)
				if !isFA || FieldOf(fa) == nil {
					continue
				}
				switch FieldOf(fa).Name() {
				case "Tag", "PID", "IsValid", "IsLocked", "IsDirty":
				default:
					continue
				}
				if !derives(fa) {
					continue
				}
				uses++
				if !guardedAt(b) {
					bad = "the selected victim's " + FieldOf(fa).Name() + " is overwritten at " + p.Rel(x.Pos()) + " without both `IsLocked` and `ReadCount > 0` having been found false on it"
				}
			case ssa.CallInstruction:
				g, _ := calleeOf(x)
				if g == nil || g.Pkg() == nil || !strings.HasPrefix(g.Pkg().Path(), ModPath+"/mem/cache") {
					continue
				}
				var passed []int
				for i, a := range x.Common().Args {
					if idx[a] {
						passed = append(passed, i)
					}
				}
				if len(passed) == 0 {
					continue
				}
				uses++
				if guardedAt(b) {
					continue
				}
				// the callee may test the block itself
				sc := x.Common().StaticCallee()
				if sc != nil && sc.Blocks != nil && depth < 2 {
					sub := map[ssa.Value]bool{}
					for _, i := range passed {
						if i < len(sc.Params) {
							sub[sc.Params[i]] = true
						}
					}
					n, b2 := victimUsesGuarded(p, origin(sc), sub, nil, depth+1)
					if b2 == "" && n >= 1 {
						continue
					}
					if b2 != "" {
						bad = b2
						continue
					}
				}
				bad = "the selected victim is passed to " + g.Name() + " at " + p.Rel(in.Pos()) + " without both `IsLocked` and `ReadCount > 0` having been found false on it"
			}
		}
	}
	return uses, bad
}

// idempotentStallRule: in the selected packages, a stage that gives up because a
// port or buffer cannot accept ("if !X.CanSend() { return false }") is retried on
// the next tick; a counter update or a queue operation that executes before that
// test is repeated on every retry.
func idempotentStallRule(c *Ctx, rule string, pred func(string) bool, floor int) {
	p := c.P
	n := 0
	for _, fn := range p.SrcFuncs(pred) {
		sites, bad := stallEffects(fn)
		if sites == 0 {
			continue
		}
		n += sites
		why := ""
		for _, b := range bad {
			why += "it " + b.what + " at " + p.Rel(b.eff.Pos()) + " before the test at " + p.Rel(b.guard.Pos()) + "; "
		}
		c.Check(len(bad) == 0, rule, SSAFuncKey(fn), fn.Pos(), "nothing non-idempotent happens before a stall test ("+itoa(sites)+" tests)",
			"the stage stalls (returns without progress, to be retried next tick) when its output cannot accept, but "+why+"each retry repeats that effect (a reader count driven negative, an item taken twice, …)")
	}
	c.Check(n >= floor, rule, "instances", 0, "stall tests found ("+itoa(n)+")", "only "+itoa(n)+" stall tests found (expected at least "+itoa(floor)+")")
}

// evictionFieldsRule: the fields of a write-back cache transaction that
// writeBufferStage.write copies into the outgoing WriteReq form groups that are
// produced together; a producer that sets the address of a write-back but not,
// say, its dirty mask makes the write-back overwrite bytes the cache never wrote.
func evictionFieldsRule(c *Ctx, rule string) {
	p := c.P
	rel := "mem/cache/writeback"
	wf := c.fn(rule, rel, "writeBufferStage", "write")
	if wf == nil {
		return
	}
	w := p.SSAFunc(wf)
	// consumer: transaction fields stored into the WriteReq
	consumed := map[string]bool{}
	for _, b := range w.Blocks {
		for _, in := range b.Instrs {
			st, ok := in.(*ssa.Store)
			if !ok {
				continue
			}
			fo := FieldOf(st.Addr)
			if fo == nil || fo.Pkg() == nil || !strings.HasSuffix(fo.Pkg().Path(), "/memprotocol") && !strings.HasSuffix(fo.Pkg().Path(), "/messaging") {
				continue
			}
			if u, isU := stripConv(st.Val).(*ssa.UnOp); isU {
				if tf := FieldOf(u.X); tf != nil && tf.Pkg() != nil && tf.Pkg().Path() == pkgPath(rel) {
					consumed[tf.Name()] = true
				}
			}
		}
	}
	producers := map[string]map[string]bool{}
	for _, fn := range p.SrcFuncs(func(pp string) bool { return pp == pkgPath(rel) }) {
		if origin(fn) == origin(w) {
			continue
		}
		for _, b := range fn.Blocks {
			for _, in := range b.Instrs {
				st, ok := in.(*ssa.Store)
				if !ok {
					continue
				}
				fo := FieldOf(st.Addr)
				if fo == nil || !consumed[fo.Name()] || fo.Pkg() == nil || fo.Pkg().Path() != pkgPath(rel) {
					continue
				}
				if cst, isC := st.Val.(*ssa.Const); isC && (cst.Value == nil || cst.Value.String() == "0" || cst.Value.String() == "false") {
					continue // clearing
				}
				if producers[fo.Name()] == nil {
					producers[fo.Name()] = map[string]bool{}
				}
				producers[fo.Name()][SSAFuncKey(fn)] = true
			}
		}
	}
	var names []string
	for n := range producers {
		names = append(names, n)
	}
	sort.Strings(names)
	n := 0
	for i, a := range names {
		for _, b := range names[i+1:] {
			shared := false
			for f := range producers[a] {
				if producers[b][f] {
					shared = true
				}
			}
			if !shared {
				continue
			}
			n++
			var missing []string
			for f := range producers[a] {
				if !producers[b][f] {
					missing = append(missing, f+" sets "+a+" but not "+b)
				}
			}
			for f := range producers[b] {
				if !producers[a][f] {
					missing = append(missing, f+" sets "+b+" but not "+a)
				}
			}
			sort.Strings(missing)
			c.Check(len(missing) == 0, rule, rel+":"+a+"+"+b, p.Decl(wf).Pos(), "produced together wherever either is produced",
				"the write-back request is built from transaction fields "+a+" and "+b+", which are normally filled in together, but "+strings.Join(missing, "; ")+": a write-back issued from such a transaction carries a stale or empty "+b+"/"+a+" (e.g. no dirty mask, so the whole line overwrites bytes a sibling cache wrote back)")
		}
	}
	c.Check(len(consumed) >= 3 && n >= 1, rule, "instances", 0, "consumed fields and producer groups found", "the write-back request's source fields were not recognised")
}

// indexMaintenanceRule (page table): processTable keeps its pages in a list and
// indexes them in maps. An index keyed by a page attribute that update() can
// change must be maintained by update() as well; otherwise lookups through that
// index keep answering with the pre-update attribute — the MMU's free-frame test
// (ReverseLookup) then takes an occupied frame for free and hands it out again.
func indexMaintenanceRule(c *Ctx, rule string) {
	p := c.P
	rel := "mem/vm"
	tn := p.LookupType(rel, "processTable")
	ins := p.LookupFunc(rel, "processTable", "insert")
	upd := p.LookupFunc(rel, "processTable", "update")
	if tn == nil || ins == nil || upd == nil {
		c.Unknown(rule, "mem/vm.processTable", 0, "anchors not found")
		return
	}
	st := tn.Type().Underlying().(*types.Struct)
	writes := func(fn *ssa.Function, fld *types.Var) (bool, string) {
		key := ""
		w := false
		for _, b := range fn.Blocks {
			for _, in := range b.Instrs {
				var m, k ssa.Value
				switch x := in.(type) {
				case *ssa.MapUpdate:
					m, k = x.Map, x.Key
				case *ssa.Call:
					if bi, ok := x.Call.Value.(*ssa.Builtin); ok && bi.Name() == "delete" && len(x.Call.Args) == 2 {
						m, k = x.Call.Args[0], x.Call.Args[1]
					}
				}
				if m == nil {
					continue
				}
				u, ok := m.(*ssa.UnOp)
				if !ok {
					continue
				}
				if fo := FieldOf(u.X); fo != nil && sameObj(fo, fld) {
					w = true
					switch kk := stripConv(k).(type) {
					case *ssa.Field:
						if s2, isS := kk.X.Type().Underlying().(*types.Struct); isS {
							key = s2.Field(kk.Field).Name()
						}
					case *ssa.UnOp:
						if f2 := FieldOf(kk.X); f2 != nil {
							key = f2.Name()
						}
					}
				}
			}
		}
		return w, key
	}
	insF, updF := p.SSAFunc(ins), p.SSAFunc(upd)
	// the identity key: what update() looks the element up by
	identity := ""
	for _, b := range updF.Blocks {
		for _, in := range b.Instrs {
			if lk, ok := in.(*ssa.Lookup); ok && identity == "" { // the first lookup: the element being updated
				switch kk := stripConv(lk.Index).(type) {
				case *ssa.Field:
					if s2, isS := kk.X.Type().Underlying().(*types.Struct); isS {
						identity = s2.Field(kk.Field).Name()
					}
				case *ssa.UnOp:
					if f2 := FieldOf(kk.X); f2 != nil {
						identity = f2.Name()
					}
				}
			}
		}
	}
	n := 0
	for i := 0; i < st.NumFields(); i++ {
		fld := st.Field(i)
		if _, isMap := fld.Type().Underlying().(*types.Map); !isMap {
			continue
		}
		w, key := writes(insF, fld)
		if !w {
			continue
		}
		n++
		ok := key == identity && identity != ""
		if !ok {
			uw, _ := writes(updF, fld)
			ok = uw
		}
		c.Check(ok, rule, "mem/vm.processTable."+fld.Name(), p.Decl(upd).Pos(), "keyed by the page identity ("+identity+") or maintained by update()",
			"processTable."+fld.Name()+" indexes pages by "+key+", which update() can change, but update() does not maintain it: after a page is moved to another frame the index still lists its old frame, so a reverse lookup of the new frame finds nothing and the MMU's auto-allocation hands that occupied frame to another mapping (two mappings alias one frame)")
	}
	c.Check(n >= 1 && identity != "", rule, "instances", 0, "indexes found", "no map index maintained by insert() was recognised in processTable")
}

// tagInstallValidRule: a function that installs a tag into a directory block
// (claims the way for a line) never marks that block invalid. The line must be
// findable from the moment its way is claimed: the MSHR entry covers lookups only
// until the fill data arrives, and an invalid, locked way with the line's tag is
// skipped by the lookup and by the victim finder alike — a second request for the
// line then claims another way, and the set holds the line twice.
func tagInstallValidRule(c *Ctx, rule string, floor int) {
	p := c.P
	n := 0
	for _, fn := range p.SrcFuncs(func(pp string) bool { return strings.HasPrefix(pp, ModPath+"/mem/cache") }) {
		var tagBases []ssa.Value
		for _, b := range fn.Blocks {
			for _, in := range b.Instrs {
				if st, ok := in.(*ssa.Store); ok {
					if f := FieldOf(st.Addr); f != nil && f.Name() == "Tag" && strings.HasSuffix(f.Pkg().Path(), "/mem/cache") {
						if fa, isFA := st.Addr.(*ssa.FieldAddr); isFA {
							tagBases = append(tagBases, fa.X)
						}
					}
				}
			}
		}
		if len(tagBases) == 0 {
			continue
		}
		n++
		bad := ""
		for _, b := range fn.Blocks {
			for _, in := range b.Instrs {
				st, ok := in.(*ssa.Store)
				if !ok {
					continue
				}
				f := FieldOf(st.Addr)
				fa, isFA := st.Addr.(*ssa.FieldAddr)
				if f == nil || !isFA || f.Name() != "IsValid" {
					continue
				}
				same := false
				for _, tb := range tagBases {
					if tb == fa.X {
						same = true
					}
				}
				if same && constIs(st.Val, "false") {
					bad = p.Rel(st.Pos())
				}
			}
		}
		c.Check(bad == "", rule, SSAFuncKey(fn), fn.Pos(), "the block whose tag is installed is not marked invalid",
			"the function installs a line's tag into a directory block and marks the same block invalid ("+bad+"): once the MSHR entry is released the line is in neither the MSHR nor the directory, a second request for it claims another way, and later lookups return the stale copy (an acknowledged write becomes invisible)")
	}
	c.Floor(rule, floor)
}

// readerCountRule: a block's outstanding-reader count changes only by one at a
// time — up when a read hit is admitted, down when it is served. Assigning it a
// value (e.g. zeroing it when the line is invalidated) forgets readers that are
// still in flight; their later decrement drives the count negative and the way
// can never be chosen as a victim again.
func readerCountRule(c *Ctx, rule string) {
	p := c.P
	inc, dec := 0, 0
	for _, fn := range p.SrcFuncs(func(pp string) bool { return strings.HasPrefix(pp, ModPath+"/mem/cache") }) {
		for _, b := range fn.Blocks {
			for _, in := range b.Instrs {
				st, ok := in.(*ssa.Store)
				if !ok {
					continue
				}
				f := FieldOf(st.Addr)
				if f == nil || f.Name() != "ReadCount" || !strings.HasSuffix(f.Pkg().Path(), "/mem/cache") {
					continue
				}
				step := 0
				if bo, isBO := st.Val.(*ssa.BinOp); isBO && constIs(bo.Y, "1") && loadOfKey(bo.X, VKey(st.Addr)) {
					switch bo.Op {
					case token.ADD:
						step, inc = 1, inc+1
					case token.SUB:
						step, dec = -1, dec+1
					}
				}
				c.Check(step != 0, rule, SSAFuncKey(fn)+"#ReadCount", st.Pos(), "the reader count moves by exactly one",
					"the block's outstanding-reader count is assigned rather than incremented or decremented: readers admitted earlier and not yet served are forgotten, their decrement later drives the count below zero, and a way with a non-zero count is never evicted again")
			}
		}
	}
	c.Check(inc >= 2 && dec >= 2, rule, "<sites>", 0, itoa(inc)+" increments and "+itoa(dec)+" decrements found", "fewer reader-count updates found than confirmed by hand (write-back and write-through caches each admit and serve read hits)")
}

// tagInstallSetsPIDRule: a directory line is identified by (process, tag). Every
// function that writes a block's Tag also writes its PID; a line installed under
// the victim's old PID is not found by its own writer (a second copy is installed
// on the next access) and is found by the process that owned the way before.
func tagInstallSetsPIDRule(c *Ctx, rule string, floor int) {
	p := c.P
	for _, fn := range p.SrcFuncs(func(pp string) bool { return strings.HasPrefix(pp, ModPath+"/mem/cache") }) {
		var tagBases []ssa.Value
		var pos token.Pos
		pidBases := map[ssa.Value]bool{}
		for _, b := range fn.Blocks {
			for _, in := range b.Instrs {
				st, ok := in.(*ssa.Store)
				if !ok {
					continue
				}
				f := FieldOf(st.Addr)
				fa, isFA := st.Addr.(*ssa.FieldAddr)
				if f == nil || !isFA || f.Pkg() == nil || !strings.HasSuffix(f.Pkg().Path(), "/mem/cache") {
					continue
				}
				switch f.Name() {
				case "Tag":
					tagBases = append(tagBases, fa.X)
					pos = st.Pos()
				case "PID":
					pidBases[fa.X] = true
				}
			}
		}
		if len(tagBases) == 0 {
			continue
		}
		ok := true
		for _, tb := range tagBases {
			if !pidBases[tb] {
				ok = false
			}
		}
		c.Check(ok, rule, SSAFuncKey(fn), pos, "the block's process is recorded together with its tag",
			"the function installs a line's tag into a directory block without recording the requesting process in the block's PID: the line stays under the PID of whatever occupied the way before, so its own writer misses it on the next access (and installs a second copy in another way) while the previous owner's lookups hit it")
	}
	c.Floor(rule, floor)
}
