package main

import (
	"fmt"
	"go/token"
	"go/types"
	"os"
	"strings"

	"golang.org/x/tools/go/ssa"
)

func init() {
	register("C20", PropertyMeta{
		Technique: "decision-table extraction over orderings of (address, length, capacity) + validation-dominates-mutation (SSA dominance) + allocation-length provenance + checkpoint field-order agreement",
		Explanation: "Decides on mem/storage.go and storage_checkpoint.go: (1) the per-unit guard rejects address >= capacity in every ordering, without allocating; (2) Read and Write validate the whole range before touching any byte: every unit lookup and every copy is dominated by the success branch of a range validator whose decision table is `error iff length > 0 and (address >= capacity or length > capacity - address)` — a form that cannot wrap around the address space — so a failing access leaves the contents unchanged; " +
			"(3) every allocation unit is created with exactly unitSize bytes, which is what SaveCheckpoint writes and LoadCheckpoint reads per unit; (4) Save and Load agree on the field order capacity, unit size, unit count, then (address, data) per unit, units written in sorted address order and Load installs the decoded map. (unit-arithmetic) unit base and offset are computed from unitSize by division and remainder only (no mask or shift, which would need a power-of-two size). The unit size, which divides every address, is compared with 0 in the package (a zero unit size is refused).",
		NotDecided:  "byte-for-byte equality of reads with an array model (value-level).",
		Assumptions: []string{"the small-model domain {0..3} covers every ordering of address, length and capacity"},
	}, runC20)
	register("C24", PropertyMeta{
		Technique:   "only-through provenance (data-dependence slice) on the converter result + sibling agreement + decision tables for the ownership and offset guards",
		Explanation: "Decides on mem/addressconverter.go and mem/addrconv.go: in both sibling implementations the external address reaches the returned internal address only through `external - offset` (any other use, such as a remainder of the raw address, breaks contiguity whenever the offset is not stripe-aligned); an address below the offset, and an address whose stripe belongs to another element, panics instead of being converted. (mapper-stateless) InterleavedAddressPortMapper.Find stores nothing into the mapper, so its answer follows the exported interleaving parameters.",
		NotDecided:  "one-to-one-ness and order preservation as arithmetic facts; agreement between the converter's element selection and the interleaved port mapper's (equal expressions only for round-aligned offsets).",
		Assumptions: []string{},
	}, runC24)
	register("C26", PropertyMeta{
		Technique: "effect pairing on the per-process list+map (decision tables) + map-iteration classification + save-order provenance",
		Explanation: "Decides on mem/vm/pagetable.go and pagetable_checkpoint.go: insert pushes to the list and indexes the same key in the map, remove deletes from both, update replaces the list element found through the map, find looks the page-aligned address up; ReverseLookup (and every other map iteration in the package) is order-insensitive; " +
			"SaveCheckpoint emits each process's pages by traversing its list front to back (never re-sorted), LoadCheckpoint re-pushes them in that order and checks the page size; save/load field symmetry. (comparator-sound) no ordering function is an unsigned difference; (insert-alias) no append(append(X[:i], v), X[i:]...) over one slice.",
		NotDecided:  "agreement of whole operation histories with a reference map.",
		Assumptions: []string{"container/list semantics"},
	}, runC26)
	register("C28", PropertyMeta{
		Technique: "decision tables for the key-map and recency-list operations + JSON field symmetry + field ownership",
		Explanation: "Decides on mem/vm/lruset: Lookup returns the way bound to the key or (0,false); UpdateKey unbinds the old key and binds the new key to the way on every path, in that order (so rebinding a key to itself leaves it bound); Remove unbinds; Evict returns the head of the recency list read before the list is advanced by one, or (0,false) when empty; Visit records the visit and re-inserts the way; " +
			"the JSON pair carries every field both ways into a fresh decode target; the recency list, visit stamps and key map are written only inside the package. (key-injective) as in C25.",
		NotDecided:  "recency order against a reference model over long histories.",
		Assumptions: []string{},
	}, runC28)
}

func isErrNil(v *Val) bool { return v != nil && v.Str == "nil" }

func runC20(c *Ctx) {
	unitArithmeticRule(c, "unit-arithmetic")
	p := c.P
	dom := []int{0, 1, 2, 3}
	capF := c.field("anchors", "mem", "Storage", "capacity")
	usF := c.field("anchors", "mem", "Storage", "unitSize")
	dataF := c.field("anchors", "mem", "Storage", "data")
	if capF == nil || usF == nil || dataF == nil {
		return
	}
	// (1) per-unit guard
	guard := c.fn("unit-guard-table", "mem", "Storage", "createOrGetStorageUnit")
	if guard != nil {
		addr := guard.Type().(*types.Signature).Params().At(0)
		t := ExtractTable(p, guard, TableConfig{Domain: dom})
		roles := []Role{
			{Name: "addr", Match: func(a *Atom) bool { return a.Key == addr.Name() }},
			{Name: "cap", Match: func(a *Atom) bool { return a.Has(capF) }},
		}
		CheckTable(c, "unit-guard-table", "mem.Storage.createOrGetStorageUnit", p.Decl(guard).Pos(), t, roles, dom, nil, func(v RoleVals, r *Row) (bool, string) {
			if r.Out.Kind != "return" || len(r.Out.Vals) != 2 {
				return false, "must return (unit, error)"
			}
			st := r.Stores(func(e *Effect) bool { return e.RecvHas(dataF) })
			if v["addr"] >= v["cap"] {
				if isErrNil(r.Out.Vals[1]) || len(st) != 0 {
					return false, "an address at or beyond the capacity must be refused with an error and allocate nothing"
				}
				return true, ""
			}
			if !isErrNil(r.Out.Vals[1]) {
				return false, "an address below the capacity must be served"
			}
			return true, ""
		})
	}
	// (2) range validators: methods of Storage taking (address, length) and returning error whose table is the reference
	var validators []*types.Func
	if tn := p.LookupType("mem", "Storage"); tn != nil {
		named := tn.Type().(*types.Named)
		for i := 0; i < named.NumMethods(); i++ {
			m := named.Method(i)
			sig := m.Type().(*types.Signature)
			if sig.Params().Len() != 2 || sig.Results().Len() != 1 || sig.Results().At(0).Type().String() != "error" {
				continue
			}
			if !isIntType(sig.Params().At(0).Type()) || !isIntType(sig.Params().At(1).Type()) {
				continue
			}
			a, l := sig.Params().At(0), sig.Params().At(1)
			t := ExtractTable(p, m, TableConfig{Domain: dom})
			if len(t.Unsupported) > 0 || len(t.Rows) == 0 {
				continue
			}
			sub := newCtx(p, c.Prop, c.Tier)
			roles := []Role{
				{Name: "addr", Match: func(x *Atom) bool { return x.Key == a.Name() }},
				{Name: "len", Match: func(x *Atom) bool { return x.Key == l.Name() }},
				{Name: "cap", Match: func(x *Atom) bool { return x.Has(capF) }},
			}
			CheckTable(sub, "range-validator-table", FuncKey(m), p.Decl(m).Pos(), t, roles, dom, nil, func(v RoleVals, r *Row) (bool, string) {
				if r.Out.Kind != "return" || len(r.Out.Vals) != 1 {
					return false, "must return an error value"
				}
				wantErr := v["len"] > 0 && (v["addr"] >= v["cap"] || v["len"] > v["cap"]-v["addr"])
				if wantErr == isErrNil(r.Out.Vals[0]) {
					return false, "a range is rejected iff it is non-empty and touches an address at or beyond the capacity"
				}
				return true, ""
			})
			okAll := true
			for _, o := range sub.Obs {
				if o.Status != Discharged {
					okAll = false
				}
			}
			// the validator must not add address and length (that sum can wrap around)
			if fn := p.SSAFunc(m); fn != nil && okAll {
				for _, b := range fn.Blocks {
					for _, in := range b.Instrs {
						if bo, isBO := in.(*ssa.BinOp); isBO && bo.Op == token.ADD {
							sl := DataSlice(fn, bo)
							pa, pl := false, false
							for v := range sl {
								if pv, isP := v.(*ssa.Parameter); isP {
									if pv.Name() == a.Name() {
										pa = true
									}
									if pv.Name() == l.Name() {
										pl = true
									}
								}
							}
							if pa && pl {
								okAll = false
							}
						}
					}
				}
			}
			if okAll {
				validators = append(validators, m)
				c.Ok("range-validator-table", FuncKey(m), p.Decl(m).Pos(), "error iff length > 0 and (address >= capacity or length > capacity-address); no address+length sum")
			}
		}
	}
	if len(validators) == 0 {
		c.Fail("range-validator-table", "mem.Storage", token.NoPos, "no method of Storage validates a whole (address, length) range against the capacity in an overflow-safe way (error iff length > 0 and (address >= capacity or length > capacity-address)): accesses that cross the capacity or wrap around the address space are not rejected up front")
	}
	isValidator := func(f *types.Func) bool {
		for _, v := range validators {
			if sameObj(v, f) {
				return true
			}
		}
		return false
	}
	for _, name := range []string{"Read", "Write"} {
		f := c.fn("validate-before-touch", "mem", "Storage", name)
		if f == nil {
			continue
		}
		fn := p.SSAFunc(f)
		addrP, lenOK := fn.Params[1], true
		_ = lenOK
		n, bad := 0, ""
		for _, b := range fn.Blocks {
			for _, in := range b.Instrs {
				ci, ok := in.(ssa.CallInstruction)
				if !ok {
					continue
				}
				touch := false
				if bi, isB := ci.Common().Value.(*ssa.Builtin); isB && bi.Name() == "copy" {
					touch = true
				}
				if g, _ := calleeOf(ci); g != nil && guard != nil && sameObj(g, guard) {
					touch = true
				}
				if !touch {
					continue
				}
				n++
				dominated := false
				for _, fct := range FactsAt(b) {
					bo, isBO := fct.Cond.(*ssa.BinOp)
					if !isBO || !(isNilConst(bo.X) || isNilConst(bo.Y)) {
						continue
					}
					errv := bo.X
					if isNilConst(bo.X) {
						errv = bo.Y
					}
					call, isCall := errv.(*ssa.Call)
					if !isCall {
						continue
					}
					g, _ := calleeOf(call)
					if g == nil || !isValidator(g) {
						continue
					}
					passes := (bo.Op == token.NEQ && !fct.Truth) || (bo.Op == token.EQL && fct.Truth)
					args := call.Common().Args
					if passes && len(args) >= 3 && args[1] == addrP {
						dominated = true
					}
				}
				if !dominated {
					bad = "a storage unit is looked up or bytes are copied at " + p.Rel(in.Pos()) + " without the whole range having been validated first"
				}
			}
		}
		c.Check(bad == "" && n >= 2, "validate-before-touch", "mem.Storage."+name, p.Decl(f).Pos(), "every unit lookup and copy is dominated by a successful whole-range validation",
			bad+": an access crossing the capacity must fail before any byte is read or written")
	}
	// (3) allocation length
	if nsu := p.LookupFunc("mem", "", "newStorageUnit"); nsu != nil {
		fns := p.SrcFuncs(func(pp string) bool { return pp == ModPath+"/mem" })
		for _, s := range CallSites(fns, func(g *types.Func) bool { return g == nsu }) {
			args := s.Args()
			ok := len(args) == 1 && strings.HasSuffix(VKey(args[0]), ".unitSize")
			c.Check(ok, "unit-allocation-length", "newStorageUnit@"+SSAFuncKey(s.Fn), s.Pos(), "allocated with the storage's unitSize",
				"a storage unit is allocated with a length other than unitSize; SaveCheckpoint writes each unit's bytes and LoadCheckpoint reads unitSize bytes per unit, so the two no longer agree")
		}
		c.Floor("unit-allocation-length", 2)
		// and newStorageUnit allocates exactly its parameter
		t := ExtractTable(p, nsu, TableConfig{})
		ok := len(t.Rows) > 0 && len(t.Unsupported) == 0
		for _, r := range t.Rows {
			st := r.Stores(func(e *Effect) bool { return strings.HasSuffix(e.RecvS, ".data") })
			if len(st) != 1 || !strings.Contains(strings.ReplaceAll(st[0].Args[0], " ", ""), "make([]byte,"+nsu.Type().(*types.Signature).Params().At(0).Name()+")") {
				ok = false
			}
		}
		c.Check(ok, "unit-allocation-length", "mem.newStorageUnit", p.Decl(nsu).Pos(), "data = make([]byte, size)", "a storage unit must hold exactly the requested number of bytes")
	}
	// (4) checkpoint order
	save := c.fn("checkpoint-order", "mem", "Storage", "SaveCheckpoint")
	load := c.fn("checkpoint-order", "mem", "Storage", "LoadCheckpoint")
	if save != nil && load != nil {
		ts := ExtractTable(p, save, TableConfig{LoopsOnce: true})
		var best *Row
		for _, r := range ts.Rows {
			if r.Out.Kind == "return" && len(r.Out.Vals) == 1 && isErrNil(r.Out.Vals[0]) && (best == nil || len(r.Effects) > len(best.Effects)) {
				best = r
			}
		}
		why := ""
		if best == nil || len(ts.Unsupported) > 0 {
			why = "SaveCheckpoint is outside the analysable fragment"
		} else {
			var seq []string
			for _, e := range best.Effects {
				if e.Kind != "call" || e.Callee == nil {
					continue
				}
				switch e.Callee.Name() {
				case "writeUint64":
					seq = append(seq, "u64:"+strings.ReplaceAll(e.Args[1], " ", ""))
				case "Write":
					seq = append(seq, "bytes:"+strings.ReplaceAll(e.Args[0], " ", ""))
				}
			}
			// fields 4 and 5 are one unit's address and that same unit's bytes: the
			// address expression is whatever the loop binds (range value or indexed
			// element of the sorted key list), and the bytes are s.data[<that address>].data
			want := []string{"capacity", "unitSize", "len(", "key-of(", ".data"}
			if os.Getenv("AKITA_DE_DEBUG") != "" {
				fmt.Fprintln(os.Stderr, "checkpoint-order seq:", seq)
			}
			if len(seq) != 5 {
				why = "SaveCheckpoint must write capacity, unit size, unit count and then (address, data) per unit; found " + strings.Join(seq, ", ")
			} else {
				for i, w := range want {
					if !strings.Contains(seq[i], w) {
						why = "SaveCheckpoint field " + itoa(i+1) + " is " + seq[i] + ", expected " + w
					}
				}
				if addr := strings.TrimPrefix(seq[3], "u64:"); why == "" && !strings.Contains(seq[4], "["+addr+"]") {
					why = "SaveCheckpoint writes the address " + addr + " but the bytes " + seq[4] + " of a different unit"
				}
			}
		}
		c.Check(why == "", "checkpoint-order", "mem.Storage.SaveCheckpoint", p.Decl(save).Pos(), "capacity, unitSize, count, then (addr, data) per unit", why)
		tl := ExtractTable(p, load, TableConfig{LoopsOnce: true})
		why = ""
		var bl *Row
		for _, r := range tl.Rows {
			if r.Out.Kind == "return" && len(r.Out.Vals) == 1 && isErrNil(r.Out.Vals[0]) && (bl == nil || len(r.Effects) > len(bl.Effects)) {
				bl = r
			}
		}
		if bl == nil || len(tl.Unsupported) > 0 {
			why = "LoadCheckpoint is outside the analysable fragment"
		} else {
			reads := bl.Calls(func(e *Effect) bool {
				return e.Callee != nil && (e.Callee.Name() == "readUint64" || e.Callee.Name() == "ReadFull")
			})
			if len(reads) != 5 || reads[4].Callee.Name() != "ReadFull" || !strings.Contains(reads[4].Args[1], ".data") {
				why = "LoadCheckpoint must read capacity, unit size, unit count and then (address, unitSize bytes) per unit"
			}
			st := bl.Stores(func(e *Effect) bool {
				return e.RecvHas(dataF) && len(e.Recv) > 0 && sameObj(e.Recv[len(e.Recv)-1].Obj, dataF)
			})
			if len(st) != 1 {
				why = "LoadCheckpoint must install the decoded units as the storage's contents"
			}
		}
		c.Check(why == "", "checkpoint-order", "mem.Storage.LoadCheckpoint", p.Decl(load).Pos(), "reads the same field order and installs the decoded map", why)
	}
	mapRangeRule(c, "sorted-units", func(pp string) bool { return pp == ModPath+"/mem" }, 1)
}

func runC24(c *Ctx) {
	lookupStatelessRule(c, "mapper-stateless", "mem", "InterleavedAddressPortMapper", "Find",
		"the interleaving parameters are exported fields that builders read and assign; a value derived from them and remembered in the mapper goes stale when they change, and the mapper then routes an address to a different element than the one whose converter accepts it")
	p := c.P
	type sib struct {
		rel, recv, name string
		extParam        int // SSA param index of the external address
		offsetIs        string
	}
	for _, s := range []sib{{"mem", "InterleavingConverter", "ConvertExternalToInternal", 1, "Offset"}, {"mem", "", "ConvertAddress", 5, "offset"}} {
		f := c.fn("only-through-offset", s.rel, s.recv, s.name)
		if f == nil {
			continue
		}
		fn := p.SSAFunc(f)
		if fn == nil || len(fn.Params) <= s.extParam {
			c.Unknown("only-through-offset", FuncKey(f), p.Decl(f).Pos(), "unexpected signature")
			continue
		}
		ext := fn.Params[s.extParam]
		// returned values
		var rets []ssa.Value
		for _, b := range fn.Blocks {
			if r, ok := b.Instrs[len(b.Instrs)-1].(*ssa.Return); ok && len(r.Results) == 1 {
				rets = append(rets, r.Results[0])
			}
		}
		bad := ""
		nUses := 0
		for _, rv := range rets {
			if rv == ext {
				continue // identity conversion (no interleaving configured)
			}
			sl := DataSlice(fn, rv)
			if !sl[ext] {
				continue
			}
			for _, ref := range *ext.Referrers() {
				v, isVal := ref.(ssa.Value)
				if !isVal || !sl[v] {
					continue
				}
				nUses++
				bo, isBO := v.(*ssa.BinOp)
				okUse := false
				if isBO && bo.Op == token.SUB && bo.X == ext {
					k := VKey(bo.Y)
					if strings.HasSuffix(k, "."+s.offsetIs) || k == s.offsetIs {
						okUse = true
					}
				}
				if !okUse {
					bad = "the external address flows into the result through " + VKey(v) + " at " + p.Rel(ref.Pos()) + ", not through (external - offset)"
				}
			}
		}
		c.Check(bad == "" && nUses >= 1, "only-through-offset", FuncKey(f), p.Decl(f).Pos(), "the external address reaches the result only through external - offset",
			bad+": with an offset that is not a multiple of the interleaving size a contiguous external stripe then maps to a rotated, non-contiguous internal range")
		// guards
		t := ExtractTable(p, f, TableConfig{Domain: []int{0, 1, 2}})
		extName := f.Type().(*types.Signature).Params().At(f.Type().(*types.Signature).Params().Len() - 1).Name()
		roles := []Role{
			{Name: "ext", Match: func(a *Atom) bool { return a.Key == extName }},
			{Name: "off", Match: func(a *Atom) bool { return a.Key == s.offsetIs || strings.HasSuffix(a.Key, "."+s.offsetIs) }},
			{Name: "owner", Match: func(a *Atom) bool { return strings.Contains(a.Key, "%") }},
			{Name: "me", Match: func(a *Atom) bool { return strings.HasSuffix(strings.ToLower(a.Key), "currentelementindex") }},
			{Name: "nokind", IsBool: true, Match: func(a *Atom) bool { return strings.Contains(a.Key, "kind") }},
		}
		CheckTable(c, "ownership-guards", FuncKey(f), p.Decl(f).Pos(), t, roles, []int{0, 1, 2}, nil, func(v RoleVals, r *Row) (bool, string) {
			if r.Atom(func(a *Atom) bool { return strings.Contains(a.Key, "kind") }) != nil && v.B("nokind") {
				return true, "" // no interleaving configured: identity
			}
			if v["ext"] < v["off"] {
				if r.Out.Kind != "panic" {
					return false, "an address below the offset must be rejected"
				}
				return true, ""
			}
			if v["owner"] != v["me"] {
				if r.Out.Kind != "panic" {
					return false, "an address owned by another element must be rejected"
				}
				return true, ""
			}
			if r.Out.Kind != "return" {
				return false, "an address owned by this element must be converted"
			}
			return true, ""
		})
	}
	c.Floor("only-through-offset", 2)
	c.Floor("ownership-guards", 2)
}

func runC26(c *Ctx) {
	insertAliasRule(c, "insert-alias", func(pp string) bool { return pp == pkgPath("mem/vm") })
	comparatorSoundRule(c, "comparator-sound", func(pp string) bool { return pp == pkgPath("mem/vm") }, 1)
	p := c.P
	savedCoversWrittenRule(c, "saved-covers-written", func(pp string) bool { return pp == pkgPath("mem/vm") }, 1)
	// lookups are read-only: their result is a function of the table's content alone
	for _, nm := range [][2]string{{"pageTableImpl", "Find"}, {"pageTableImpl", "ReverseLookup"}, {"processTable", "find"}, {"processTable", "reverseLookup"}} {
		f := c.fn("read-only-lookup", "mem/vm", nm[0], nm[1])
		if f == nil {
			continue
		}
		root := p.SSAFunc(f)
		bad := ""
		for g := range p.ModCG().Reach([]*ssa.Function{root}, func(h *ssa.Function) bool { return pkgOfFn(h) == pkgPath("mem/vm") }) {
			if g != root && g.Signature.Recv() != nil && (g.Name() == "getTable") {
				continue // creates an empty per-process table on demand (no page content)
			}
			for _, b := range g.Blocks {
				for _, in := range b.Instrs {
					switch x := in.(type) {
					case *ssa.Store:
						if stateRooted(x.Addr) {
							bad += p.Rel(x.Pos()) + " stores " + shortKey(VKey(x.Addr)) + "; "
						}
					case *ssa.MapUpdate:
						if stateRooted(x.Map) {
							bad += p.Rel(x.Pos()) + " updates a map; "
						}
					}
				}
			}
		}
		c.Check(bad == "", "read-only-lookup", "mem/vm."+nm[0]+"."+nm[1], p.Decl(f).Pos(), "the lookup writes nothing",
			"a page-table lookup modifies the table object ("+bad+"): its answer then depends on which lookups were made before, not only on the operations that changed the table — two tables with the same content, or one table before and after a checkpoint, answer differently")
	}
	entriesF := c.field("anchors", "mem/vm", "processTable", "entries")
	mapF := c.field("anchors", "mem/vm", "processTable", "entriesTable")
	if entriesF == nil || mapF == nil {
		return
	}
	callsNamed := func(r *Row, name string) []*Effect {
		return r.Calls(func(e *Effect) bool { return e.Kind == "call" && e.Callee != nil && e.Callee.Name() == name })
	}
	if f := c.fn("list-map-pairing", "mem/vm", "processTable", "insert"); f != nil {
		t := ExtractTable(p, f, TableConfig{})
		ok, why := len(t.Rows) > 0 && len(t.Unsupported) == 0, "outside the analysable fragment"
		for _, r := range t.Rows {
			if r.Out.Kind != "return" {
				continue
			}
			pb := callsNamed(r, "PushBack")
			st := r.Stores(func(e *Effect) bool { return e.RecvHas(mapF) })
			if len(pb) != 1 || len(st) != 1 || !strings.Contains(st[0].RecvS, "[page.VAddr]") || !strings.Contains(st[0].Args[0], "PushBack(page)") {
				ok, why = false, "insert must append the page to the list and index that list element under the page's virtual address"
			}
		}
		c.Check(ok, "list-map-pairing", "mem/vm.processTable.insert", p.Decl(f).Pos(), "PushBack + map[VAddr] = element", why)
	}
	if f := c.fn("list-map-pairing", "mem/vm", "processTable", "remove"); f != nil {
		t := ExtractTable(p, f, TableConfig{})
		ok, why := len(t.Rows) > 0 && len(t.Unsupported) == 0, "outside the analysable fragment"
		for _, r := range t.Rows {
			if r.Out.Kind != "return" {
				continue
			}
			rm := callsNamed(r, "Remove")
			del := r.Calls(func(e *Effect) bool { return strings.HasPrefix(e.Str, "delete(") && e.RecvHas(mapF) })
			if len(rm) != 1 || len(del) != 1 || !strings.Contains(rm[0].Args[0], "entriesTable[vAddr]") || !strings.HasSuffix(strings.ReplaceAll(del[0].Str, " ", ""), ",vAddr)") {
				ok, why = false, "remove must take the element found under the address out of the list and delete the same key from the map"
			}
		}
		c.Check(ok, "list-map-pairing", "mem/vm.processTable.remove", p.Decl(f).Pos(), "list.Remove(map[vAddr]) + delete(map, vAddr)", why)
	}
	if f := c.fn("list-map-pairing", "mem/vm", "processTable", "update"); f != nil {
		t := ExtractTable(p, f, TableConfig{})
		ok, why := len(t.Rows) > 0 && len(t.Unsupported) == 0, "outside the analysable fragment"
		for _, r := range t.Rows {
			if r.Out.Kind != "return" {
				continue
			}
			st := r.Stores(func(e *Effect) bool { return strings.HasSuffix(e.RecvS, ".Value") })
			if len(st) != 1 || !strings.Contains(st[0].RecvS, "entriesTable[page.VAddr]") || st[0].Args[0] != "page" {
				ok, why = false, "update must replace the value of the element indexed under the page's virtual address"
			}
		}
		c.Check(ok, "list-map-pairing", "mem/vm.processTable.update", p.Decl(f).Pos(), "map[VAddr].Value = page", why)
	}
	if f := c.fn("list-map-pairing", "mem/vm", "pageTableImpl", "Find"); f != nil {
		t := ExtractTable(p, f, TableConfig{})
		ok, why := len(t.Rows) > 0 && len(t.Unsupported) == 0, "outside the analysable fragment"
		for _, r := range t.Rows {
			fd := callsNamed(r, "find")
			gt := callsNamed(r, "getTable")
			if len(fd) != 1 || len(gt) != 1 || !strings.Contains(fd[0].Args[0], "alignToPage(vAddr)") || !strings.Contains(gt[0].Args[0], "pid") {
				ok, why = false, "Find must look the page-aligned address up in the table of the given process"
			}
		}
		c.Check(ok, "list-map-pairing", "mem/vm.pageTableImpl.Find", p.Decl(f).Pos(), "getTable(pid).find(alignToPage(vAddr))", why)
	}
	c.Floor("list-map-pairing", 4)
	mapRangeRule(c, "deterministic-lookup", func(pp string) bool { return pp == ModPath+"/mem/vm" }, 2)
	// reverseLookup walks the list front to back and returns the first match
	if f := c.fn("deterministic-lookup", "mem/vm", "processTable", "reverseLookup"); f != nil {
		fn := p.SSAFunc(f)
		front, next := false, false
		for _, s := range CallSites([]*ssa.Function{fn}, func(g *types.Func) bool { return g.Pkg() != nil && g.Pkg().Path() == "container/list" }) {
			switch s.Callee.Name() {
			case "Front":
				front = true
			case "Next":
				next = true
			}
		}
		rangesMap := false
		for _, b := range fn.Blocks {
			for _, in := range b.Instrs {
				if rg, isR := in.(*ssa.Range); isR {
					if _, isMap := rg.X.Type().Underlying().(*types.Map); isMap {
						rangesMap = true
					}
				}
			}
		}
		c.Check((front && next) || !rangesMap, "deterministic-lookup", "mem/vm.processTable.reverseLookup", p.Decl(f).Pos(), "walks the insertion-ordered list (or uses keyed lookups only)", "reverse lookup within a process iterates over a map: the page it returns when several share a frame depends on Go's iteration order")
	}
	// save order
	if f := c.fn("save-order", "mem/vm", "pageTableImpl", "SaveCheckpoint"); f != nil {
		fn := p.SSAFunc(f)
		pagesF := p.Field("mem/vm", "processTableEntry", "Pages")
		why := "the Pages field of the saved record is never set"
		for _, b := range fn.Blocks {
			for _, in := range b.Instrs {
				st, ok := in.(*ssa.Store)
				if !ok {
					continue
				}
				fa, isFA := st.Addr.(*ssa.FieldAddr)
				if !isFA || !sameObj(FieldOf(fa), pagesF) {
					continue
				}
				why = ""
				sl := DataSlice(fn, st.Val)
				fromList := false
				for v := range sl {
					if call, isCall := v.(*ssa.Call); isCall {
						if g, _ := calleeOf(call); g != nil && g.Pkg() != nil && g.Pkg().Path() == "container/list" && g.Name() == "Front" {
							fromList = true
						}
					}
					if _, isRange := v.(*ssa.Range); isRange {
						if rg := v.(*ssa.Range); strings.Contains(VKey(rg.X), "entriesTable") {
							why = "a process's pages are collected from its map instead of its list: the saved order is no longer the insertion order, and reverse lookup (first match in list order) answers differently after a load"
						}
					}
				}
				if !fromList && why == "" {
					why = "a process's pages must be saved by traversing its list front to back; otherwise the insertion order, which reverse lookup depends on, is lost"
				}
				// the saved slice must not be re-sorted
				for v := range sl {
					if v.Referrers() == nil {
						continue
					}
					for _, ref := range *v.Referrers() {
						if ci, isCI := ref.(ssa.CallInstruction); isCI {
							if g, _ := calleeOf(ci); g != nil && g.Pkg() != nil && (g.Pkg().Path() == "sort" || g.Pkg().Path() == "slices") {
								if _, isSlice := v.Type().Underlying().(*types.Slice); isSlice && strings.Contains(v.Type().String(), "Page") {
									why = "the saved pages are re-sorted: list order (insertion order) is lost across a checkpoint"
								}
							}
						}
						if mi, isMI := ref.(*ssa.MakeInterface); isMI && mi.Referrers() != nil {
							for _, r2 := range *mi.Referrers() {
								if ci, isCI := r2.(ssa.CallInstruction); isCI {
									if g, _ := calleeOf(ci); g != nil && g.Pkg() != nil && g.Pkg().Path() == "sort" && strings.Contains(v.Type().String(), "Page") {
										why = "the saved pages are re-sorted: list order (insertion order) is lost across a checkpoint"
									}
								}
							}
						}
					}
				}
			}
		}
		c.Check(why == "", "save-order", "mem/vm.pageTableImpl.SaveCheckpoint", p.Decl(f).Pos(), "pages saved in list (insertion) order", why)
	}
	if f := c.fn("save-order", "mem/vm", "pageTableImpl", "LoadCheckpoint"); f != nil {
		fn := p.SSAFunc(f)
		pb := len(CallSites([]*ssa.Function{fn}, func(g *types.Func) bool {
			return g.Pkg() != nil && g.Pkg().Path() == "container/list" && g.Name() == "PushBack"
		}))
		pf := len(CallSites([]*ssa.Function{fn}, func(g *types.Func) bool {
			return g.Pkg() != nil && g.Pkg().Path() == "container/list" && g.Name() != "PushBack" && g.Name() != "New"
		}))
		c.Check(pb == 1 && pf == 0, "save-order", "mem/vm.pageTableImpl.LoadCheckpoint", p.Decl(f).Pos(), "pages re-pushed at the back in saved order", "LoadCheckpoint must append the saved pages to the list in the saved order")
	}
	// symmetry + shape + decode target for this pair
	sf, lf := p.LookupFunc("mem/vm", "pageTableImpl", "SaveCheckpoint"), p.LookupFunc("mem/vm", "pageTableImpl", "LoadCheckpoint")
	if sf != nil && lf != nil {
		s, l := p.SSAFunc(sf), p.SSAFunc(lf)
		rep := ckptSymmetry(s, l, s.Params[0], l.Params[0], nil)
		_, probs := freshDecodeTargets(l)
		rep.Problems = append(rep.Problems, probs...)
		c.Check(len(rep.Problems) == 0, "save-load-symmetry", "mem/vm.pageTableImpl", p.Decl(lf).Pos(), "record fields set and read; fresh decode target", strings.Join(rep.Problems, "; "))
	}
}

func runC28(c *Ctx) {
	keyInjectiveRule(c, "key-injective")
	p := c.P
	dom := []int{0, 1, 2}
	kmF := c.field("anchors", "mem/vm/lruset", "Set", "keyMap")
	vlF := c.field("anchors", "mem/vm/lruset", "Set", "visitList")
	lvF := c.field("anchors", "mem/vm/lruset", "Set", "lastVisits")
	vcF := c.field("anchors", "mem/vm/lruset", "Set", "visitCount")
	if kmF == nil || vlF == nil || lvF == nil || vcF == nil {
		return
	}
	if f := c.fn("set-table", "mem/vm/lruset", "Set", "Lookup"); f != nil {
		t := ExtractTable(p, f, TableConfig{Domain: dom})
		roles := []Role{{Name: "found", IsBool: true, Match: func(a *Atom) bool { return strings.HasPrefix(a.Key, "ok(") }}}
		CheckTable(c, "set-table", "mem/vm/lruset.Set.Lookup", p.Decl(f).Pos(), t, roles, dom, nil, func(v RoleVals, r *Row) (bool, string) {
			if r.Out.Kind != "return" || len(r.Out.Vals) != 2 || r.Out.Vals[1].Kind != vBool {
				return false, "must return (way, found)"
			}
			if r.Out.Vals[1].B != v.B("found") {
				return false, "found must report whether the key is bound"
			}
			if v.B("found") && !(r.Out.Vals[0].HasObj(kmF) && strings.Contains(r.Out.Vals[0].String(), "[key]")) {
				return false, "the way bound to the key must be returned"
			}
			return true, ""
		})
	}
	if f := c.fn("set-table", "mem/vm/lruset", "Set", "UpdateKey"); f != nil {
		t := ExtractTable(p, f, TableConfig{Domain: dom})
		ok, why := len(t.Rows) > 0 && len(t.Unsupported) == 0, "outside the analysable fragment"
		for _, r := range t.Rows {
			del := r.Calls(func(e *Effect) bool { return strings.HasPrefix(e.Str, "delete(") && e.RecvHas(kmF) })
			st := r.Stores(func(e *Effect) bool { return e.RecvHas(kmF) })
			if r.Out.Kind != "return" || len(st) != 1 || !strings.HasSuffix(st[0].RecvS, "[newKey]") || st[0].Args[0] != "wayID" {
				ok, why = false, "on every path the new key must end up bound to the given way (also when the old and new key are equal: callers pass a possibly stale old key)"
				continue
			}
			if len(del) != 1 || !strings.HasSuffix(strings.ReplaceAll(del[0].Str, " ", ""), ",oldKey)") || del[0].Gen > st[0].Gen {
				ok, why = false, "the old key must be unbound, before the new key is bound"
			}
		}
		c.Check(ok, "set-table", "mem/vm/lruset.Set.UpdateKey", p.Decl(f).Pos(), "delete(old); bind new -> way, on every path", why)
	}
	if f := c.fn("set-table", "mem/vm/lruset", "Set", "Remove"); f != nil {
		t := ExtractTable(p, f, TableConfig{Domain: dom})
		ok := len(t.Rows) > 0 && len(t.Unsupported) == 0
		for _, r := range t.Rows {
			del := r.Calls(func(e *Effect) bool { return strings.HasPrefix(e.Str, "delete(") && e.RecvHas(kmF) })
			if len(del) != 1 || !strings.HasSuffix(strings.ReplaceAll(del[0].Str, " ", ""), ",key)") {
				ok = false
			}
		}
		c.Check(ok, "set-table", "mem/vm/lruset.Set.Remove", p.Decl(f).Pos(), "unbinds the key", "Remove must unbind exactly the given key")
	}
	if f := c.fn("set-table", "mem/vm/lruset", "Set", "Evict"); f != nil {
		t := ExtractTable(p, f, TableConfig{Domain: dom})
		roles := []Role{{Name: "len", Match: func(a *Atom) bool { return a.HasLenOf() && a.Has(vlF) }}}
		CheckTable(c, "set-table", "mem/vm/lruset.Set.Evict", p.Decl(f).Pos(), t, roles, dom, nil, func(v RoleVals, r *Row) (bool, string) {
			st := r.Stores(func(e *Effect) bool { return e.RecvHas(vlF) })
			if r.Out.Kind != "return" || len(r.Out.Vals) != 2 || r.Out.Vals[1].Kind != vBool {
				return false, "must return (way, ok)"
			}
			if v["len"] == 0 {
				if r.Out.Vals[1].B || len(st) != 0 {
					return false, "an empty recency list yields (0,false) and is left alone"
				}
				return true, ""
			}
			if !r.Out.Vals[1].B || len(st) != 1 {
				return false, "a non-empty recency list yields its head and drops it"
			}
			if strings.ReplaceAll(st[0].Args[0], " ", "") != "s.visitList[1:]" {
				return false, "exactly the head (least recently visited way) must be dropped"
			}
			way := r.Out.Vals[0]
			if !strings.HasSuffix(way.String(), "visitList[0]") || way.Gen >= st[0].Gen {
				return false, "the returned way must be the head of the recency list, read before the list is advanced"
			}
			return true, ""
		})
	}
	if f := c.fn("set-table", "mem/vm/lruset", "Set", "Visit"); f != nil {
		t := ExtractTable(p, f, TableConfig{Domain: dom, LoopsOnce: true})
		ok, why := len(t.Rows) > 0 && len(t.Unsupported) == 0, "outside the analysable fragment: "+strings.Join(t.Unsupported, ";")
		for _, r := range t.Rows {
			if r.Out.Kind != "return" {
				continue
			}
			inc := r.Stores(func(e *Effect) bool { return e.RecvHas(vcF) })
			stamp := r.Stores(func(e *Effect) bool { return e.RecvHas(lvF) })
			ins := r.Stores(func(e *Effect) bool { return e.RecvHas(vlF) && strings.HasSuffix(e.RecvS, "]") && e.Args[0] == "wayID" })
			if len(inc) != 1 || len(stamp) != 1 || !strings.HasSuffix(stamp[0].RecvS, "[wayID]") || len(ins) != 1 {
				ok, why = false, "a visit must advance the visit counter, stamp the way with it and insert the way into the recency list"
			}
			if len(inc) == 1 && len(stamp) == 1 && inc[0].Gen > stamp[0].Gen {
				ok, why = false, "the way must be stamped with the advanced counter"
			}
			// when the way was already listed, the old occurrence is removed
			hit := r.Atom(func(a *Atom) bool {
				return a.IsBool && strings.Contains(a.Key, "== wayID") || strings.Contains(a.Key, "wayID ==")
			})
			if hit != nil && hit.B {
				splice := r.Stores(func(e *Effect) bool {
					return e.RecvHas(vlF) && strings.Contains(e.Args[0], "append(") && e.Gen < inc[0].Gen
				})
				if len(splice) == 0 {
					ok, why = false, "a way that is already in the recency list must be taken out before it is re-inserted (each way is listed once)"
				}
			}
		}
		c.Check(ok, "set-table", "mem/vm/lruset.Set.Visit", p.Decl(f).Pos(), "remove old occurrence; count++; stamp; insert", why)
	}
	c.Floor("set-table", 5)
	marshalerSymmetryRule(c, "json-symmetry", func(m marshalerSpec) bool { return m.typ == "Set" })
	c.Floor("json-symmetry", 1)
	fns := p.SrcFuncs(nil)
	for _, fld := range []*types.Var{kmF, vlF, lvF, vcF} {
		for _, w := range FieldWrites(fns, fld) {
			file := p.DeclFile(w.Fn)
			c.Check(strings.HasPrefix(file, "mem/vm/lruset/"), "set-ownership", "lruset.Set."+fld.Name()+"@"+SSAFuncKey(w.Fn), w.Pos, "written inside the package", "the set's internals are modified outside mem/vm/lruset")
		}
	}
	c.Floor("set-ownership", 8)
}
