package main

import (
	"go/token"
	"go/types"
	"strings"

	"golang.org/x/tools/go/ssa"
)

const httpapi = "daisen2/internal/httpapi"

func init() {
	register("C37", PropertyMeta{
		Technique: "taint-to-sink typestate on the SQL connection (SSA data slice + dominance), decision table of the statement filter, fact-dominance of the output caps",
		Explanation: "Decides on daisen2/internal/httpapi/agentloop.go: (read-only-connection) every database/sql call whose SQL text derives from runDataQuery's query parameter is a QueryContext on the dedicated *sql.Conn obtained from DB.Conn, and is dominated by a successful ExecContext of the literal \"PRAGMA query_only = ON\" on that same connection value; the pooled *sql.DB (or any wrapper of it) never receives model-supplied SQL; " +
			"(pool-usable) the function defers resetting query_only to OFF and closing the connection, so the pool is left usable; (filter) sanitizeReadonlySQL returns a statement only when it is non-empty, contains no ';' after trimming, starts with SELECT or WITH, and carries a LIMIT (appending the row cap otherwise); " +
			"(caps) in formatRows a result row is scanned only while the row count is below the cap and written only when the byte cap still holds.",
		NotDecided:  "SQLite's own enforcement of query_only (engine semantics), ATTACH/VACUUM behaviour inside SQLite, file-system side effects of the driver.",
		Assumptions: []string{"PRAGMA query_only makes the SQLite connection reject every write"},
	}, runC37)
	register("C38", PropertyMeta{
		Technique: "decision table of the address classifier against the mapped-address-safe classifier set, SSA provenance of dialled addresses and vetting-loop dominance, wiring audit of the outbound HTTP client",
		Explanation: "Decides on daisen2/internal/httpapi/chat.go: (classifier) isInternalIP answers 'internal' whenever any of the five classes loopback, private, unspecified, link-local unicast, link-local multicast holds, using classifiers that treat IPv4-mapped IPv6 forms like their IPv4 address (net.IP methods; net/netip methods only where they unmap themselves or after Unmap()); " +
			"(dial) guardedDialContext dials either under the explicit bypass (private hosts allowed / proxy target) or an address built from an element of the very slice of resolved IPs that a completed vetting loop (return on isInternalIP) has checked — never the host name again; (url) guardLLMURL returns nil only when bypassed or after every resolved IP passed the classifier; " +
			"(wiring) the only http.Client in the package is guardedLLMClient, whose transport dials through guardedDialContext and has no other dial hook installed (Dial/DialTLS/DialTLSContext replace DialContext for https or legacy dials), proxies through proxyForLLMRequest (which re-checks the URL) and whose CheckRedirect re-checks each redirect target with guardLLMURL; every outbound Do uses that client.",
		NotDecided:  "the standard library's classification of individual addresses; behaviour of an external proxy.",
		Assumptions: []string{"net.IP classifier methods handle 4-byte, 16-byte and IPv4-mapped forms alike; netip.Addr.IsUnspecified does not unmap"},
	}, runC38)
	register("C39", PropertyMeta{
		Technique: "who-may-call audit (no OS file API in the source tools), path-validation dominance for fs lookups with interprocedural argument tracing, SSA bound checks on archive reading, map-iteration determinism of archive writing",
		Explanation: "Decides: (archive-only) the code tools and the trace source never call an os/ioutil/filepath file API — content comes only through io/fs functions over Source.FS(); (valid-path) every io/fs lookup (ReadFile, ReadDir, Stat, Open) in the tools whose path derives from a string parameter is dominated by fs.ValidPath on that path, or receives it from callers that validated it or derived it from fs entries; archive entries enter the in-memory tree only under fs.ValidPath; " +
			"(bounded-read) ReadArchive reads entry bytes only through io.LimitReader with a constant bound, stores an entry only after the per-file cap and the total cap held, the tested total being running total + len(this entry) on every path, and sizes no allocation from the archive header; (deterministic-write) WriteArchive iterates the file map in sorted order and writes no clock or random value. The sort that makes the write order deterministic compares the collected keys themselves, not a function of them (ties would keep map order).",
		NotDecided:  "tar/gzip library behaviour; HTTP routing.",
		Assumptions: []string{"fs.ValidPath rejects absolute and parent-escaping paths"},
	}, runC39)
}

func sqlMethod(call ssa.CallInstruction) (recvType, name string) {
	sc := call.Common().StaticCallee()
	if sc == nil || sc.Pkg == nil || sc.Pkg.Pkg.Path() != "database/sql" || sc.Signature.Recv() == nil {
		return "", ""
	}
	return sc.Signature.Recv().Type().String(), sc.Name()
}

func runC37(c *Ctx) {
	p := c.P
	f := c.fn("read-only-connection", httpapi, "", "runDataQuery")
	if f != nil {
		sf := p.SSAFunc(f)
		var queryParam *ssa.Parameter
		for _, pv := range sf.Params {
			if pv.Name() == "query" {
				queryParam = pv
			}
		}
		// taint: values deriving from the query parameter (through sanitize)
		tainted := func(v ssa.Value) bool {
			for x := range DataSlice(sf, v) {
				if x == ssa.Value(queryParam) {
					return true
				}
			}
			return false
		}
		n := 0
		var pragmaOn []*ssa.Call
		for _, b := range sf.Blocks {
			for _, in := range b.Instrs {
				call, ok := in.(*ssa.Call)
				if !ok {
					continue
				}
				rt, name := sqlMethod(call)
				if rt == "" {
					continue
				}
				args := call.Common().Args
				if name == "ExecContext" && len(args) >= 3 {
					if cst, isC := args[2].(*ssa.Const); isC && cst.Value != nil && strings.EqualFold(strings.ReplaceAll(constText(cst), " ", ""), "PRAGMAquery_only=ON") {
						pragmaOn = append(pragmaOn, call)
					}
				}
			}
		}
		for _, b := range sf.Blocks {
			for _, in := range b.Instrs {
				call, ok := in.(ssa.CallInstruction)
				if !ok {
					continue
				}
				cc := call.Common()
				anyTaint := false
				for _, a := range cc.Args {
					if types.Identical(a.Type().Underlying(), types.Typ[types.String]) && tainted(a) {
						anyTaint = true
					}
				}
				if !anyTaint || queryParam == nil {
					continue
				}
				name, pkg := calleeNamePkg(call)
				if name == "sanitizeReadonlySQL" || pkg == "fmt" || pkg == "strings" {
					continue
				}
				n++
				rt, mname := "", ""
				if cl, isCall := in.(*ssa.Call); isCall {
					rt, mname = sqlMethod(cl)
				}
				why := ""
				switch {
				case rt != "*database/sql.Conn" || mname != "QueryContext":
					why = "the model-supplied SQL text is handed to " + name + " (" + pkg + rt + "), not to QueryContext on the dedicated read-only connection: the PRAGMA query_only guard set on that connection does not cover the statement, so a write smuggled past the prefix filter (e.g. through a CTE) modifies the trace"
				default:
					recv := cc.Args[0]
					guarded := false
					for _, pr := range pragmaOn {
						if sameConn(pr.Common().Args[0], recv) && InstrDominates(pr, in) {
							// the pragma's error must have been checked: query block has a fact err == nil
							guarded = true
						}
					}
					if !guarded {
						why = "the query runs on a connection on which PRAGMA query_only = ON has not been executed on every path"
					}
					if !fromDBConn(recv) && why == "" {
						why = "the read-only connection is not one checked out with DB.Conn for this query"
					}
				}
				c.Check(why == "", "read-only-connection", "httpapi.runDataQuery@"+name, in.Pos(), "model SQL reaches only QueryContext on the query_only connection", why)
			}
		}
		c.Check(n >= 1 && len(pragmaOn) == 1, "read-only-connection", "instances", token.NoPos, "one tainted SQL sink and one PRAGMA query_only = ON", "expected exactly one PRAGMA query_only = ON and at least one SQL sink of the model's text, found "+itoa(len(pragmaOn))+" and "+itoa(n))
		// deferred cleanup
		hasOff, hasClose := false, false
		for _, fn := range append([]*ssa.Function{sf}, sf.AnonFuncs...) {
			for _, b := range fn.Blocks {
				for _, in := range b.Instrs {
					call, ok := in.(ssa.CallInstruction)
					if !ok {
						continue
					}
					if _, isDefer := in.(*ssa.Defer); isDefer {
						if sc := call.Common().StaticCallee(); sc != nil && sc.Name() == "Close" && sc.Signature.Recv() != nil && strings.HasSuffix(sc.Signature.Recv().Type().String(), "sql.Conn") {
							hasClose = true
						}
					}
					for _, a := range call.Common().Args {
						if cst, isC := a.(*ssa.Const); isC && cst.Value != nil && strings.EqualFold(strings.ReplaceAll(constText(cst), " ", ""), "PRAGMAquery_only=OFF") && fn.Parent() == sf {
							hasOff = true
						}
					}
				}
			}
		}
		c.Check(hasOff && hasClose, "pool-usable", "httpapi.runDataQuery", p.Decl(f).Pos(), "query_only is reset and the connection closed by deferred calls", "the dedicated connection is not returned to the pool writable again (deferred PRAGMA query_only = OFF and Close)")
	}
	if f := c.fn("filter", httpapi, "", "sanitizeReadonlySQL"); f != nil {
		t := ExtractTable(p, f, TableConfig{})
		ok := len(t.Unsupported) == 0 && len(t.Rows) > 0
		why := ""
		for _, r := range t.Rows {
			if len(r.Out.Vals) != 2 || r.Out.Vals[1].Str != "nil" {
				continue // rejection
			}
			empty := r.Atom(func(a *Atom) bool { return strings.HasPrefix(a.Key, "\"\" ==") })
			semi := r.Atom(func(a *Atom) bool {
				return strings.HasPrefix(a.Key, "strings.Contains(") && strings.Contains(a.Key, "\";\")")
			})
			sel := r.Atom(func(a *Atom) bool {
				return strings.HasPrefix(a.Key, "strings.HasPrefix(") && strings.Contains(a.Key, "\"SELECT\"")
			})
			with := r.Atom(func(a *Atom) bool {
				return strings.HasPrefix(a.Key, "strings.HasPrefix(") && strings.Contains(a.Key, "\"WITH\"")
			})
			lim := r.Atom(func(a *Atom) bool { return strings.Contains(a.Key, "MatchString(") })
			switch {
			case empty == nil || empty.B:
				why = "an empty statement must be rejected"
			case semi == nil || semi.B:
				why = "a statement containing ';' (several statements) must be rejected"
			case !((sel != nil && sel.B) || (with != nil && with.B)):
				why = "only statements starting with SELECT or WITH may pass"
			case lim == nil:
				why = "a passing statement must be checked for a LIMIT clause"
			case !lim.B && !strings.Contains(r.Out.Vals[0].Str, "LIMIT"):
				why = "a statement without LIMIT must get the row cap appended"
			}
			if sel != nil && !strings.Contains(sel.Key, "ToUpper(") {
				why = "the SELECT/WITH test must be case-insensitive"
			}
		}
		c.Check(ok && why == "", "filter", "httpapi.sanitizeReadonlySQL", p.Decl(f).Pos(), "only single, non-empty SELECT/WITH statements with a LIMIT pass", why)
	}
	if f := c.fn("caps", httpapi, "", "formatRows"); f != nil {
		sf := p.SSAFunc(f)
		var rowCap, byteCap *ssa.Parameter
		for _, pv := range sf.Params {
			switch pv.Name() {
			case "rowCap":
				rowCap = pv
			case "byteCap":
				byteCap = pv
			}
		}
		nScan, nWrite := 0, 0
		why := ""
		loops := loopsOf(sf)
		// the loop's region: its natural-loop blocks plus the exit paths that leave
		// from inside the body (a "break" branch is dominated by a body block, the
		// code after the loop only by the header)
		inRegion := func(b *ssa.BasicBlock) bool {
			if innermost(loops, b) != nil {
				return true
			}
			for _, l := range loops {
				for x := range l.blocks {
					if x != l.header && x.Dominates(b) {
						return true
					}
				}
			}
			return false
		}
		for _, b := range sf.Blocks {
			if !inRegion(b) {
				continue
			}
			for _, in := range b.Instrs {
				call, ok := in.(*ssa.Call)
				if !ok || call.Common().StaticCallee() == nil {
					continue
				}
				sc := call.Common().StaticCallee()
				isScan := sc.Name() == "Scan" && sc.Pkg != nil && sc.Pkg.Pkg.Path() == "database/sql"
				isWrite := sc.Name() == "WriteString" && sc.Pkg != nil && sc.Pkg.Pkg.Path() == "strings"
				if !isScan && !isWrite {
					continue
				}
				rowOK, byteOK := false, false
				for _, fact := range FactsAt(b) {
					bo, isBO := fact.Cond.(*ssa.BinOp)
					if !isBO {
						continue
					}
					if (bo.Op == token.GEQ && bo.Y == ssa.Value(rowCap) && !fact.Truth) || (bo.Op == token.LSS && bo.Y == ssa.Value(rowCap) && fact.Truth) {
						rowOK = true
					}
					if (bo.Op == token.GTR && bo.Y == ssa.Value(byteCap) && !fact.Truth) || (bo.Op == token.LEQ && bo.Y == ssa.Value(byteCap) && fact.Truth) {
						// the left side must account for the bytes already written and the new line
						hasLen := false
						for x := range DataSlice(sf, bo.X) {
							if cl, isCall := x.(*ssa.Call); isCall && cl.Common().StaticCallee() != nil && cl.Common().StaticCallee().Name() == "Len" {
								hasLen = true
							}
						}
						byteOK = hasLen
					}
				}
				if isScan {
					nScan++
					if !rowOK {
						why = "a result row is scanned without the row count having been tested against the row cap"
					}
				}
				if isWrite {
					nWrite++
					if !rowOK || !byteOK {
						why = "a result row is written without the row cap and the byte cap (bytes written so far plus this row) having been tested"
					}
				}
			}
		}
		c.Check(nScan >= 1 && nWrite >= 1 && why == "", "caps", "httpapi.formatRows", p.Decl(f).Pos(), "rows are scanned and written only under the row and byte caps", why)
	}
}

// ---- C38 ----

func runC38(c *Ctx) {
	p := c.P
	if f := c.fn("classifier", httpapi, "", "isInternalIP"); f != nil {
		sf := p.SSAFunc(f)
		// classifier calls in the function, by class
		classOf := map[string]string{"IsLoopback": "loopback", "IsPrivate": "private", "IsUnspecified": "unspecified", "IsLinkLocalUnicast": "link-local unicast", "IsLinkLocalMulticast": "link-local multicast"}
		covered := map[string]string{}
		for _, b := range sf.Blocks {
			for _, in := range b.Instrs {
				call, ok := in.(*ssa.Call)
				if !ok || call.Common().StaticCallee() == nil {
					continue
				}
				sc := call.Common().StaticCallee()
				cls, isCls := classOf[sc.Name()]
				if !isCls || sc.Signature.Recv() == nil {
					continue
				}
				rt := sc.Signature.Recv().Type().String()
				safe := false
				switch rt {
				case "net.IP":
					safe = true
				case "net/netip.Addr":
					unmapped := false
					for x := range DataSlice(sf, call.Common().Args[0]) {
						if cl, isCall := x.(*ssa.Call); isCall && cl.Common().StaticCallee() != nil && cl.Common().StaticCallee().Name() == "Unmap" {
							unmapped = true
						}
					}
					safe = unmapped || sc.Name() != "IsUnspecified"
				}
				if safe {
					covered[cls] = rt
				} else if _, has := covered[cls]; !has {
					covered[cls] = ""
				}
			}
		}
		for _, cls := range []string{"loopback", "private", "unspecified", "link-local unicast", "link-local multicast"} {
			rt, has := covered[cls]
			why := "the " + cls + " class is not tested at all"
			if has && rt == "" {
				why = "the " + cls + " class is tested with a classifier that does not treat an IPv4-mapped IPv6 form (::ffff:a.b.c.d) like its IPv4 address: such an encoding of an internal address is classified as public and may be dialled"
			}
			c.Check(has && rt != "", "classifier", "httpapi.isInternalIP/"+cls, p.Decl(f).Pos(), "tested with a mapped-address-safe classifier", why)
		}
		// any true classifier makes the result true
		t := ExtractTable(p, f, TableConfig{})
		ok := len(t.Unsupported) == 0 && len(t.Rows) > 0
		for _, r := range t.Rows {
			anyTrue := false
			for _, a := range r.Atoms {
				for m := range classOf {
					if a.IsBool && a.B && strings.Contains(a.Key, "."+m+"()") {
						anyTrue = true
					}
				}
			}
			if anyTrue && !(len(r.Out.Vals) == 1 && r.Out.Vals[0].Kind == vBool && r.Out.Vals[0].B) {
				ok = false
			}
			if !anyTrue && len(r.Out.Vals) == 1 && r.Out.Vals[0].Kind == vBool && !r.Out.Vals[0].B {
				// returning "public": all five must have been consulted
				n := 0
				for _, a := range r.Atoms {
					for m := range classOf {
						if a.IsBool && strings.Contains(a.Key, "."+m+"()") {
							n++
						}
					}
				}
				if n < 5 {
					ok = false
				}
			}
		}
		c.Check(ok, "classifier", "httpapi.isInternalIP#disjunction", p.Decl(f).Pos(), "'public' is answered only after all five classes tested false", "isInternalIP can answer 'not internal' without all five address classes having tested false")
	}
	isInternal := p.LookupFunc(httpapi, "", "isInternalIP")
	// vetting loops: a loop that returns a non-nil error when isInternalIP(elem) is true
	vetted := func(sf *ssa.Function) map[ssa.Value]*loopInfo {
		out := map[ssa.Value]*loopInfo{}
		loops := loopsOf(sf)
		for _, b := range sf.Blocks {
			for _, in := range b.Instrs {
				call, ok := in.(*ssa.Call)
				if !ok || call.Common().StaticCallee() == nil || call.Common().StaticCallee().Object() != types.Object(isInternal) {
					continue
				}
				l := innermost(loops, b)
				if l == nil {
					continue
				}
				// the true branch must leave the function with an error
				ifi, isIf := b.Instrs[len(b.Instrs)-1].(*ssa.If)
				if !isIf || ifi.Cond != ssa.Value(call) {
					continue
				}
				tb := b.Succs[0]
				ret, isRet := tb.Instrs[len(tb.Instrs)-1].(*ssa.Return)
				if !isRet || len(ret.Results) == 0 || isNilConst(ret.Results[len(ret.Results)-1]) {
					continue
				}
				// the ranged slice
				for x := range DataSlice(sf, call.Common().Args[0]) {
					if ia, isIA := x.(*ssa.IndexAddr); isIA {
						out[ia.X] = l
					}
					if rg, isR := x.(*ssa.Range); isR {
						out[rg.X] = l
					}
				}
			}
		}
		return out
	}
	if f := c.fn("dial", httpapi, "", "guardedDialContext"); f != nil {
		sf := p.SSAFunc(f)
		vs := vetted(sf)
		n := 0
		for _, b := range sf.Blocks {
			for _, in := range b.Instrs {
				call, ok := in.(*ssa.Call)
				if !ok || call.Common().StaticCallee() == nil || call.Common().StaticCallee().Name() != "DialContext" {
					continue
				}
				n++
				addr := call.Common().Args[len(call.Common().Args)-1]
				bypass := false
				for _, fact := range FactsAt(b) {
					for x := range DataSlice(sf, fact.Cond) {
						if cl, isCall := x.(*ssa.Call); isCall && cl.Common().StaticCallee() != nil {
							switch cl.Common().StaticCallee().Name() {
							case "allowPrivateLLMHosts", "dialTargetIsProxy":
								if fact.Truth {
									bypass = true
								}
							}
						}
					}
				}
				// phi-merged "a || b" conditions: the block is the true target of an If whose cond slice has the bypass calls
				if !bypass {
					for _, pr := range b.Preds {
						if ifi, isIf := pr.Instrs[len(pr.Instrs)-1].(*ssa.If); isIf && pr.Succs[0] == b {
							for x := range DataSlice(sf, ifi.Cond) {
								if cl, isCall := x.(*ssa.Call); isCall && cl.Common().StaticCallee() != nil {
									switch cl.Common().StaticCallee().Name() {
									case "allowPrivateLLMHosts", "dialTargetIsProxy":
										bypass = true
									}
								}
							}
						}
					}
				}
				if bypass {
					c.Ok("dial", "httpapi.guardedDialContext@bypass-dial", in.Pos(), "dial under the explicit bypass (private hosts allowed or proxy target)")
					continue
				}
				why := ""
				usesParam := false
				fromVetted := false
				for x := range hostSlice(addr, vs) {
					if pv, isP := x.(*ssa.Parameter); isP && pv.Name() == "addr" {
						usesParam = true
					}
					if ex, isE := x.(*ssa.Extract); isE && ex.Index == 0 {
						if cl, isCall := ex.Tuple.(*ssa.Call); isCall && cl.Common().StaticCallee() != nil && cl.Common().StaticCallee().Name() == "SplitHostPort" {
							usesParam = true // the host name again
						}
					}
					var ranged ssa.Value
					if ia, isIA := x.(*ssa.IndexAddr); isIA {
						ranged = ia.X
					}
					if rg, isR := x.(*ssa.Range); isR {
						ranged = rg.X
					}
					if l, isV := vs[ranged]; ranged != nil && isV {
						// the vetting loop must be complete before this dial: its header dominates and the dial is outside it
						if l.header.Dominates(b) && !l.blocks[b] {
							fromVetted = true
						}
					}
				}
				if usesParam {
					why = "the guarded dialer connects by host name (a second resolution that can return a different, internal address) instead of a vetted IP literal"
				} else if !fromVetted {
					why = "the address dialled is not an element of the resolved-IP list that the vetting loop (return on isInternalIP) has completely checked"
				}
				c.Check(why == "", "dial", "httpapi.guardedDialContext@vetted-dial", in.Pos(), "dials an IP from the fully vetted list", why)
			}
		}
		c.Check(n >= 2, "dial", "instances", token.NoPos, "bypass and vetted dial sites found", "expected the bypass dial and the vetted dial, found "+itoa(n)+" dial sites")
	}
	if f := c.fn("url", httpapi, "", "guardLLMURL"); f != nil {
		sf := p.SSAFunc(f)
		vs := vetted(sf)
		why := ""
		n := 0
		for _, b := range sf.Blocks {
			ret, ok := b.Instrs[len(b.Instrs)-1].(*ssa.Return)
			if !ok || len(ret.Results) != 1 || !isNilConst(ret.Results[0]) {
				continue
			}
			n++
			bypass := false
			for _, fact := range FactsAt(b) {
				if cl, isCall := fact.Cond.(*ssa.Call); isCall && cl.Common().StaticCallee() != nil && cl.Common().StaticCallee().Name() == "allowPrivateLLMHosts" && fact.Truth {
					bypass = true
				}
			}
			if bypass {
				continue
			}
			done := false
			for _, l := range vs {
				if l.header.Dominates(b) && !l.blocks[b] {
					done = true
				}
			}
			if !done {
				why = "guardLLMURL accepts a URL on a path that has not run the complete vetting loop over the resolved addresses"
			}
		}
		c.Check(n >= 2 && why == "", "url", "httpapi.guardLLMURL", p.Decl(f).Pos(), "nil is returned only under the bypass or after every resolved IP was vetted", why)
	}
	// wiring
	pk := p.Pkg(httpapi)
	if pk == nil {
		c.Unknown("wiring", httpapi, token.NoPos, "package not loaded")
		return
	}
	var initFn *ssa.Function
	for _, fn := range p.SrcFuncs(func(pp string) bool { return pp == pkgPath(httpapi) }) {
		if fn.Name() == "init" && fn.Synthetic != "" {
			initFn = fn
		}
	}
	wired := map[string]string{}
	nClients := 0
	otherDial := ""
	scan := func(fn *ssa.Function) {
		for _, b := range fn.Blocks {
			for _, in := range b.Instrs {
				if al, ok := in.(*ssa.Alloc); ok && strings.HasSuffix(al.Type().String(), "*net/http.Client") {
					nClients++
				}
				st, ok := in.(*ssa.Store)
				if !ok {
					continue
				}
				fo := FieldOf(st.Addr)
				if fo == nil {
					continue
				}
				if fo.Pkg() != nil && fo.Pkg().Path() == "net/http" {
					switch fo.Name() {
					case "Dial", "DialTLS", "DialTLSContext":
						// net/http uses these INSTEAD of DialContext (DialTLS* for every
						// direct https request): whatever is installed here dials unvetted
						if cst, isC := st.Val.(*ssa.Const); !isC || !cst.IsNil() {
							otherDial += fo.Name() + " (" + p.Rel(st.Pos()) + "); "
						}
					}
				}
				switch fo.Name() {
				case "DialContext", "Proxy", "CheckRedirect":
					v := st.Val
					if mi, isMI := v.(*ssa.MakeInterface); isMI {
						v = mi.X
					}
					if cf, isCT := v.(*ssa.ChangeType); isCT {
						v = cf.X
					}
					if fnv, isF := v.(*ssa.Function); isF {
						wired[fo.Name()] = fnv.Name()
						if fo.Name() == "CheckRedirect" {
							// the closure must return guardLLMURL(...) on its final path
							calls := false
							for _, bb := range fnv.Blocks {
								for _, ii := range bb.Instrs {
									if cl, isCall := ii.(*ssa.Call); isCall && cl.Common().StaticCallee() != nil && cl.Common().StaticCallee().Name() == "guardLLMURL" {
										calls = true
									}
								}
							}
							if calls {
								wired["CheckRedirect"] = "guardLLMURL"
							}
						}
					}
				}
			}
		}
	}
	for _, fn := range p.SrcFuncs(func(pp string) bool { return pp == pkgPath(httpapi) }) {
		scan(fn)
	}
	_ = initFn
	c.Check(wired["DialContext"] == "guardedDialContext", "wiring", "guardedLLMClient.Transport.DialContext", token.NoPos, "the transport dials through guardedDialContext", "the outbound client's transport does not dial through guardedDialContext (found "+wired["DialContext"]+")")
	c.Check(otherDial == "", "wiring", "guardedLLMClient.Transport#other-dial-hooks", token.NoPos, "no Dial/DialTLS/DialTLSContext hook is installed beside the guarded DialContext",
		"the package installs another dial hook on an http.Transport: "+otherDial+"net/http uses DialTLS/DialTLSContext instead of DialContext for every direct https request (and Dial as the legacy fallback), so those connections are made without the dial-time address vetting and without pinning to the vetted address")
	c.Check(wired["Proxy"] == "proxyForLLMRequest", "wiring", "guardedLLMClient.Transport.Proxy", token.NoPos, "proxied requests are re-checked", "the outbound client's proxy hook is not proxyForLLMRequest (found "+wired["Proxy"]+")")
	c.Check(wired["CheckRedirect"] == "guardLLMURL", "wiring", "guardedLLMClient.CheckRedirect", token.NoPos, "each redirect target is re-checked with guardLLMURL", "redirect targets are not re-checked with guardLLMURL")
	c.Check(nClients == 1, "wiring", "http.Client-instances", token.NoPos, "exactly one http.Client is constructed in the package", itoa(nClients)+" http.Client values are constructed in the package: an unguarded client could be used for outbound calls")
	if pf := p.LookupFunc(httpapi, "", "proxyForLLMRequest"); pf != nil {
		t := ExtractTable(p, pf, TableConfig{})
		ok := len(t.Unsupported) == 0 && len(t.Rows) > 0
		for _, r := range t.Rows {
			// returning a non-nil proxy URL requires guardLLMURL to have passed
			if len(r.Out.Vals) == 2 && r.Out.Vals[1].Str == "nil" && r.Out.Vals[0].Str != "nil" {
				g := r.Calls(func(e *Effect) bool { return e.Callee != nil && e.Callee.Name() == "guardLLMURL" })
				nilProxy := r.Atom(func(a *Atom) bool {
					return a.IsBool && strings.Contains(a.Key, "nil ==") && a.B && strings.Contains(a.Key, "#")
				})
				if len(g) == 0 && nilProxy == nil {
					ok = false
				}
			}
		}
		c.Check(ok, "wiring", "httpapi.proxyForLLMRequest", p.Decl(pf).Pos(), "a proxied request's target is re-validated", "a request can be handed to a proxy without its target having been validated")
	}
	// every Do/Get/Post on an http.Client uses the guarded client; no package-level helpers
	bad := ""
	nDo := 0
	for _, fn := range p.SrcFuncs(func(pp string) bool { return pp == pkgPath(httpapi) }) {
		for _, b := range fn.Blocks {
			for _, in := range b.Instrs {
				call, ok := in.(ssa.CallInstruction)
				if !ok || call.Common().StaticCallee() == nil {
					continue
				}
				sc := call.Common().StaticCallee()
				if sc.Pkg == nil || sc.Pkg.Pkg.Path() != "net/http" {
					continue
				}
				switch sc.Name() {
				case "Get", "Post", "PostForm", "Head":
					if sc.Signature.Recv() == nil {
						bad += p.Rel(in.Pos()) + " uses http." + sc.Name() + " (the default client); "
					}
				case "Do":
					nDo++
					recv := call.Common().Args[0]
					isGuarded := false
					if u, isU := recv.(*ssa.UnOp); isU {
						if g, isG := u.X.(*ssa.Global); isG && g.Name() == "guardedLLMClient" {
							isGuarded = true
						}
					}
					if !isGuarded {
						bad += p.Rel(in.Pos()) + " sends a request with a client other than guardedLLMClient; "
					}
				}
			}
		}
	}
	c.Check(bad == "" && nDo >= 2, "wiring", "outbound-calls", token.NoPos, "every outbound request goes through guardedLLMClient ("+itoa(nDo)+" sites)", bad)
}

// ---- C39 ----

func runC39(c *Ctx) {
	p := c.P
	toolFns := func() []*ssa.Function {
		var out []*ssa.Function
		for _, fn := range p.SrcFuncs(func(pp string) bool { return pp == pkgPath(httpapi) || pp == pkgPath("sourcefs") }) {
			file := p.DeclFile(fn)
			if strings.HasSuffix(file, "/code.go") || strings.HasSuffix(file, "/codetools.go") || strings.HasSuffix(file, "sourcefs/trace_source.go") {
				out = append(out, fn)
			}
		}
		return out
	}()
	bad := ""
	for _, fn := range toolFns {
		for _, b := range fn.Blocks {
			for _, in := range b.Instrs {
				call, ok := in.(ssa.CallInstruction)
				if !ok || call.Common().StaticCallee() == nil {
					continue
				}
				sc := call.Common().StaticCallee()
				if sc.Pkg == nil {
					continue
				}
				switch sc.Pkg.Pkg.Path() {
				case "os", "io/ioutil", "path/filepath":
					switch sc.Name() {
					case "Getenv", "LookupEnv", "Base", "Ext", "ToSlash", "FromSlash", "Clean", "Join":
					default:
						bad += p.Rel(in.Pos()) + " calls " + sc.Pkg.Pkg.Path() + "." + sc.Name() + "; "
					}
				case "net/http":
					if sc.Name() == "Dir" || sc.Name() == "ServeFile" || sc.Name() == "FileServer" {
						bad += p.Rel(in.Pos()) + " calls http." + sc.Name() + "; "
					}
				}
			}
		}
	}
	c.Check(bad == "" && len(toolFns) >= 25, "archive-only", "code-tools", token.NoPos, "no OS file API in the source tools ("+itoa(len(toolFns))+" functions)", "the source tools reach the host file system: "+bad)

	// valid-path
	isFSLookup := func(call ssa.CallInstruction) (ssa.Value, bool) {
		sc := call.Common().StaticCallee()
		if sc == nil || sc.Pkg == nil || sc.Pkg.Pkg.Path() != "io/fs" {
			return nil, false
		}
		switch sc.Name() {
		case "ReadFile", "ReadDir", "Stat", "Sub", "Glob":
			return call.Common().Args[1], true
		}
		return nil, false
	}
	validFact := func(fn *ssa.Function, b *ssa.BasicBlock, v ssa.Value) bool {
		for _, fact := range FactsAt(b) {
			cl, isCall := fact.Cond.(*ssa.Call)
			if !isCall || !fact.Truth || cl.Common().StaticCallee() == nil || cl.Common().StaticCallee().Name() != "ValidPath" {
				continue
			}
			arg := cl.Common().Args[0]
			if arg == v { // the very value that is used, not a component of it
				return true
			}
			// two loads of one local variable (a variable whose address was taken, e.g. for Scan)
			if u1, ok1 := arg.(*ssa.UnOp); ok1 {
				if u2, ok2 := v.(*ssa.UnOp); ok2 && u1.X == u2.X {
					if _, isAl := u1.X.(*ssa.Alloc); isAl {
						return true
					}
				}
			}
		}
		return false
	}
	// validator functions: return (string, error) where the nil-error return is dominated by ValidPath(result)
	isValidator := func(fn *ssa.Function) bool {
		if fn == nil || fn.Signature.Results().Len() != 2 {
			return false
		}
		ok := false
		for _, b := range fn.Blocks {
			ret, isRet := b.Instrs[len(b.Instrs)-1].(*ssa.Return)
			if !isRet || !isNilConst(ret.Results[1]) {
				continue
			}
			if !validFact(fn, b, ret.Results[0]) {
				return false
			}
			ok = true
		}
		return ok
	}
	var safe func(fn *ssa.Function, b *ssa.BasicBlock, v ssa.Value, depth int) (bool, string)
	safe = func(fn *ssa.Function, b *ssa.BasicBlock, v ssa.Value, depth int) (bool, string) {
		if depth > 3 {
			return false, "call chain too deep to establish validation"
		}
		if _, isC := v.(*ssa.Const); isC {
			return true, ""
		}
		if validFact(fn, b, v) {
			return true, ""
		}
		// a join of safe parts (a validated directory and an entry name from the file system)
		if cl, isCall := v.(*ssa.Call); isCall && cl.Common().StaticCallee() != nil && cl.Common().StaticCallee().Pkg != nil &&
			cl.Common().StaticCallee().Pkg.Pkg.Path() == "path" && cl.Common().StaticCallee().Name() == "Join" {
			if sl, isSl := cl.Common().Args[0].(*ssa.Slice); isSl {
				if al, isAl := sl.X.(*ssa.Alloc); isAl {
					all := true
					nParts := 0
					for _, ref := range *al.Referrers() {
						ia, isIA := ref.(*ssa.IndexAddr)
						if !isIA {
							continue
						}
						for _, r2 := range *ia.Referrers() {
							if st, isSt := r2.(*ssa.Store); isSt {
								nParts++
								if ok, _ := safe(fn, b, st.Val, depth+1); !ok {
									all = false
								}
							}
						}
					}
					if all && nParts > 0 {
						return true, ""
					}
				}
			}
		}
		if cl, isCall := v.(*ssa.Call); isCall && cl.Common().IsInvoke() && cl.Common().Method.Name() == "Name" {
			return true, "" // an entry name handed out by the file system
		}
		sl := DataSlice(fn, v)
		// a validator's result
		for x := range sl {
			if ex, isE := x.(*ssa.Extract); isE && ex.Index == 0 {
				if cl, isCall := ex.Tuple.(*ssa.Call); isCall && isValidator(origin(cl.Common().StaticCallee())) {
					return true, ""
				}
			}
		}
		var params []*ssa.Parameter
		external := ""
		for x := range sl {
			switch y := x.(type) {
			case *ssa.Parameter:
				if types.Identical(y.Type().Underlying(), types.Typ[types.String]) {
					params = append(params, y)
				} else if strings.Contains(y.Type().String(), "http.Request") || strings.Contains(y.Type().String(), "map[string]") {
					external = "request data (" + y.Name() + ")"
				}
			case *ssa.Lookup:
				if strings.Contains(y.X.Type().String(), "map[string]interface") || strings.Contains(y.X.Type().String(), "map[string]any") {
					external = "tool arguments"
				}
			}
		}
		if external != "" {
			return false, "the path derives from " + external + " without fs.ValidPath"
		}
		if len(params) == 0 {
			return true, "" // built from file-system entries / constants only
		}
		if fn.Parent() != nil {
			return false, "the path is a parameter of a callback whose callers cannot be enumerated"
		}
		callers := p.ModCG().in[origin(fn)]
		n := 0
		for _, pv := range params {
			idx := -1
			for i, q := range fn.Params {
				if q == pv {
					idx = i
				}
			}
			for _, caller := range callers {
				for _, cb := range caller.Blocks {
					for _, in := range cb.Instrs {
						call, isCall := in.(ssa.CallInstruction)
						if !isCall || call.Common().StaticCallee() == nil || origin(call.Common().StaticCallee()) != origin(fn) || idx >= len(call.Common().Args) {
							continue
						}
						n++
						if ok, why := safe(caller, cb, call.Common().Args[idx], depth+1); !ok {
							return false, "caller " + SSAFuncKey(caller) + ": " + why
						}
					}
				}
			}
		}
		if n == 0 {
			return false, "the path is a parameter of a function with no visible callers"
		}
		return true, ""
	}
	nLookups := 0
	for _, fn := range toolFns {
		for _, b := range fn.Blocks {
			for _, in := range b.Instrs {
				call, ok := in.(ssa.CallInstruction)
				if !ok {
					continue
				}
				pv, isLookup := isFSLookup(call)
				if !isLookup {
					continue
				}
				nLookups++
				good, why := safe(fn, b, pv, 0)
				c.Check(good, "valid-path", SSAFuncKey(fn)+"@fs."+call.Common().StaticCallee().Name(), in.Pos(), "the looked-up path is validated or derived from file-system entries",
					"a request-controlled path reaches an fs lookup without fs.ValidPath: "+why)
			}
		}
	}
	c.Check(nLookups >= 6, "valid-path", "instances", token.NoPos, "fs lookups found", "only "+itoa(nLookups)+" fs lookups found in the source tools")
	// archive entries enter the tree only under ValidPath
	if f := c.fn("valid-path", "sourcefs", "", "OpenTraceSource"); f != nil {
		sf := p.SSAFunc(f)
		n := 0
		why := ""
		for _, b := range sf.Blocks {
			for _, in := range b.Instrs {
				mu, ok := in.(*ssa.MapUpdate)
				if !ok || !strings.Contains(mu.Map.Type().String(), "MapFS") {
					continue
				}
				n++
				okKey := validFact(sf, b, mu.Key)
				if !okKey {
					// a join of parts that were each validated is itself valid
					if cl, isCall := mu.Key.(*ssa.Call); isCall && cl.Common().StaticCallee() != nil && cl.Common().StaticCallee().Name() == "Join" && cl.Common().StaticCallee().Pkg != nil && cl.Common().StaticCallee().Pkg.Pkg.Path() == "path" {
						if sl, isSl := cl.Common().Args[0].(*ssa.Slice); isSl {
							if al, isAl := sl.X.(*ssa.Alloc); isAl {
								all, parts := true, 0
								for _, ref := range *al.Referrers() {
									ia, isIA := ref.(*ssa.IndexAddr)
									if !isIA {
										continue
									}
									for _, r2 := range *ia.Referrers() {
										if st, isSt := r2.(*ssa.Store); isSt {
											parts++
											if _, isC := st.Val.(*ssa.Const); !isC && !validFact(sf, b, st.Val) {
												all = false
											}
										}
									}
								}
								okKey = all && parts > 0
							}
						}
					}
				}
				if !okKey {
					why = "an archive entry is added to the in-memory source tree under a name that has not passed fs.ValidPath (a traversal name such as ../x would be served or crash the walk)"
				}
			}
		}
		c.Check(n >= 1 && why == "", "valid-path", "sourcefs.OpenTraceSource@MapFS", p.Decl(f).Pos(), "entries are keyed only by valid paths", why)
	}
	// bounded read
	if f := c.fn("bounded-read", "sourcefs", "", "ReadArchive"); f != nil {
		sf := p.SSAFunc(f)
		var tr ssa.Value
		for _, b := range sf.Blocks {
			for _, in := range b.Instrs {
				if call, ok := in.(*ssa.Call); ok && call.Common().StaticCallee() != nil && call.Common().StaticCallee().Name() == "NewReader" && call.Common().StaticCallee().Pkg.Pkg.Path() == "archive/tar" {
					tr = call
				}
			}
		}
		why := ""
		totalWhy := ""
		if tr == nil {
			why = "tar reader not found"
		}
		nLimit := 0
		for _, b := range sf.Blocks {
			for _, in := range b.Instrs {
				switch x := in.(type) {
				case *ssa.MakeSlice, *ssa.MakeMap:
					var sizes []ssa.Value
					if ms, ok := x.(*ssa.MakeSlice); ok {
						sizes = []ssa.Value{ms.Len, ms.Cap}
					}
					if mm, ok := x.(*ssa.MakeMap); ok && mm.Reserve != nil {
						sizes = []ssa.Value{mm.Reserve}
					}
					for _, s := range sizes {
						for y := range DataSlice(sf, s) {
							if valueReadsField(y, "Size") {
								why = "an allocation in ReadArchive is sized from the archive header's Size field (" + p.Rel(in.Pos()) + "): a tiny archive that claims a huge entry makes the reader allocate that much before any cap applies"
							}
						}
					}
				case ssa.CallInstruction:
					cc := x.Common()
					name, pkg := calleeNamePkg(x)
					for i, a := range cc.Args {
						uses := a == tr
						if mi, isMI := a.(*ssa.MakeInterface); isMI && mi.X == tr {
							uses = true
						}
						if !uses {
							continue
						}
						if name == "LimitReader" && pkg == "io" {
							nLimit++
							if _, isC := cc.Args[1].(*ssa.Const); !isC {
								if bo, isBO := cc.Args[1].(*ssa.BinOp); !isBO || !isConstExpr(bo) {
									why = "the per-entry read limit is not a constant"
								}
							}
							continue
						}
						if name == "Next" && i == 0 {
							continue
						}
						why = "entry bytes are read from the tar stream through " + pkg + "." + name + " without an io.LimitReader bound"
					}
					if name == "Grow" || (name == "NewBuffer" && pkg == "bytes") {
						for _, a := range cc.Args {
							for y := range DataSlice(sf, a) {
								if valueReadsField(y, "Size") {
									why = "a buffer in ReadArchive is pre-sized from the archive header's Size field: the allocation is controlled by the archive, not by the caps"
								}
							}
						}
					}
				case *ssa.MapUpdate:
					fileCap, totalCap := false, false
					for _, fact := range FactsAt(b) {
						bo, isBO := fact.Cond.(*ssa.BinOp)
						if !isBO || bo.Op != token.GTR || fact.Truth {
							continue
						}
						if _, isC := bo.Y.(*ssa.Const); !isC {
							continue
						}
						if cl, isCall := bo.X.(*ssa.Call); isCall {
							if bi, isB := cl.Call.Value.(*ssa.Builtin); isB && bi.Name() == "len" {
								fileCap = true
								continue
							}
						}
						// the running total that is tested must include this very entry on
						// every path: total + len(<the value being kept>)
						if add, isAdd := stripConv(bo.X).(*ssa.BinOp); isAdd && add.Op == token.ADD {
							for _, opnd := range []ssa.Value{add.X, add.Y} {
								if cl, isCall := stripConv(opnd).(*ssa.Call); isCall {
									if bi, isB := cl.Call.Value.(*ssa.Builtin); isB && bi.Name() == "len" && len(cl.Call.Args) == 1 && cl.Call.Args[0] == x.Value {
										totalCap = true
									}
								}
							}
						}
						if !totalCap {
							totalWhy = "the total that is tested against the archive cap (" + p.Rel(bo.Pos()) + ") is not 'running total + len(entry)' for the entry being kept on every path: some entries are kept without being charged, so the decompressed total held in memory is no longer bounded by the cap"
						}
					}
					if fileCap && !totalCap && totalWhy != "" {
						why = totalWhy
					} else if !fileCap || !totalCap {
						why = "an archive entry is kept without the per-file and the total decompressed-size caps having been tested"
					}
				}
			}
		}
		c.Check(why == "" && nLimit >= 1, "bounded-read", "sourcefs.ReadArchive", p.Decl(f).Pos(), "entry bytes are read through a constant LimitReader, kept only under both caps, and no allocation is sized from the header", why)
	}
	mapRangeRule(c, "deterministic-write", func(pp string) bool { return pp == pkgPath("sourcefs") }, 1)
	if f := c.fn("deterministic-write", "sourcefs", "", "WriteArchive"); f != nil {
		sf := p.SSAFunc(f)
		nd := nondetIn(sf)
		why := ""
		for _, s := range nd {
			why += s.What + "; "
		}
		// no ModTime from the clock
		for _, b := range sf.Blocks {
			for _, in := range b.Instrs {
				if st, ok := in.(*ssa.Store); ok {
					if fo := FieldOf(st.Addr); fo != nil && (fo.Name() == "ModTime" || fo.Name() == "AccessTime" || fo.Name() == "ChangeTime") {
						why += "the tar header's " + fo.Name() + " is set; "
					}
				}
			}
		}
		c.Check(why == "", "deterministic-write", "sourcefs.WriteArchive", p.Decl(f).Pos(), "no clock, random or time-stamped header field", why)
	}
}

func isConstExpr(bo *ssa.BinOp) bool {
	_, a := bo.X.(*ssa.Const)
	_, b := bo.Y.(*ssa.Const)
	return a && b
}

// hostSlice is the backward data slice of v that does not look through the port
// component of net.SplitHostPort (the port legitimately comes from the dial target).
func hostSlice(v ssa.Value, stop map[ssa.Value]*loopInfo) map[ssa.Value]bool {
	out := map[ssa.Value]bool{}
	var walk func(x ssa.Value)
	walk = func(x ssa.Value) {
		if x == nil || out[x] {
			return
		}
		out[x] = true
		if _, isStop := stop[x]; isStop {
			return // the resolved-address list itself: its provenance is the lookup, not a new resolution
		}
		if ex, ok := x.(*ssa.Extract); ok {
			if cl, isCall := ex.Tuple.(*ssa.Call); isCall && cl.Common().StaticCallee() != nil && cl.Common().StaticCallee().Name() == "SplitHostPort" {
				return
			}
		}
		in, ok := x.(ssa.Instruction)
		if !ok {
			return
		}
		for _, op := range in.Operands(nil) {
			if op != nil && *op != nil {
				walk(*op)
			}
		}
	}
	walk(v)
	return out
}

// connCell resolves a connection value to its defining value: the Extract of the
// DB.Conn call, or the single-assignment variable cell holding it (a variable
// captured by a deferred closure lives in a cell and is loaded at each use).
func connDef(v ssa.Value) ssa.Value {
	if u, ok := v.(*ssa.UnOp); ok && u.Op == token.MUL {
		if al, isAl := u.X.(*ssa.Alloc); isAl {
			var stored ssa.Value
			n := 0
			for _, ref := range *al.Referrers() {
				if st, isSt := ref.(*ssa.Store); isSt && st.Addr == ssa.Value(al) {
					stored = st.Val
					n++
				}
			}
			if n == 1 {
				return stored
			}
			return nil
		}
	}
	return v
}

func sameConn(a, b ssa.Value) bool {
	da, db := connDef(a), connDef(b)
	return da != nil && da == db
}

func fromDBConn(v ssa.Value) bool {
	d := connDef(v)
	ex, ok := d.(*ssa.Extract)
	if !ok {
		return false
	}
	cl, isCall := ex.Tuple.(*ssa.Call)
	if !isCall || cl.Common().StaticCallee() == nil {
		return false
	}
	sc := cl.Common().StaticCallee()
	return sc.Name() == "Conn" && sc.Pkg != nil && sc.Pkg.Pkg.Path() == "database/sql"
}
