package main

// insert-alias: append(append(X[:i], v), X[i:]...) — the inner append has spare
// capacity (X[:i] keeps X's capacity), so it writes v into X's backing array at
// position i BEFORE the outer append reads X[i:]: the element that was at i is
// overwritten, v ends up stored twice and one element is lost. (The safe forms
// cap the prefix, X[:i:i], or grow first and copy.)

import (
	"golang.org/x/tools/go/ssa"
)

func sameSliceSource(a, b ssa.Value) bool {
	if a == b {
		return true
	}
	ua, okA := a.(*ssa.UnOp)
	ub, okB := b.(*ssa.UnOp)
	if okA && okB {
		fa, fb := FieldOf(ua.X), FieldOf(ub.X)
		if fa != nil && fb != nil && sameObj(fa, fb) && memRoot(ua.X) == memRoot(ub.X) {
			return true
		}
		if ua.X == ub.X {
			return true
		}
	}
	return false
}

func isAppend(v ssa.Value) *ssa.Call {
	call, ok := v.(*ssa.Call)
	if !ok {
		return nil
	}
	if bi, isB := call.Call.Value.(*ssa.Builtin); !isB || bi.Name() != "append" {
		return nil
	}
	return call
}

func insertAliasRule(c *Ctx, rule string, pred func(string) bool) {
	p := c.P
	n := 0
	for _, fn := range p.SrcFuncs(pred) {
		for _, b := range fn.Blocks {
			for _, in := range b.Instrs {
				outer := isAppend(valueOf(in))
				if outer == nil || len(outer.Call.Args) != 2 {
					continue
				}
				n++
				inner := isAppend(outer.Call.Args[0])
				tail, isTail := outer.Call.Args[1].(*ssa.Slice)
				if inner == nil || !isTail || tail.Low == nil || len(inner.Call.Args) == 0 {
					continue
				}
				prefix, isPre := inner.Call.Args[0].(*ssa.Slice)
				if !isPre || prefix.High == nil || prefix.Max != nil {
					continue
				}
				if sameSliceSource(prefix.X, tail.X) {
					c.Fail(rule, SSAFuncKey(fn)+"#nested-append", in.Pos(), "append(append(X[:i], v…), X[i:]…) over the same slice: the inner append writes into X's backing array at position i before the outer append reads X[i:], so the element that was there is overwritten (v is stored twice, one element is lost); cap the prefix (X[:i:i]) or grow and copy")
				}
			}
		}
	}
	c.Check(n > 0, rule, "<appends>", 0, itoa(n)+" two-operand appends inspected; no insertion aliases its own tail", "no append found: shape not understood")
}

func valueOf(in ssa.Instruction) ssa.Value {
	v, _ := in.(ssa.Value)
	return v
}
