package main

import (
	"go/ast"
	"go/token"
	"go/types"
	"sort"
	"strings"

	"golang.org/x/tools/go/ssa"
)

var nocDataPath = []string{"noc/networking/switching/endpoint", "noc/networking/switching/switches"}

var metaFields = []string{"ID", "Src", "Dst", "RspTo", "TrafficClass", "TrafficBytes"}

func init() {
	register("C29", PropertyMeta{
		Technique: "SSA hand-off pairing (must-dataflow of take/put operations per loop iteration), consumed-prefix and compaction invariants on loop-carried counters, field-copy completeness of the metadata carriers, store audit of the flit payload, delivery-port provenance",
		Explanation: "Decides on the endpoint and switch data path (the code every mesh/PCIe/NVLink/generic network is built from): (hand-off) in every stage, each operation that removes an item from its source (Pop, RetrieveIncoming/Outgoing, pop-front, consumed-prefix count) has a matching operation that places it in the next queue (PushTyped, Accept, Send, Deliver, append, arrival count) on every path of the same iteration, and vice versa — so no flit or message is dropped or duplicated between stages; " +
			"(prefix-drain) where a loop hands off elements X[i] and afterwards drops the first n, i and n advance together on every path to the next iteration; (compaction) an in-place compaction visits every element before truncating and every element not kept is handed to another queue; " +
			"(metadata) the six metadata fields are copied field-for-field message→flit payload→assembly record→reassembled message, and no code outside the flit constructor stores into a flit's payload; (routing) a flit's route is looked up by the payload's destination and a missing route panics rather than dropping; (delivery) the device port a message is delivered to is one whose address compared equal to the message's destination. (stale-element) no pointer to an element of a noc State slice is used after that slice was compacted in place. (unique-names) a connector method that adds a switch under a name of its own choosing does not use a constant name.",
		NotDecided:  "that routing tables built by the connectors reach every destination (mesh tables: C30), deadlock freedom/liveness, and timing.",
		Assumptions: []string{"queueing.Buffer/Pipeline and messaging ports are FIFO and lossless (C11, C12, C19–C21 of this suite)"},
	}, runC29)
	register("C31", PropertyMeta{
		Technique: "SSA pattern check of the flit-count computation, reassembly key/count provenance, fact-dominance of the completion test, plus the hand-off/compaction invariants of the endpoint's incoming path",
		Explanation: "Decides on noc/networking/switching/endpoint: (flit-count) the number of flits is 1 for a zero-size message and otherwise ceil(encoded bytes / flit size) computed as (b-1)/F+1 from TrafficBytes, EncodingOverhead and FlitByteSize; exactly that many flits are created, each stamped with the count and the message's metadata; " +
			"(reassembly) an arriving flit joins the assembly record whose message ID equals the flit payload's message ID (not the flit's own ID), a new record starts at one arrival and requires the flit's stamped count, otherwise the arrival count is incremented, and the flit is dequeued exactly once; (completion) a message is emitted only on the path where arrived < required is false; " +
			"(compaction) incomplete records are all kept and complete ones all emitted — the loop is never left before the truncation; (delivery) reassembled messages are delivered as a consumed prefix. (cached-index) an index into a State slice that is remembered in a middleware field is refreshed by every function that removes elements from that slice. (divisor-config) a Spec field of the endpoint that is used as a divisor is compared with 0 somewhere in the package.",
		NotDecided:  "arithmetic overflow of the byte computation; float rounding of the overhead; behaviour when a sender stamps inconsistent counts.",
		Assumptions: []string{"message IDs are unique among in-flight messages (C41)"},
	}, runC31)
}

func nocFns(p *Program, rels []string) []*ssa.Function {
	return p.SrcFuncs(func(pp string) bool {
		for _, r := range rels {
			if pp == pkgPath(r) {
				return true
			}
		}
		return false
	})
}

// handOffRule applies the pairing, prefix-drain and compaction checks.
func handOffRule(c *Ctx, rels []string, floorOps, floorDrains, floorCompactions int) {
	p := c.P
	nOps, nDrain, nComp := 0, 0, 0
	reach := map[*ssa.Function]bool{}
	for _, r := range rels {
		for fn := range p.ModCG().Reach(middlewareTicks(p, r), func(g *ssa.Function) bool { return pkgOfFn(g) == pkgPath(r) }) {
			reach[fn] = true
		}
	}
	for _, fn := range nocFns(p, rels) {
		if !reach[origin(fn)] {
			continue // builders and wiring: not part of the per-tick data path
		}
		ops := xferOps(fn)
		// hand-offs performed by a compaction loop are decided by the compaction rule
		if cst, _ := compactions(fn); len(cst) > 0 {
			loops := loopsOf(fn)
			var kept []xferOp
			for _, o := range ops {
				inCompaction := false
				for _, st := range cst {
					sl := st.Val.(*ssa.Slice)
					for _, w := range phiRoots(sl.High, map[ssa.Value]bool{}) {
						for _, l := range loops {
							if l.header == w.Block() && l.blocks[o.instr.Block()] {
								inCompaction = true
							}
						}
					}
				}
				if !inCompaction {
					kept = append(kept, o)
				}
			}
			ops = kept
		}
		if len(ops) > 0 {
			c.Analysed(SSAFuncKey(fn))
			paired := pairedOps(fn, ops)
			for _, o := range ops {
				nOps++
				kind, other, effect := "removes an item from its source", "places it in the next queue", "the item is lost"
				if !o.take {
					kind, other, effect = "hands an item on", "removes it from its source", "the item is handed on again on the next iteration (duplicated)"
				}
				c.Check(paired[o.instr], "hand-off", SSAFuncKey(fn)+"@"+o.what, o.instr.Pos(), "matched within the iteration on every path",
					"this operation "+kind+" but some path of the same iteration has no operation that "+other+": "+effect)
			}
		}
		checked, bad := prefixDrains(fn)
		for _, st := range checked {
			nDrain++
			why := ""
			for _, b := range bad {
				if b.store == st && !strings.Contains(why, b.why) {
					why += b.why + "; "
				}
			}
			c.Check(why == "", "prefix-drain", SSAFuncKey(fn)+"@"+shortKey(VKey(st.Addr)), st.Pos(), "the consumed elements are exactly the dropped prefix", why)
		}
		checked, bad = compactions(fn)
		for _, st := range checked {
			nComp++
			why := ""
			for _, b := range bad {
				if b.store == st && !strings.Contains(why, b.why) {
					why += b.why + "; "
				}
			}
			c.Check(why == "", "compaction", SSAFuncKey(fn)+"@"+shortKey(VKey(st.Addr)), st.Pos(), "every entry is visited and either kept or handed off", why)
		}
	}
	nHead := 0
	for _, fn := range nocFns(p, rels) {
		if !reach[origin(fn)] {
			continue
		}
		checked, bad := headConsumedFindings(fn)
		nHead += checked
		for _, in := range bad {
			c.Fail("head-consumed", SSAFuncKey(fn)+"@PeekIncoming", in.Pos(), "a message found at the head of an incoming port can be left there for a reason other than the next queue being full: if what would free the stage can only arrive behind that head (later flits of partly assembled messages), the port is blocked for good and nothing behind it is ever delivered")
		}
		if checked > 0 && len(bad) == 0 {
			c.Ok("head-consumed", SSAFuncKey(fn)+"@PeekIncoming", fn.Pos(), "a peeked head is dequeued unless the next queue is full")
		}
	}
	c.Check(nHead >= 1, "head-consumed", "instances", token.NoPos, "peek sites found ("+itoa(nHead)+")", "no PeekIncoming site found")
	c.Check(nOps >= floorOps, "hand-off", "instances", token.NoPos, "enough hand-off operations recognised", "only "+itoa(nOps)+" hand-off operations were recognised (expected at least "+itoa(floorOps)+"): the stage idioms are no longer understood")
	c.Check(nDrain >= floorDrains, "prefix-drain", "instances", token.NoPos, "consumed-prefix truncations recognised", "only "+itoa(nDrain)+" consumed-prefix truncations recognised (expected "+itoa(floorDrains)+")")
	c.Check(nComp >= floorCompactions, "compaction", "instances", token.NoPos, "compactions recognised", "only "+itoa(nComp)+" compactions recognised (expected "+itoa(floorCompactions)+")")
}

// metaCopyRule: composite literals that carry the message metadata copy every
// field from the like-named field of their source.
func metaCopyRule(c *Ctx) {
	p := c.P
	pk := p.Pkg("noc/networking/switching/endpoint")
	if pk == nil {
		c.Unknown("metadata", "noc/networking/switching/endpoint", token.NoPos, "package not loaded")
		return
	}
	n := 0
	alias := map[string]string{"MsgID": "ID"}
	for _, file := range pk.Syntax {
		if strings.HasSuffix(p.Fset.Position(file.Pos()).Filename, "_test.go") {
			continue
		}
		ast.Inspect(file, func(nd ast.Node) bool {
			cl, ok := nd.(*ast.CompositeLit)
			if !ok {
				return true
			}
			tv, has := pk.TypesInfo.Types[cl]
			if !has {
				return true
			}
			ts := tv.Type.String()
			isMeta := strings.HasSuffix(ts, "messaging.MsgMeta")
			isRec := strings.HasSuffix(ts, "endpoint.assemblingMsgState")
			if !isMeta && !isRec {
				return true
			}
			got := map[string]string{}
			for _, el := range cl.Elts {
				kv, isKV := el.(*ast.KeyValueExpr)
				if !isKV {
					continue
				}
				k := types.ExprString(kv.Key)
				if a, isAlias := alias[k]; isAlias {
					k = a
				}
				got[k] = types.ExprString(kv.Value)
			}
			// only literals that carry a message (those setting TrafficBytes or RspTo)
			if _, carries := got["TrafficBytes"]; !carries {
				if _, carries2 := got["RspTo"]; !carries2 {
					return true
				}
			}
			n++
			var missing []string
			for _, f := range metaFields {
				v := got[f]
				if !(strings.HasSuffix(v, "."+f) || (f == "ID" && strings.HasSuffix(v, ".MsgID"))) {
					missing = append(missing, f+"="+v)
				}
			}
			pos := p.Fset.Position(cl.Pos())
			c.Check(len(missing) == 0, "metadata", "literal@"+p.Rel(cl.Pos())[:strings.LastIndex(p.Rel(cl.Pos()), ":")]+"#"+itoa(n), cl.Pos(), "ID, Src, Dst, RspTo, TrafficClass and TrafficBytes are each copied from the like-named field",
				"a metadata carrier at "+pos.String()+" does not copy "+strings.Join(missing, ", ")+" from the like-named source field: the delivered message would not carry the sender's metadata")
			return true
		})
	}
	c.Check(n >= 3, "metadata", "instances", token.NoPos, "three carriers (flit payload, assembly record, reassembled message)", "only "+itoa(n)+" metadata carriers recognised, expected 3")
	// no store into a flit's payload outside its constructor
	flitMsg := p.Field("noc/packetization", "Flit", "Msg")
	if flitMsg == nil {
		c.Unknown("metadata", "noc/packetization.Flit.Msg", token.NoPos, "anchor field not found")
		return
	}
	bad := ""
	for _, fn := range p.SrcFuncs(func(pp string) bool { return strings.HasPrefix(pp, ModPath+"/noc/") && !clientPkg(pp) }) {
		for _, b := range fn.Blocks {
			for _, in := range b.Instrs {
				st, ok := in.(*ssa.Store)
				if !ok {
					continue
				}
				through := false
				for a, d := st.Addr, 0; a != nil && d < 10; d++ {
					if f := FieldOf(a); f != nil && sameObj(f, flitMsg) {
						through = true
					}
					switch y := a.(type) {
					case *ssa.FieldAddr:
						a = y.X
					case *ssa.IndexAddr:
						a = y.X
					default:
						a = nil
					}
				}
				if through && fn.Name() != "msgMetaToFlits" && !strings.HasPrefix(fn.Name(), "log") {
					bad += p.Rel(st.Pos()) + " (" + SSAFuncKey(fn) + "); "
				}
			}
		}
	}
	c.Check(bad == "", "metadata", "flit-payload-stores", token.NoPos, "the flit payload is written only by the flit constructor", "the payload (message metadata) of a flit is modified in transit at "+bad)
}

func routingRule(c *Ctx) {
	p := c.P
	// RouteTo is the payload's destination
	fn := p.LookupFunc("noc/networking/switching/switches", "receivePipelineMW", "startProcessing")
	if fn == nil {
		c.Unknown("routing", "switches.receivePipelineMW.startProcessing", token.NoPos, "anchor not found")
		return
	}
	fd := p.Decl(fn)
	ok := false
	ast.Inspect(fd.Body, func(n ast.Node) bool {
		if kv, isKV := n.(*ast.KeyValueExpr); isKV && types.ExprString(kv.Key) == "RouteTo" {
			ok = strings.HasSuffix(types.ExprString(kv.Value), ".Msg.Dst")
		}
		return true
	})
	c.Check(ok, "routing", "switches.routedFlit.RouteTo", fd.Pos(), "the route key is the payload's destination", "a flit entering the switch is not routed by its message's destination (Msg.Dst)")
	// the lookup uses RouteTo and a missing route panics
	rf := p.LookupFunc("noc/networking/switching/switches", "routeForwardSendMW", "resolveOutputBufIdx")
	rt := p.LookupFunc("noc/networking/switching/switches", "routeForwardSendMW", "route")
	if rf == nil || rt == nil {
		c.Unknown("routing", "switches.routeForwardSendMW.route", token.NoPos, "anchor not found")
		return
	}
	sf := p.SSAFunc(rt)
	good := false
	for _, b := range sf.Blocks {
		for _, in := range b.Instrs {
			call, isCall := in.(*ssa.Call)
			if !isCall || call.Common().StaticCallee() == nil || call.Common().StaticCallee().Name() != "resolveOutputBufIdx" {
				continue
			}
			args := call.Common().Args
			for v := range DataSlice(sf, args[len(args)-1]) {
				if f := FieldOf(v); f != nil && f.Name() == "RouteTo" {
					good = true
				}
				if u, isU := v.(*ssa.UnOp); isU {
					if f := FieldOf(u.X); f != nil && f.Name() == "RouteTo" {
						good = true
					}
				}
				if fl, isF := v.(*ssa.Field); isF {
					if st, isS := fl.X.Type().Underlying().(*types.Struct); isS && st.Field(fl.Field).Name() == "RouteTo" {
						good = true
					}
				}
			}
		}
	}
	c.Check(good, "routing", "switches.route->resolveOutputBufIdx", p.Decl(rt).Pos(), "the output port is looked up with the flit's route key", "the output port of a flit is not resolved from its RouteTo key")
	// every flit's output port is the lookup result for that very flit
	nStores := 0
	for _, fn := range nocFns(p, []string{"noc/networking/switching/switches"}) {
		for _, b := range fn.Blocks {
			for _, in := range b.Instrs {
				st, ok := in.(*ssa.Store)
				if !ok {
					continue
				}
				fo := FieldOf(st.Addr)
				if fo == nil || fo.Name() != "OutputBufIdx" {
					continue
				}
				nStores++
				why := ""
				call, isCall := st.Val.(*ssa.Call)
				if !isCall || call.Common().StaticCallee() == nil || call.Common().StaticCallee().Name() != "resolveOutputBufIdx" {
					why = "a flit's output port is not the result of a routing lookup made for that flit (it is taken from " + VKey(st.Val) + "): flits of different messages that interleave on one input port would follow another message's route and never reach their destination"
				} else {
					own := false
					args := call.Common().Args
					for v := range DataSlice(fn, args[len(args)-1]) {
						if (valueReadsField(v, "RouteTo")) && memRoot(addrOfRead(v)) == memRoot(st.Addr) {
							own = true
						}
					}
					if !own {
						why = "the routing lookup whose result is stored in a flit is not made with that flit's own RouteTo"
					}
				}
				c.Check(why == "", "routing", SSAFuncKey(fn)+"@OutputBufIdx", st.Pos(), "each flit is routed by a lookup of its own destination", why)
			}
		}
	}
	c.Check(nStores >= 1, "routing", "OutputBufIdx-stores", token.NoPos, "routing decision stores found", "no store of a routing decision into a flit was found")
	t := ExtractTable(p, rf, TableConfig{Domain: []int{0, 1}})
	okT := len(t.Unsupported) == 0 && len(t.Rows) > 0
	for _, r := range t.Rows {
		missing := false
		for _, a := range r.Atoms {
			if a.IsBool && ((strings.Contains(a.Key, "\"\" ==") && a.B) || (strings.HasPrefix(a.Key, "ok(") && !a.B)) {
				missing = true
			}
		}
		if missing && r.Out.Kind != "panic" {
			okT = false
		}
	}
	c.Check(okT, "routing", "switches.resolveOutputBufIdx", p.Decl(rf).Pos(), "a destination without a route panics instead of dropping or misrouting the flit", "a flit whose destination has no route (or whose output port is unknown) is not reported by a panic")
}

// deliveryPortRule: the receiver of Deliver in the endpoint is a device port
// whose AsRemote() compared equal to the message's Dst.
func deliveryPortRule(c *Ctx) {
	p := c.P
	f := p.LookupFunc("noc/networking/switching/endpoint", "incomingMW", "tryDeliver")
	if f == nil {
		c.Unknown("delivery-port", "endpoint.incomingMW.tryDeliver", token.NoPos, "anchor not found")
		return
	}
	sf := p.SSAFunc(f)
	n := 0
	for _, b := range sf.Blocks {
		for _, in := range b.Instrs {
			call, ok := in.(*ssa.Call)
			if !ok || !call.Common().IsInvoke() || call.Common().Method.Name() != "Deliver" {
				continue
			}
			n++
			recv := call.Common().Value
			var leaves []struct {
				v    ssa.Value
				from *ssa.BasicBlock
			}
			var walk func(v ssa.Value, from *ssa.BasicBlock, seen map[ssa.Value]bool)
			walk = func(v ssa.Value, from *ssa.BasicBlock, seen map[ssa.Value]bool) {
				if seen[v] {
					return
				}
				seen[v] = true
				if ph, isPhi := v.(*ssa.Phi); isPhi {
					for i, e := range ph.Edges {
						walk(e, ph.Block().Preds[i], seen)
					}
					return
				}
				leaves = append(leaves, struct {
					v    ssa.Value
					from *ssa.BasicBlock
				}{v, from})
			}
			walk(recv, b, map[ssa.Value]bool{})
			// the search may live in an unexported helper (`dstPort := m.mustFindDevicePort(dst)`):
			// its returned values are the leaves, its parameters stand for the call's arguments
			bind := map[ssa.Value]ssa.Value{}
			helperNonNil := false
			if len(leaves) == 1 {
				if hc, isCall := leaves[0].v.(*ssa.Call); isCall {
					if g := hc.Common().StaticCallee(); g != nil && len(g.Blocks) > 0 && pkgOfFn(g) == pkgOfFn(sf) && len(g.Params) == len(hc.Common().Args) {
						for i, pa := range g.Params {
							bind[pa] = hc.Common().Args[i]
						}
						leaves = leaves[:0]
						helperNonNil = true
						for _, gb := range g.Blocks {
							if ret, isR := gb.Instrs[len(gb.Instrs)-1].(*ssa.Return); isR && len(ret.Results) == 1 {
								walk(ret.Results[0], gb, map[ssa.Value]bool{})
							}
						}
						for _, lf := range leaves {
							if isNilConst(lf.v) {
								helperNonNil = false
							}
						}
					}
				}
			}
			why := ""
			for _, lf := range leaves {
				if isNilConst(lf.v) {
					continue // the nil case panics before Deliver (checked by facts below)
				}
				matched := false
				for _, fact := range FactsAt(lf.from) {
					bo, isBO := fact.Cond.(*ssa.BinOp)
					if !isBO || bo.Op != token.EQL || !fact.Truth {
						continue
					}
					for _, side := range []ssa.Value{bo.X, bo.Y} {
						other := bo.Y
						if side == bo.Y {
							other = bo.X
						}
						if bv, bound := bind[other]; bound {
							other = bv
						}
						if cl, isCall := side.(*ssa.Call); isCall && cl.Common().IsInvoke() && cl.Common().Method.Name() == "AsRemote" && cl.Common().Value == lf.v {
							if strings.HasSuffix(VKey(other), ".Dst") || strings.HasSuffix(VKey(other), "Dst") {
								matched = true
							}
						}
					}
				}
				if !matched {
					why = "the port a reassembled message is delivered to is not established by comparing the port's address with the message's destination"
				}
			}
			// nil receiver excluded
			nonNil := helperNonNil
			for _, fact := range FactsAt(b) {
				if bo, isBO := fact.Cond.(*ssa.BinOp); isBO && (isNilConst(bo.X) || isNilConst(bo.Y)) {
					if (bo.Op == token.EQL && !fact.Truth) || (bo.Op == token.NEQ && fact.Truth) {
						nonNil = true
					}
				}
			}
			if !nonNil && why == "" {
				why = "delivery is attempted without having excluded that no device port matches the destination"
			}
			c.Check(why == "", "delivery-port", "endpoint.incomingMW.tryDeliver@Deliver", in.Pos(), "delivered only to the device port whose address equals the message's destination", why)
		}
	}
	c.Check(n > 0, "delivery-port", "instances", token.NoPos, "Deliver site found", "no Deliver call found in tryDeliver")
}

func runC29(c *Ctx) {
	uniqueNamesRule(c, "unique-names")
	handOffRule(c, nocDataPath, 20, 2, 1)
	metaCopyRule(c)
	routingRule(c)
	deliveryPortRule(c)
	// a message/flit record read through a pointer into a State slice after that
	// slice was compacted in place is the NEXT record: one message is lost and the
	// one behind it is sent twice
	staleElementRule(c, "stale-element", 0, func(pp string) bool { return strings.HasPrefix(pp, ModPath+"/noc/") })
}

func runC31(c *Ctx) {
	divisorConfigRule(c, "divisor-config", func(pp string) bool { return strings.HasPrefix(pp, ModPath+"/noc/networking/switching/endpoint") }, 1)
	cachedIndexRule(c, "cached-index", func(pp string) bool { return strings.HasPrefix(pp, ModPath+"/noc/") })
	p := c.P
	handOffRule(c, []string{"noc/networking/switching/endpoint"}, 8, 2, 1)
	// flit count
	if f := c.fn("flit-count", "noc/networking/switching/endpoint", "", "msgMetaToFlits"); f != nil {
		sf := p.SSAFunc(f)
		var count ssa.Value
		for _, b := range sf.Blocks {
			for _, in := range b.Instrs {
				if ms, ok := in.(*ssa.MakeSlice); ok && strings.HasSuffix(ms.Type().String(), "packetization.Flit") {
					count = ms.Len
				}
			}
		}
		why := ""
		// the two-way choice is a phi in msgMetaToFlits, or the two results of an
		// unexported helper of the package whose parameters stand for the call's arguments
		type cntEdge struct {
			v    ssa.Value
			pred *ssa.BasicBlock
		}
		var edges []cntEdge
		fa := sf
		bindP := map[ssa.Value]ssa.Value{}
		fromPhi := func(ph *ssa.Phi) {
			for i, e := range ph.Edges {
				edges = append(edges, cntEdge{e, ph.Block().Preds[i]})
			}
		}
		if ph, isPhi := count.(*ssa.Phi); isPhi {
			fromPhi(ph)
		} else if cl, isCall := count.(*ssa.Call); isCall {
			if g := cl.Common().StaticCallee(); g != nil && len(g.Blocks) > 0 && pkgOfFn(g) == pkgOfFn(sf) && len(g.Params) == len(cl.Common().Args) {
				fa = g
				for i, pa := range g.Params {
					bindP[pa] = cl.Common().Args[i]
				}
				for _, gb := range g.Blocks {
					if ret, isR := gb.Instrs[len(gb.Instrs)-1].(*ssa.Return); isR && len(ret.Results) == 1 {
						if rph, isP := ret.Results[0].(*ssa.Phi); isP {
							fromPhi(rph)
						} else {
							edges = append(edges, cntEdge{ret.Results[0], gb})
						}
					}
				}
			}
		}
		valueReadsFieldB := func(v ssa.Value, name string) bool {
			if valueReadsField(v, name) {
				return true
			}
			if bv, bound := bindP[stripConv(v)]; bound {
				return valueReadsField(bv, name)
			}
			return false
		}
		if count == nil || len(edges) != 2 {
			why = "the number of flits is not the two-way choice between 1 (empty message) and the size-derived count"
		} else {
			var calc ssa.Value
			one := false
			var calcPred *ssa.BasicBlock
			for _, e := range edges {
				if cst, isC := e.v.(*ssa.Const); isC && cst.Value != nil && cst.Value.String() == "1" {
					one = true
				} else {
					calc = e.v
					calcPred = e.pred
				}
			}
			if !one || calc == nil {
				why = "a message with no traffic bytes must still travel as exactly one flit"
			} else {
				add, ok1 := calc.(*ssa.BinOp)
				var quo, sub *ssa.BinOp
				if ok1 && add.Op == token.ADD && constIs(add.Y, "1") {
					quo, _ = add.X.(*ssa.BinOp)
				}
				if quo != nil && quo.Op == token.QUO {
					sub, _ = quo.X.(*ssa.BinOp)
				}
				if sub == nil || sub.Op != token.SUB || !constIs(sub.Y, "1") {
					why = "the flit count is not the ceiling division (bytes-1)/flitSize+1"
				} else {
					if !valueReadsFieldB(quo.Y, "FlitByteSize") {
						why = "the divisor of the flit count is not the configured flit size"
					}
					sl := DataSlice(fa, sub.X)
					rb, ro := false, false
					for v := range sl {
						if valueReadsFieldB(v, "TrafficBytes") {
							rb = true
						}
						if valueReadsFieldB(v, "EncodingOverhead") {
							ro = true
						}
					}
					if !rb || !ro {
						why = "the byte count that is divided into flits does not derive from TrafficBytes and EncodingOverhead"
					}
					// a fractional overhead byte still occupies a byte: float→int conversions in the
					// byte count must round up
					for v := range sl {
						cv, isConv := v.(*ssa.Convert)
						if !isConv {
							continue
						}
						fromB, _ := cv.X.Type().Underlying().(*types.Basic)
						toB, _ := cv.Type().Underlying().(*types.Basic)
						if fromB == nil || toB == nil || fromB.Info()&types.IsFloat == 0 || toB.Info()&types.IsInteger == 0 {
							continue
						}
						rounded := false
						if cl, isCall := cv.X.(*ssa.Call); isCall && cl.Common().StaticCallee() != nil && cl.Common().StaticCallee().Name() == "Ceil" {
							rounded = true
						}
						if !rounded && why == "" {
							why = "the encoding overhead is truncated instead of rounded up when converted to whole bytes: a message whose fractional overhead byte crosses a flit boundary is split into one flit fewer than its encoded size requires"
						}
					}
					// the computed edge is taken only when TrafficBytes > 0
					gated := false
					for _, fact := range FactsAt(calcPred) {
						if bo, isBO := fact.Cond.(*ssa.BinOp); isBO && ((fact.Truth && bo.Op == token.GTR) || (!fact.Truth && bo.Op == token.LEQ)) && valueReadsFieldB(bo.X, "TrafficBytes") && constIs(bo.Y, "0") {
							gated = true
						}
					}
					if !gated && why == "" {
						why = "the size-derived flit count is not restricted to messages with TrafficBytes > 0"
					}
				}
			}
			// loop creates exactly count flits, each stamped with count
			stamped, bounded := false, false
			for _, b := range sf.Blocks {
				for _, in := range b.Instrs {
					if st, isSt := in.(*ssa.Store); isSt {
						if fo := FieldOf(st.Addr); fo != nil && fo.Name() == "NumFlitInMsg" && st.Val == count {
							stamped = true
						}
					}
					if bo, isBO := in.(*ssa.BinOp); isBO && bo.Op == token.LSS && bo.Y == count {
						if _, isP := bo.X.(*ssa.Phi); isP {
							bounded = true
						}
					}
				}
			}
			if why == "" && !stamped {
				why = "flits are not stamped with the number of flits of their message"
			}
			if why == "" && !bounded {
				why = "the number of flits created is not the computed flit count"
			}
		}
		c.Check(why == "", "flit-count", "endpoint.msgMetaToFlits", p.Decl(f).Pos(), "numFlit = 1 | (bytes-1)/FlitByteSize+1 with bytes from TrafficBytes and EncodingOverhead; that many flits, each stamped", why)
	}
	// reassembly
	if f := c.fn("reassembly", "noc/networking/switching/endpoint", "incomingMW", "recv"); f != nil {
		sf := p.SSAFunc(f)
		keyOK := false
		var scanKey func(fn *ssa.Function, bind map[ssa.Value]ssa.Value, depth int)
		scanKey = func(fn *ssa.Function, bind map[ssa.Value]ssa.Value, depth int) {
			key := func(v ssa.Value) string {
				if bv, bound := bind[v]; bound {
					return VKey(bv)
				}
				return VKey(v)
			}
			for _, b := range fn.Blocks {
				for _, in := range b.Instrs {
					// the search may live in an unexported helper: its parameters stand for the call's arguments
					if cl, isCall := in.(*ssa.Call); isCall && depth < 1 {
						if g := cl.Common().StaticCallee(); g != nil && len(g.Blocks) > 0 && pkgOfFn(g) == pkgOfFn(sf) && len(g.Params) == len(cl.Common().Args) {
							nb := map[ssa.Value]ssa.Value{}
							for i, pa := range g.Params {
								nb[pa] = cl.Common().Args[i]
							}
							scanKey(g, nb, depth+1)
						}
					}
					bo, ok := in.(*ssa.BinOp)
					if !ok || bo.Op != token.EQL {
						continue
					}
					l, r := key(bo.X), key(bo.Y)
					if strings.HasSuffix(r, ".MsgID") {
						l, r = r, l
					}
					if strings.HasSuffix(l, ".MsgID") && strings.HasSuffix(r, ".Msg.ID") {
						keyOK = true
					}
				}
			}
		}
		scanKey(sf, nil, 0)
		c.Check(keyOK, "reassembly", "endpoint.incomingMW.recv#key", p.Decl(f).Pos(), "records are matched by the flit payload's message ID", "an arriving flit is not matched to its assembly record by comparing the record's MsgID with the flit payload's Msg.ID: flits of different messages could merge")
		fd := p.Decl(f)
		initOK, reqOK := false, false
		ast.Inspect(fd.Body, func(n ast.Node) bool {
			if kv, isKV := n.(*ast.KeyValueExpr); isKV {
				switch types.ExprString(kv.Key) {
				case "NumFlitArrived":
					initOK = types.ExprString(kv.Value) == "1"
				case "NumFlitRequired":
					reqOK = strings.HasSuffix(types.ExprString(kv.Value), ".NumFlitInMsg")
				}
			}
			return true
		})
		c.Check(initOK && reqOK, "reassembly", "endpoint.incomingMW.recv#new-record", fd.Pos(), "a new record starts at one arrival and requires the stamped flit count", "a new assembly record does not start with NumFlitArrived=1 and NumFlitRequired=flit.NumFlitInMsg")
	}
	if f := c.fn("completion", "noc/networking/switching/endpoint", "incomingMW", "assemble"); f != nil {
		sf := p.SSAFunc(f)
		n := 0
		why := ""
		for _, b := range sf.Blocks {
			for _, in := range b.Instrs {
				st, ok := in.(*ssa.Store)
				if !ok || !stateRooted(st.Addr) || !strings.HasSuffix(VKey(st.Addr), "AssembledMsgs") {
					continue
				}
				n++
				done := false
				for _, fact := range FactsAt(b) {
					bo, isBO := fact.Cond.(*ssa.BinOp)
					if !isBO {
						continue
					}
					l, r := VKey(bo.X), VKey(bo.Y)
					arrL, reqR := strings.HasSuffix(l, "NumFlitArrived"), strings.HasSuffix(r, "NumFlitRequired")
					arrR, reqL := strings.HasSuffix(r, "NumFlitArrived"), strings.HasSuffix(l, "NumFlitRequired")
					switch {
					case arrL && reqR && bo.Op == token.LSS && !fact.Truth,
						arrL && reqR && bo.Op == token.GEQ && fact.Truth,
						arrL && reqR && bo.Op == token.EQL && fact.Truth,
						reqL && arrR && bo.Op == token.GTR && !fact.Truth,
						reqL && arrR && bo.Op == token.LEQ && fact.Truth:
						done = true
					}
				}
				if !done {
					why = "a message is emitted as reassembled on a path that has not established that all of its flits arrived (NumFlitArrived >= NumFlitRequired)"
				}
			}
		}
		c.Check(n > 0 && why == "", "completion", "endpoint.incomingMW.assemble", p.Decl(f).Pos(), "emission is dominated by arrived >= required", why)
	}
	_ = sort.Strings
}

func constIs(v ssa.Value, text string) bool {
	c, ok := v.(*ssa.Const)
	return ok && c.Value != nil && c.Value.String() == text
}

// valueReadsField: v is (a conversion of) a load or field extraction of a field with that name.
func valueReadsField(v ssa.Value, name string) bool {
	v = stripConv(v)
	switch x := v.(type) {
	case *ssa.UnOp:
		if f := FieldOf(x.X); f != nil && f.Name() == name {
			return true
		}
	case *ssa.Field:
		if st, ok := x.X.Type().Underlying().(*types.Struct); ok && st.Field(x.Field).Name() == name {
			return true
		}
	case *ssa.FieldAddr:
		if f := FieldOf(x); f != nil && f.Name() == name {
			return true
		}
	}
	return false
}

// addrOfRead returns the address a load/field-extraction reads from (nil if none).
func addrOfRead(v ssa.Value) ssa.Value {
	switch x := stripConv(v).(type) {
	case *ssa.UnOp:
		return x.X
	case *ssa.FieldAddr:
		return x
	case *ssa.Field:
		return x.X
	}
	return nil
}
