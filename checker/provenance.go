package main

// Field provenance (analysis A10 of DESIGN.md): response addressing.
//
// A response must be addressed to the sender of the request it answers and
// reference that request's ID. Structurally: the values stored into the RspTo and
// Dst fields of one message under construction derive from the ID-like and
// Src-like fields of one and the same base object (the request itself, or the
// record the component stored when it admitted the request).

import (
	"go/token"
	"go/types"
	"strings"

	"golang.org/x/tools/go/ssa"
)

type addrStore struct {
	st    *ssa.Store
	field string // RspTo | Dst
	key   string // canonical key of the stored value
	param *ssa.Parameter
}

// splitKey separates "base.Field" into base and field.
func splitKey(k string) (base, field string) {
	k = strings.TrimLeft(k, "&*")
	i := strings.LastIndex(k, ".")
	if i < 0 {
		return "", k
	}
	return k[:i], k[i+1:]
}

// stem removes the ID / Src marker of a field name.
func idStem(f string) (string, bool) {
	switch {
	case strings.HasSuffix(f, "ID"):
		return strings.TrimSuffix(f, "ID"), true
	case f == "RspTo":
		return "<rspto>", true
	}
	return "", false
}

func srcStem(f string) (string, bool) {
	switch {
	case strings.HasSuffix(f, "Src"):
		return strings.TrimSuffix(f, "Src"), true
	case f == "Dst":
		return "<rspto>", true // copying a message's own Dst together with its own RspTo (forwarding)
	}
	return "", false
}

// pairGood decides whether an (RspTo value, Dst value) pair names the ID and the
// source of one base object.
func pairGood(rspToKey, dstKey string) (bool, string) {
	rb, rf := splitKey(rspToKey)
	db, df := splitKey(dstKey)
	rs, rok := idStem(rf)
	ds, dok := srcStem(df)
	if !rok {
		return false, "RspTo is set from " + rspToKey + ", which is not a request ID"
	}
	if !dok {
		return false, "Dst is set from " + dstKey + ", which is not the source of a request"
	}
	if rb != db {
		return false, "RspTo comes from " + rspToKey + " but Dst from " + dstKey + ": they do not describe the same request"
	}
	if (rs == "" && ds == "Req") || (rs == "Req" && ds == "") {
		ds = rs // a record of one request: ID/ReqID with Src/ReqSrc
	}
	if rs != ds {
		return false, "RspTo comes from " + rspToKey + " but Dst from " + dstKey + ": different records of " + rb
	}
	if rs == "<rspto>" && rb == "" {
		return false, "RspTo and Dst are not taken from a request"
	}
	return true, ""
}

// AddressingSite is one message under construction with its addressing stores.
type AddressingSite struct {
	Fn     *ssa.Function
	Pos    token.Pos
	Good   bool
	Why    string
	Params bool // both values are parameters of Fn: decided at the call sites
	PRsp   *ssa.Parameter
	PDst   *ssa.Parameter
}

func isMetaField(v ssa.Value, name string) bool {
	fa, ok := v.(*ssa.FieldAddr)
	if !ok {
		return false
	}
	f := FieldOf(fa)
	if f == nil || f.Name() != name || f.Pkg() == nil || f.Pkg().Path() != ModPath+"/messaging" {
		return false
	}
	return true
}

// addressingSites finds, in fn, every object whose MsgMeta.RspTo and MsgMeta.Dst
// are both stored, and classifies the pairs.
func addressingSites(fn *ssa.Function) []AddressingSite {
	byRoot := map[ssa.Value][]addrStore{}
	var order []ssa.Value
	for _, b := range fn.Blocks {
		for _, in := range b.Instrs {
			st, ok := in.(*ssa.Store)
			if !ok {
				continue
			}
			for _, name := range []string{"RspTo", "Dst"} {
				if !isMetaField(st.Addr, name) {
					continue
				}
				root := memRoot(st.Addr)
				if _, seen := byRoot[root]; !seen {
					order = append(order, root)
				}
				as := addrStore{st: st, field: name, key: VKey(st.Val)}
				if pv, isP := st.Val.(*ssa.Parameter); isP {
					as.param = pv
				}
				byRoot[root] = append(byRoot[root], as)
			}
		}
	}
	var out []AddressingSite
	for _, root := range order {
		var rs, ds []addrStore
		for _, s := range byRoot[root] {
			if s.field == "RspTo" {
				rs = append(rs, s)
			} else {
				ds = append(ds, s)
			}
		}
		if len(rs) == 0 || len(ds) == 0 {
			continue // a request being built (no RspTo), or Dst filled elsewhere
		}
		site := AddressingSite{Fn: fn, Pos: rs[0].st.Pos()}
		// pair the stores in order: i-th RspTo with i-th Dst (default then override)
		n := len(rs)
		if len(ds) > n {
			n = len(ds)
		}
		anyGood := false
		lastGood := false
		why := ""
		for i := 0; i < n; i++ {
			r := rs[min(i, len(rs)-1)]
			d := ds[min(i, len(ds)-1)]
			if r.param != nil && d.param != nil {
				site.Params, site.PRsp, site.PDst = true, r.param, d.param
				anyGood, lastGood = true, true
				continue
			}
			ok, w := pairGood(r.key, d.key)
			if ok {
				anyGood, lastGood = true, true
			} else {
				lastGood = false
				if why == "" {
					why = w
				}
			}
		}
		// a non-conforming default is tolerated only when a conforming pair
		// overrides it later in the function
		site.Good = anyGood && (lastGood || why == "")
		if anyGood && !lastGood {
			site.Good = false
		}
		if !site.Good {
			site.Why = why
			if site.Why == "" {
				site.Why = "RspTo and Dst of the response are not taken from one request record"
			}
		}
		out = append(out, site)
	}
	return out
}

func min(a, b int) int {
	if a < b {
		return a
	}
	return b
}

// responseAddressingRule evaluates every addressing site of the selected
// packages; helper constructors whose RspTo/Dst are parameters are decided at
// their call sites.
func responseAddressingRule(c *Ctx, rule string, pred func(pkgPath string) bool, floor int) {
	p := c.P
	fns := p.SrcFuncs(pred)
	helpers := map[*ssa.Function]AddressingSite{}
	for _, fn := range fns {
		for _, s := range addressingSites(fn) {
			if s.Params {
				helpers[fn] = s
				continue
			}
			c.Check(s.Good, rule, "response@"+SSAFuncKey(fn), s.Pos, "RspTo and Dst name the ID and source of one request record",
				s.Why+": the requester matches a response by the ID of the request it sent and drops anything else, so it would wait forever (or another agent would receive the response)")
		}
	}
	// call sites of helper constructors
	allFns := p.SrcFuncs(func(pp string) bool { return !clientPkg(pp) })
	for h, site := range helpers {
		idxR, idxD := -1, -1
		for i, pv := range h.Params {
			if pv == site.PRsp {
				idxR = i
			}
			if pv == site.PDst {
				idxD = i
			}
		}
		for _, cs := range CallSites(allFns, func(f *types.Func) bool {
			o, _ := h.Object().(*types.Func)
			return o != nil && sameObj(f, o)
		}) {
			args := cs.Instr.Common().Args
			if idxR >= len(args) || idxD >= len(args) || idxR < 0 || idxD < 0 {
				continue
			}
			if !pred(pkgOfFn(cs.Fn)) {
				continue
			}
			if cst, isC := args[idxR].(*ssa.Const); isC && cst.Value != nil && cst.Value.String() == "0" {
				continue // RspTo 0: a request is being (re)built, not a response
			}
			ok, why := pairGood(VKey(args[idxR]), VKey(args[idxD]))
			// a helper called by another helper with its own parameters
			if _, isP1 := args[idxR].(*ssa.Parameter); isP1 {
				if _, isP2 := args[idxD].(*ssa.Parameter); isP2 {
					ok, why = true, ""
				}
			}
			c.Check(ok, rule, "response@"+SSAFuncKey(cs.Fn)+"->"+h.Name(), cs.Pos(), "RspTo and Dst arguments name the ID and source of one request record",
				why+": the requester matches a response by the ID of the request it sent")
		}
	}
	c.Floor(rule, floor)
}

func pkgOfFn(fn *ssa.Function) string {
	for fn.Parent() != nil {
		fn = fn.Parent()
	}
	fn = origin(fn)
	if fn.Pkg == nil {
		return ""
	}
	return fn.Pkg.Pkg.Path()
}
