package main

import (
	"fmt"
	"go/ast"
	"go/token"
	"go/types"
	"os"
	"sort"
	"strings"

	"golang.org/x/tools/go/ssa"
)

// ctrlAgent describes where one memory agent keeps its control lifecycle.
type ctrlAgent struct {
	rel        string
	pauseField string // State field whose value says "paused"
	pausedC    [2]string
	drainField string
	drainC     [2]string
	enabledC   [2]string // constant meaning "enabled" for pauseField ("" for bool fields: false)
	quiescence []string  // State fields the drain acknowledgement depends on (mem/CONTROL_PROTOCOL.md, per-component behaviour)
	support    string    // universal | cache | translation
	ctrlTypes  []string  // middleware types that own control verbs
	pending    string    // State flag that is true while an accepted Drain has not been acknowledged ("" when the draining state itself lasts until the ack)
}

var mcp = "mem/memcontrolprotocol"

var ctrlAgents = []ctrlAgent{
	{rel: "mem/idealmemcontroller", pauseField: "ControlState", pausedC: [2]string{mcp, "StatePaused"}, drainField: "ControlState", drainC: [2]string{mcp, "StateDraining"}, enabledC: [2]string{mcp, "StateEnabled"},
		quiescence: []string{"InflightTransactions"}, support: "universal", ctrlTypes: []string{"ctrlMiddleware"}},
	{rel: "mem/dram", pauseField: "ControlState", pausedC: [2]string{mcp, "StatePaused"}, drainField: "ControlState", drainC: [2]string{mcp, "StateDraining"}, enabledC: [2]string{mcp, "StateEnabled"},
		quiescence: []string{"Transactions"}, support: "universal", ctrlTypes: []string{"ctrlMiddleware"}},
	{rel: "mem/simplebankedmemory", pauseField: "ControlState", pausedC: [2]string{mcp, "StatePaused"}, drainField: "ControlState", drainC: [2]string{mcp, "StateDraining"}, enabledC: [2]string{mcp, "StateEnabled"},
		quiescence: []string{"Banks"}, support: "universal", ctrlTypes: []string{"ctrlMiddleware"}},
	{rel: "mem/vm/mmu", pauseField: "ControlState", pausedC: [2]string{mcp, "StatePaused"}, drainField: "ControlState", drainC: [2]string{mcp, "StateDraining"}, enabledC: [2]string{mcp, "StateEnabled"},
		quiescence: []string{"WalkingTranslations"}, support: "universal", ctrlTypes: []string{"ctrlMiddleware"}},
	{rel: "mem/vm/gmmu", pauseField: "ControlState", pausedC: [2]string{mcp, "StatePaused"}, drainField: "ControlState", drainC: [2]string{mcp, "StateDraining"}, enabledC: [2]string{mcp, "StateEnabled"},
		quiescence: []string{"WalkingTranslations", "RemoteMemReqs"}, support: "universal", ctrlTypes: []string{"ctrlMiddleware"}},
	{rel: "mem/vm/addresstranslator", pauseField: "ControlState", pausedC: [2]string{mcp, "StatePaused"}, drainField: "ControlState", drainC: [2]string{mcp, "StateDraining"}, enabledC: [2]string{mcp, "StateEnabled"},
		quiescence: []string{"Transactions", "InflightReqToBottom"}, support: "universal", ctrlTypes: []string{"ctrlMiddleware"}},
	{rel: "mem/datamover", pauseField: "ControlState", pausedC: [2]string{mcp, "StatePaused"}, drainField: "ControlState", drainC: [2]string{mcp, "StateDraining"}, enabledC: [2]string{mcp, "StateEnabled"},
		quiescence: []string{"CurrentTransaction"}, support: "universal", ctrlTypes: []string{"ctrlMiddleware"}},
	{rel: "mem/rob", pauseField: "ControlState", pausedC: [2]string{mcp, "StatePaused"}, drainField: "ControlState", drainC: [2]string{mcp, "StateDraining"}, enabledC: [2]string{mcp, "StateEnabled"},
		quiescence: []string{"Transactions"}, support: "universal", ctrlTypes: []string{"middleware"}},
	{rel: "mem/vm/tlb", pauseField: "TLBState", pausedC: [2]string{"mem/vm/tlb", "tlbStatePause"}, drainField: "TLBState", drainC: [2]string{"mem/vm/tlb", "tlbStateDrain"}, enabledC: [2]string{"mem/vm/tlb", "tlbStateEnable"},
		quiescence: []string{"MSHREntries", "HasRespondingMSHR"}, support: "translation", ctrlTypes: []string{"ctrlMiddleware"}, pending: "PendingDrainRsp"},
	{rel: "mem/vm/mmuCache", pauseField: "CurrentState", pausedC: [2]string{"mem/vm/mmuCache", "mmuCacheStatePause"}, drainField: "CurrentState", drainC: [2]string{"mem/vm/mmuCache", "mmuCacheStateDrain"}, enabledC: [2]string{"mem/vm/mmuCache", "mmuCacheStateEnable"},
		quiescence: []string{"OutstandingBottomReqs"}, support: "translation", ctrlTypes: []string{"ctrlMiddleware"}, pending: "PendingDrainRsp"},
	{rel: "mem/cache/writeback", pauseField: "CacheState", pausedC: [2]string{"mem/cache/writeback", "cacheStatePaused"}, drainField: "CacheState", drainC: [2]string{"mem/cache/writeback", "cacheStateDraining"}, enabledC: [2]string{"mem/cache/writeback", "cacheStateRunning"},
		quiescence: []string{"Transactions", "WriteBufferBuf", "BankInflightTransCounts", "BankDownwardInflightTransCounts"}, support: "cache", ctrlTypes: []string{"ctrlMiddleware", "flusher"}},
	{rel: "mem/cache/writethroughcache", pauseField: "IsPaused", pausedC: [2]string{"", "true"}, drainField: "IsDraining", drainC: [2]string{"", "true"}, enabledC: [2]string{"", "false"},
		quiescence: []string{"Transactions"}, support: "cache", ctrlTypes: []string{"ctrlMiddleware"}},
}

func (a ctrlAgent) constText(p *Program, c [2]string) string {
	if c[0] == "" {
		return c[1]
	}
	s := constVal(p, c[0], c[1])
	if strings.HasPrefix(s, "\"") {
		s = strings.Trim(s, "\"")
	}
	return s
}

// portNameOf resolves a port value to the literal name it was looked up by
// ("" when it is not a by-name lookup that can be resolved).
func portNameOf(v ssa.Value, depth int) string {
	if depth > 4 {
		return ""
	}
	call, ok := v.(*ssa.Call)
	if !ok {
		if ph, isPhi := v.(*ssa.Phi); isPhi && len(ph.Edges) > 0 {
			n := portNameOf(ph.Edges[0], depth+1)
			for _, e := range ph.Edges[1:] {
				if portNameOf(e, depth+1) != n {
					return ""
				}
			}
			return n
		}
		return ""
	}
	cc := call.Common()
	name := ""
	if cc.IsInvoke() {
		name = cc.Method.Name()
	} else if sc := cc.StaticCallee(); sc != nil {
		name = sc.Name()
		if name != "GetPortByName" {
			// an accessor: every return is a by-name lookup of one name
			sc = origin(sc)
			got := ""
			for _, b := range sc.Blocks {
				if ret, isRet := b.Instrs[len(b.Instrs)-1].(*ssa.Return); isRet && len(ret.Results) == 1 {
					n := portNameOf(ret.Results[0], depth+1)
					if n == "" || (got != "" && got != n) {
						return ""
					}
					got = n
				}
			}
			return got
		}
	}
	if name != "GetPortByName" {
		return ""
	}
	args := cc.Args
	if len(args) == 0 {
		return ""
	}
	if c, isC := args[len(args)-1].(*ssa.Const); isC && c.Value != nil {
		return constText(c)
	}
	return ""
}

func init() {
	register("C18", PropertyMeta{
		Technique: "per-agent value-set dataflow of the control-state field over the middleware call graph (pause gate, serial command gate) + decision tables of each agent's verb dispatch compared with the protocol's support matrix and response discipline",
		Explanation: "For each of the twelve memory agents decides: (pause-gate) every Send on a data port and every RetrieveIncoming on a data port of the data path is reachable only with the control state excluding 'paused' (value-set analysis of the state field: refinement at comparisons, strong update at stores, havoc at calls that may store it, entry states joined over call sites), so a paused agent emits no data response and consumes no queued request; " +
			"(serial-gate) the control port is dequeued only when the state excludes 'draining'; (dispatch) every path of the verb dispatch either leaves the request queued with no response, or dequeues it exactly once with exactly one response carrying the request's command, ID and source, or (Drain/Flush only) dequeues it silently after recording its ID and source and entering the draining state; " +
			"(matrix) supported verbs answer success (Invalidate/Flush: success exactly when paused, otherwise the must-be-paused error), unsupported and unknown verbs answer the unsupported error — per mem/CONTROL_PROTOCOL.md's support matrix; (transitions) Pause lands in paused, Enable in enabled, Reset in enabled with every quiescence field re-initialised; " +
			"(drain-ack) every acknowledgement of a Drain is sent only on a path that observed the draining state and consulted each of the agent's quiescence fields, answers the recorded ID/source, and leaves the paused state behind so it is sent once. The per-agent quiescence list is extended by every State field that is a queueing.Buffer/Pipeline of request records (queues of the requests themselves), so drain-settle requires the drain-completion test to consult those queues as well.",
		NotDecided:  "that the data path actually empties the quiescence fields (liveness of Drain); response order across agents; Flush write-back contents; behaviour of the flusher's eviction walk.",
		Assumptions: []string{"the quiescence fields per agent are those named in mem/CONTROL_PROTOCOL.md, frozen in the rule"},
	}, runC18)
}

func runC18(c *Ctx) {
	for _, ag := range ctrlAgents {
		// requests that sit in a queue of records (a pipeline or buffer whose
		// elements are the requests themselves, not indices into a transaction
		// table) are in flight: the drain-completion test must look at those
		// queues too, whatever the protocol document lists
		for _, q := range recordQueueFields(c.P, ag) {
			has := false
			for _, x := range ag.quiescence {
				if x == q {
					has = true
				}
			}
			if !has {
				ag.quiescence = append(append([]string{}, ag.quiescence...), q)
			}
		}
		c18Gates(c, ag)
		c18Dispatch(c, ag)
		c18ResetQueues(c, ag)
		c18StallChangesNothing(c, ag)
	}
	c.Floor("dispatch", 12)
	c.Floor("pause-gate", 40)
	c.Floor("serial-gate", 12)
}

// middlewareTicks returns the Tick methods of the types the package registers
// with AddMiddleware.
func middlewareTicks(p *Program, rel string) []*ssa.Function {
	var out []*ssa.Function
	seen := map[*ssa.Function]bool{}
	for _, f := range p.SrcFuncs(func(pp string) bool { return pp == pkgPath(rel) }) {
		for _, b := range f.Blocks {
			for _, in := range b.Instrs {
				call, ok := in.(ssa.CallInstruction)
				if !ok {
					continue
				}
				cc := call.Common()
				name := ""
				if cc.IsInvoke() {
					name = cc.Method.Name()
				} else if sc := cc.StaticCallee(); sc != nil {
					name = sc.Name()
				}
				if name != "AddMiddleware" || len(cc.Args) == 0 {
					continue
				}
				arg := cc.Args[len(cc.Args)-1]
				if mi, isMI := arg.(*ssa.MakeInterface); isMI {
					arg = mi.X
				}
				if tick := p.ssa.LookupMethod(arg.Type(), f.Pkg.Pkg, "Tick"); tick != nil && !seen[tick] {
					seen[tick] = true
					out = append(out, tick)
				}
			}
		}
	}
	sort.Slice(out, func(i, j int) bool { return SSAFuncKey(out[i]) < SSAFuncKey(out[j]) })
	return out
}

func c18Gates(c *Ctx, ag ctrlAgent) {
	p := c.P
	scope := p.SrcFuncs(func(pp string) bool { return pp == pkgPath(ag.rel) })
	roots := middlewareTicks(p, ag.rel)
	if len(roots) == 0 {
		c.Unknown("pause-gate", ag.rel, token.NoPos, "no middleware Tick found: the agent's entry points are not understood")
		return
	}
	pf := c.field("pause-gate", ag.rel, "State", ag.pauseField)
	df := c.field("serial-gate", ag.rel, "State", ag.drainField)
	if pf == nil || df == nil {
		return
	}
	pvs := analyseFieldVS(p, scope, roots, pf)
	dvs := pvs
	if df != pf {
		dvs = analyseFieldVS(p, scope, roots, df)
	}
	paused, draining := ag.constText(p, ag.pausedC), ag.constText(p, ag.drainC)
	if os.Getenv("AKITA_VS_DEBUG") == ag.rel {
		for _, l := range pvs.DebugEntries() {
			fmt.Println("VS", l)
		}
	}
	c18Settle(c, ag, scope, dvs, pf, paused, draining)
	if ag.pending != "" {
		if pend := c.field("serial-gate", ag.rel, "State", ag.pending); pend != nil {
			qvs := analyseFieldVS(p, scope, roots, pend)
			np := 0
			for _, f := range scope {
				for _, b := range f.Blocks {
					for _, in := range b.Instrs {
						call, ok := in.(ssa.CallInstruction)
						if !ok || !call.Common().IsInvoke() || call.Common().Method.Name() != "PeekIncoming" || portNameOf(call.Common().Value, 0) != "Control" {
							continue
						}
						np++
						s, seen := qvs.At(in)
						c.Check(seen && !qvs.Has(s, "true"), "serial-gate", ag.rel+":"+SSAFuncKey(f)+"@Control.PeekIncoming#ack-pending", in.Pos(), "a control command is looked at only when no Drain acknowledgement is pending ("+ag.pending+" ∈ "+qvs.String(s)+")",
							"the next control command can be taken up while the acknowledgement of an accepted Drain is still pending ("+ag.pending+" may be true: the data path has already moved the agent to 'paused', but the Control port could not send the ack yet). A second Drain then overwrites the recorded command ID/source, so the first Drain is never acknowledged and the only Drain ack carries the second one's ID")
					}
				}
			}
			c.Check(np > 0, "serial-gate", ag.rel+":ack-pending-sites", token.NoPos, "Control.PeekIncoming site found", "no Control.PeekIncoming site found")
		}
	}
	reach := p.ModCG().Reach(roots, func(fn *ssa.Function) bool { return pkgOfFn(fn) == pkgPath(ag.rel) })
	// functions reachable from the verb dispatch (control path)
	var ctrlRoots []*ssa.Function
	for _, f := range scope {
		if f.Parent() == nil && hasCommandSwitch(p, f) {
			ctrlRoots = append(ctrlRoots, f)
		}
	}
	ctrlReach := p.ModCG().Reach(ctrlRoots, func(fn *ssa.Function) bool { return pkgOfFn(fn) == pkgPath(ag.rel) })
	for _, f := range scope {
		if _, ok := reach[origin(f)]; !ok && f.Parent() == nil {
			continue
		}
		c.Analysed(SSAFuncKey(f))
		for _, b := range f.Blocks {
			for _, in := range b.Instrs {
				call, ok := in.(ssa.CallInstruction)
				if !ok || !call.Common().IsInvoke() {
					continue
				}
				m := call.Common().Method
				if m.Pkg() == nil || m.Pkg().Path() != ModPath+"/messaging" {
					continue
				}
				port := portNameOf(call.Common().Value, 0)
				switch m.Name() {
				case "Send", "RetrieveIncoming", "PeekIncoming":
				default:
					continue
				}
				if port == "Control" {
					if m.Name() != "PeekIncoming" {
						continue
					}
					s, seen := dvs.At(in)
					ok := seen && !dvs.Has(s, draining)
					c.Check(ok, "serial-gate", ag.rel+":"+SSAFuncKey(f)+"@Control.PeekIncoming", in.Pos(), "a control command is looked at only when not draining (state ∈ "+dvs.String(s)+")",
						"a control command can be taken up while a Drain is still in progress (state may be "+dvs.String(s)+"): commands are to be handled one at a time, the next one staying queued until the Drain has been acknowledged")
					continue
				}
				if m.Name() == "PeekIncoming" {
					continue
				}
				if m.Name() == "RetrieveIncoming" {
					if _, isCtrl := ctrlReach[origin(f)]; isCtrl {
						continue // Reset legitimately discards queued traffic
					}
				}
				s, seen := pvs.At(in)
				ok = seen && !pvs.Has(s, paused)
				what := "emits a message on"
				if m.Name() == "RetrieveIncoming" {
					what = "consumes a message from"
				}
				if port == "" {
					port = "?"
				}
				c.Check(ok, "pause-gate", ag.rel+":"+SSAFuncKey(f)+"@"+port+"."+m.Name(), in.Pos(), "reached only when not paused (state ∈ "+pvs.String(s)+")",
					"the agent "+what+" data port "+port+" on a path where the control state may be 'paused' (state ∈ "+pvs.String(s)+"): after a Pause is acknowledged no data traffic may move until Enable")
			}
		}
	}
}

// c18Settle: every store that moves the agent from draining to paused happens on
// a path that consulted the quiescence fields.
func c18Settle(c *Ctx, ag ctrlAgent, scope []*ssa.Function, dvs *FieldVS, pf *types.Var, paused, draining string) {
	p := c.P
	purePred := map[*types.Func]bool{}
	for _, f := range scope {
		if o, _ := f.Object().(*types.Func); o != nil && f.Parent() == nil && isPurePredicate(f, 0) {
			purePred[o] = true
		}
	}
	n := 0
	for _, f := range scope {
		fo, _ := f.Object().(*types.Func)
		if fo == nil || f.Parent() != nil {
			continue
		}
		settles := false
		for _, b := range f.Blocks {
			for _, in := range b.Instrs {
				st, ok := in.(*ssa.Store)
				if !ok {
					continue
				}
				if fld := FieldOf(st.Addr); fld == nil || !sameObj(fld, pf) {
					continue
				}
				if _, local := memRoot(st.Addr).(*ssa.Alloc); local {
					continue
				}
				cst, isC := stripConv(st.Val).(*ssa.Const)
				if !isC || constText(cst) != paused {
					continue
				}
				s, seen := dvs.At(b.Instrs[0]) // on entry to the block: before sibling stores of the same transition
				if seen && s != 0 && dvs.Has(s, draining) && dvs.String(s) == "{"+draining+"}" {
					settles = true
				}
			}
		}
		if !settles {
			continue
		}
		n++
		t := ExtractTable(p, fo, TableConfig{Domain: []int{0, 1, 2, 3, 4, 5, 6}, LoopsOnce: true, MaxRows: 60000, Inline: func(g *types.Func) bool { return purePred[g] }})
		key := ag.rel + ":" + SSAFuncKey(f)
		if len(t.Unsupported) > 0 || t.Truncated {
			c.Unknown("drain-settle", key, f.Pos(), "outside the analysable fragment: "+strings.Join(t.Unsupported, "; "))
			continue
		}
		why := ""
		for _, r := range t.Rows {
			if !rowStoresAny(r, ag.pauseField, paused, ag.pausedC[1]) {
				continue
			}
			for _, q := range ag.quiescence {
				if !rowMentions(r, q) && why == "" {
					s := r.String()
					if len(s) > 500 {
						s = s[:500] + "…"
					}
					why = "the agent moves from draining to paused without consulting State." + q + ": the Drain would be acknowledged with work still in flight [path: " + s + "]"
				}
			}
		}
		c.Check(why == "", "drain-settle", key, f.Pos(), "the draining→paused transition consults every quiescence field", why)
	}
	c.Check(n > 0, "drain-settle", ag.rel+":present", token.NoPos, "a draining→paused transition exists", "no store moves the agent from draining to paused: a Drain would never settle")
}

// hasCommandSwitch reports whether fn's body switches on a memcontrolprotocol.Command.
func hasCommandSwitch(p *Program, fn *ssa.Function) bool {
	o, _ := fn.Object().(*types.Func)
	if o == nil {
		return false
	}
	fd := p.Decl(o)
	pk := p.PkgOfDecl(fd)
	if fd == nil || fd.Body == nil || pk == nil {
		return false
	}
	found := false
	ast.Inspect(fd.Body, func(n ast.Node) bool {
		if sw, ok := n.(*ast.SwitchStmt); ok && sw.Tag != nil {
			if tv, has := pk.TypesInfo.Types[sw.Tag]; has && strings.HasSuffix(tv.Type.String(), "memcontrolprotocol.Command") {
				found = true
			}
		}
		return true
	})
	return found
}

// ---- verb dispatch tables ----

type rspDesc struct {
	cmd, dst, rspTo, success, err string
	node                          ast.Node
	gen                           int
}

// ctrlCtor finds the package's control-response constructor and maps its
// parameters to the response fields they fill.
func ctrlCtor(p *Program, rel string) (*types.Func, map[string]int) {
	for _, f := range p.FuncsIn(func(pp string) bool { return pp == pkgPath(rel) }) {
		sig := f.Type().(*types.Signature)
		if sig.Recv() != nil || sig.Results().Len() != 1 || !strings.HasSuffix(sig.Results().At(0).Type().String(), "memcontrolprotocol.Rsp") {
			continue
		}
		fd := p.Decl(f)
		if fd == nil || fd.Body == nil {
			continue
		}
		idx := map[string]int{}
		for i := 0; i < sig.Params().Len(); i++ {
			idx[sig.Params().At(i).Name()] = i
		}
		m := map[string]int{}
		ast.Inspect(fd.Body, func(n ast.Node) bool {
			switch x := n.(type) {
			case *ast.KeyValueExpr:
				if k, ok := x.Key.(*ast.Ident); ok {
					if v, isID := x.Value.(*ast.Ident); isID {
						if i, has := idx[v.Name]; has {
							m[k.Name] = i
						}
					}
				}
			case *ast.AssignStmt:
				if len(x.Lhs) == 1 && len(x.Rhs) == 1 {
					if sel, ok := x.Lhs[0].(*ast.SelectorExpr); ok {
						if v, isID := x.Rhs[0].(*ast.Ident); isID {
							if i, has := idx[v.Name]; has {
								m[sel.Sel.Name] = i
							}
						}
					}
				}
			}
			return true
		})
		return f, m
	}
	return nil, nil
}

func literalField(lit, name string) string {
	i := strings.Index(lit, name+": ")
	if i < 0 {
		return ""
	}
	rest := lit[i+len(name)+2:]
	depth := 0
	for j, r := range rest {
		switch r {
		case '(', '{', '[':
			depth++
		case ')', ']':
			depth--
		case '}', ',':
			if depth == 0 {
				return rest[:j]
			}
			if r == '}' {
				depth--
			}
		}
	}
	return rest
}

// portAccessors maps accessor method names to the port name they look up.
func portAccessors(p *Program, rel string) map[string]string {
	out := map[string]string{}
	for _, f := range p.SrcFuncs(func(pp string) bool { return pp == pkgPath(rel) }) {
		if f.Signature.Params().Len() != 0 || f.Signature.Results().Len() != 1 || f.Parent() != nil {
			continue
		}
		name := ""
		ok := true
		for _, b := range f.Blocks {
			if ret, isRet := b.Instrs[len(b.Instrs)-1].(*ssa.Return); isRet && len(ret.Results) == 1 {
				n := portNameOf(ret.Results[0], 0)
				if n == "" || (name != "" && n != name) {
					ok = false
				}
				name = n
			}
		}
		if ok && name != "" {
			out[f.Name()] = name
		}
	}
	return out
}

func portOfRecv(recvS string, acc map[string]string) string {
	if i := strings.LastIndex(recvS, "GetPortByName(\""); i >= 0 {
		rest := recvS[i+len("GetPortByName(\""):]
		if j := strings.Index(rest, "\""); j >= 0 && strings.TrimSpace(rest[j:]) == "\")" {
			return rest[:j]
		}
	}
	if strings.HasSuffix(recvS, "()") {
		s := strings.TrimSuffix(recvS, "()")
		if i := strings.LastIndex(s, "."); i >= 0 {
			if n, ok := acc[s[i+1:]]; ok {
				return n
			}
		}
	}
	return ""
}

// triState: +1 yes, -1 no, 0 unknown.
func stateIs(r *Row, field, text string) int { return stateIsAt(r, field, text, 1<<30) }

// stateIsAt uses the latest knowledge not younger than generation gen.
func stateIsAt(r *Row, field, text string, gen int) int {
	res := 0
	for _, a := range r.Atoms {
		if a.Gen > gen {
			continue
		}
		if v := atomSays(a, field, text); v != 0 {
			res = v
		}
	}
	return res
}

func atomSays(a *Atom, field, text string) int {
	{
		k := a.Key
		if !strings.Contains(k, "."+field) {
			return 0
		}
		if strings.HasPrefix(k, "len(") || strings.HasPrefix(k, "range-") {
			return 0
		}
		if !a.IsBool {
			if strings.HasSuffix(k, "."+field) {
				if itoa(a.I) == text {
					return 1
				}
				return -1
			}
			return 0
		}
		if strings.HasSuffix(k, "."+field) && !strings.Contains(k, "==") {
			if (text == "true") == a.B {
				return 1
			}
			return -1
		}
		if i := strings.Index(k, " == "); i >= 0 {
			l, rr := strings.TrimSpace(k[:i]), strings.TrimSpace(k[i+4:])
			other := l
			if strings.Contains(l, "."+field) {
				other = rr
			}
			other = strings.Trim(other, "\"")
			if other == text {
				if a.B {
					return 1
				}
				return -1
			}
			if a.B {
				return -1 // equals some other constant
			}
		}
	}
	return 0
}

// commandClauses maps a switch tag expression to its clauses' constant values.
func commandClauses(p *Program, rel string) map[ast.Expr][][]string {
	out := map[ast.Expr][][]string{}
	pk := p.Pkg(rel)
	if pk == nil {
		return out
	}
	for _, file := range pk.Syntax {
		ast.Inspect(file, func(n ast.Node) bool {
			sw, ok := n.(*ast.SwitchStmt)
			if !ok || sw.Tag == nil {
				return true
			}
			tv, has := pk.TypesInfo.Types[sw.Tag]
			if !has || !strings.HasSuffix(tv.Type.String(), "memcontrolprotocol.Command") {
				return true
			}
			var cls [][]string
			for _, c := range sw.Body.List {
				cc := c.(*ast.CaseClause)
				if cc.List == nil {
					continue
				}
				var vals []string
				for _, e := range cc.List {
					if ctv, okc := pk.TypesInfo.Types[e]; okc && ctv.Value != nil {
						vals = append(vals, ctv.Value.ExactString())
					} else {
						vals = append(vals, "?")
					}
				}
				cls = append(cls, vals)
			}
			out[sw.Tag] = cls
			return true
		})
	}
	return out
}

var verbNames = []string{"CmdPause", "CmdDrain", "CmdEnable", "CmdReset", "CmdInvalidate", "CmdFlush"}

func supportOf(kind, verb string) string {
	switch verb {
	case "CmdPause", "CmdDrain", "CmdEnable", "CmdReset":
		return "ok"
	case "CmdInvalidate":
		if kind == "cache" || kind == "translation" {
			return "conditional"
		}
	case "CmdFlush":
		if kind == "cache" {
			return "conditional"
		}
	}
	return "unsupported"
}

func c18Dispatch(c *Ctx, ag ctrlAgent) {
	p := c.P
	rule := "dispatch"
	scope := p.SrcFuncs(func(pp string) bool { return pp == pkgPath(ag.rel) })
	ctor, cmap := ctrlCtor(p, ag.rel)
	if ctor == nil || len(cmap) < 5 {
		c.Unknown(rule, ag.rel, token.NoPos, "the control-response constructor (a function returning memcontrolprotocol.Rsp filling Command, Dst, RspTo, Success, Error from its parameters) was not found")
		return
	}
	acc := portAccessors(p, ag.rel)
	clauses := commandClauses(p, ag.rel)
	verbVal := map[string]string{}
	valVerb := map[string]string{}
	for _, v := range verbNames {
		verbVal[v] = constVal(p, mcp, v)
		valVerb[verbVal[v]] = v
	}
	pf := p.Field(ag.rel, "State", ag.pauseField)
	df := p.Field(ag.rel, "State", ag.drainField)
	// relevant functions: those that (transitively) touch the control port or the state fields
	rel := map[*ssa.Function]bool{}
	for _, f := range scope {
		for _, b := range f.Blocks {
			for _, in := range b.Instrs {
				switch x := in.(type) {
				case ssa.CallInstruction:
					if x.Common().IsInvoke() && portNameOf(x.Common().Value, 0) == "Control" {
						rel[f] = true
					}
				case *ssa.Store:
					if fo := FieldOf(x.Addr); fo != nil && (sameObj(fo, pf) || sameObj(fo, df)) {
						if _, local := memRoot(x.Addr).(*ssa.Alloc); !local {
							rel[f] = true
						}
					}
				}
			}
		}
	}
	ctrlOp := map[*ssa.Function]bool{}
	for _, f := range scope {
		for _, b := range f.Blocks {
			for _, in := range b.Instrs {
				if x, ok := in.(ssa.CallInstruction); ok && x.Common().IsInvoke() && portNameOf(x.Common().Value, 0) == "Control" {
					ctrlOp[f] = true
				}
			}
		}
	}
	cg := p.ModCG()
	inPkg := func(fn *ssa.Function) bool { return pkgOfFn(fn) == pkgPath(ag.rel) }
	for changed := true; changed; {
		changed = false
		for _, f := range scope {
			if rel[f] {
				continue
			}
			for _, cal := range cg.out[f] {
				if rel[cal] && inPkg(cal) {
					rel[f] = true
					changed = true
					break
				}
			}
		}
	}
	purePred := map[*types.Func]bool{}
	for _, f := range scope {
		if o, _ := f.Object().(*types.Func); o != nil && f.Parent() == nil && isPurePredicate(f, 0) {
			purePred[o] = true
		}
	}
	inline := func(f *types.Func) bool {
		if f == ctor || f.Pkg() == nil || f.Pkg().Path() != pkgPath(ag.rel) {
			return false
		}
		if purePred[f] {
			return true
		}
		sf := p.SSAFunc(f)
		return sf != nil && rel[origin(sf)]
	}
	// control ticks: middleware Ticks from which a control-port operation is reachable
	var ticks []*ssa.Function
	for _, r := range middlewareTicks(p, ag.rel) {
		for fn := range cg.Reach([]*ssa.Function{r}, inPkg) {
			if ctrlOp[fn] {
				ticks = append(ticks, r)
				break
			}
		}
	}
	if len(ticks) == 0 {
		c.Unknown(rule, ag.rel, token.NoPos, "no middleware Tick reaches the Control port")
		return
	}
	paused, draining, enabled := ag.constText(p, ag.pausedC), ag.constText(p, ag.drainC), ag.constText(p, ag.enabledC)
	seenVerb := map[string]bool{}
	nAck := 0
	for _, tick := range ticks {
		to, _ := tick.Object().(*types.Func)
		if to == nil {
			continue
		}
		c.Analysed(SSAFuncKey(tick))
		t := ExtractTable(p, to, TableConfig{Domain: []int{0, 1, 2, 3, 4, 5, 6}, Inline: inline, LoopsOnce: true, MaxRows: 120000})
		key := ag.rel + ":" + SSAFuncKey(tick)
		if len(t.Unsupported) > 0 || t.Truncated || len(t.Rows) == 0 {
			c.Unknown(rule, key, tick.Pos(), "the control path is outside the analysable fragment: "+strings.Join(t.Unsupported, "; "))
			continue
		}
		type bad struct{ why, path string }
		problems := map[string]bad{}
		fail := func(kind, why string, r *Row) {
			if _, dup := problems[kind+"|"+why]; !dup {
				s := r.String()
				if len(s) > 700 {
					s = s[:700] + "…"
				}
				problems[kind+"|"+why] = bad{why, s}
			}
		}
		for _, r := range t.Rows {
			// verbs of this row
			var verbs []string
			isDefault := false
			hasCmd := false
			for _, a := range r.Atoms {
				if strings.HasPrefix(a.Key, "switch(") && strings.HasSuffix(a.Key, ".Command)") {
					cls, ok := clauses[a.Expr]
					if !ok {
						continue
					}
					hasCmd = true
					if a.I < len(cls) {
						for _, v := range cls[a.I] {
							verbs = append(verbs, valVerb[v])
						}
					} else {
						isDefault = true
						listed := map[string]bool{}
						for _, cl := range cls {
							for _, v := range cl {
								listed[valVerb[v]] = true
							}
						}
						for _, v := range verbNames {
							if !listed[v] {
								verbs = append(verbs, v)
							}
						}
						verbs = append(verbs, "<unknown verb>")
					}
				} else if !a.IsBool && strings.HasSuffix(a.Key, ".Command") && strings.Contains(a.Key, "PeekIncoming()") {
					hasCmd = true
					if v, ok := valVerb[itoa(a.I)]; ok {
						verbs = append(verbs, v)
					} else {
						verbs = append(verbs, "<unknown verb>")
					}
				}
			}
			_ = isDefault
			// control-port operations
			var answers, completions []rspDesc
			retrieves := 0
			var lastCtor *Effect
			for _, e := range r.Effects {
				if e.Kind != "call" || e.Callee == nil {
					continue
				}
				if e.Callee == ctor {
					lastCtor = e
					continue
				}
				if e.Callee.Pkg() == nil || e.Callee.Pkg().Path() != ModPath+"/messaging" {
					continue
				}
				if portOfRecv(e.RecvS, acc) != "Control" {
					continue
				}
				switch e.Callee.Name() {
				case "RetrieveIncoming":
					retrieves++
				case "Send":
					var d rspDesc
					d.node = e.Node
					d.gen = e.Gen
					arg := ""
					if len(e.Args) > 0 {
						arg = e.Args[0]
					}
					switch {
					case strings.HasPrefix(arg, ctor.Name()+"(") && lastCtor != nil && len(lastCtor.Args) >= 6:
						d.cmd, d.dst, d.rspTo = lastCtor.Args[cmap["Command"]], lastCtor.Args[cmap["Dst"]], lastCtor.Args[cmap["RspTo"]]
						d.success, d.err = lastCtor.Args[cmap["Success"]], lastCtor.Args[cmap["Error"]]
					case strings.Contains(arg, "memcontrolprotocol.Rsp{"):
						d.cmd, d.success, d.err = literalField(arg, "Command"), literalField(arg, "Success"), literalField(arg, "Error")
						if d.success == "" {
							d.success = "false"
						}
						if d.err == "" {
							d.err = "\"\""
						}
						for _, st := range r.Stores(func(s *Effect) bool { return strings.HasPrefix(s.RecvS, arg+".") }) {
							switch strings.TrimPrefix(st.RecvS, arg+".") {
							case "Dst":
								d.dst = st.Args[0]
							case "RspTo":
								d.rspTo = st.Args[0]
							}
						}
					default:
						fail("shape", "a message sent on the Control port is not built by the response constructor or a response literal: its addressing cannot be decided ("+arg+")", r)
						continue
					}
					if strings.Contains(d.dst, "PeekIncoming()") || strings.Contains(d.rspTo, "PeekIncoming()") {
						answers = append(answers, d)
					} else {
						completions = append(completions, d)
					}
				}
			}
			if retrieves > 1 {
				fail("once", "the Control port is dequeued more than once on one path: a queued command is dropped unanswered", r)
			}
			if len(answers) > 1 {
				fail("once", "one path answers the same control request more than once", r)
			}
			notReq := false
			for _, a := range r.Atoms {
				if a.IsBool && strings.HasPrefix(a.Key, "ok(") && strings.Contains(a.Key, "memcontrolprotocol.Req") && !a.B {
					notReq = true
				}
			}
			verbList := strings.Join(verbs, "/")
			stem := func(s, suf string) (string, bool) {
				s = strings.TrimPrefix(s, "&")
				if !strings.HasSuffix(s, suf) {
					return "", false
				}
				return strings.TrimSuffix(s, suf), true
			}
			for _, d := range answers {
				if retrieves != 1 {
					fail("once", "a control request is answered but left on the Control port: it would be answered again on the next tick ("+verbList+")", r)
				}
				db, ok1 := stem(d.dst, ".Src")
				rb, ok2 := stem(d.rspTo, ".ID")
				if !ok1 || !ok2 || db != rb {
					fail("addressing", "the response to "+verbList+" must go to the request's source and reference the request's ID (Dst="+d.dst+", RspTo="+d.rspTo+")", r)
				}
				// command echo
				cmdOK := strings.HasSuffix(d.cmd, ".Command") && strings.Contains(d.cmd, "PeekIncoming()")
				if !cmdOK && hasCmd {
					if vn, isNum := valVerb[d.cmd]; isNum && len(verbs) == 1 && verbs[0] == vn {
						cmdOK = true // a constant passed through a helper's parameter
					}
					for _, v := range verbs {
						if strings.HasSuffix(d.cmd, "."+v) || d.cmd == v {
							cmdOK = len(verbs) == 1
						}
					}
				}
				if !cmdOK {
					fail("echo", "the response to "+verbList+" carries command "+d.cmd+": a response must carry the command of the request it answers", r)
				}
				// matrix
				if !hasCmd {
					continue
				}
				for _, v := range verbs {
					seenVerb[v] = true
					sup := "unsupported"
					if v != "<unknown verb>" {
						sup = supportOf(ag.support, v)
					}
					isUnsup := d.success == "false" && strings.HasSuffix(d.err, "ErrUnsupported")
					isMust := d.success == "false" && strings.HasSuffix(d.err, "ErrMustBePausedOrDrained")
					isOK := d.success == "true" && (d.err == "\"\"" || d.err == "")
					switch sup {
					case "unsupported":
						if !isUnsup {
							fail("matrix", "verb "+v+" is not supported by this agent (mem/CONTROL_PROTOCOL.md support matrix) and must be refused with Success=false, Error=ErrUnsupported (got success="+d.success+", error="+d.err+")", r)
						}
					case "ok":
						if !isOK {
							fail("matrix", "universal verb "+v+" must be acknowledged with success (got success="+d.success+", error="+d.err+")", r)
						}
					case "conditional":
						ps := stateIsAt(r, ag.pauseField, paused, d.gen)
						switch {
						case isOK && ps != 1:
							fail("matrix", "verb "+v+" succeeds on a path that has not established the paused state: while running it must be refused with ErrMustBePausedOrDrained", r)
						case isMust && ps != -1:
							fail("matrix", "verb "+v+" is refused as 'must be paused' on a path where the agent is paused", r)
						case !isOK && !isMust:
							fail("matrix", "supported conditional verb "+v+" must either succeed (when paused) or be refused with ErrMustBePausedOrDrained (got success="+d.success+", error="+d.err+")", r)
						}
					}
					// transitions
					if isOK {
						switch v {
						case "CmdDrain":
							// a Drain answered at once is still a drain acknowledgement
							for _, q := range ag.quiescence {
								if !rowMentions(r, q) {
									fail("drain-ack", "a Drain is acknowledged at once without consulting State."+q+": a drain acknowledgement promises that no in-flight work remains (work frozen by an earlier Pause is still in flight)", r)
								}
							}
							if !rowStoresAny(r, ag.pauseField, paused, ag.pausedC[1]) && stateIsAt(r, ag.pauseField, paused, d.gen) != 1 {
								fail("drain-ack", "a Drain acknowledgement must leave the agent paused", r)
							}
						case "CmdPause":
							if !rowStores(r, ag.pauseField, paused, ag.pausedC[1]) {
								fail("transition", "an acknowledged Pause must leave the agent in the paused state", r)
							}
						case "CmdEnable", "CmdReset":
							if !rowStores(r, ag.pauseField, enabled, ag.enabledC[1]) {
								fail("transition", "an acknowledged "+strings.TrimPrefix(v, "Cmd")+" must leave the agent in the enabled state", r)
							}
							if ag.drainField != ag.pauseField && !rowStores(r, ag.drainField, "false", "false") {
								fail("transition", "an acknowledged "+strings.TrimPrefix(v, "Cmd")+" must clear the draining flag", r)
							}
						}
						if v == "CmdReset" {
							for _, q := range ag.quiescence {
								if !rowResets(p, ag, r, q) {
									fail("reset", "an acknowledged Reset must re-initialise State."+q+" (in-flight work that would otherwise answer pre-reset requests later)", r)
								}
							}
						}
					}
				}
			}
			if retrieves == 1 && len(answers) == 0 && !notReq {
				// silent dequeue: asynchronous acceptance
				okAsync := hasCmd && len(verbs) == 1 && (verbs[0] == "CmdDrain" || verbs[0] == "CmdFlush") && supportOf(ag.support, verbs[0]) != "unsupported"
				if !okAsync {
					fail("once", "a control request ("+verbList+") is dequeued without a response: only a supported Drain or Flush may be accepted silently (it is acknowledged later)", r)
				} else {
					seenVerb[verbs[0]] = true
					idOK, srcOK := false, false
					for _, st := range r.Stores(func(s *Effect) bool { return strings.Contains(s.RecvS, ".State.") }) {
						v := st.Args[0]
						if !strings.Contains(v, "PeekIncoming()") {
							continue
						}
						if strings.HasSuffix(v, ".ID") {
							idOK = true
						}
						if strings.HasSuffix(v, ".Src") {
							srcOK = true
						}
						if strings.Contains(v, ".MsgMeta") {
							idOK, srcOK = true, true
						}
					}
					if !idOK || !srcOK {
						fail("async", "a silently accepted "+verbList+" must record the request's ID and source so that the later acknowledgement can carry them", r)
					}
					if verbs[0] == "CmdDrain" && !rowStores(r, ag.drainField, draining, ag.drainC[1]) {
						fail("async", "an accepted Drain must enter the draining state (otherwise it is never acknowledged)", r)
					}
				}
			}
			for _, d := range completions {
				nAck++
				db, ok1 := stem(d.dst, "Src")
				rb, ok2 := stem(d.rspTo, "ID")
				if !ok1 || !ok2 || db != rb || !strings.Contains(d.dst, ".State.") {
					fail("ack-addressing", "a deferred acknowledgement must be addressed with the recorded source and ID of the accepted command (Dst="+d.dst+", RspTo="+d.rspTo+")", r)
				}
				isDrain := strings.HasSuffix(d.cmd, "CmdDrain")
				isFlush := strings.HasSuffix(d.cmd, "CmdFlush")
				if !(isDrain || isFlush) || d.success != "true" {
					fail("ack-shape", "a deferred acknowledgement must be a successful Drain or Flush response (got "+d.cmd+", success="+d.success+")", r)
					continue
				}
				if isDrain {
					pending := stateIsAt(r, ag.drainField, draining, d.gen) == 1
					if !pending {
						for _, a := range r.Atoms {
							if a.IsBool && a.B && a.Gen <= d.gen && strings.Contains(a.Key, "Pending") && strings.Contains(a.Key, ".State.") {
								pending = true
							}
						}
					}
					if !pending {
						fail("drain-ack", "a Drain acknowledgement is sent on a path that did not observe a Drain in progress", r)
					}
					viaPaused := stateIsAt(r, ag.pauseField, paused, d.gen) == 1 && stateIsAt(r, ag.drainField, draining, d.gen) != 1
					if !viaPaused {
						for _, q := range ag.quiescence {
							if !rowMentions(r, q) {
								fail("drain-ack", "a Drain acknowledgement is sent without consulting State."+q+": the acknowledgement promises that no in-flight work remains", r)
							}
						}
					}
					// not repeatable: leaves the pending condition
					left := rowStoresAny(r, ag.pauseField, paused, ag.pausedC[1]) || len(r.Stores(func(s *Effect) bool {
						return strings.Contains(s.RecvS, "Pending") && len(s.Args) > 0 && s.Args[0] == "false"
					})) > 0
					if !left {
						fail("drain-ack", "after acknowledging a Drain the agent must leave the pending-drain condition (land in paused), otherwise the acknowledgement repeats", r)
					}
				}
			}
		}
		var keys []string
		for k := range problems {
			keys = append(keys, k)
		}
		sort.Strings(keys)
		why := ""
		for _, k := range keys {
			why += problems[k].why + " [path: " + problems[k].path + "] "
		}
		c.Check(len(problems) == 0, rule, key, tick.Pos(), "every path of the control tick follows the response discipline and support matrix ("+itoa(len(t.Rows))+" paths)", why)
	}
	for _, v := range verbNames {
		c.Check(seenVerb[v], "dispatch-coverage", ag.rel+":"+v, token.NoPos, "verb is dispatched to a handler or the unsupported reply", "no analysed path handles verb "+v+": the verb matrix of this agent is not covered")
	}
	c.Check(seenVerb["<unknown verb>"], "dispatch-coverage", ag.rel+":<unknown verb>", token.NoPos, "out-of-range verbs reach the unsupported reply", "no path answers a verb outside the six defined ones")
	c.Check(nAck > 0, "drain-ack", ag.rel+":ack-present", token.NoPos, "a deferred acknowledgement path exists", "no path sends the deferred Drain acknowledgement")
}

// rowStores: the row stores the given constant into State.<field>.
func rowStores(r *Row, field, text, name string) bool {
	sts := r.Stores(func(s *Effect) bool { return strings.HasSuffix(s.RecvS, ".State."+field) })
	if len(sts) == 0 {
		return false
	}
	last := sts[len(sts)-1]
	if len(last.Args) == 0 {
		return false
	}
	v := last.Args[0]
	return v == text || v == "\""+text+"\"" || v == name || strings.HasSuffix(v, "."+name) || v == "int("+name+")"
}

func rowStoresAny(r *Row, field, text, name string) bool {
	for _, st := range r.Stores(func(s *Effect) bool { return strings.HasSuffix(s.RecvS, ".State."+field) }) {
		if len(st.Args) == 0 {
			continue
		}
		v := st.Args[0]
		if v == text || v == "\""+text+"\"" || v == name || strings.HasSuffix(v, "."+name) || v == "int("+name+")" {
			return true
		}
	}
	return false
}

func rowMentions(r *Row, q string) bool {
	for _, a := range r.Atoms {
		if strings.Contains(a.Key, ".State."+q) {
			return true
		}
	}
	return false
}

// rowResets: the row stores to State.<q>, calls a clearing method on it, or calls
// a helper whose closure writes it.
func rowResets(p *Program, ag ctrlAgent, r *Row, q string) bool {
	for _, e := range r.Effects {
		switch e.Kind {
		case "store", "incdec":
			if strings.Contains(e.RecvS, ".State."+q) {
				return true
			}
		case "call":
			if strings.Contains(e.RecvS, ".State."+q) && e.Callee != nil {
				switch e.Callee.Name() {
				case "Clear", "Reset":
					return true
				}
			}
			if e.Callee != nil && e.Callee.Pkg() != nil && e.Callee.Pkg().Path() == pkgPath(ag.rel) {
				if sf := p.SSAFunc(e.Callee); sf != nil && closureWritesField(p, sf, p.Field(ag.rel, "State", q), pkgPath(ag.rel)) {
					return true
				}
			}
		}
	}
	return false
}

func closureWritesField(p *Program, fn *ssa.Function, field *types.Var, pkg string) bool {
	if field == nil {
		return false
	}
	for f := range p.ModCG().Reach([]*ssa.Function{fn}, func(g *ssa.Function) bool { return pkgOfFn(g) == pkg }) {
		for _, b := range f.Blocks {
			for _, in := range b.Instrs {
				var addr ssa.Value
				switch x := in.(type) {
				case *ssa.Store:
					addr = x.Addr
				case ssa.CallInstruction:
					cc := x.Common()
					if sc := cc.StaticCallee(); sc != nil && (sc.Name() == "Clear" || sc.Name() == "Reset") && len(cc.Args) > 0 {
						addr = cc.Args[0]
					}
				}
				for depth := 0; addr != nil && depth < 8; depth++ {
					if fo := FieldOf(addr); fo != nil && sameObj(fo, field) {
						return true
					}
					switch y := addr.(type) {
					case *ssa.FieldAddr:
						addr = y.X
					case *ssa.IndexAddr:
						addr = y.X
					case *ssa.UnOp:
						addr = y.X
					default:
						addr = nil
					}
				}
			}
		}
	}
	return false
}

// isPurePredicate: a bool-returning function that stores nothing outside its
// frame and calls only functions of the same kind or standard accessors.
func isPurePredicate(f *ssa.Function, depth int) bool {
	if depth > 3 || len(f.Blocks) == 0 {
		return false
	}
	res := f.Signature.Results()
	if depth == 0 && (res.Len() != 1 || !types.Identical(res.At(0).Type().Underlying(), types.Typ[types.Bool])) {
		return false
	}
	for _, b := range f.Blocks {
		for _, in := range b.Instrs {
			switch x := in.(type) {
			case *ssa.Store:
				if _, local := memRoot(x.Addr).(*ssa.Alloc); !local {
					return false
				}
			case *ssa.MapUpdate, *ssa.Send, *ssa.Go, *ssa.Defer, *ssa.Panic:
				return false
			case ssa.CallInstruction:
				cc := x.Common()
				if cc.IsInvoke() {
					return false
				}
				sc := cc.StaticCallee()
				if sc == nil {
					if _, isB := cc.Value.(*ssa.Builtin); isB {
						continue
					}
					return false
				}
				switch sc.Name() {
				case "Size", "Len", "CanPush", "CanAccept", "Capacity", "Stages", "Peek", "Elements":
					continue
				}
				if sc.Pkg != f.Pkg || !isPurePredicate(origin(sc), depth+1) {
					return false
				}
			}
		}
	}
	return true
}

// typeHoldsQueue reports whether values of t contain a queueing.Buffer or
// queueing.Pipeline (in-flight work by construction).
func typeHoldsQueue(t types.Type, depth int) bool {
	if depth > 6 {
		return false
	}
	if n, ok := t.(*types.Named); ok {
		if o := n.Origin().Obj(); o.Pkg() != nil && o.Pkg().Path() == ModPath+"/queueing" && (o.Name() == "Buffer" || o.Name() == "Pipeline") {
			return true
		}
	}
	switch u := t.Underlying().(type) {
	case *types.Struct:
		for i := 0; i < u.NumFields(); i++ {
			if typeHoldsQueue(u.Field(i).Type(), depth+1) {
				return true
			}
		}
	case *types.Slice:
		return typeHoldsQueue(u.Elem(), depth+1)
	case *types.Array:
		return typeHoldsQueue(u.Elem(), depth+1)
	case *types.Pointer:
		return typeHoldsQueue(u.Elem(), depth+1)
	case *types.Map:
		return typeHoldsQueue(u.Elem(), depth+1)
	}
	return false
}

// c18ResetQueues: the Reset handler re-initialises every State field that holds
// a queueing.Buffer or queueing.Pipeline.
func c18ResetQueues(c *Ctx, ag ctrlAgent) {
	p := c.P
	st := p.LookupType(ag.rel, "State")
	ctor, cmap := ctrlCtor(p, ag.rel)
	if st == nil || ctor == nil {
		return
	}
	resetVal := constVal(p, mcp, "CmdReset")
	var handlers []*ssa.Function
	for _, f := range p.SrcFuncs(func(pp string) bool { return pp == pkgPath(ag.rel) }) {
		for _, b := range f.Blocks {
			for _, in := range b.Instrs {
				call, ok := in.(ssa.CallInstruction)
				if !ok || call.Common().StaticCallee() == nil || call.Common().StaticCallee().Object() != types.Object(ctor) {
					continue
				}
				if i, has := cmap["Command"]; has && i < len(call.Common().Args) {
					if cst, isC := call.Common().Args[i].(*ssa.Const); isC && cst.Value != nil && cst.Value.ExactString() == resetVal {
						handlers = append(handlers, f)
					}
				}
			}
		}
	}
	if len(handlers) == 0 {
		c.Unknown("reset-queues", ag.rel, token.NoPos, "the Reset handler (the function that builds the CmdReset response) was not found")
		return
	}
	s := st.Type().Underlying().(*types.Struct)
	for i := 0; i < s.NumFields(); i++ {
		fld := s.Field(i)
		if !typeHoldsQueue(fld.Type(), 0) {
			continue
		}
		ok := false
		for _, h := range handlers {
			if closureWritesField(p, h, fld, pkgPath(ag.rel)) {
				ok = true
			}
		}
		c.Check(ok, "reset-queues", ag.rel+":State."+fld.Name(), handlers[0].Pos(), "re-initialised by Reset",
			"State."+fld.Name()+" holds a buffer or pipeline of in-flight work but the Reset handler never clears it: work staged there before the Reset keeps flowing and answers pre-reset requests after the Reset was acknowledged")
	}
}

// c18StallChangesNothing: a control step that gives up because the Control port
// cannot send ("if !ctrlPort.CanSend() { return false }") is retried on the next
// tick; it must not have changed the component's State before the test.
func c18StallChangesNothing(c *Ctx, ag ctrlAgent) {
	p := c.P
	n := 0
	for _, fn := range p.SrcFuncs(func(pp string) bool { return pp == pkgPath(ag.rel) }) {
		for _, b := range fn.Blocks {
			ifi, ok := b.Instrs[len(b.Instrs)-1].(*ssa.If)
			if !ok {
				continue
			}
			cond, neg := ifi.Cond, false
			for {
				if u, isU := cond.(*ssa.UnOp); isU && u.Op == token.NOT {
					cond, neg = u.X, !neg
					continue
				}
				break
			}
			call, isCall := cond.(*ssa.Call)
			if !isCall || !call.Common().IsInvoke() || call.Common().Method.Name() != "CanSend" || portNameOf(call.Common().Value, 0) != "Control" {
				continue
			}
			stall := b.Succs[1]
			if neg {
				stall = b.Succs[0]
			}
			if _, isRet := stall.Instrs[len(stall.Instrs)-1].(*ssa.Return); !isRet {
				continue
			}
			n++
			bad := ""
			for _, bb := range fn.Blocks {
				for _, in := range bb.Instrs {
					st, isSt := in.(*ssa.Store)
					if !isSt || !stateRooted(st.Addr) || !InstrDominates(in, ifi) {
						continue
					}
					if !strings.Contains(VKey(st.Addr), ".State") {
						continue
					}
					bad += "State." + shortKey(VKey(st.Addr)) + " is assigned at " + p.Rel(st.Pos()) + " before the test; "
				}
			}
			c.Check(bad == "", "stall-changes-nothing", ag.rel+":"+SSAFuncKey(fn)+"@CanSend", ifi.Pos(), "nothing is changed before the Control port's CanSend test",
				bad+"when the Control port cannot send, the step returns to be retried but the state it needs is gone (a Drain that already left 'draining' is never acknowledged; commands queued behind it overtake it)")
		}
	}
	c.Check(n >= 4, "stall-changes-nothing", ag.rel+":instances", token.NoPos, "Control-port stall tests found ("+itoa(n)+")", "fewer than four CanSend tests on the Control port were found in "+ag.rel)
}

// recordQueueFields: direct fields of the agent's State that are a
// queueing.Buffer/Pipeline whose element type is a struct (the queued request
// itself).
func recordQueueFields(p *Program, ag ctrlAgent) []string {
	st := p.LookupType(ag.rel, "State")
	if st == nil {
		return nil
	}
	s, ok := st.Type().Underlying().(*types.Struct)
	if !ok {
		return nil
	}
	var out []string
	for i := 0; i < s.NumFields(); i++ {
		n, isN := s.Field(i).Type().(*types.Named)
		if !isN || n.TypeArgs() == nil || n.TypeArgs().Len() != 1 {
			continue
		}
		o := n.Origin().Obj()
		if o.Pkg() == nil || o.Pkg().Path() != ModPath+"/queueing" || (o.Name() != "Buffer" && o.Name() != "Pipeline") {
			continue
		}
		if _, isStruct := n.TypeArgs().At(0).Underlying().(*types.Struct); isStruct {
			out = append(out, s.Field(i).Name())
		}
	}
	return out
}

// invalidateInflightRule: Invalidate is legal from the paused state, and paused
// is not drained — requests accepted before the Pause are frozen in flight. For
// the two agents where that was shown to matter (by probe, see
// findings/C25-invalidate-while-paused), the Invalidate handler must take the
// in-flight work into account: refuse (or defer) while it exists, or make the
// sweep and the later completion agree.
//
//	mem/vm/tlb          an outstanding miss whose answer is (or will be) in the
//	                    Bottom buffer is installed after Enable with the OLD
//	                    mapping: the handler must look at MSHREntries /
//	                    HasRespondingMSHR / the Bottom port
//	mem/cache/writeback a locked block (write or fill in the bank pipeline) is
//	                    marked invalid and re-validated when the frozen work
//	                    completes, next to the copy fetched in between: the sweep
//	                    must look at IsLocked/ReadCount, or the handler at the
//	                    quiescence fields
//
// (write-through cache: reviewed, its bank finalizers never re-validate a block;
// MMU cache: not examined.)
func invalidateInflightRule(c *Ctx, rule string, rels []string) {
	p := c.P
	want := map[string][]string{
		"mem/vm/tlb":          {"MSHREntries", "HasRespondingMSHR"},
		"mem/cache/writeback": {"IsLocked", "ReadCount", "Transactions"},
	}
	for _, rel := range rels {
		ctor, cmap := ctrlCtor(p, rel)
		if ctor == nil {
			c.Unknown(rule, rel, 0, "control-response constructor not found")
			continue
		}
		inval := constVal(p, mcp, "CmdInvalidate")
		inPkg := func(fn *ssa.Function) bool { return pkgOfFn(fn) == pkgPath(rel) }
		var handlers []*ssa.Function
		for _, f := range p.SrcFuncs(func(pp string) bool { return pp == pkgPath(rel) }) {
			for _, b := range f.Blocks {
				for _, in := range b.Instrs {
					call, ok := in.(ssa.CallInstruction)
					if !ok || call.Common().StaticCallee() == nil || call.Common().StaticCallee().Object() != ctor {
						continue
					}
					args := call.Common().Args
					if i, has := cmap["Command"]; has && i < len(args) {
						if cst, isC := args[i].(*ssa.Const); isC && cst.Value != nil && cst.Value.ExactString() == inval {
							handlers = append(handlers, f)
						}
					}
				}
			}
		}
		if len(handlers) == 0 {
			c.Unknown(rule, rel, 0, "Invalidate handler not found")
			continue
		}
		reads := false
		for g := range p.ModCG().Reach(handlers, inPkg) {
			for _, b := range g.Blocks {
				for _, in := range b.Instrs {
					v, ok := in.(ssa.Value)
					if !ok {
						continue
					}
					if f := FieldOf(v); f != nil {
						for _, w := range want[rel] {
							if f.Name() == w {
								// a read, not the reset of the field
								if u, isU := v.(*ssa.FieldAddr); isU {
									for _, ref := range *u.Referrers() {
										if _, isLoad := ref.(*ssa.UnOp); isLoad {
											reads = true
											if os.Getenv("AKITA_DE_DEBUG") != "" {
												fmt.Fprintln(os.Stderr, "INV", rel, SSAFuncKey(g), f.Name())
											}
										}
									}
								} else {
									reads = true
								}
							}
						}
					}
				}
			}
		}
		c.Check(reads, rule, rel+":Invalidate", handlers[0].Pos(), "the Invalidate handler takes in-flight work into account",
			"Invalidate is accepted whenever the agent is paused and sweeps only what is cached; requests frozen in flight by the Pause ("+strings.Join(want[rel], "/")+") are not looked at, so after Enable their completion re-installs what the acknowledged Invalidate was meant to remove")
	}
}
