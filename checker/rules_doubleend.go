package main

// reset-single-end: EndTaskOnReset(comp, id) emits a task-end event
// unconditionally (unlike EndReqInOnReset, which consults the receiver registry
// and is silent for a task that already completed). When a normal-path function
// ends the task whose ID is kept in field F of a State record (TraceReqFinalize /
// EndTask fed from F) and leaves the record in its container — the record waits
// for something else, e.g. for older records to retire — the reset teardown that
// ends "every task a record could hold" ends that task a second time, unless it
// is guarded by something the normal path wrote into the record.

import (
	"fmt"
	"go/types"
	"os"
	"sort"
	"strings"

	"golang.org/x/tools/go/ssa"
)

// idFieldReads: for every uint64 struct field read in the backward data slice of
// v, the record field it belongs to — the first field declared in package pkg on
// the way from the leaf towards the root of the access path (ReqToBottomID itself;
// FetchReadReqMeta for FetchReadReqMeta.ID). Calls to same-package helpers
// contribute the fields their bodies read.
func idFieldReads(fn *ssa.Function, v ssa.Value, pkg *types.Package) map[*types.Var]bool {
	out := map[*types.Var]bool{}
	add := func(x ssa.Value) {
		f := FieldOf(x)
		if f == nil {
			return
		}
		if b, ok := f.Type().Underlying().(*types.Basic); !ok || b.Kind() != types.Uint64 {
			// a whole message kept in a record field (copied out before use)
			if f.Pkg() == pkg && hasIDLeaf(f.Type(), 2) {
				out[f] = true
			}
			return
		}
		cur := x
		for i := 0; i < 6; i++ {
			g := FieldOf(cur)
			if g != nil && g.Pkg() == pkg {
				out[g] = true
				return
			}
			switch y := cur.(type) {
			case *ssa.FieldAddr:
				cur = y.X
			case *ssa.Field:
				cur = y.X
			case *ssa.UnOp:
				cur = y.X
			default:
				return
			}
		}
	}
	for x := range DataSlice(fn, v) {
		switch y := x.(type) {
		case *ssa.FieldAddr, *ssa.Field:
			add(y)
		case *ssa.Call:
			if sc := y.Common().StaticCallee(); sc != nil && sc.Pkg != nil && sc.Pkg == fn.Pkg && len(sc.Blocks) > 0 {
				for _, b := range sc.Blocks {
					for _, in := range b.Instrs {
						if val, isV := in.(ssa.Value); isV {
							add(val)
						}
					}
				}
			}
		}
	}
	return out
}

func structOfField(f *types.Var, pkg *types.Package) *types.Named {
	sc := pkg.Scope()
	for _, n := range sc.Names() {
		tn, ok := sc.Lookup(n).(*types.TypeName)
		if !ok {
			continue
		}
		st, ok := tn.Type().Underlying().(*types.Struct)
		if !ok {
			continue
		}
		for i := 0; i < st.NumFields(); i++ {
			if st.Field(i) == f {
				if nt, isN := tn.Type().(*types.Named); isN {
					return nt
				}
			}
		}
	}
	return nil
}

// containersOf: fields of package struct types that hold records of type T.
func containersOf(T *types.Named, pkg *types.Package) map[*types.Var]bool {
	out := map[*types.Var]bool{}
	holds := func(t types.Type) bool {
		if nt, ok := t.(*types.Named); ok && nt.TypeArgs() != nil {
			for i := 0; i < nt.TypeArgs().Len(); i++ {
				if types.Identical(nt.TypeArgs().At(i), T) {
					return true // a generic queue of records
				}
			}
		}
		for i := 0; i < 4; i++ {
			switch u := t.Underlying().(type) {
			case *types.Slice:
				t = u.Elem()
			case *types.Map:
				t = u.Elem()
			case *types.Pointer:
				t = u.Elem()
			case *types.Array:
				t = u.Elem()
			default:
				return types.Identical(t, T)
			}
			if types.Identical(t, T) {
				return true
			}
		}
		return false
	}
	sc := pkg.Scope()
	for _, n := range sc.Names() {
		tn, ok := sc.Lookup(n).(*types.TypeName)
		if !ok {
			continue
		}
		st, ok := tn.Type().Underlying().(*types.Struct)
		if !ok {
			continue
		}
		for i := 0; i < st.NumFields(); i++ {
			f := st.Field(i)
			if types.Identical(f.Type(), T) || holds(f.Type()) {
				out[f] = true
			}
		}
	}
	return out
}

// storesAndDeletes: fields stored to (and map fields deleted from) by fn and its
// same-package callees (two levels).
func storesAndDeletes(fn *ssa.Function, depth int, seen map[*ssa.Function]bool, out map[*types.Var]bool) {
	if fn == nil || seen[fn] || len(fn.Blocks) == 0 {
		return
	}
	seen[fn] = true
	for _, b := range fn.Blocks {
		for _, in := range b.Instrs {
			switch x := in.(type) {
			case *ssa.Store:
				if f := FieldOf(x.Addr); f != nil && !isGrowth(x) {
					out[f] = true
				}
			case ssa.CallInstruction:
				if bi, isB := x.Common().Value.(*ssa.Builtin); isB && bi.Name() == "delete" && len(x.Common().Args) > 0 {
					if u, isU := x.Common().Args[0].(*ssa.UnOp); isU {
						if f := FieldOf(u.X); f != nil {
							out[f] = true
						}
					}
				}
				if n, _ := calleeNamePkg(x); (n == "Pop" || n == "Remove" || n == "Clear") && len(x.Common().Args) > 0 {
					// a take on a queue held in a field
					for cur, i := x.Common().Args[0], 0; i < 5; i++ {
						if f := FieldOf(cur); f != nil {
							out[f] = true
						}
						switch y := cur.(type) {
						case *ssa.FieldAddr:
							cur = y.X
						case *ssa.UnOp:
							cur = y.X
						default:
							i = 5
						}
					}
				}
				if sc := x.Common().StaticCallee(); sc != nil && depth > 0 && sc.Pkg != nil && sc.Pkg == fn.Pkg {
					storesAndDeletes(sc, depth-1, seen, out)
				}
			}
		}
	}
}

func resetSingleEndRule(c *Ctx, rule string, floor int) {
	p := c.P
	byPkg := map[string][]*ssa.Function{}
	var pkgs []string
	for _, fn := range p.SrcFuncs(func(pp string) bool { return libComponentPkg(pp) }) {
		k := pkgOfFn(fn)
		if byPkg[k] == nil {
			pkgs = append(pkgs, k)
		}
		byPkg[k] = append(byPkg[k], fn)
	}
	sort.Strings(pkgs)
	pairs := 0
	for _, k := range pkgs {
		type site struct {
			fn   *ssa.Function
			call ssa.CallInstruction
			ids  map[*types.Var]bool
		}
		var tears, enders []site
		teardownFn := map[*ssa.Function]bool{}
		callSitesOf := map[*ssa.Function][]ssa.CallInstruction{}
		for _, fn := range byPkg[k] {
			for _, b := range fn.Blocks {
				for _, in := range b.Instrs {
					if call, ok := in.(ssa.CallInstruction); ok {
						if sc := call.Common().StaticCallee(); sc != nil && sc.Pkg == fn.Pkg {
							callSitesOf[sc] = append(callSitesOf[sc], call)
						}
					}
				}
			}
		}
		for _, fn := range byPkg[k] {
			for _, b := range fn.Blocks {
				for _, in := range b.Instrs {
					if call, ok := in.(ssa.CallInstruction); ok && isTracingCall(call, "EndTaskOnReset", "EndReqInOnReset") {
						teardownFn[fn] = true
					}
				}
			}
		}
		for _, fn := range byPkg[k] {
			for _, b := range fn.Blocks {
				for _, in := range b.Instrs {
					call, ok := in.(ssa.CallInstruction)
					if !ok || len(call.Common().Args) < 2 {
						continue
					}
					switch {
					case isTracingCall(call, "EndTaskOnReset"):
						tears = append(tears, site{fn, call, idFieldReads(fn, call.Common().Args[1], fn.Pkg.Pkg)})
					case isTracingCall(call, "TraceReqFinalize", "EndTask") && !teardownFn[fn]:
						enders = append(enders, site{fn, call, idFieldReads(fn, call.Common().Args[1], fn.Pkg.Pkg)})
					}
				}
			}
		}
		for _, td := range tears {
			for _, en := range enders {
				var shared *types.Var
				for f := range td.ids {
					if en.ids[f] {
						shared = f
					}
				}
				if shared == nil {
					continue
				}
				T := structOfField(shared, en.fn.Pkg.Pkg)
				if T == nil {
					continue
				}
				pairs++
				written := map[*types.Var]bool{}
				storesAndDeletes(en.fn, 2, map[*ssa.Function]bool{}, written)
				// the function that ends the task may be a helper: what its callers
				// (up to, not including, a middleware's Tick) do in the same call counts
				around := map[*types.Var]bool{}
				for f := range written {
					around[f] = true
				}
				frontier := []*ssa.Function{en.fn}
				seenUp := map[*ssa.Function]bool{en.fn: true}
				for lvl := 0; lvl < 3; lvl++ {
					var next []*ssa.Function
					for _, g := range frontier {
						for _, cs := range callSitesOf[g] {
							caller := cs.Parent()
							if caller.Name() == "Tick" {
								continue
							}
							effectsAfter(caller, cs, around)
							if !seenUp[caller] {
								seenUp[caller] = true
								next = append(next, caller)
							}
						}
					}
					frontier = next
				}
				removes, retained := false, false
				for cf := range containersOf(T, en.fn.Pkg.Pkg) {
					if around[cf] {
						if types.Identical(cf.Type(), T) {
							retained = true // the record is parked in a slot of its own type
						} else {
							removes = true
						}
					}
				}
				if retained {
					removes = false
				}
				guarded := false
				for _, fact := range FactsAt(td.call.Block()) {
					for x := range DataSlice(td.fn, fact.Cond) {
						if g := FieldOf(x); g != nil && written[g] {
							if gs := structOfField(g, en.fn.Pkg.Pkg); gs != nil && types.Identical(gs, T) {
								guarded = true
							}
						}
					}
				}
				if os.Getenv("AKITA_DE_DEBUG") != "" {
					var ws []string
					for f := range around {
						ws = append(ws, f.Name())
					}
					sort.Strings(ws)
					fmt.Fprintln(os.Stderr, "DE", SSAFuncKey(en.fn), T.Obj().Name()+"."+shared.Name(), "removes", removes, "retained", retained, "guarded", guarded, "around", ws)
				}
				rel := strings.TrimPrefix(k, ModPath+"/")
				construct := rel + ":" + T.Obj().Name() + "." + shared.Name() + "@" + SSAFuncKey(en.fn)
				c.Check(removes || guarded, rule, construct, td.call.Pos(), "the normal path removes the record when it ends the task, or the teardown is guarded by a field that path writes",
					SSAFuncKey(en.fn)+" ("+p.Rel(en.call.Pos())+") ends the task whose ID is kept in "+T.Obj().Name()+"."+shared.Name()+" and leaves the record in its container; the reset teardown "+SSAFuncKey(td.fn)+" then calls EndTaskOnReset on the same ID without testing anything that path recorded: a Reset that arrives while the record is still queued ends the task a second time (EndTaskOnReset emits the end event unconditionally)")
			}
		}
	}
	c.Check(pairs >= floor, rule, "<pairs>", 0, itoa(pairs)+" (teardown end, normal-path end) pairs on the same ID field checked", "fewer pairs recognised than confirmed by hand")
}

// effectsAfter adds the fields that caller stores to / removes from after the
// call site cs (its own instructions reachable from cs, and the closures of the
// same-package functions it calls from there).
func effectsAfter(caller *ssa.Function, cs ssa.CallInstruction, out map[*types.Var]bool) {
	for _, b := range caller.Blocks {
		for _, in := range b.Instrs {
			if in == ssa.Instruction(cs) || !Reaches(cs, in) {
				continue
			}
			switch x := in.(type) {
			case *ssa.Store:
				if f := FieldOf(x.Addr); f != nil && !isGrowth(x) {
					out[f] = true
				}
			case ssa.CallInstruction:
				if bi, isB := x.Common().Value.(*ssa.Builtin); isB && bi.Name() == "delete" && len(x.Common().Args) > 0 {
					if u, isU := x.Common().Args[0].(*ssa.UnOp); isU {
						if f := FieldOf(u.X); f != nil {
							out[f] = true
						}
					}
				}
				if sc := x.Common().StaticCallee(); sc != nil && sc.Pkg != nil && sc.Pkg == caller.Pkg {
					storesAndDeletes(sc, 1, map[*ssa.Function]bool{}, out)
				}
			}
		}
	}
}

// isGrowth: X = append(X, elems...) with the whole of X as first operand adds
// records; it removes none.
func isGrowth(st *ssa.Store) bool {
	call, ok := st.Val.(*ssa.Call)
	if !ok {
		return false
	}
	bi, isB := call.Call.Value.(*ssa.Builtin)
	if !isB || bi.Name() != "append" || len(call.Call.Args) == 0 {
		return false
	}
	u, isU := call.Call.Args[0].(*ssa.UnOp)
	if !isU {
		return false
	}
	f, g := FieldOf(u.X), FieldOf(st.Addr)
	return f != nil && g != nil && sameObj(f, g)
}

// hasIDLeaf: struct type t has a uint64 field named ID (directly or through
// embedded/nested structs up to depth).
func hasIDLeaf(t types.Type, depth int) bool {
	st, ok := t.Underlying().(*types.Struct)
	if !ok {
		return false
	}
	for i := 0; i < st.NumFields(); i++ {
		f := st.Field(i)
		if b, isB := f.Type().Underlying().(*types.Basic); isB && b.Kind() == types.Uint64 && f.Name() == "ID" {
			return true
		}
		if depth > 0 && f.Embedded() && hasIDLeaf(f.Type(), depth-1) {
			return true
		}
	}
	return false
}
