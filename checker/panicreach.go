package main

import (
	"go/token"
	"strings"

	"golang.org/x/tools/go/ssa"
)

// PanicSite is an explicit panic / log.Panic* / log.Fatal* / os.Exit in fn.
type PanicSite struct {
	Fn   *ssa.Function
	Pos  token.Pos
	What string
}

func panicSitesIn(fn *ssa.Function) []PanicSite {
	var out []PanicSite
	for _, b := range fn.Blocks {
		for _, in := range b.Instrs {
			switch x := in.(type) {
			case *ssa.Panic:
				out = append(out, PanicSite{fn, x.Pos(), "panic"})
			case ssa.CallInstruction:
				f, _ := calleeOf(x)
				if f == nil || f.Pkg() == nil {
					continue
				}
				switch f.Pkg().Path() {
				case "log":
					if strings.HasPrefix(f.Name(), "Panic") || strings.HasPrefix(f.Name(), "Fatal") {
						out = append(out, PanicSite{fn, x.Pos(), "log." + f.Name()})
					}
				case "os":
					if f.Name() == "Exit" {
						out = append(out, PanicSite{fn, x.Pos(), "os.Exit"})
					}
				}
			}
		}
	}
	return out
}

// loadRoots are the entry points that consume archive-derived data.
func (p *Program) loadRoots() []*ssa.Function {
	var roots []*ssa.Function
	for _, fn := range p.SrcFuncs(func(pp string) bool { return !clientPkg(pp) }) {
		if fn.Parent() != nil {
			continue
		}
		switch fn.Name() {
		case "LoadCheckpoint", "UnmarshalJSON", "readArchiveStream", "readArchive", "DecodeSlice", "decodeOne":
			roots = append(roots, fn)
		}
	}
	return roots
}
