package main

// Determinism sources (analysis A8 of DESIGN.md).

import (
	"go/ast"
	"go/token"
	"go/types"
	"strings"

	"golang.org/x/tools/go/ssa"
)

// MapRangeSite is one `for … range m` over a map.
type MapRangeSite struct {
	Fn      *types.Func
	FnKey   string
	Stmt    *ast.RangeStmt
	MapExpr string
	Class   string // sorted-keys | commutative | order-sensitive
	Why     string
}

// mapRangeSites finds every range over a map in the declared functions of the
// selected packages and classifies the loop body.
func (p *Program) mapRangeSites(pred func(pkgPath string) bool) []MapRangeSite {
	var out []MapRangeSite
	for _, f := range p.FuncsIn(pred) {
		fd := p.Decl(f)
		info := p.PkgOfDecl(fd).TypesInfo
		ast.Inspect(fd.Body, func(n ast.Node) bool {
			rs, ok := n.(*ast.RangeStmt)
			if !ok {
				return true
			}
			tv, has := info.Types[rs.X]
			if !has {
				return true
			}
			if _, isMap := tv.Type.Underlying().(*types.Map); !isMap {
				return true
			}
			s := MapRangeSite{Fn: f, FnKey: FuncKey(f), Stmt: rs, MapExpr: types.ExprString(rs.X)}
			s.Class, s.Why = classifyMapRange(fd, rs, info)
			out = append(out, s)
			return true
		})
	}
	return out
}

// classifyMapRange decides whether the loop's effect can depend on iteration order.
func classifyMapRange(fd *ast.FuncDecl, rs *ast.RangeStmt, info *types.Info) (string, string) {
	// collected slices: x = append(x, …)
	collected := map[types.Object]bool{}
	sensitive := ""
	var visit func(stmts []ast.Stmt)
	visit = func(stmts []ast.Stmt) {
		for _, st := range stmts {
			switch s := st.(type) {
			case *ast.AssignStmt:
				for i, lhs := range s.Lhs {
					switch l := ast.Unparen(lhs).(type) {
					case *ast.IndexExpr:
						// m2[k] = v : keyed store, order-insensitive when keyed by something derived from the range key
						if tv, ok := info.Types[l.X]; ok {
							if _, isMap := tv.Type.Underlying().(*types.Map); isMap {
								continue
							}
						}
						sensitive = "stores into an indexed slot of a slice"
					case *ast.Ident:
						if l.Name == "_" {
							continue
						}
						obj := info.ObjectOf(l)
						if i < len(s.Rhs) {
							if call, ok := ast.Unparen(s.Rhs[i]).(*ast.CallExpr); ok {
								if id, ok := call.Fun.(*ast.Ident); ok && id.Name == "append" && len(call.Args) >= 1 {
									if a0, ok := ast.Unparen(call.Args[0]).(*ast.Ident); ok && info.ObjectOf(a0) == obj {
										collected[obj] = true
										continue
									}
								}
							}
						}
						switch s.Tok {
						case token.ADD_ASSIGN, token.OR_ASSIGN, token.AND_ASSIGN, token.XOR_ASSIGN, token.MUL_ASSIGN:
							continue // commutative accumulation
						case token.DEFINE:
							continue // loop-local
						}
						if isBoolType(obj.Type()) {
							continue // found-flag: idempotent
						}
						sensitive = "assigns a variable that survives the loop (last writer wins)"
					default:
						sensitive = "assigns through a selector or pointer"
					}
				}
			case *ast.IncDecStmt:
			case *ast.ExprStmt:
				if call, ok := s.X.(*ast.CallExpr); ok {
					if id, ok := call.Fun.(*ast.Ident); ok && (id.Name == "delete" || id.Name == "panic") {
						continue
					}
					sensitive = "calls " + types.ExprString(call.Fun) + " once per entry"
				}
			case *ast.IfStmt:
				visit(s.Body.List)
				if s.Else != nil {
					visit([]ast.Stmt{s.Else})
				}
			case *ast.BlockStmt:
				visit(s.List)
			case *ast.ReturnStmt:
				sensitive = "returns from inside the loop (first match wins)"
			case *ast.BranchStmt:
				if s.Tok == token.BREAK {
					sensitive = "breaks out of the loop (first match wins)"
				}
			case *ast.DeclStmt, *ast.EmptyStmt:
			default:
				sensitive = "contains a statement the classifier does not model"
			}
		}
	}
	visit(rs.Body.List)
	if sensitive != "" {
		return "order-sensitive", sensitive
	}
	if len(collected) > 0 {
		// every collected slice must be sorted after the loop, in the same function
		sorted := map[types.Object]bool{}
		weakSort := ""
		ast.Inspect(fd.Body, func(n ast.Node) bool {
			call, ok := n.(*ast.CallExpr)
			if !ok || call.Pos() < rs.End() {
				return true
			}
			if se, ok := call.Fun.(*ast.SelectorExpr); ok {
				if pk, ok := se.X.(*ast.Ident); ok && (pk.Name == "sort" || pk.Name == "slices") && len(call.Args) >= 1 {
					if a0, ok := ast.Unparen(call.Args[0]).(*ast.Ident); ok {
						if why := comparatorNotTotal(call); why != "" {
							weakSort = why
						} else {
							sorted[info.ObjectOf(a0)] = true
						}
					}
				}
			}
			return true
		})
		for o := range collected {
			if !sorted[o] {
				if weakSort != "" {
					return "order-sensitive", "collects entries into " + o.Name() + " in map order and sorts it with an ordering that " + weakSort
				}
				return "order-sensitive", "collects entries into " + o.Name() + " in map order without sorting it afterwards"
			}
		}
		return "sorted-keys", "entries are collected and sorted before use"
	}
	return "commutative", "the body only performs keyed stores, deletes or commutative accumulation"
}

// reviewedMapRanges lists order-sensitive-looking loops that were read and found
// harmless, keyed by function; each with the reason.
var reviewedMapRanges = map[string]string{
	"mem/datamover.ctrlMiddleware.endInflightTasks":   "tracing-only body: ends trace tasks, generates no ID and touches no simulation state",
	"mem/vm/gmmu.ctrlMiddleware.endInflightTasks":     "tracing-only body: ends trace tasks",
	"mem/vm/mmuCache.ctrlMiddleware.endInflightTasks": "tracing-only body: ends trace tasks",
	"messaging.PortOwnerBase.GetPortByName":           "diagnostic on a failing path (builds the panic message)",
	"simulation.Simulation.checkpointCoverage":        "returns an error naming some mismatching entity; any mismatch fails the load",
	"tracing.DBTracer.StartTracing":                   "marks every running task to be recorded: idempotent per entry",
	"datarecording.sqliteWriter.flushLocked":          "recorder internals: per-table batches written inside one transaction; observer side, not simulation state",
	"datarecording.sqliteWriter.buildIndexes":         "recorder internals: index creation order does not affect contents",
	"datarecording.sqliteWriter.ListTables":           "returns table names; callers treat the result as a set",
	"datarecording.sqliteReader.ListTables":           "reader side, not simulation",
	"internal/codec.Registry.Tags":                    "audit helper; result is sorted by its caller",
	"tracing/tracingtest.LeakRecorder.OpenTasks":      "test helper",
	"sourcefs.OpenTraceSource":                        "collects the root names; NewSource copies and sorts them (sort.Strings) before they are used",
}

// nondetCall reports calls that introduce run-to-run variation.
func nondetCall(f *types.Func) string {
	if f == nil || f.Pkg() == nil {
		return ""
	}
	switch f.Pkg().Path() {
	case "time":
		switch f.Name() {
		case "Now", "Since", "Until", "After", "Tick", "NewTimer", "NewTicker", "Sleep":
			return "wall clock (time." + f.Name() + ")"
		}
	case "math/rand", "math/rand/v2", "crypto/rand":
		return "random source (" + f.Pkg().Path() + "." + f.Name() + ")"
	case "os":
		switch f.Name() {
		case "Getenv", "LookupEnv", "Getpid", "Hostname":
			return "process environment (os." + f.Name() + ")"
		}
	case "github.com/rs/xid":
		return "unique id from host/time (xid)"
	case "runtime":
		if f.Name() == "NumGoroutine" || f.Name() == "GOMAXPROCS" || f.Name() == "NumCPU" {
			return "runtime configuration (runtime." + f.Name() + ")"
		}
	}
	return ""
}

// NondetSite is a construct in fn that may differ between runs.
type NondetSite struct {
	Fn   *ssa.Function
	Pos  token.Pos
	What string
}

// nondetIn lists goroutine starts, selects and nondeterministic calls in fn.
func nondetIn(fn *ssa.Function) []NondetSite {
	var out []NondetSite
	for _, b := range fn.Blocks {
		for _, in := range b.Instrs {
			switch x := in.(type) {
			case *ssa.Go:
				out = append(out, NondetSite{fn, x.Pos(), "starts a goroutine"})
			case *ssa.Select:
				if len(x.States) > 1 || !x.Blocking {
					out = append(out, NondetSite{fn, x.Pos(), "select over several channels"})
				}
			case ssa.CallInstruction:
				f, _ := calleeOf(x)
				if w := nondetCall(f); w != "" {
					out = append(out, NondetSite{fn, x.Pos(), w})
				}
			}
			if mi, ok := in.(*ssa.MakeInterface); ok {
				_ = mi
			}
		}
	}
	return out
}

func fileOfFunc(p *Program, fn *ssa.Function) string { return p.DeclFile(fn) }

var _ = strings.Contains

// comparatorNotTotal: for a sort with a custom ordering function, the ordering
// must compare the collected elements themselves (x[i], x[i].field). An ordering
// that first passes the elements through a function (path.Dir, strings.ToLower,
// a hash) treats distinct elements that the function maps to one value as equal,
// and equal elements keep the order they arrived in — the map's.
func comparatorNotTotal(call *ast.CallExpr) string {
	if len(call.Args) < 2 {
		return "" // sort.Strings, sort.Ints, slices.Sort: natural total order
	}
	fl, ok := ast.Unparen(call.Args[len(call.Args)-1]).(*ast.FuncLit)
	if !ok {
		return ""
	}
	why := ""
	ast.Inspect(fl.Body, func(n ast.Node) bool {
		ce, isCall := n.(*ast.CallExpr)
		if !isCall {
			return true
		}
		name := types.ExprString(ce.Fun)
		switch name {
		case "cmp.Compare", "strings.Compare", "cmp.Less", "bytes.Compare":
			return true // comparison helpers over their arguments
		}
		// any other call whose argument mentions an element of the slice being sorted
		for _, a := range ce.Args {
			found := false
			ast.Inspect(a, func(m ast.Node) bool {
				if _, isIdx := m.(*ast.IndexExpr); isIdx {
					found = true
				}
				if id, isID := m.(*ast.Ident); isID && fl.Type.Params != nil {
					for _, fld := range fl.Type.Params.List {
						for _, pn := range fld.Names {
							if pn.Name == id.Name && !isIntTypeExpr(fld.Type) {
								found = true
							}
						}
					}
				}
				return true
			})
			if found {
				why = "compares " + name + "(…) of the entries rather than the entries themselves: entries that " + name + " maps to the same value compare equal and keep map order"
			}
		}
		return true
	})
	return why
}

func isIntTypeExpr(e ast.Expr) bool {
	id, ok := e.(*ast.Ident)
	return ok && id.Name == "int"
}
