package main

import (
	"go/ast"
	"go/types"
	"strings"

	"golang.org/x/tools/go/ssa"
)

func init() {
	register("C14", PropertyMeta{
		Technique: "decision-table extraction over (len, cap) orderings for every Buffer method + escape audit of the backing slice",
		Explanation: "Decides on queueing/buffer.go: CanPush is len<cap; PushTyped panics without storing iff len>=cap and otherwise appends its argument at the back; Pop/Peek return the zero value on an empty buffer and element 0 otherwise, Pop re-slicing from 1 after reading the head; " +
			"UpdateFront is a no-op when empty and stores at index 0 otherwise; Restore rejects more elements than the capacity and copies its input; Clear empties; Size/Capacity read len/cap; no method hands out the backing slice itself nor any slice sharing its storage (a re-slice, or an append onto a slice of it with non-zero capacity — value-level over SSA). (unmarshal-capacity) Buffer.UnmarshalJSON compares the decoded element count with the decoded capacity.",
		NotDecided:  "JSON round-trip symmetry (decided under C08); the property as a trace equivalence with a reference FIFO.",
		Assumptions: []string{"Go slice semantics for append and re-slicing"},
	}, runC14)
	register("C11", PropertyMeta{
		Technique: "decision-table extraction with buffer-size regions (small-model closure cap in {1,2,3}) for the four port operations",
		Explanation: "Decides on messaging/port.go: Send/Deliver push only when CanPush holds (else panic, nothing pushed) and push the message they were given into the outgoing/incoming buffer respectively; " +
			"Send notifies the connection in every region where the outgoing buffer was empty before the push; Deliver notifies the owner where the incoming buffer was empty (and an owner exists); " +
			"RetrieveIncoming notifies the connection in every region where the incoming buffer was full before the pop, RetrieveOutgoing the owner where the outgoing buffer was full; an empty retrieve returns nil without notifying; " +
			"CanSend/CanDeliver/Peek*/Num* read the buffer they name; the two buffers are touched only through queueing.Buffer methods.",
		NotDecided:  "FIFO order of the buffers themselves (C14); what connections and owners do with the notifications (C09, C10).",
		Assumptions: []string{"buffer capacity >= 1 (a zero-capacity port can never hold a message)", "Size() after a successful Pop equals Size() before minus one (C14)"},
	}, runC11)
}

func runC14(c *Ctx) {
	unmarshalCapacityRule(c, "unmarshal-capacity")
	p := c.P
	dom := []int{0, 1, 2}
	elF := c.field("anchors", "queueing", "Buffer", "elements")
	capF := c.field("anchors", "queueing", "Buffer", "cap")
	if elF == nil || capF == nil {
		return
	}
	isLen := func(a *Atom) bool { return a.Has(elF) && a.HasLenOf() }
	roles := []Role{{Name: "len", Match: isLen}, {Name: "cap", Match: func(a *Atom) bool { return a.Has(capF) }}}
	storesToElems := func(r *Row) []*Effect { return r.Stores(func(e *Effect) bool { return e.RecvHas(elF) }) }
	feasible := func(v RoleVals) bool { return true }
	param := func(f *types.Func, i int) types.Object {
		return f.Type().(*types.Signature).Params().At(i)
	}

	if f := c.fn("buffer-table", "queueing", "Buffer", "CanPush"); f != nil {
		t := ExtractTable(p, f, TableConfig{Domain: dom, Inline: portHelper(p)})
		CheckTable(c, "buffer-table", "queueing.Buffer.CanPush", p.Decl(f).Pos(), t, roles, dom, feasible, func(v RoleVals, r *Row) (bool, string) {
			if r.Out.Kind != "return" || len(r.Out.Vals) != 1 || r.Out.Vals[0].Kind != vBool || r.Out.Vals[0].B != (v["len"] < v["cap"]) {
				return false, "CanPush must be exactly len < cap"
			}
			return true, ""
		})
	}
	if f := c.fn("buffer-table", "queueing", "Buffer", "PushTyped"); f != nil {
		t := ExtractTable(p, f, TableConfig{Domain: dom, Inline: portHelper(p)})
		e0 := param(f, 0)
		CheckTable(c, "buffer-table", "queueing.Buffer.PushTyped", p.Decl(f).Pos(), t, roles, dom, feasible, func(v RoleVals, r *Row) (bool, string) {
			st := storesToElems(r)
			if v["len"] >= v["cap"] {
				if r.Out.Kind != "panic" || len(st) != 0 {
					return false, "a push beyond capacity must be refused (panic) without modifying the buffer"
				}
				return true, ""
			}
			if r.Out.Kind != "return" || len(st) != 1 {
				return false, "a push within capacity must store exactly once"
			}
			call := appendCall(st[0].Node)
			if call == nil || len(call.Args) != 2 || !exprIsField(p, f, call.Args[0], elF) || !exprIsObj(p, f, call.Args[1], e0) || call.Ellipsis.IsValid() {
				return false, "the element must be appended at the back: elements = append(elements, e)"
			}
			return true, ""
		})
	}
	for _, name := range []string{"Pop", "Peek"} {
		f := c.fn("buffer-table", "queueing", "Buffer", name)
		if f == nil {
			continue
		}
		t := ExtractTable(p, f, TableConfig{Domain: dom, Inline: portHelper(p)})
		CheckTable(c, "buffer-table", "queueing.Buffer."+name, p.Decl(f).Pos(), t, roles[:1], dom, nil, func(v RoleVals, r *Row) (bool, string) {
			st := storesToElems(r)
			if r.Out.Kind != "return" || len(r.Out.Vals) != 1 {
				return false, "must return one value"
			}
			ret := r.Out.Vals[0]
			if v["len"] == 0 {
				if len(st) != 0 || !strings.HasPrefix(ret.Str, "zero(") {
					return false, "on an empty buffer the zero value must be returned and nothing modified"
				}
				return true, ""
			}
			if !ret.HasObj(elF) || !strings.HasSuffix(ret.Str, "elements[0]") {
				return false, "the oldest element (index 0) must be returned"
			}
			if name == "Peek" {
				if len(st) != 0 {
					return false, "Peek must not modify the buffer"
				}
				return true, ""
			}
			if len(st) != 1 || strings.ReplaceAll(st[0].Args[0], " ", "") != strings.ReplaceAll(st[0].RecvS, " ", "")+"[1:]" {
				return false, "Pop must drop exactly the head: elements = elements[1:]"
			}
			if ret.Gen >= st[0].Gen {
				return false, "the head must be read before the buffer is re-sliced"
			}
			return true, ""
		})
	}
	if f := c.fn("buffer-table", "queueing", "Buffer", "UpdateFront"); f != nil {
		t := ExtractTable(p, f, TableConfig{Domain: dom, Inline: portHelper(p)})
		e0 := param(f, 0)
		CheckTable(c, "buffer-table", "queueing.Buffer.UpdateFront", p.Decl(f).Pos(), t, roles[:1], dom, nil, func(v RoleVals, r *Row) (bool, string) {
			st := storesToElems(r)
			if v["len"] == 0 {
				if len(st) != 0 || r.Out.Kind != "return" {
					return false, "UpdateFront on an empty buffer must be a no-op"
				}
				return true, ""
			}
			if len(st) != 1 || !strings.HasSuffix(st[0].RecvS, "elements[0]") || len(st[0].ArgV) != 1 || st[0].ArgV[0] == nil || !st[0].ArgV[0].HasObj(e0) {
				return false, "UpdateFront must replace exactly the element at index 0 with its argument"
			}
			return true, ""
		})
	}
	if f := c.fn("buffer-table", "queueing", "Buffer", "Restore"); f != nil {
		t := ExtractTable(p, f, TableConfig{Domain: dom, Inline: portHelper(p)})
		e0 := param(f, 0)
		rr := []Role{{Name: "n", Match: func(a *Atom) bool { return a.Has(e0) && a.HasLenOf() }}, roles[1]}
		CheckTable(c, "buffer-table", "queueing.Buffer.Restore", p.Decl(f).Pos(), t, rr, dom, nil, func(v RoleVals, r *Row) (bool, string) {
			st := storesToElems(r)
			if v["n"] > v["cap"] {
				if r.Out.Kind != "panic" || len(st) != 0 {
					return false, "more elements than the capacity must be rejected"
				}
				return true, ""
			}
			if r.Out.Kind != "return" || len(st) != 1 {
				return false, "a restore within capacity must replace the contents"
			}
			call := appendCall(st[0].Node)
			if call == nil || len(call.Args) != 2 || !exprIsObj(p, f, call.Args[1], e0) || !call.Ellipsis.IsValid() || exprIsField(p, f, call.Args[0], elF) {
				if id, ok := ast.Unparen(st[0].Node.(*ast.AssignStmt).Rhs[0]).(*ast.Ident); ok && p.PkgOfDecl(p.Decl(f)).TypesInfo.ObjectOf(id) == e0 {
					return false, "Restore must copy its input: storing the caller's slice aliases the buffer with it"
				}
				return false, "Restore must set the contents to a copy of exactly the given elements"
			}
			return true, ""
		})
	}
	if f := c.fn("buffer-table", "queueing", "Buffer", "Clear"); f != nil {
		t := ExtractTable(p, f, TableConfig{Domain: dom, Inline: portHelper(p)})
		ok := len(t.Rows) > 0 && len(t.Unsupported) == 0
		for _, r := range t.Rows {
			st := storesToElems(r)
			if len(st) != 1 || (st[0].Args[0] != "nil" && !strings.HasSuffix(st[0].Args[0], "[:0]")) {
				ok = false
			}
		}
		c.Check(ok, "buffer-table", "queueing.Buffer.Clear", p.Decl(f).Pos(), "Clear empties the buffer", "Clear must remove every element")
	}
	for _, pair := range [][2]string{{"Size", "len"}, {"Capacity", "cap"}} {
		f := c.fn("buffer-table", "queueing", "Buffer", pair[0])
		if f == nil {
			continue
		}
		t := ExtractTable(p, f, TableConfig{Domain: dom, Inline: portHelper(p)})
		ok := len(t.Rows) > 0 && len(t.Unsupported) == 0
		for _, r := range t.Rows {
			if r.Out.Kind != "return" || len(r.Out.Vals) != 1 {
				ok = false
				continue
			}
			v := r.Out.Vals[0]
			if pair[1] == "len" && !(v.HasObj(elF) && strings.HasPrefix(v.String(), "len(")) {
				ok = false
			}
			if pair[1] == "cap" && !(v.HasObj(capF) && !strings.Contains(v.String(), " ")) {
				ok = false
			}
		}
		c.Check(ok, "buffer-table", "queueing.Buffer."+pair[0], p.Decl(f).Pos(), pair[0]+" reads "+pair[1], pair[0]+" must report the buffer's "+pair[1])
	}
	c.Floor("buffer-table", 9)

	// escape audit: no method returns or publishes the backing slice itself
	tn := p.LookupType("queueing", "Buffer")
	if tn != nil {
		named := tn.Type().(*types.Named)
		n := 0
		for i := 0; i < named.NumMethods(); i++ {
			m := named.Method(i)
			fd := p.Decl(m)
			if fd == nil || fd.Body == nil {
				continue
			}
			n++
			info := p.PkgOfDecl(fd).TypesInfo
			bad := ""
			ast.Inspect(fd.Body, func(nd ast.Node) bool {
				rs, ok := nd.(*ast.ReturnStmt)
				if !ok {
					return true
				}
				for _, res := range rs.Results {
					e := ast.Unparen(res)
					if sl, isSl := e.(*ast.SliceExpr); isSl {
						e = ast.Unparen(sl.X)
					}
					if se, isSel := e.(*ast.SelectorExpr); isSel {
						if s, has := info.Selections[se]; has && s.Obj() == elF {
							bad = "returns the backing slice; callers could modify the buffer behind its back"
						}
					}
				}
				return true
			})
			// value level: no returned slice shares the backing array (a slice of it,
			// or an append onto a non-empty-capacity slice of it)
			if fn := p.SSAFunc(m); fn != nil && bad == "" {
				for _, b := range fn.Blocks {
					if ret, isRet := b.Instrs[len(b.Instrs)-1].(*ssa.Return); isRet {
						for _, rv := range ret.Results {
							if _, isSl := rv.Type().Underlying().(*types.Slice); isSl && sharesBacking(rv, elF, map[ssa.Value]bool{}) {
								bad = "returns a slice that shares the buffer's backing array (a slice of, or an append onto, the element storage): writes through the result, or later in-place updates of the buffer, show through"
							}
						}
					}
				}
			}
			c.Check(bad == "", "buffer-escape", "queueing.Buffer."+m.Name(), fd.Pos(), "does not hand out the backing slice", bad)
		}
		_ = n
	}
	c.Floor("buffer-escape", 10)
	// writes to elements/cap only inside buffer.go / buffer_json.go
	fns := p.SrcFuncs(nil)
	for _, fld := range []*types.Var{elF, capF} {
		for _, w := range FieldWrites(fns, fld) {
			file := p.DeclFile(w.Fn)
			c.Check(file == "queueing/buffer.go" || file == "queueing/buffer_json.go", "buffer-ownership", "queueing.Buffer."+fld.Name()+"@"+SSAFuncKey(w.Fn), w.Pos,
				"written inside the buffer implementation", "the buffer's storage is modified outside queueing/buffer.go ("+w.Kind+")")
		}
	}
	c.Floor("buffer-ownership", 5)
	// JSON round trip: name, capacity and contents carried both ways; decode target fresh
	marshalerSymmetryRule(c, "json-symmetry", func(m marshalerSpec) bool { return m.typ == "Buffer" })
	c.Floor("json-symmetry", 1)
}

// HasLenOf reports whether the atom is a len(...) of its path.
func (a *Atom) HasLenOf() bool { return strings.HasPrefix(a.Key, "len(") }

func appendCall(n ast.Node) *ast.CallExpr {
	as, ok := n.(*ast.AssignStmt)
	if !ok || len(as.Rhs) != 1 {
		return nil
	}
	call, ok := ast.Unparen(as.Rhs[0]).(*ast.CallExpr)
	if !ok {
		return nil
	}
	if id, ok := call.Fun.(*ast.Ident); !ok || id.Name != "append" {
		return nil
	}
	return call
}

func exprIsField(p *Program, f *types.Func, e ast.Expr, fld *types.Var) bool {
	info := p.PkgOfDecl(p.Decl(f)).TypesInfo
	se, ok := ast.Unparen(e).(*ast.SelectorExpr)
	if !ok {
		return false
	}
	s, has := info.Selections[se]
	return has && sameObj(s.Obj(), fld)
}

func exprIsObj(p *Program, f *types.Func, e ast.Expr, obj types.Object) bool {
	info := p.PkgOfDecl(p.Decl(f)).TypesInfo
	id, ok := ast.Unparen(e).(*ast.Ident)
	if !ok {
		return false
	}
	o := info.ObjectOf(id)
	if o == obj {
		return true
	}
	// generic methods: parameter objects of the declaration vs of the signature
	return o != nil && obj != nil && o.Name() == obj.Name() && o.Pos() == obj.Pos()
}

func runC11(c *Ctx) {
	p := c.P
	dom := []int{0, 1, 2, 3}
	inF := c.field("anchors", "messaging", "defaultPort", "incomingBuf")
	outF := c.field("anchors", "messaging", "defaultPort", "outgoingBuf")
	compF := c.field("anchors", "messaging", "defaultPort", "comp")
	connF := c.field("anchors", "messaging", "defaultPort", "conn")
	if inF == nil || outF == nil || compF == nil || connF == nil {
		return
	}
	type op struct {
		name       string
		buf, other *types.Var
		notify     string
		target     *types.Var
	}
	callsOn := func(r *Row, name string, through types.Object) []*Effect {
		return r.Calls(func(e *Effect) bool {
			return e.Kind == "call" && e.Callee != nil && e.Callee.Name() == name && e.RecvHas(through)
		})
	}
	// push side
	for _, o := range []op{{"Send", outF, inF, "NotifySend", connF}, {"Deliver", inF, outF, "NotifyRecv", compF}} {
		f := c.fn("port-push-table", "messaging", "defaultPort", o.name)
		if f == nil {
			continue
		}
		msg := f.Type().(*types.Signature).Params().At(0)
		t := ExtractTable(p, f, TableConfig{Domain: dom, Inline: portHelper(p)})
		roles := []Role{
			{Name: "can", IsBool: true, Match: func(a *Atom) bool { return a.HasName("CanPush") && a.Has(o.buf) }},
			{Name: "size", Match: func(a *Atom) bool {
				return (a.HasName("Size") || a.HasName("NumIncoming") || a.HasName("NumOutgoing")) && a.Has(o.buf)
			}},
			{Name: "nocomp", IsBool: true, Match: func(a *Atom) bool { return strings.Contains(a.Key, "nil ==") && a.Has(compF) }},
		}
		CheckTable(c, "port-push-table", "messaging.defaultPort."+o.name, p.Decl(f).Pos(), t, roles, dom,
			func(v RoleVals) bool { return true },
			func(v RoleVals, r *Row) (bool, string) {
				push := callsOn(r, "PushTyped", o.buf)
				wrong := callsOn(r, "PushTyped", o.other)
				if len(wrong) != 0 {
					return false, o.name + " must not touch the other buffer"
				}
				if !v.B("can") {
					if r.Out.Kind != "panic" || len(push) != 0 {
						return false, "a push into a full buffer must be refused (panic) and nothing pushed: the buffer must never exceed its capacity"
					}
					return true, ""
				}
				if r.Out.Kind != "return" || len(push) != 1 || len(push[0].Args) != 1 || push[0].Args[0] != msg.Name() {
					return false, "the given message must be pushed exactly once"
				}
				note := callsOn(r, o.notify, o.target)
				need := v["size"] == 0
				if o.name == "Deliver" && v.B("nocomp") {
					need = false
					if len(note) != 0 {
						return false, "no owner to notify"
					}
				}
				if need && len(note) == 0 {
					return false, "when the buffer was empty before the push the " + map[string]string{"Send": "connection", "Deliver": "owner"}[o.name] + " must be notified (" + o.notify + "); otherwise a wake-up is lost"
				}
				for _, n := range note {
					if n.Gen < push[0].Gen {
						return false, "the notification must come after the message is in the buffer"
					}
				}
				return true, ""
			})
	}
	// pop side
	for _, o := range []op{{"RetrieveIncoming", inF, outF, "NotifyAvailable", connF}, {"RetrieveOutgoing", outF, inF, "NotifyPortFree", compF}} {
		f := c.fn("port-pop-table", "messaging", "defaultPort", o.name)
		if f == nil {
			continue
		}
		t := ExtractTable(p, f, TableConfig{Domain: dom, Inline: portHelper(p)})
		roles := []Role{
			{Name: "empty", IsBool: true, Match: func(a *Atom) bool { return strings.Contains(a.Key, "nil ==") && a.HasName("Pop") && a.Has(o.buf) }},
			{Name: "after", Match: func(a *Atom) bool { return a.HasName("Size") && a.Has(o.buf) }},
			{Name: "cap", Match: func(a *Atom) bool { return a.HasName("Capacity") && a.Has(o.buf) }},
		}
		CheckTable(c, "port-pop-table", "messaging.defaultPort."+o.name, p.Decl(f).Pos(), t, roles, dom,
			func(v RoleVals) bool { return v["cap"] >= 1 && v["after"] >= 0 && v["after"] <= v["cap"] },
			func(v RoleVals, r *Row) (bool, string) {
				pop := callsOn(r, "Pop", o.buf)
				if len(callsOn(r, "Pop", o.other)) != 0 {
					return false, o.name + " must not touch the other buffer"
				}
				note := callsOn(r, o.notify, o.target)
				if len(pop) != 1 {
					return false, "exactly one message must be taken from the buffer"
				}
				if r.Out.Kind != "return" || len(r.Out.Vals) != 1 {
					return false, "must return the message"
				}
				if v.B("empty") {
					if len(note) != 0 || r.Out.Vals[0].Str != "nil" {
						return false, "an empty retrieve must return nil without notifying"
					}
					return true, ""
				}
				if !strings.Contains(r.Out.Vals[0].Str, "Pop()") || !r.Out.Vals[0].HasObj(o.buf) {
					return false, "the popped message must be returned"
				}
				// the buffer was full before the pop iff size_after == cap-1, or — when the
				// code samples the size before popping — iff size_before == cap
				sizeAtom := r.Atom(func(a *Atom) bool { return !a.IsBool && a.HasName("Size") && a.Has(o.buf) })
				popAtom := r.Atom(func(a *Atom) bool {
					return a.IsBool && strings.Contains(a.Key, "nil ==") && a.HasName("Pop") && a.Has(o.buf)
				})
				sampledBefore := sizeAtom != nil && popAtom != nil && sizeAtom.Gen < popAtom.Gen
				wasFull := v["after"] == v["cap"]-1
				if sampledBefore {
					if v["after"] == 0 {
						return true, "" // infeasible: a message was popped from a buffer of size 0
					}
					wasFull = v["after"] == v["cap"]
				} else if v["after"] > v["cap"]-1 {
					return true, "" // infeasible: still full after a pop
				}
				if !wasFull && len(note) != 0 && sizeAtom != nil {
					return false, "a " + o.notify + " notification is sent although the buffer was not full before the pop (a spurious wake-up at the wrong fill level)"
				}
				if wasFull && len(note) == 0 {
					return false, "when the buffer was full before the pop the " + map[string]string{"RetrieveIncoming": "connection", "RetrieveOutgoing": "owner"}[o.name] + " must be notified (" + o.notify + "); otherwise the sender stalls forever"
				}
				for _, n := range note {
					if n.Gen < pop[0].Gen {
						return false, "the notification must come after the slot is free"
					}
				}
				return true, ""
			})
	}
	// readers name the right buffer
	for _, rd := range []struct {
		name, method string
		buf          *types.Var
	}{{"CanSend", "CanPush", outF}, {"CanDeliver", "CanPush", inF}, {"PeekIncoming", "Peek", inF}, {"PeekOutgoing", "Peek", outF}, {"NumIncoming", "Size", inF}, {"NumOutgoing", "Size", outF}} {
		f := c.fn("port-readers", "messaging", "defaultPort", rd.name)
		if f == nil {
			continue
		}
		t := ExtractTable(p, f, TableConfig{Domain: dom, Inline: portHelper(p)})
		ok := len(t.Rows) > 0 && len(t.Unsupported) == 0
		for _, r := range t.Rows {
			if r.Out.Kind != "return" || len(r.Out.Vals) != 1 {
				ok = false
				continue
			}
			v := r.Out.Vals[0]
			// boolean results are forced; find the consulted atom instead
			if v.Kind == vBool && v.Const {
				a := r.Atom(func(a *Atom) bool { return a.HasName(rd.method) && a.Has(rd.buf) })
				if a == nil || a.B != v.B {
					ok = false
				}
				continue
			}
			if !(v.HasName(rd.method) && v.HasObj(rd.buf)) {
				ok = false
			}
		}
		other := "incoming"
		if rd.buf == inF {
			other = "outgoing"
		}
		c.Check(ok, "port-readers", "messaging.defaultPort."+rd.name, p.Decl(f).Pos(), rd.name+" reads "+rd.method+" of its own buffer",
			rd.name+" must report "+rd.method+"() of its own buffer, not the "+other+" one or anything else")
	}
	c.Floor("port-readers", 6)
	c.Floor("port-push-table", 2)
	c.Floor("port-pop-table", 2)

	// the buffers are only touched through queueing.Buffer methods (no direct field writes)
	fns := p.SrcFuncs(nil)
	n := 0
	for _, fld := range []*types.Var{inF, outF} {
		for _, w := range FieldWrites(fns, fld) {
			k := SSAFuncKey(w.Fn)
			okSite := w.Kind == "addr-escape" || k == "messaging.NewPort"
			n++
			c.Check(okSite, "port-buffer-access", "messaging.defaultPort."+fld.Name()+"@"+k, w.Pos, "accessed through Buffer methods",
				"the port buffer is overwritten directly ("+w.Kind+") instead of through queueing.Buffer methods")
		}
	}
	c.Floor("port-buffer-access", 10)
}

// portHelper inlines the port's own unexported helper methods (a condition moved
// into a helper must be read through).
func portHelper(p *Program) func(*types.Func) bool {
	return func(g *types.Func) bool {
		if g.Pkg() == nil || g.Pkg().Path() != pkgPath("messaging") || ast.IsExported(g.Name()) {
			return false
		}
		sig, _ := g.Type().(*types.Signature)
		if sig == nil || sig.Recv() == nil || !strings.Contains(sig.Recv().Type().String(), "defaultPort") {
			return false
		}
		return p.Decl(g) != nil
	}
}

// sharesBacking: v may be a slice over the storage of field fld: a load of the
// field, a slice of such a value (except a zero-capacity one), an append whose
// first operand shares (append writes in place while capacity lasts), or a phi of
// such values.
func sharesBacking(v ssa.Value, fld types.Object, seen map[ssa.Value]bool) bool {
	if v == nil || seen[v] {
		return false
	}
	seen[v] = true
	switch x := v.(type) {
	case *ssa.UnOp:
		if f := FieldOf(x.X); f != nil && sameObj(f, fld) {
			return true
		}
	case *ssa.Slice:
		if x.Max != nil && constIs(x.Max, "0") {
			return false
		}
		return sharesBacking(x.X, fld, seen)
	case *ssa.Phi:
		for _, e := range x.Edges {
			if sharesBacking(e, fld, seen) {
				return true
			}
		}
	case *ssa.Call:
		if bi, isB := x.Common().Value.(*ssa.Builtin); isB && bi.Name() == "append" && len(x.Common().Args) > 0 {
			return sharesBacking(x.Common().Args[0], fld, seen)
		}
	case *ssa.ChangeType:
		return sharesBacking(x.X, fld, seen)
	}
	return false
}
