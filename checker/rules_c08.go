package main

import (
	"go/ast"
	"go/token"
	"go/types"
	"sort"
	"strings"

	"golang.org/x/tools/go/packages"
	"golang.org/x/tools/go/ssa"
	"golang.org/x/tools/go/types/typeutil"
)

func init() {
	register("C08", PropertyMeta{
		Technique: "type-level JSON losslessness walker over the enumerated checkpointed types + dependence-slice field symmetry of the custom marshalers + codec tag/decode audit",
		Explanation: "Decides: (1) the set of checkpointed types is enumerated from the source — every message type listed in a DefineProtocol/RegisterMsg call, every RegisterEvent argument, and every Spec/State type argument of modeling.Component / EventDrivenComponent in library code — and each is walked field by field with encoding/json's rules (unexported fields, json:\"-\", omitempty on slices/maps, interface-typed values, non-string/integer map keys, channels/functions/complex, duplicate JSON names, one-sided custom marshalers); " +
			"(2) every concrete library type implementing messaging.Msg or timing.Event is registered with the codec; (3) the three custom marshalers (Buffer, Pipeline, lruset.Set) carry every field of their type into the JSON record and back into the same field; " +
			"(4) the codec derives the type tag with one function on the register and encode paths, decodes each element into a fresh value, and JSON decoding on load paths never targets live state. (register-collision) the codec's Register looks at an existing binding of a wire tag before binding it.",
		NotDecided:  "equality for values the type system cannot see: NaN fails loudly; invalid UTF-8 in strings is rewritten by encoding/json; pointer aliasing inside one value is not preserved.",
		Assumptions: []string{"encoding/json's documented field-promotion and tag rules", "integers and floats round-trip exactly through encoding/json (strconv shortest representation)"},
	}, runC08)
	register("C43", PropertyMeta{
		Technique: "table extraction of the validator's accepted kinds against the lossless set + per-field rejection obligations + the lossless walker over every Spec/State type instantiated in the library",
		Explanation: "Decides on modeling/validate.go: the kinds validateFieldType accepts outright are a subset of the lossless scalar kinds, containers recurse into their element (and map keys are restricted to strings/integers), pointers/interfaces/channels/functions are rejected; a type with MarshalJSON but no UnmarshalJSON is rejected; " +
			"(field-descent) the field loop leaves a field unvalidated only on its json:\"-\" tag; per-field obligations: an unexported field of a struct without custom JSON, and a field tagged json:\"-\", must lead to rejection (both are reported today as known findings); every Spec/State type actually instantiated in the library is lossless by the walker of C08. (fresh-decode-target) State is decoded into a fresh value on load, so the accepted types round-trip regardless of what the destination component held.",
		NotDecided:  "values (NaN, invalid UTF-8); types defined by users outside the repository.",
		Assumptions: []string{"reflect.Kind constants as named in the source"},
	}, runC43)
}

// registeredTypes enumerates the message and event types registered with the
// codecs in library code.
func (p *Program) registeredTypes() (msgs, events map[string]types.Type, sites int) {
	msgs, events = map[string]types.Type{}, map[string]types.Type{}
	for _, pk := range p.All {
		if clientPkg(pk.PkgPath) {
			continue
		}
		for _, file := range pk.Syntax {
			ast.Inspect(file, func(n ast.Node) bool {
				call, ok := n.(*ast.CallExpr)
				if !ok {
					return true
				}
				f, _ := typeutil.Callee(pk.TypesInfo, call).(*types.Func)
				if f == nil || f.Pkg() == nil {
					return true
				}
				switch {
				case f.Pkg().Path() == ModPath+"/messaging" && f.Name() == "DefineProtocol":
					sites++
					for _, a := range call.Args[1:] {
						ast.Inspect(a, func(m ast.Node) bool {
							kv, isKV := m.(*ast.KeyValueExpr)
							if !isKV {
								return true
							}
							if k, isID := kv.Key.(*ast.Ident); !isID || k.Name != "Sends" {
								return true
							}
							if cl, isCL := kv.Value.(*ast.CompositeLit); isCL {
								for _, el := range cl.Elts {
									if tv, has := pk.TypesInfo.Types[el]; has {
										msgs[typeShort(tv.Type)] = tv.Type
									}
								}
							}
							return false
						})
					}
				case f.Pkg().Path() == ModPath+"/messaging" && f.Name() == "RegisterMsg":
					sites++
					if tv, has := pk.TypesInfo.Types[call.Args[0]]; has {
						msgs[typeShort(tv.Type)] = tv.Type
					}
				case f.Pkg().Path() == ModPath+"/timing" && f.Name() == "RegisterEvent" && len(call.Args) == 1:
					sites++
					if tv, has := pk.TypesInfo.Types[call.Args[0]]; has {
						if _, isIface := tv.Type.Underlying().(*types.Interface); !isIface {
							events[typeShort(tv.Type)] = tv.Type
						}
					}
				}
				return true
			})
		}
	}
	return
}

// componentTypeArgs enumerates the Spec and State type arguments of the generic
// component types instantiated in library code.
func (p *Program) componentTypeArgs() (specs, states map[string]types.Type) {
	specs, states = map[string]types.Type{}, map[string]types.Type{}
	for _, pk := range p.All {
		if clientPkg(pk.PkgPath) || strings.HasSuffix(pk.PkgPath, "/modeling") {
			continue
		}
		for _, inst := range pk.TypesInfo.Instances {
			n, ok := inst.Type.(*types.Named)
			if !ok || n.Obj().Pkg() == nil || n.Obj().Pkg().Path() != ModPath+"/modeling" {
				continue
			}
			if n.Obj().Name() != "Component" && n.Obj().Name() != "EventDrivenComponent" {
				continue
			}
			if inst.TypeArgs.Len() >= 2 {
				if _, isTP := inst.TypeArgs.At(0).(*types.TypeParam); !isTP {
					specs[typeShort(inst.TypeArgs.At(0))] = inst.TypeArgs.At(0)
				}
				if _, isTP := inst.TypeArgs.At(1).(*types.TypeParam); !isTP {
					states[typeShort(inst.TypeArgs.At(1))] = inst.TypeArgs.At(1)
				}
			}
		}
	}
	return
}

func losslessRule(c *Ctx, rule string, kind string, ts map[string]types.Type) {
	var keys []string
	for k := range ts {
		keys = append(keys, k)
	}
	sort.Strings(keys)
	for _, k := range keys {
		probs, nt, nf := CheckLossless(ts[k])
		if len(probs) == 0 {
			c.Ok(rule, kind+" "+k, token.NoPos, "lossless through encoding/json ("+itoa(nt)+" named types, "+itoa(nf)+" fields walked)")
			continue
		}
		// one obligation per declaring field, however many roots reach it, so that
		// a known finding names exactly one field of one type
		for _, pr := range probs {
			if c.seen[c.Prop+"/"+rule+"/"+pr.Site] > 0 {
				continue
			}
			c.Fail(rule, pr.Site, token.NoPos, pr.What+" (reached as "+pr.Path+")")
		}
	}
}

func itoa(n int) string {
	return strings.TrimSpace(strings.Replace(strings.Repeat(" ", 0)+fmtInt(n), " ", "", -1))
}

func fmtInt(n int) string {
	if n == 0 {
		return "0"
	}
	neg := n < 0
	if neg {
		n = -n
	}
	var b []byte
	for n > 0 {
		b = append([]byte{byte('0' + n%10)}, b...)
		n /= 10
	}
	if neg {
		b = append([]byte{'-'}, b...)
	}
	return string(b)
}

type marshalerSpec struct{ rel, typ string }

var marshalerTypes = []marshalerSpec{{"queueing", "Buffer"}, {"queueing", "Pipeline"}, {"mem/vm/lruset", "Set"}}

func marshalerSymmetryRule(c *Ctx, rule string, only func(marshalerSpec) bool) {
	p := c.P
	for _, m := range marshalerTypes {
		if only != nil && !only(m) {
			continue
		}
		mf := c.fn(rule, m.rel, m.typ, "MarshalJSON")
		uf := c.fn(rule, m.rel, m.typ, "UnmarshalJSON")
		if mf == nil || uf == nil {
			continue
		}
		tn := p.LookupType(m.rel, m.typ)
		st, _ := tn.Type().Underlying().(*types.Struct)
		var required []*types.Var
		for i := 0; st != nil && i < st.NumFields(); i++ {
			f := st.Field(i)
			if _, _, dash := jsonTag(st.Tag(i)); dash || isObserverOnly(f.Type()) {
				continue
			}
			required = append(required, f.Origin())
		}
		s, l := p.SSAFunc(mf), p.SSAFunc(uf)
		if s == nil || l == nil || len(s.Params) == 0 || len(l.Params) == 0 {
			c.Unknown(rule, m.rel+"."+m.typ, p.Decl(mf).Pos(), "no SSA for the marshaler pair")
			continue
		}
		rep := ckptSymmetry(s, l, s.Params[0], l.Params[0], required)
		_, probs := freshDecodeTargets(l)
		rep.Problems = append(rep.Problems, probs...)
		c.Check(len(rep.Problems) == 0, rule, m.rel+"."+m.typ, p.Decl(uf).Pos(),
			"every field of "+m.typ+" is carried into "+strings.Join(rep.DTOTypes, ",")+" and back into the same field; decode target is fresh", strings.Join(rep.Problems, "; "))
	}
}

func runC08(c *Ctx) {
	registerCollisionRule(c, "register-collision")
	p := c.P
	msgs, events, sites := p.registeredTypes()
	specs, states := p.componentTypeArgs()
	c.Note("registered: %d message types, %d event types from %d registration sites; %d Spec and %d State types instantiated", len(msgs), len(events), sites, len(specs), len(states))
	losslessRule(c, "lossless-type", "message", msgs)
	losslessRule(c, "lossless-type", "event", events)
	losslessRule(c, "lossless-type", "state", states)
	losslessRule(c, "lossless-type", "spec", specs)
	c.Floor("lossless-type", 40)

	// (2) every Msg / Event implementer is registered
	msgIface, evIface := ifaceOf(p, "messaging", "Msg"), ifaceOf(p, "timing", "Event")
	// only types that actually travel: concrete types passed to Port.Send or to
	// an engine's Schedule somewhere in library code
	sent := map[string]bool{}
	libFns := p.SrcFuncs(func(pp string) bool { return !clientPkg(pp) })
	for _, s := range CallSites(libFns, func(f *types.Func) bool {
		return methodOf(f, "messaging", "", "Send") || (f.Name() == "Schedule" && methodOf(f, "timing", "", "Schedule"))
	}) {
		for _, a := range s.Args() {
			if mi, ok := a.(*ssa.MakeInterface); ok {
				t := mi.X.Type()
				if pt, isPtr := t.(*types.Pointer); isPtr {
					t = pt.Elem()
				}
				sent[typeShort(t)] = true
			}
		}
	}
	n := 0
	for _, pk := range p.All {
		if clientPkg(pk.PkgPath) || strings.Contains(pk.PkgPath, "/tracing") {
			continue
		}
		scope := pk.Types.Scope()
		for _, name := range scope.Names() {
			tn, ok := scope.Lookup(name).(*types.TypeName)
			if !ok || tn.IsAlias() || strings.HasPrefix(name, "Mock") {
				continue
			}
			named, ok := tn.Type().(*types.Named)
			if !ok || named.TypeParams().Len() > 0 {
				continue
			}
			if _, isStruct := named.Underlying().(*types.Struct); !isStruct {
				continue
			}
			for _, it := range []struct {
				iface *types.Interface
				set   map[string]types.Type
				kind  string
			}{{msgIface, msgs, "message"}, {evIface, events, "event"}} {
				if it.iface == nil {
					continue
				}
				val, ptr := types.Implements(named, it.iface), types.Implements(types.NewPointer(named), it.iface)
				if !val && !ptr {
					continue
				}
				if !sent[typeShort(named)] {
					continue // never sent through a port nor scheduled (base types, internal records)
				}
				n++
				_, regV := it.set[typeShort(named)]
				_, regP := it.set[typeShort(types.NewPointer(named))]
				c.Check(regV || regP, "registration-audit", it.kind+" "+typeShort(named), tn.Pos(), "registered with the "+it.kind+" codec",
					"a library type implements the "+it.kind+" interface but is never registered with the codec: a checkpoint holding one cannot be loaded (unknown type)")
			}
		}
	}
	c.Floor("registration-audit", 10)

	// (3) custom marshalers
	marshalerSymmetryRule(c, "marshaler-symmetry", nil)
	c.Floor("marshaler-symmetry", 3)

	// (4) codec
	codecRule(c, "codec")
	freshDecodeRule(c, "fresh-decode-target")
}

func ifaceOf(p *Program, rel, name string) *types.Interface {
	tn := p.LookupType(rel, name)
	if tn == nil {
		return nil
	}
	i, _ := tn.Type().Underlying().(*types.Interface)
	return i
}

func codecRule(c *Ctx, rule string) {
	p := c.P
	tagOf := p.LookupFunc("internal/codec", "", "tagOf")
	if tagOf == nil {
		c.Unknown(rule, "internal/codec.tagOf", 0, "anchor not found")
		return
	}
	for _, name := range []string{"Register", "EncodeSlice"} {
		f := c.fn(rule, "internal/codec", "Registry", name)
		if f == nil {
			continue
		}
		n := len(CallSites([]*ssa.Function{p.SSAFunc(f)}, func(g *types.Func) bool { return g == tagOf }))
		c.Check(n >= 1, rule, "internal/codec.Registry."+name+"#tag", p.Decl(f).Pos(), "derives the type tag with tagOf",
			"the register and encode paths must derive the type tag with the same function (tagOf); otherwise a saved tag is unknown at load")
	}
	// decodeOne: looks the type up by the payload's tag, returns an error for an unknown tag
	if f := c.fn(rule, "internal/codec", "Registry", "decodeOne"); f != nil {
		ok, why := shapeCheck(p.SSAFunc(f), func(v ssa.Value) bool {
			lk, isLk := v.(*ssa.Lookup)
			return isLk && lk.CommaOk
		})
		c.Check(ok, rule, "internal/codec.Registry.decodeOne#unknown-type", p.Decl(f).Pos(), "an unknown type tag returns an error", "an unknown type tag must be rejected with an error: "+why)
	}
	// DecodeSlice preserves order and length: out[i] = decodeOne(payloads[i])
	if f := c.fn(rule, "internal/codec", "Registry", "DecodeSlice"); f != nil {
		t := ExtractTable(p, f, TableConfig{LoopsOnce: true})
		ok := len(t.Rows) > 0 && len(t.Unsupported) == 0
		saw := false
		for _, r := range t.Rows {
			for _, e := range r.Stores(func(e *Effect) bool { return strings.HasPrefix(e.RecvS, "out[") || strings.Contains(e.RecvS, ")[") }) {
				saw = true
				if !strings.Contains(e.RecvS, "[key-of(") {
					ok = false
				}
			}
		}
		c.Check(ok && saw, rule, "internal/codec.Registry.DecodeSlice#order", p.Decl(f).Pos(), "element i decodes into slot i", "decoded elements must keep their positions (buffers and queues are ordered)")
	}
}

var _ = packages.NeedName

func runC43(c *Ctx) {
	// acceptance by the validator means "round-trips" only if the load decodes into
	// a fresh value: encoding/json merges into an existing one (map entries and
	// omitted fields survive)
	freshDecodeRule(c, "fresh-decode-target")
	// the "would serialise to {}" verdict is taken from the encoder itself
	if f := c.fn("empty-verdict", "modeling", "", "serializesToEmpty"); f != nil {
		t := ExtractTable(c.P, f, TableConfig{LoopsOnce: true})
		ok, why := len(t.Rows) > 0 && len(t.Unsupported) == 0, "outside the analysable fragment"
		sawTrue := false
		for _, r := range t.Rows {
			if r.Out.Kind != "return" || len(r.Out.Vals) != 1 || r.Out.Vals[0].Kind != vBool {
				continue
			}
			enc := r.Atom(func(a *Atom) bool {
				return a.IsBool && strings.Contains(a.Key, "json.Marshal(") && strings.Contains(a.Key, "\"{}\"")
			})
			if r.Out.Vals[0].B {
				sawTrue = true
				if enc == nil || !enc.B {
					ok, why = false, "a struct is declared to serialise to {} (and is rejected, or — when the verdict is false — accepted) without asking encoding/json what it emits for the type: json tags (json:\"-\" on an exported field) and embedded unexported types make the field list alone an unreliable predictor, so types whose whole state is silently dropped by a checkpoint are admitted"
				}
			} else if enc != nil && enc.B {
				errNil := r.Atom(func(a *Atom) bool {
					return a.IsBool && strings.Contains(a.Key, "json.Marshal(") && strings.Contains(a.Key, "== nil")
				})
				if errNil == nil || errNil.B {
					ok, why = false, "a type that the encoder serialises to {} is not reported as empty"
				}
			}
		}
		if !sawTrue && ok {
			ok, why = false, "no path reports an empty serialisation"
		}
		c.Check(ok, "empty-verdict", "modeling.serializesToEmpty", c.P.Decl(f).Pos(), "true exactly on the paths where json.Marshal of the zero value yields {}", why)
	}

	p := c.P
	f := c.fn("accepted-kinds", "modeling", "", "validateFieldType")
	if f != nil {
		fd := p.Decl(f)
		scalar := map[string]bool{"Bool": true, "Int": true, "Int8": true, "Int16": true, "Int32": true, "Int64": true, "Uint": true, "Uint8": true, "Uint16": true, "Uint32": true, "Uint64": true, "Float32": true, "Float64": true, "String": true}
		mustReject := map[string]bool{"Ptr": true, "Pointer": true, "Interface": true, "Chan": true, "Func": true, "Complex64": true, "Complex128": true, "UnsafePointer": true, "Uintptr": true}
		var sw *ast.SwitchStmt
		ast.Inspect(fd.Body, func(n ast.Node) bool {
			if s, ok := n.(*ast.SwitchStmt); ok && sw == nil {
				sw = s
			}
			return true
		})
		if sw == nil {
			c.Unknown("accepted-kinds", "modeling.validateFieldType", fd.Pos(), "the kind dispatch is not a switch: shape not understood")
		} else {
			seenScalar := 0
			for _, cl := range sw.Body.List {
				cc := cl.(*ast.CaseClause)
				var kinds []string
				for _, e := range cc.List {
					if se, ok := e.(*ast.SelectorExpr); ok {
						kinds = append(kinds, se.Sel.Name)
					}
				}
				outcome := clauseOutcome(cc, f.Name())
				label := strings.Join(kinds, ",")
				if cc.List == nil {
					label = "default"
				}
				switch outcome {
				case "accept":
					bad := ""
					for _, k := range kinds {
						if !scalar[k] {
							bad = k
						} else {
							seenScalar++
						}
					}
					if cc.List == nil {
						bad = "default"
					}
					c.Check(bad == "", "accepted-kinds", "modeling.validateFieldType#case "+label, cc.Pos(), "accepts only lossless scalar kinds",
						"kind "+bad+" is accepted outright although values of that kind do not round-trip through the checkpoint JSON")
				case "recurse", "mixed":
					bad := ""
					for _, k := range kinds {
						if mustReject[k] || scalar[k] && false {
							bad = k
						}
					}
					c.Check(bad == "", "accepted-kinds", "modeling.validateFieldType#case "+label, cc.Pos(), "validates the element/field types recursively",
						"kind "+bad+" must be rejected, not validated recursively")
				case "reject":
					c.Ok("accepted-kinds", "modeling.validateFieldType#case "+label, cc.Pos(), "rejected")
				default:
					c.Unknown("accepted-kinds", "modeling.validateFieldType#case "+label, cc.Pos(), "clause shape not understood")
				}
			}
			// every must-reject kind must land in a rejecting clause (explicitly or by default)
			for k := range mustReject {
				out := "default"
				for _, cl := range sw.Body.List {
					cc := cl.(*ast.CaseClause)
					for _, e := range cc.List {
						if se, ok := e.(*ast.SelectorExpr); ok && se.Sel.Name == k {
							out = clauseOutcome(cc, f.Name())
						}
					}
				}
				if out == "default" {
					for _, cl := range sw.Body.List {
						cc := cl.(*ast.CaseClause)
						if cc.List == nil {
							out = clauseOutcome(cc, f.Name())
						}
					}
					if out == "default" {
						out = "accept" // no default clause: falls out of the switch
					}
				}
				c.Check(out == "reject", "rejected-kinds", "modeling.validateFieldType#"+k, fd.Pos(), k+" is rejected", "kind "+k+" is not rejected by the validator")
			}
			c.Check(seenScalar >= 10, "accepted-kinds", "modeling.validateFieldType#scalars", fd.Pos(), "scalar kinds accepted", "the validator no longer accepts the scalar kinds: shape not understood")
		}
		// map keys restricted
		t := ExtractTable(p, f, TableConfig{})
		_ = t
	}
	// marshaler pair
	if g := c.fn("marshaler-pair", "modeling", "", "validateStructType"); g != nil {
		t := ExtractTable(p, g, TableConfig{LoopsOnce: true})
		roles := []Role{
			{Name: "marsh", IsBool: true, Match: func(a *Atom) bool { return strings.Contains(a.Key, "Implements(jsonMarshalerType)") }},
			{Name: "unmarsh", IsBool: true, Match: func(a *Atom) bool { return strings.Contains(a.Key, "Implements(jsonUnmarshalerType)") }},
		}
		CheckTable(c, "marshaler-pair", "modeling.validateStructType", p.Decl(g).Pos(), t, roles, []int{0, 1}, nil, func(v RoleVals, r *Row) (bool, string) {
			if v.B("marsh") && !v.B("unmarsh") {
				if r.Out.Kind != "return" || len(r.Out.Vals) != 1 || r.Out.Vals[0].Str == "nil" {
					return false, "a type with MarshalJSON but no UnmarshalJSON must be rejected (its payload would restore as zero values)"
				}
			}
			// a path that trusts the type's own JSON (accepts it without the
			// data-loss test and without looking at its fields) must have seen
			// MarshalJSON on the VALUE method set: State is marshalled by value, so
			// a pointer-receiver MarshalJSON is never called and the default
			// encoder drops the unexported fields
			trusted := r.Out.Kind == "return" && len(r.Out.Vals) == 1 && r.Out.Vals[0].Str == "nil" &&
				len(r.Calls(func(e *Effect) bool { return e.Callee != nil && e.Callee.Name() == "serializesToEmpty" })) == 0
			if trusted {
				tParam := g.Type().(*types.Signature).Params().At(0).Name()
				onValue := r.Atom(func(a *Atom) bool {
					return a.IsBool && a.B && strings.HasPrefix(a.Key, tParam+".Implements(jsonMarshalerType)")
				})
				if onValue == nil {
					return false, "a struct is accepted as having custom JSON without MarshalJSON being present on its value method set (State is marshalled by value: a pointer-receiver MarshalJSON is never invoked and unexported fields are silently dropped)"
				}
			}
			return true, ""
		})
		// per-field obligations
		fd := p.Decl(g)
		rejectsUnexported, rejectsDash := false, false
		ast.Inspect(fd.Body, func(n ast.Node) bool {
			ifs, ok := n.(*ast.IfStmt)
			if !ok {
				return true
			}
			cond := types.ExprString(ifs.Cond)
			returnsErr, continues := false, false
			for _, st := range ifs.Body.List {
				switch s := st.(type) {
				case *ast.ReturnStmt:
					if len(s.Results) == 1 && types.ExprString(s.Results[0]) != "nil" {
						returnsErr = true
					}
				case *ast.BranchStmt:
					if s.Tok == token.CONTINUE {
						continues = true
					}
				}
			}
			if (strings.Contains(cond, "PkgPath") || strings.Contains(cond, "IsExported")) && returnsErr {
				rejectsUnexported = true
			}
			if strings.Contains(cond, `"-"`) && returnsErr && !continues {
				rejectsDash = true
			}
			return true
		})
		// field-descent: the only fields whose type is not validated are those tagged
		// json:"-"; a skip keyed on anything else (exportedness, embedding, kind)
		// leaves a part of the state unvalidated although encoding/json may still
		// serialise it (the exported fields of an embedded lowercase-named struct
		// are promoted and written)
		info := p.PkgOfDecl(fd).TypesInfo
		nSkips, skipWhy := 0, ""
		ast.Inspect(fd.Body, func(n ast.Node) bool {
			ifs, ok := n.(*ast.IfStmt)
			if !ok {
				return true
			}
			continues := false
			for _, st := range ifs.Body.List {
				if bs, isB := st.(*ast.BranchStmt); isB && bs.Tok == token.CONTINUE {
					continues = true
				}
			}
			if !continues {
				return true
			}
			nSkips++
			// the variable holding the tag: defined in the if's init from Tag.Get(...)
			tagVars := map[types.Object]bool{}
			if as, isAs := ifs.Init.(*ast.AssignStmt); isAs && len(as.Lhs) == 1 && len(as.Rhs) == 1 {
				if strings.Contains(types.ExprString(as.Rhs[0]), ".Tag.Get(\"json\")") {
					if id, isID := as.Lhs[0].(*ast.Ident); isID {
						tagVars[info.ObjectOf(id)] = true
					}
				}
			}
			ast.Inspect(ifs.Cond, func(m ast.Node) bool {
				switch e := m.(type) {
				case *ast.Ident:
					if obj := info.ObjectOf(e); obj != nil {
						if _, isVar := obj.(*types.Var); isVar && !tagVars[obj] {
							skipWhy = "the field loop skips a field on a condition that reads " + e.Name + " (" + types.ExprString(ifs.Cond) + ")"
						}
					}
				case *ast.CallExpr:
					if strings.HasSuffix(types.ExprString(e.Fun), ".Tag.Get") {
						return false // the json tag itself
					}
					skipWhy = "the field loop skips a field on a condition that calls " + types.ExprString(e.Fun) + " (" + types.ExprString(ifs.Cond) + ")"
				}
				return true
			})
			return true
		})
		c.Check(nSkips >= 1 && skipWhy == "", "field-descent", "modeling.validateStructType#skips", fd.Pos(), "fields are left unvalidated only on their json tag",
			skipWhy+": only a json:\"-\" tag may exempt a field from validation; a skip keyed on exportedness or embedding also exempts embedded structs whose exported fields encoding/json promotes and serialises, so types the checkpoint alters or drops are accepted")
		// two further ways in which encoding/json silently drops fields of an accepted
		// struct: a MarshalJSON that is only promoted from an embedded field (the
		// other fields are never written), and two fields with one JSON name (both
		// are dropped). The validator must look at the embedded fields before it
		// trusts a marshaler, and must reject a repeated JSON name.
		{
			sf := p.SSAFunc(g)
			readsAnonymous := func(fn *ssa.Function) bool {
				if fn == nil {
					return false
				}
				for _, b := range fn.Blocks {
					for _, in := range b.Instrs {
						if v, isV := in.(ssa.Value); isV {
							if f := FieldOf(v); f != nil && f.Name() == "Anonymous" && f.Pkg() != nil && f.Pkg().Path() == "reflect" {
								return true
							}
						}
					}
				}
				return false
			}
			guardsPromotion := false
			dupCheck := false
			if sf != nil {
				for _, b := range sf.Blocks {
					for _, in := range b.Instrs {
						switch x := in.(type) {
						case ssa.CallInstruction:
							if sc := x.Common().StaticCallee(); sc != nil && sc.Pkg == sf.Pkg && readsAnonymous(sc) {
								// the result must decide an error return before the type is trusted
								if v, isV := in.(ssa.Value); isV {
									for _, ref := range *v.Referrers() {
										if bo, isBO := ref.(*ssa.BinOp); isBO {
											for _, r2 := range *bo.Referrers() {
												if _, isIf := r2.(*ssa.If); isIf {
													guardsPromotion = true
												}
											}
										}
									}
								}
							}
						case *ssa.Lookup:
							if mt, isMap := x.X.Type().Underlying().(*types.Map); isMap && x.CommaOk {
								if bt, isB := mt.Key().Underlying().(*types.Basic); isB && bt.Kind() == types.String {
									// the same map is also written, and a hit leads to an error return
									for _, b2 := range sf.Blocks {
										for _, in2 := range b2.Instrs {
											if mu, isMU := in2.(*ssa.MapUpdate); isMU && mu.Map == x.X {
												dupCheck = true
											}
										}
									}
								}
							}
						}
					}
				}
			}
			// the look at the embedded fields must sit on the branch that trusts a
			// marshaler (the field loop further down also reads Anonymous)
			if sf != nil {
				var trusted *ssa.BasicBlock
				for _, b := range sf.Blocks {
					if ifi, isIf := b.Instrs[len(b.Instrs)-1].(*ssa.If); isIf {
						if call, isCall := ifi.Cond.(*ssa.Call); isCall && call.Common().IsInvoke() && call.Common().Method.Name() == "Implements" && len(call.Common().Args) == 1 {
							if ld, isLd := call.Common().Args[0].(*ssa.UnOp); isLd {
								if gl, isG := ld.X.(*ssa.Global); isG && gl.Name() == "jsonMarshalerType" && trusted == nil {
									trusted = b.Succs[0]
								}
							}
						}
					}
				}
				ok := false
				if trusted != nil {
					for _, b := range sf.Blocks {
						if !trusted.Dominates(b) {
							continue
						}
						for _, in := range b.Instrs {
							if v, isV := in.(ssa.Value); isV {
								if f := FieldOf(v); f != nil && f.Name() == "Anonymous" {
									ok = true
								}
							}
							if call, isCall := in.(ssa.CallInstruction); isCall {
								if sc := call.Common().StaticCallee(); sc != nil && sc.Pkg == sf.Pkg && readsAnonymous(sc) {
									ok = true
								}
							}
						}
					}
				}
				guardsPromotion = guardsPromotion && ok
			}
			c.Check(guardsPromotion, "field-rejection", "modeling.validateStructType#promoted-marshaler", fd.Pos(), "a MarshalJSON promoted from an embedded field is not trusted",
				"validateStructType trusts any struct whose method set has MarshalJSON/UnmarshalJSON without looking at its embedded fields: a struct that embeds a custom-JSON type next to fields of its own is accepted, although encoding/json then serialises only the embedded value and silently drops the other fields")
			c.Check(dupCheck, "field-rejection", "modeling.validateStructType#duplicate-json-name", fd.Pos(), "two fields with one JSON name are rejected",
				"validateStructType does not compare the JSON names of a struct's fields: two exported fields with the same JSON name are accepted, although encoding/json drops both from the checkpoint")
		}
		c.Check(rejectsUnexported, "field-rejection", "modeling.validateStructType#unexported-field", fd.Pos(), "an unexported field of a struct without custom JSON is rejected",
			"a struct that mixes exported fields with unexported ones (and has no custom JSON) is accepted, although encoding/json silently drops the unexported fields; only the all-unexported case (serialises as {}) is rejected")
		c.Check(rejectsDash, "field-rejection", "modeling.validateStructType#json-dash-field", fd.Pos(), "a field tagged json:\"-\" is rejected",
			"a field tagged json:\"-\" is skipped by the validator and therefore accepted, although its value is dropped from the checkpoint")
	}
	// construction validates
	if b := c.fn("validation-on-build", "modeling", "", "validateForCheckpoint"); b != nil {
		fns := p.SrcFuncs(func(pp string) bool { return strings.HasSuffix(pp, "/modeling") })
		sites := CallSites(fns, func(g *types.Func) bool { return g == b })
		builders := map[string]bool{}
		for _, s := range sites {
			builders[SSAFuncKey(s.Fn)] = true
		}
		c.Check(len(sites) >= 2, "validation-on-build", "modeling.validateForCheckpoint", p.Decl(b).Pos(), "called by the component builders: "+strings.Join(sortedKeys(builders), ", "),
			"component construction no longer validates Spec/State for checkpointability")
	}
	// audit of instantiated types
	specs, states := p.componentTypeArgs()
	losslessRule(c, "instantiated-types", "state", states)
	losslessRule(c, "instantiated-types", "spec", specs)
	c.Floor("instantiated-types", 25)
}

// clauseOutcome classifies a case clause of the kind dispatch: accept (return
// nil only), recurse (returns a recursive validation), reject (returns an error).
func clauseOutcome(cc *ast.CaseClause, self string) string {
	accept, recurse, reject := false, false, false
	ast.Inspect(&ast.BlockStmt{List: cc.Body}, func(n ast.Node) bool {
		rs, ok := n.(*ast.ReturnStmt)
		if !ok || len(rs.Results) != 1 {
			return true
		}
		switch r := ast.Unparen(rs.Results[0]).(type) {
		case *ast.Ident:
			if r.Name == "nil" {
				accept = true
			} else {
				recurse = true
			}
		case *ast.CallExpr:
			name := types.ExprString(r.Fun)
			if strings.HasPrefix(name, "validate") {
				recurse = true
			} else {
				reject = true
			}
		default:
			reject = true
		}
		return true
	})
	switch {
	case accept && !recurse && !reject:
		return "accept"
	case recurse && !accept:
		return "recurse"
	case reject && !accept && !recurse:
		return "reject"
	case accept || recurse:
		return "mixed"
	}
	return "unknown"
}
