package main

// A call graph restricted to the module: static calls, interface calls resolved
// by class-hierarchy analysis over the module's own named types, and function
// values (every function whose value is taken is linked from the function that
// takes it, and called-through-value sites link to every module function of a
// matching signature whose value is taken somewhere). It over-approximates the
// calls between module functions; calls into and out of other modules are not
// followed (callbacks from the standard library into the module go through
// function values or interfaces and are covered by the two rules above).

import (
	"go/types"

	"golang.org/x/tools/go/ssa"
)

type modCG struct {
	out map[*ssa.Function][]*ssa.Function
	in  map[*ssa.Function][]*ssa.Function
}

func origin(fn *ssa.Function) *ssa.Function {
	if fn != nil && fn.Origin() != nil {
		return fn.Origin()
	}
	return fn
}

// ModCG builds (once) the module-restricted call graph.
func (p *Program) ModCG() *modCG {
	if p.mcg != nil {
		return p.mcg
	}
	g := &modCG{out: map[*ssa.Function][]*ssa.Function{}, in: map[*ssa.Function][]*ssa.Function{}}
	fns := p.SrcFuncs(nil)
	isSrc := map[*ssa.Function]bool{}
	for _, f := range fns {
		isSrc[f] = true
	}
	// methods of module named types by name
	type meth struct {
		fn   *ssa.Function
		recv types.Type
	}
	byName := map[string][]meth{}
	for _, f := range fns {
		if f.Signature.Recv() != nil && f.Parent() == nil {
			byName[f.Name()] = append(byName[f.Name()], meth{f, f.Signature.Recv().Type()})
		}
	}
	// functions whose value is taken, by signature string
	taken := map[string][]*ssa.Function{}
	edge := func(a, b *ssa.Function) {
		b = origin(b)
		if b == nil || !isSrc[b] {
			return
		}
		g.out[a] = append(g.out[a], b)
		g.in[b] = append(g.in[b], a)
	}
	sigKey := func(s *types.Signature) string {
		return types.TypeString(types.NewSignatureType(nil, nil, nil, s.Params(), s.Results(), s.Variadic()), nil)
	}
	for _, f := range fns {
		for _, b := range f.Blocks {
			for _, in := range b.Instrs {
				for _, op := range in.Operands(nil) {
					if op == nil || *op == nil {
						continue
					}
					var tf *ssa.Function
					switch x := (*op).(type) {
					case *ssa.Function:
						tf = x
					case *ssa.MakeClosure:
						tf, _ = x.Fn.(*ssa.Function)
					}
					if tf == nil {
						continue
					}
					// a direct call's callee operand is not "taking the value"
					if ci, ok := in.(ssa.CallInstruction); ok && ci.Common().Value == *op && !ci.Common().IsInvoke() {
						continue
					}
					tf = origin(tf)
					if isSrc[tf] {
						taken[sigKey(tf.Signature)] = append(taken[sigKey(tf.Signature)], tf)
						edge(f, tf)
					}
				}
				if mc, ok := in.(*ssa.MakeClosure); ok {
					if cf, ok := mc.Fn.(*ssa.Function); ok {
						edge(f, cf)
					}
				}
			}
		}
	}
	for _, f := range fns {
		for _, b := range f.Blocks {
			for _, in := range b.Instrs {
				ci, ok := in.(ssa.CallInstruction)
				if !ok {
					continue
				}
				c := ci.Common()
				if c.IsInvoke() {
					iface, _ := c.Value.Type().Underlying().(*types.Interface)
					for _, m := range byName[c.Method.Name()] {
						if iface == nil || types.Implements(m.recv, iface) || types.Implements(types.NewPointer(m.recv), iface) || implementsGeneric(m.recv, iface, c.Method) {
							edge(f, m.fn)
						}
					}
					continue
				}
				if sc := c.StaticCallee(); sc != nil {
					edge(f, sc)
					continue
				}
				// call through a function value
				if sig, ok := c.Value.Type().Underlying().(*types.Signature); ok {
					for _, tf := range taken[sigKey(sig)] {
						edge(f, tf)
					}
				}
			}
		}
	}
	p.mcg = g
	return g
}

// implementsGeneric is a permissive match for methods of generic types, whose
// receiver is uninstantiated: same method name and same number of parameters
// and results.
func implementsGeneric(recv types.Type, iface *types.Interface, m *types.Func) bool {
	t := recv
	if pt, ok := t.(*types.Pointer); ok {
		t = pt.Elem()
	}
	n, ok := t.(*types.Named)
	if !ok || n.TypeParams() == nil || n.TypeParams().Len() == 0 {
		return false
	}
	for i := 0; i < n.NumMethods(); i++ {
		cm := n.Method(i)
		if cm.Name() != m.Name() {
			continue
		}
		a, b := cm.Type().(*types.Signature), m.Type().(*types.Signature)
		if a.Params().Len() == b.Params().Len() && a.Results().Len() == b.Results().Len() {
			return true
		}
	}
	return false
}

// Reach returns the functions reachable from roots (with a witness predecessor).
func (g *modCG) Reach(roots []*ssa.Function, follow func(*ssa.Function) bool) map[*ssa.Function]*ssa.Function {
	reach := map[*ssa.Function]*ssa.Function{}
	var work []*ssa.Function
	for _, r := range roots {
		r = origin(r)
		if _, ok := reach[r]; !ok {
			reach[r] = nil
			work = append(work, r)
		}
	}
	for len(work) > 0 {
		fn := work[len(work)-1]
		work = work[:len(work)-1]
		for _, c := range g.out[fn] {
			if follow != nil && !follow(c) {
				continue
			}
			if _, ok := reach[c]; !ok {
				reach[c] = fn
				work = append(work, c)
			}
		}
	}
	return reach
}

// PathTo renders the witness chain root -> ... -> fn.
func PathTo(reach map[*ssa.Function]*ssa.Function, fn *ssa.Function) string {
	var parts []string
	for i := 0; fn != nil && i < 30; i++ {
		parts = append([]string{SSAFuncKey(fn)}, parts...)
		fn = reach[fn]
	}
	s := ""
	for i, p := range parts {
		if i > 0 {
			s += " -> "
		}
		s += p
	}
	return s
}
