package main

// stale-element: a pointer to an element of a State slice must not be used after
// that slice has been spliced in place (X = append(X[:i], X[i+1:]...)): the
// splice shifts the later elements down, so the pointer now designates the NEXT
// element (or, for the last one, a dead slot). Reading a request through it
// afterwards — to complete its tracing task, to build its response — acts on a
// different request.

import (
	"go/types"

	"golang.org/x/tools/go/ssa"
)

// inPlaceSplices lists the stores of fn that remove an element of a slice field
// by shifting (append of a prefix and a later suffix of the same field).
func inPlaceSplices(fn *ssa.Function) map[*types.Var]ssa.Instruction {
	out := map[*types.Var]ssa.Instruction{}
	for _, b := range fn.Blocks {
		for _, in := range b.Instrs {
			st, ok := in.(*ssa.Store)
			if !ok {
				continue
			}
			f := FieldOf(st.Addr)
			if f == nil {
				continue
			}
			call, ok := st.Val.(*ssa.Call)
			if !ok {
				continue
			}
			bi, isB := call.Call.Value.(*ssa.Builtin)
			if !isB || bi.Name() != "append" || len(call.Call.Args) != 2 {
				continue
			}
			s1, ok1 := call.Call.Args[0].(*ssa.Slice)
			s2, ok2 := call.Call.Args[1].(*ssa.Slice)
			if !ok1 || !ok2 || s1.High == nil || s2.Low == nil {
				continue
			}
			isLoad := func(v ssa.Value) bool {
				u, isU := v.(*ssa.UnOp)
				if !isU {
					return false
				}
				g := FieldOf(u.X)
				return g != nil && sameObj(g, f)
			}
			if isLoad(s1.X) && isLoad(s2.X) {
				out[f] = in
			}
		}
	}
	return out
}

type staleCtx struct {
	p     *Program
	own   map[*ssa.Function]map[*types.Var]ssa.Instruction
	memo  map[*ssa.Function]map[*types.Var]bool
	calls map[*ssa.Function][]ssa.CallInstruction // static call sites per callee
}

func (s *staleCtx) mayShift(fn *ssa.Function, depth int) map[*types.Var]bool {
	if m, ok := s.memo[fn]; ok {
		return m
	}
	m := map[*types.Var]bool{}
	s.memo[fn] = m
	for f := range s.own[fn] {
		m[f] = true
	}
	if depth <= 0 {
		return m
	}
	for _, b := range fn.Blocks {
		for _, in := range b.Instrs {
			if call, ok := in.(ssa.CallInstruction); ok {
				if sc := call.Common().StaticCallee(); sc != nil && sc.Pkg != nil && sc.Pkg == fn.Pkg && len(sc.Blocks) > 0 {
					for f := range s.mayShift(sc, depth-1) {
						m[f] = true
					}
				}
			}
		}
	}
	return m
}

// pointsInto: v designates an element of slice field fld (an &X[i] over a load of
// the field, or a parameter that receives one at a call site).
func (s *staleCtx) pointsInto(v ssa.Value, fld *types.Var, depth int) bool {
	switch x := v.(type) {
	case *ssa.IndexAddr:
		if u, ok := x.X.(*ssa.UnOp); ok {
			if g := FieldOf(u.X); g != nil && sameObj(g, fld) {
				return true
			}
		}
	case *ssa.Parameter:
		if depth <= 0 {
			return false
		}
		fn := x.Parent()
		idx := -1
		for i, pv := range fn.Params {
			if pv == x {
				idx = i
			}
		}
		for _, call := range s.calls[fn] {
			args := call.Common().Args
			if idx >= 0 && idx < len(args) && s.pointsInto(args[idx], fld, depth-1) {
				return true
			}
		}
	}
	return false
}

func staleElementRule(c *Ctx, rule string, floor int, pred func(string) bool) {
	p := c.P
	fns := p.SrcFuncs(func(pp string) bool { return libComponentPkg(pp) && pred(pp) })
	s := &staleCtx{p: p, own: map[*ssa.Function]map[*types.Var]ssa.Instruction{}, memo: map[*ssa.Function]map[*types.Var]bool{}, calls: map[*ssa.Function][]ssa.CallInstruction{}}
	nSplice := 0
	for _, fn := range fns {
		s.own[fn] = inPlaceSplices(fn)
		nSplice += len(s.own[fn])
		for _, b := range fn.Blocks {
			for _, in := range b.Instrs {
				if call, ok := in.(ssa.CallInstruction); ok {
					if sc := call.Common().StaticCallee(); sc != nil {
						s.calls[sc] = append(s.calls[sc], call)
					}
				}
			}
		}
	}
	checked := 0
	for _, fn := range fns {
		// shifting points of fn: its own splice stores and calls into shifting callees
		type shiftPt struct {
			at  ssa.Instruction
			fld *types.Var
		}
		var pts []shiftPt
		for f, in := range s.own[fn] {
			pts = append(pts, shiftPt{in, f})
		}
		for _, b := range fn.Blocks {
			for _, in := range b.Instrs {
				if call, ok := in.(ssa.CallInstruction); ok {
					if sc := call.Common().StaticCallee(); sc != nil && sc.Pkg != nil && sc.Pkg == fn.Pkg && len(sc.Blocks) > 0 {
						for f := range s.mayShift(sc, 3) {
							pts = append(pts, shiftPt{in, f})
						}
					}
				}
			}
		}
		if len(pts) == 0 {
			continue
		}
		// candidate element pointers
		var ptrs []ssa.Value
		for _, pv := range fn.Params {
			ptrs = append(ptrs, pv)
		}
		for _, b := range fn.Blocks {
			for _, in := range b.Instrs {
				if ia, ok := in.(*ssa.IndexAddr); ok {
					ptrs = append(ptrs, ia)
				}
			}
		}
		for _, pt := range pts {
			for _, pv := range ptrs {
				if !s.pointsInto(pv, pt.fld, 2) {
					continue
				}
				if in, isIn := pv.(ssa.Instruction); isIn && !InstrDominates(in, pt.at) {
					continue
				}
				checked++
				var stale ssa.Instruction
				for _, ref := range *pv.Referrers() {
					if ref == pt.at || ref.Block() == nil {
						continue
					}
					if _, isDbg := ref.(*ssa.DebugRef); isDbg {
						continue
					}
					if reachesAvoidingDef(pt.at, ref, pv) {
						stale = ref
					}
				}
				construct := SSAFuncKey(fn) + "#" + pt.fld.Name() + "@" + pv.Name()
				c.Check(stale == nil, rule, construct, pt.at.Pos(), "no use of the element pointer follows the splice",
					func() string {
						if stale == nil {
							return ""
						}
						return "pointer " + pv.Name() + " designates an element of " + pt.fld.Name() + ", which is spliced in place at " + p.Rel(pt.at.Pos()) + " (directly or in a callee); it is used again at " + p.Rel(stale.Pos()) + ": after the splice it designates the next element (or a dead slot), so the request read through it is not the one just handled"
					}())
			}
		}
	}
	c.Check(nSplice >= floor, rule, "<splices>", 0, itoa(nSplice)+" in-place splices of slice fields found; "+itoa(checked)+" (splice, element pointer) pairs checked", "fewer in-place splices recognised than confirmed by hand")
}

// reachesAvoidingDef: b can execute after a without the definition of v being
// executed again in between (a value defined inside a loop is a new pointer on
// every iteration).
func reachesAvoidingDef(a, b ssa.Instruction, v ssa.Value) bool {
	ab, bb := a.Block(), b.Block()
	if ab == bb {
		after := false
		for _, in := range ab.Instrs {
			if in == a {
				after = true
			} else if in == b && after {
				return true
			}
		}
	}
	var barrier *ssa.BasicBlock
	if in, ok := v.(ssa.Instruction); ok {
		barrier = in.Block()
	}
	seen := map[*ssa.BasicBlock]bool{}
	var walk func(x *ssa.BasicBlock) bool
	walk = func(x *ssa.BasicBlock) bool {
		for _, s := range x.Succs {
			if s == barrier || seen[s] {
				continue
			}
			seen[s] = true
			if s == bb || walk(s) {
				return true
			}
		}
		return false
	}
	return walk(ab)
}
