package main

import (
	"go/ast"
	"go/token"
	"go/types"
	"strings"

	"golang.org/x/tools/go/ssa"
)

func init() {
	register("C01", PropertyMeta{
		Technique: "decision-table extraction over orderings (abstract interpretation of the typed syntax tree) + SSA field-ownership audit",
		Explanation: "Decides, on timing/eventqueue.go and timing/serialengine.go: (1) eventHeap.less equals lexicographic (time, seq) in every ordering of the four quantities; " +
			"(2) nextEvent pops the primary queue iff it is non-empty and (the secondary is empty or t_primary <= t_secondary) and returns the popped queue's head; " +
			"(3) Schedule panics without pushing for te<now, otherwise pushes exactly once, to the secondary queue iff IsSecondary; " +
			"(4) dispatchNext stores the clock from the popped event before exactly one Handle of that event and panics for a past event; " +
			"(5) Run returns only where both queues are empty and otherwise dispatches exactly once per iteration; " +
			"(6) both Push implementations stamp seq from nextSeq, then increment it, then sift the appended slot; " +
			"(7) events/nextSeq are written only in eventqueue.go and the clock only by dispatchNext/SetCurrentTime/LoadCheckpoint.",
		NotDecided:  "correctness of the binary-heap sift (up/down), an invariant over array contents; that handlers terminate.",
		Assumptions: []string{"Time(), Len(), Peek(), IsSecondary() are state-reading accessors", "integer quantities influence control flow only through comparisons (checked: any other use makes the table extraction fail)"},
	}, runC01)
	register("C02", PropertyMeta{
		Technique: "decision-table extraction over orderings + sibling comparison of Run and RunUntil loop bodies",
		Explanation: "Decides on timing/serialengine.go: RunUntil's loop body returns iff no event remains or the earliest queued time exceeds t (the region next==t must dispatch); " +
			"nextEventTime is the minimum over the non-empty queue heads in all emptiness/ordering regions; Run and RunUntil share one dispatch function and neither writes the clock or the queues directly.",
		NotDecided:  "equivalence of whole traces (it follows from C01 plus these clauses, but that composition is an argument, not derived by the checker).",
		Assumptions: []string{"same accessor purity assumptions as C01"},
	}, runC02)
}

func timeOnIndex(idx types.Object) func(*Atom) bool {
	return func(a *Atom) bool { return a.HasName("Time") && a.Has(idx) }
}

func runC01(c *Ctx) {
	popShapeRule(c)
	p := c.P
	dom := []int{0, 1, 2}

	// ---- clause 1: less
	if less := c.fn("less-table", "timing", "eventHeap", "less"); less != nil {
		fd := p.Decl(less)
		info := p.PkgOfDecl(fd).TypesInfo
		var pi, pj types.Object
		if ps := fd.Type.Params.List; len(ps) > 0 {
			var names []*ast.Ident
			for _, f := range ps {
				names = append(names, f.Names...)
			}
			if len(names) == 2 {
				pi, pj = info.Defs[names[0]], info.Defs[names[1]]
			}
		}
		seqF := c.field("less-table", "timing", "queuedEvent", "seq")
		if pi != nil && pj != nil && seqF != nil {
			t := ExtractTable(p, less, TableConfig{Domain: dom})
			roles := []Role{
				{Name: "ti", Match: timeOnIndex(pi)},
				{Name: "tj", Match: timeOnIndex(pj)},
				{Name: "si", Match: func(a *Atom) bool { return a.Has(seqF) && a.Has(pi) }},
				{Name: "sj", Match: func(a *Atom) bool { return a.Has(seqF) && a.Has(pj) }},
			}
			CheckTable(c, "less-table", "timing.eventHeap.less", fd.Pos(), t, roles, dom, nil, func(v RoleVals, r *Row) (bool, string) {
				want := v["ti"] < v["tj"] || (v["ti"] == v["tj"] && v["si"] < v["sj"])
				if r.Out.Kind != "return" || len(r.Out.Vals) != 1 || r.Out.Vals[0].Kind != vBool {
					return false, "does not return a boolean"
				}
				if r.Out.Vals[0].B != want {
					return false, "less must be lexicographic on (time, seq)"
				}
				return true, ""
			})
		} else {
			c.Unknown("less-table", "timing.eventHeap.less", fd.Pos(), "cannot bind parameters i, j")
		}
	}

	qF := c.field("anchors", "timing", "SerialEngine", "queue")
	sF := c.field("anchors", "timing", "SerialEngine", "secondaryQueue")
	timeF := c.field("anchors", "timing", "SerialEngine", "time")
	if qF == nil || sF == nil || timeF == nil {
		return
	}
	lenOn := func(f types.Object) func(*Atom) bool {
		return func(a *Atom) bool { return (a.HasName("Len") || a.HasName("len")) && a.Has(f) }
	}
	headTimeOn := func(f types.Object) func(*Atom) bool {
		return func(a *Atom) bool { return a.HasName("Time") && a.Has(f) }
	}
	queueRoles := []Role{
		{Name: "np", Match: lenOn(qF)}, {Name: "ns", Match: lenOn(sF)},
		{Name: "tp", Match: headTimeOn(qF)}, {Name: "ts", Match: headTimeOn(sF)},
	}
	primaryFirst := func(v RoleVals) (primary bool) {
		switch {
		case v["np"] == 0:
			return false
		case v["ns"] == 0:
			return true
		}
		return v["tp"] <= v["ts"]
	}

	// ---- clause 2: nextEvent
	if ne := c.fn("nextEvent-table", "timing", "SerialEngine", "nextEvent"); ne != nil {
		t := ExtractTable(p, ne, TableConfig{Domain: dom})
		CheckTable(c, "nextEvent-table", "timing.SerialEngine.nextEvent", p.Decl(ne).Pos(), t, queueRoles, dom,
			func(v RoleVals) bool { return v["np"] > 0 || v["ns"] > 0 },
			func(v RoleVals, r *Row) (bool, string) {
				pp, sp := countCalls(r, "Pop", qF), countCalls(r, "Pop", sF)
				if r.Out.Kind != "return" || len(r.Out.Vals) != 1 {
					return false, "must return the popped event"
				}
				ret := r.Out.Vals[0]
				if primaryFirst(v) {
					if pp != 1 || sp != 0 {
						return false, "the primary queue must be popped exactly once and the secondary left alone (primary events run first at equal time)"
					}
					if !ret.HasObj(qF) || ret.HasObj(sF) {
						return false, "must return the primary queue's head"
					}
				} else {
					if pp != 0 || sp != 1 {
						return false, "the secondary queue must be popped exactly once and the primary left alone"
					}
					if !ret.HasObj(sF) || ret.HasObj(qF) {
						return false, "must return the secondary queue's head"
					}
				}
				return true, ""
			})
	}

	// ---- clause 3: Schedule
	if sch := c.fn("schedule-table", "timing", "SerialEngine", "Schedule"); sch != nil {
		t := ExtractTable(p, sch, TableConfig{Domain: dom})
		roles := []Role{
			{Name: "te", Match: func(a *Atom) bool { return a.HasName("Time") && !a.Has(qF) && !a.Has(sF) }},
			{Name: "now", Match: func(a *Atom) bool { return a.Has(timeF) }},
			{Name: "sec", IsBool: true, Match: func(a *Atom) bool { return a.HasName("IsSecondary") }},
		}
		CheckTable(c, "schedule-table", "timing.SerialEngine.Schedule", p.Decl(sch).Pos(), t, roles, dom, nil, func(v RoleVals, r *Row) (bool, string) {
			pp, sp := countCalls(r, "Push", qF), countCalls(r, "Push", sF)
			if v["te"] < v["now"] {
				if r.Out.Kind != "panic" || pp+sp != 0 {
					return false, "an event earlier than the current time must be rejected without being queued"
				}
				return true, ""
			}
			if r.Out.Kind != "return" {
				return false, "a non-past event must be accepted"
			}
			if v.B("sec") && (sp != 1 || pp != 0) {
				return false, "a secondary event must be pushed exactly once, to the secondary queue"
			}
			if !v.B("sec") && (pp != 1 || sp != 0) {
				return false, "a primary event must be pushed exactly once, to the primary queue"
			}
			return true, ""
		})
	}

	// ---- clause 4: dispatchNext
	if dn := c.fn("dispatch-table", "timing", "SerialEngine", "dispatchNext"); dn != nil {
		ne := p.LookupFunc("timing", "SerialEngine", "nextEvent")
		t := ExtractTable(p, dn, TableConfig{Domain: dom})
		roles := []Role{
			{Name: "te", Match: func(a *Atom) bool { return a.HasName("Time") && a.Has(ne) }},
			{Name: "now", Match: func(a *Atom) bool { return a.Has(timeF) }},
		}
		CheckTable(c, "dispatch-table", "timing.SerialEngine.dispatchNext", p.Decl(dn).Pos(), t, roles, dom, nil, func(v RoleVals, r *Row) (bool, string) {
			pops := r.Calls(func(e *Effect) bool { return e.Callee == ne })
			handles := r.Calls(func(e *Effect) bool { return e.Callee != nil && e.Callee.Name() == "Handle" })
			if len(pops) != 1 {
				return false, "exactly one event must be taken from the queues per dispatch"
			}
			if v["te"] < v["now"] {
				if r.Out.Kind != "panic" || len(handles) != 0 {
					return false, "an event in the past must not be handled"
				}
				return true, ""
			}
			if r.Out.Kind != "return" || len(handles) != 1 {
				return false, "the popped event must be handled exactly once"
			}
			if len(handles[0].Args) != 1 || handles[0].Args[0] != pops[0].Str {
				return false, "Handle must receive the popped event"
			}
			if !strings.Contains(handles[0].RecvS, "HandlerID()") || !strings.Contains(handles[0].RecvS, pops[0].Str) {
				return false, "the handler must be looked up by the popped event's handler id"
			}
			st := r.Stores(func(e *Effect) bool { return e.RecvHas(timeF) })
			if len(st) != 1 || !strings.Contains(st[0].Args[0], pops[0].Str) || !strings.Contains(st[0].Args[0], "Time()") {
				return false, "the clock must be set to the popped event's time"
			}
			if st[0].Gen > handles[0].Gen {
				return false, "the clock must be advanced before the handler runs"
			}
			return true, ""
		})
	}

	// ---- clause 5: Run
	if run := c.fn("run-table", "timing", "SerialEngine", "Run"); run != nil {
		nme := p.LookupFunc("timing", "SerialEngine", "noMoreEvent")
		dn := p.LookupFunc("timing", "SerialEngine", "dispatchNext")
		t := ExtractTable(p, run, TableConfig{Domain: dom, Inline: func(f *types.Func) bool { return f == nme }})
		CheckTable(c, "run-table", "timing.SerialEngine.Run", p.Decl(run).Pos(), t, queueRoles[:2], dom, nil, func(v RoleVals, r *Row) (bool, string) {
			disp := r.Calls(func(e *Effect) bool { return e.Callee == dn && e.Kind == "call" })
			if v["np"] == 0 && v["ns"] == 0 {
				if r.Out.Kind != "return" || len(disp) != 0 {
					return false, "with both queues empty Run must return without dispatching"
				}
				return true, ""
			}
			if r.Out.Kind != "loop-next" || len(disp) != 1 {
				return false, "while an event remains Run must dispatch exactly one event and loop (it may not return)"
			}
			return true, ""
		})
	}

	// ---- clause 6: Push siblings
	pushShapeRule(c, dom, []string{"EventQueueImpl", "unsafeEventQueue"})
	c.Floor("push-shape", 2)

	// ---- clause 7: ownership
	fns := p.SrcFuncs(nil)
	for _, recv := range []string{"EventQueueImpl", "unsafeEventQueue"} {
		for _, fname := range []string{"events", "nextSeq"} {
			f := c.field("queue-ownership", "timing", recv, fname)
			if f == nil {
				continue
			}
			for _, w := range FieldWrites(fns, f) {
				file := p.DeclFile(w.Fn)
				c.Check(file == "timing/eventqueue.go", "queue-ownership", "timing."+recv+"."+fname+"@"+SSAFuncKey(w.Fn), w.Pos,
					"written inside the queue implementation", "the queue's storage is modified outside timing/eventqueue.go ("+w.Kind+"), bypassing the (time, seq) discipline")
			}
		}
	}
	c.Floor("queue-ownership", 6)
	allowed := map[string]bool{"timing.SerialEngine.dispatchNext": true, "timing.SerialEngine.SetCurrentTime": true, "timing.SerialEngine.LoadCheckpoint": true}
	for _, w := range FieldWrites(fns, timeF) {
		k := SSAFuncKey(w.Fn)
		c.Check(allowed[k], "clock-ownership", "timing.SerialEngine.time@"+k, w.Pos, "clock written by an allowed function",
			"the engine clock is written outside dispatchNext/SetCurrentTime/LoadCheckpoint")
	}
	c.Floor("clock-ownership", 3)
	_ = token.NoPos
	_ = ssa.Value(nil)
}

func runC02(c *Ctx) {
	p := c.P
	dom := []int{0, 1, 2}
	qF := c.field("anchors", "timing", "SerialEngine", "queue")
	sF := c.field("anchors", "timing", "SerialEngine", "secondaryQueue")
	timeF := c.field("anchors", "timing", "SerialEngine", "time")
	if qF == nil || sF == nil || timeF == nil {
		return
	}
	lenOn := func(f types.Object) func(*Atom) bool {
		return func(a *Atom) bool { return (a.HasName("Len") || a.HasName("len")) && a.Has(f) }
	}
	headTimeOn := func(f types.Object) func(*Atom) bool {
		return func(a *Atom) bool { return a.HasName("Time") && a.Has(f) }
	}
	nme := p.LookupFunc("timing", "SerialEngine", "noMoreEvent")
	net := p.LookupFunc("timing", "SerialEngine", "nextEventTime")
	dn := p.LookupFunc("timing", "SerialEngine", "dispatchNext")
	wfr := p.LookupFunc("timing", "SerialEngine", "waitForResume")

	// nextEventTime: minimum over non-empty heads
	if f := c.fn("nextEventTime-table", "timing", "SerialEngine", "nextEventTime"); f != nil {
		t := ExtractTable(p, f, TableConfig{Domain: dom})
		roles := []Role{{Name: "np", Match: lenOn(qF)}, {Name: "ns", Match: lenOn(sF)}, {Name: "tp", Match: headTimeOn(qF)}, {Name: "ts", Match: headTimeOn(sF)}}
		CheckTable(c, "nextEventTime-table", "timing.SerialEngine.nextEventTime", p.Decl(f).Pos(), t, roles, dom,
			func(v RoleVals) bool { return v["np"] > 0 || v["ns"] > 0 },
			func(v RoleVals, r *Row) (bool, string) {
				if r.Out.Kind != "return" || len(r.Out.Vals) != 1 {
					return false, "must return a time"
				}
				ret := r.Out.Vals[0]
				wantP := v["ns"] == 0 || (v["np"] > 0 && v["tp"] <= v["ts"])
				wantS := v["np"] == 0 || (v["ns"] > 0 && v["ts"] <= v["tp"])
				isP := ret.HasObj(qF) && ret.HasName("Time")
				isS := ret.HasObj(sF) && ret.HasName("Time")
				if (isP && wantP) || (isS && wantS) {
					return true, ""
				}
				return false, "must return the earliest head time among the non-empty queues"
			})
	}

	// RunUntil loop body
	if f := c.fn("rununtil-table", "timing", "SerialEngine", "RunUntil"); f != nil {
		fd := p.Decl(f)
		info := p.PkgOfDecl(fd).TypesInfo
		var tParam types.Object
		for _, fl := range fd.Type.Params.List {
			for _, n := range fl.Names {
				tParam = info.Defs[n]
			}
		}
		t := ExtractTable(p, f, TableConfig{Domain: dom, Inline: func(g *types.Func) bool { return g == nme || g == net }})
		roles := []Role{{Name: "np", Match: lenOn(qF)}, {Name: "ns", Match: lenOn(sF)}, {Name: "tp", Match: headTimeOn(qF)}, {Name: "ts", Match: headTimeOn(sF)},
			{Name: "t", Match: func(a *Atom) bool { return tParam != nil && a.Has(tParam) }},
			{Name: "paused", Match: func(a *Atom) bool { return a.HasName("paused") }}}
		CheckTable(c, "rununtil-table", "timing.SerialEngine.RunUntil", fd.Pos(), t, roles, dom, nil, func(v RoleVals, r *Row) (bool, string) {
			disp := r.Calls(func(e *Effect) bool { return e.Callee == dn && e.Kind == "call" })
			wait := r.Calls(func(e *Effect) bool { return e.Callee == wfr && e.Kind == "call" })
			if v["np"] == 0 && v["ns"] == 0 {
				if r.Out.Kind != "return" || len(disp) != 0 {
					return false, "with both queues empty RunUntil must return without dispatching"
				}
				return true, ""
			}
			next := v["tp"]
			if v["np"] == 0 || (v["ns"] > 0 && v["ts"] < v["tp"]) {
				next = v["ts"]
			}
			if next > v["t"] {
				if r.Out.Kind != "return" || len(disp) != 0 {
					return false, "an event later than the boundary must stay queued and RunUntil must return"
				}
				return true, ""
			}
			if r.Out.Kind != "loop-next" || len(disp) != 1 {
				return false, "an event at or before the boundary (including exactly at it) must be dispatched, once, before the next boundary test"
			}
			if v["paused"] != 0 && (len(wait) != 1 || wait[0].Gen > disp[0].Gen) {
				return false, "a paused engine must wait for resume before dispatching"
			}
			return true, ""
		})
	}

	// siblings: Run and RunUntil use the same dispatch and do not touch clock/queues directly
	for _, name := range []string{"Run", "RunUntil"} {
		f := c.fn("loop-siblings", "timing", "SerialEngine", name)
		if f == nil {
			continue
		}
		fn := p.SSAFunc(f)
		bad := ""
		nDispatch := 0
		for _, b := range fn.Blocks {
			for _, in := range b.Instrs {
				switch in := in.(type) {
				case *ssa.FieldAddr:
					fo := FieldOf(in)
					if fo == timeF {
						for _, w := range writesThrough(fn, in, 0) {
							bad = "writes the clock directly (" + w.Kind + ")"
						}
					}
				case ssa.CallInstruction:
					if g, _ := calleeOf(in); g != nil {
						if g == dn {
							nDispatch++
						}
						if (g.Name() == "Pop" || g.Name() == "Push") && methodOf(g, "timing", "", g.Name()) {
							bad = "pops or pushes a queue directly instead of through dispatchNext"
						}
					}
				}
			}
		}
		if nDispatch != 1 && bad == "" {
			bad = "must contain exactly one call of dispatchNext"
		}
		c.Check(bad == "", "loop-siblings", "timing.SerialEngine."+name, p.Decl(f).Pos(), "dispatches only through dispatchNext", bad)
	}
	c.Floor("loop-siblings", 2)
}

// popShapeRule: popHeap removes the root, writes the shortened heap back through
// its pointer and restores the heap order by sifting down — on the very slice it
// wrote back. Sifting a different backing array than the one stored leaves the
// stored heap with an unsifted root.
func popShapeRule(c *Ctx) {
	p := c.P
	f := c.fn("pop-shape", "timing", "", "popHeap")
	if f == nil {
		return
	}
	fn := p.SSAFunc(f)
	hp := fn.Params[0]
	var stored []ssa.Value
	var sifted []ssa.Value
	for _, b := range fn.Blocks {
		for _, in := range b.Instrs {
			switch x := in.(type) {
			case *ssa.Store:
				if x.Addr == ssa.Value(hp) {
					stored = append(stored, x.Val)
				}
			case ssa.CallInstruction:
				if sc := x.Common().StaticCallee(); sc != nil && sc.Name() == "down" && len(x.Common().Args) > 0 {
					sifted = append(sifted, x.Common().Args[0])
				}
			}
		}
	}
	why := ""
	if len(stored) == 0 || len(sifted) == 0 {
		why = "popHeap does not both write the shortened heap back and sift it down"
	}
	same := func(a, b ssa.Value) bool {
		a, b = stripConv(a), stripConv(b)
		if a == b {
			return true
		}
		// sifting "*h" after the store sifts what was stored
		if u, ok := b.(*ssa.UnOp); ok && u.X == ssa.Value(hp) {
			return true
		}
		return false
	}
	for _, s := range stored {
		for _, d := range sifted {
			if !same(s, d) {
				why = "popHeap writes one slice back as the heap (" + VKey(s) + ") but restores the heap order on another (" + VKey(d) + "): when they do not share a backing array the stored heap keeps an unsifted element at its root and the next pop returns it ahead of earlier events"
			}
		}
	}
	c.Check(why == "", "pop-shape", "timing.popHeap", p.Decl(f).Pos(), "the slice written back is the slice that is sifted", why)
}

// pushShapeRule: every Push of the named queue types appends one entry stamped
// with nextSeq, advances nextSeq and sifts the appended (last) slot up on every
// path.
func pushShapeRule(c *Ctx, dom []int, recvs []string) {
	p := c.P
	for _, recv := range recvs {
		push := c.fn("push-shape", "timing", recv, "Push")
		if push == nil {
			continue
		}
		evF := c.field("push-shape", "timing", recv, "events")
		nsF := c.field("push-shape", "timing", recv, "nextSeq")
		seqF := c.field("push-shape", "timing", "queuedEvent", "seq")
		evtF := c.field("push-shape", "timing", "queuedEvent", "event")
		if evF == nil || nsF == nil || seqF == nil || evtF == nil {
			continue
		}
		fd := p.Decl(push)
		info := p.PkgOfDecl(fd).TypesInfo
		t := ExtractTable(p, push, TableConfig{Domain: dom})
		construct := "timing." + recv + ".Push"
		if len(t.Unsupported) > 0 || len(t.Rows) == 0 {
			c.Unknown("push-shape", construct, fd.Pos(), "Push is outside the analysable fragment: "+strings.Join(t.Unsupported, ";"))
			continue
		}
		ok, why := true, ""
		for _, r := range t.Rows {
			app := r.Stores(func(e *Effect) bool { return e.RecvHas(evF) && len(e.Recv) > 0 && e.Recv[len(e.Recv)-1].Obj == evF })
			inc := r.Stores(func(e *Effect) bool { return e.RecvHas(nsF) })
			up := r.Calls(func(e *Effect) bool { return e.Callee != nil && e.Callee.Name() == "up" })
			if len(app) != 1 || len(inc) != 1 || len(up) != 1 {
				ok, why = false, "Push must append once, advance nextSeq once and sift once on every path"
				break
			}
			// the appended literal carries seq: q.nextSeq and event: the parameter
			var lit *ast.CompositeLit
			ast.Inspect(app[0].Node, func(n ast.Node) bool {
				if cl, isCL := n.(*ast.CompositeLit); isCL && lit == nil {
					lit = cl
				}
				return true
			})
			seqOK, evtOK := false, false
			if lit != nil {
				for _, el := range lit.Elts {
					kv, isKV := el.(*ast.KeyValueExpr)
					if !isKV {
						continue
					}
					k, _ := kv.Key.(*ast.Ident)
					if k == nil {
						continue
					}
					switch info.ObjectOf(k) {
					case seqF:
						if se, isSel := ast.Unparen(kv.Value).(*ast.SelectorExpr); isSel {
							if s, has := info.Selections[se]; has && s.Obj() == nsF {
								seqOK = true
							}
						}
					case evtF:
						if id, isID := ast.Unparen(kv.Value).(*ast.Ident); isID {
							if v, isVar := info.ObjectOf(id).(*types.Var); isVar && !v.IsField() {
								evtOK = true
							}
						}
					}
				}
			}
			if !seqOK || !evtOK {
				ok, why = false, "the appended entry must carry the pushed event and seq = nextSeq (FIFO tie-break)"
				break
			}
			incUp := inc[0].Kind == "incdec" && inc[0].Args[0] == "++" || strings.HasSuffix(strings.ReplaceAll(inc[0].Str, " ", ""), "+=1") || strings.Contains(strings.ReplaceAll(inc[0].Str, " ", ""), "nextSeq+1")
			if !incUp {
				ok, why = false, "nextSeq must advance by one per push"
				break
			}
			if !(app[0].Gen < inc[0].Gen) {
				ok, why = false, "the entry must be stamped before nextSeq is advanced"
				break
			}
			lastIdx := pushSiftsLast(p.SSAFunc(push), evF)
			if !(app[0].Gen < up[0].Gen) || !lastIdx {
				ok, why = false, "the appended slot (last index) must be sifted up after the append"
				break
			}
		}
		c.Check(ok, "push-shape", construct, fd.Pos(), "append(seq=nextSeq); nextSeq++; up(last) on every path", why)
	}
}

// pushSiftsLast: the index handed to up() is the slot the append filled: either
// len(events)-1 read after the append, or len(events) read before it (the only
// store to events in between being the append itself).
func pushSiftsLast(fn *ssa.Function, evF *types.Var) bool {
	if fn == nil {
		return false
	}
	var stores []*ssa.Store
	var ups []ssa.CallInstruction
	for _, b := range fn.Blocks {
		for _, in := range b.Instrs {
			switch x := in.(type) {
			case *ssa.Store:
				if f := FieldOf(x.Addr); f != nil && sameObj(f, evF) {
					stores = append(stores, x)
				}
			case ssa.CallInstruction:
				if sc := x.Common().StaticCallee(); sc != nil && sc.Name() == "up" && len(x.Common().Args) == 2 {
					ups = append(ups, x)
				}
			}
		}
	}
	if len(stores) != 1 || len(ups) != 1 {
		return false
	}
	st := stores[0]
	lenLoad := func(v ssa.Value) *ssa.UnOp {
		call, ok := v.(*ssa.Call)
		if !ok {
			return nil
		}
		if bi, isB := call.Common().Value.(*ssa.Builtin); !isB || bi.Name() != "len" || len(call.Common().Args) != 1 {
			return nil
		}
		ld, isLd := call.Common().Args[0].(*ssa.UnOp)
		if !isLd || ld.Op != token.MUL {
			return nil
		}
		if f := FieldOf(ld.X); f == nil || !sameObj(f, evF) {
			return nil
		}
		return ld
	}
	idx := ups[0].Common().Args[1]
	if be, ok := idx.(*ssa.BinOp); ok && be.Op == token.SUB {
		if constIs(be.Y, "1") {
			if ld := lenLoad(be.X); ld != nil && InstrDominates(st, ld) {
				return true
			}
		}
		return false
	}
	if ld := lenLoad(idx); ld != nil && InstrDominates(ld, st) {
		return true
	}
	return false
}
