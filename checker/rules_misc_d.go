package main

import (
	"go/ast"
	"go/token"
	"go/types"
	"sort"
	"strings"

	"golang.org/x/tools/go/ssa"
)

// snapshotVerbatimRule: TickScheduler.snapshot hands the tick de-duplication
// guard to the checkpoint and restore puts it back; the engine's event queue is
// saved separately, and the two agree only if the guard is saved exactly as it
// is. A snapshot that computes something from the guard (e.g. "pending only if
// later than the current edge") disagrees with the saved queue on some instants,
// and after the load a second tick is scheduled for an edge that already has one.
func snapshotVerbatimRule(c *Ctx, rule string) {
	p := c.P
	f := c.fn(rule, "modeling", "TickScheduler", "snapshot")
	if f == nil {
		return
	}
	fn := p.SSAFunc(f)
	if fn == nil || len(fn.Params) == 0 {
		c.Unknown(rule, "modeling.TickScheduler.snapshot", p.Decl(f).Pos(), "no SSA body")
		return
	}
	recv := ssa.Value(fn.Params[0])
	ok, nret := true, 0
	var chase func(v ssa.Value, depth int) bool
	chase = func(v ssa.Value, depth int) bool {
		switch x := v.(type) {
		case *ssa.UnOp:
			if x.Op != token.MUL {
				return false
			}
			if fa, isFA := x.X.(*ssa.FieldAddr); isFA && memRoot(fa) == recv {
				return true
			}
			// a load of the named-result cell (defer spills results): follow its stores
			if al, isAl := x.X.(*ssa.Alloc); isAl && depth < 3 {
				all := true
				for _, ref := range *al.Referrers() {
					if st, isSt := ref.(*ssa.Store); isSt && st.Addr == ssa.Value(al) {
						if !chase(st.Val, depth+1) {
							all = false
						}
					}
				}
				return all
			}
		}
		return false
	}
	for _, b := range fn.Blocks {
		if ret, isRet := b.Instrs[len(b.Instrs)-1].(*ssa.Return); isRet {
			nret++
			for _, r := range ret.Results {
				if !chase(r, 0) {
					ok = false
				}
			}
		}
	}
	c.Check(ok && nret > 0, rule, "modeling.TickScheduler.snapshot", p.Decl(f).Pos(), "every saved value is a field of the scheduler, read as it is",
		"snapshot does not return the scheduler's guard fields verbatim: the checkpoint then records a guard that differs from the one the saved event queue was built under, and after a load the guard and the queue disagree (a tick that is still queued is reported as not scheduled, so the next wake-up schedules a second tick for the same edge)")
}

// routerStatelessRule: the route computation keeps nothing between calls. The
// router value hangs off the connector and is used for every network it builds;
// any field a method stores into survives into the next network's computation.
func routerStatelessRule(c *Ctx, rule string) {
	p := c.P
	n := 0
	for _, fn := range p.SrcFuncs(func(pp string) bool { return pp == pkgPath("noc/networking/networkconnector") }) {
		rv := fn.Signature.Recv()
		if rv == nil || !strings.HasSuffix(strings.TrimPrefix(rv.Type().String(), "*"), "networkconnector.FloydWarshallRouter") || len(fn.Params) == 0 {
			continue
		}
		n++
		recv := ssa.Value(fn.Params[0])
		bad := ""
		for _, b := range fn.Blocks {
			for _, in := range b.Instrs {
				switch x := in.(type) {
				case *ssa.Store:
					if _, isPtr := recv.Type().Underlying().(*types.Pointer); isPtr && memRoot(x.Addr) == recv {
						bad = p.Rel(x.Pos())
					}
				case *ssa.MapUpdate:
					if memRoot(x.Map) == recv {
						bad = p.Rel(x.Pos())
					}
				}
			}
		}
		c.Check(bad == "", rule, SSAFuncKey(fn), fn.Pos(), "the method stores nothing into the router",
			"the router keeps state between route computations (store at "+bad+"): a connector reused for a second network then computes its tables from what the first network left behind, and the result differs from a fresh connector's")
	}
	c.Floor(rule, 3)
}

// cachedIndexRule: an index into a State slice that is remembered in a field
// between calls is only meaningful while the slice is not compacted. Every
// function that removes elements from the slice (a store that is not a plain
// append) must also refresh or clear the remembered index; otherwise the index
// designates a different element after the compaction.
func cachedIndexRule(c *Ctx, rule string, pred func(string) bool) {
	p := c.P
	fns := p.SrcFuncs(pred)
	type use struct {
		fn   *ssa.Function
		at   ssa.Instruction
		idxF *types.Var
		slcF *types.Var
	}
	var uses []use
	for _, fn := range fns {
		for _, b := range fn.Blocks {
			for _, in := range b.Instrs {
				ia, ok := in.(*ssa.IndexAddr)
				if !ok {
					continue
				}
				ld, isLd := ia.X.(*ssa.UnOp)
				if !isLd {
					continue
				}
				sf := FieldOf(ld.X)
				if sf == nil || !stateRooted(ld.X) {
					continue
				}
				if sfa, isSFA := ld.X.(*ssa.FieldAddr); !isSFA || (len(fn.Params) > 0 && sfa.X == ssa.Value(fn.Params[0])) {
					continue // the slice itself is a direct field of the receiver: not component State
				}
				// the index is (a conversion of) a load of a field that is not part of State
				var xf *types.Var
				for y := range DataSlice(fn, ia.Index) {
					il, isIL := y.(*ssa.UnOp)
					if !isIL || il.Op != token.MUL {
						continue
					}
					g := FieldOf(il.X)
					fa, isFA := il.X.(*ssa.FieldAddr)
					if g == nil || !isFA {
						continue
					}
					if b, isB := g.Type().Underlying().(*types.Basic); !isB || b.Info()&types.IsInteger == 0 {
						continue
					}
					// a direct field of the receiver (the middleware object), not of its State
					if len(fn.Params) > 0 && fn.Signature.Recv() != nil && fa.X == ssa.Value(fn.Params[0]) {
						xf = g
					}
				}
				if xf == nil {
					continue
				}
				uses = append(uses, use{fn, in, xf, sf})
			}
		}
	}
	n := 0
	for _, u := range uses {
		n++
		bad := ""
		for _, fn := range fns {
			removes, refreshes := false, false
			for _, b := range fn.Blocks {
				for _, in := range b.Instrs {
					st, ok := in.(*ssa.Store)
					if !ok {
						continue
					}
					f := FieldOf(st.Addr)
					if f == nil {
						continue
					}
					if sameObj(f, u.slcF) && !isGrowth(st) {
						removes = true
					}
					if sameObj(f, u.idxF) {
						refreshes = true
					}
				}
			}
			if removes && !refreshes {
				bad = SSAFuncKey(fn)
			}
		}
		c.Check(bad == "", rule, SSAFuncKey(u.fn)+"#"+u.slcF.Name()+"["+u.idxF.Name()+"]", u.at.Pos(), "every function that compacts the slice refreshes the remembered index",
			u.slcF.Name()+" is indexed with "+u.idxF.Name()+", an index remembered in a field between calls, but "+bad+" removes elements from "+u.slcF.Name()+" without updating it: after the compaction the remembered index designates a different element, and data meant for one record is accounted to another")
	}
	c.Note("%s: %d uses of a remembered index into a State slice", rule, n)
}

// unitArithmeticRule: Storage splits an address into (unit base, offset) by
// division/remainder with the unit size. A bit mask (addr & (unitSize-1)) equals
// the remainder only when the unit size is a power of two, which nothing
// enforces: NewStorageWithUnitSize accepts any size.
func unitArithmeticRule(c *Ctx, rule string) {
	p := c.P
	us := c.field(rule, "mem", "Storage", "unitSize")
	if us == nil {
		return
	}
	n := 0
	for _, fn := range p.SrcFuncs(func(pp string) bool { return pp == pkgPath("mem") }) {
		usesUnit := false
		bad := ""
		for _, b := range fn.Blocks {
			for _, in := range b.Instrs {
				bo, ok := in.(*ssa.BinOp)
				if !ok {
					continue
				}
				readsUnit := func(v ssa.Value) bool {
					for y := range DataSlice(fn, v) {
						if u, isU := y.(*ssa.UnOp); isU {
							if f := FieldOf(u.X); f != nil && sameObj(f, us) {
								return true
							}
						}
					}
					return false
				}
				switch bo.Op {
				case token.REM, token.QUO:
					if readsUnit(bo.Y) {
						usesUnit = true
					}
				case token.AND, token.AND_NOT, token.SHL, token.SHR:
					if readsUnit(bo.Y) || readsUnit(bo.X) {
						bad = p.Rel(bo.Pos())
					}
				}
			}
		}
		if !usesUnit && bad == "" {
			continue
		}
		n++
		// the divisor must be refused when it is 0 (the builder accepts any value)
		zeroChecked := false
		for _, g := range p.SrcFuncs(func(pp string) bool { return pp == pkgPath("mem") }) {
			for _, b := range g.Blocks {
				for _, in := range b.Instrs {
					cmp, ok := in.(*ssa.BinOp)
					if !ok || (cmp.Op != token.EQL && cmp.Op != token.NEQ && cmp.Op != token.LSS && cmp.Op != token.GTR && cmp.Op != token.LEQ && cmp.Op != token.GEQ) {
						continue
					}
					for _, pair := range [][2]ssa.Value{{cmp.X, cmp.Y}, {cmp.Y, cmp.X}} {
						if !(constIs(pair[1], "0") || constIs(pair[1], "1")) {
							continue
						}
						var f *types.Var
						switch y := stripConv(pair[0]).(type) {
						case *ssa.UnOp:
							f = FieldOf(y.X)
						case *ssa.Field:
							f = FieldOf(y)
						}
						if f != nil && f.Name() == "unitSize" && f.Pkg() != nil && f.Pkg().Path() == pkgPath("mem") {
							zeroChecked = true
						}
					}
				}
			}
		}
		if usesUnit && !zeroChecked && bad == "" {
			c.Fail(rule, SSAFuncKey(fn)+"#zero", fn.Pos(), "the unit size divides every address but is never compared with 0 in the package: a storage built with unit size 0 is accepted and panics (integer divide by zero) on the first access")
		}
		c.Check(bad == "", rule, SSAFuncKey(fn), fn.Pos(), "unit base and offset are computed by division and remainder",
			"the storage's unit arithmetic uses a mask or shift derived from unitSize ("+bad+"): that equals the quotient/remainder only for power-of-two unit sizes, which the constructor does not require; for any other size bytes are stored in slots that a read at another offset never visits")
	}
	c.Floor(rule, 1)
}

// lookupStatelessRule: fn (a lookup that must be a pure function of the object's
// exported configuration) stores nothing into its receiver.
func lookupStatelessRule(c *Ctx, rule, pkg, recv, name, why string) {
	p := c.P
	f := c.fn(rule, pkg, recv, name)
	if f == nil {
		return
	}
	fn := p.SSAFunc(f)
	bad := ""
	if fn != nil && len(fn.Params) > 0 {
		r := ssa.Value(fn.Params[0])
		for _, b := range fn.Blocks {
			for _, in := range b.Instrs {
				switch x := in.(type) {
				case *ssa.Store:
					if memRoot(x.Addr) == r {
						bad = p.Rel(x.Pos())
					}
				case *ssa.MapUpdate:
					if memRoot(x.Map) == r {
						bad = p.Rel(x.Pos())
					}
				}
			}
		}
	}
	c.Check(fn != nil && bad == "", rule, pkg+"."+recv+"."+name, p.Decl(f).Pos(), "the lookup stores nothing into its receiver", "the lookup caches something in its receiver (store at "+bad+"): "+why)
}

// sweepExhaustiveRule: the loops of fn end only by exhaustion (no return or
// break from inside a loop).
func sweepExhaustiveRule(c *Ctx, rule, pkg, recv, name, why string) {
	p := c.P
	f := c.fn(rule, pkg, recv, name)
	if f == nil {
		return
	}
	fn := p.SSAFunc(f)
	if fn == nil {
		c.Unknown(rule, pkg+"."+recv+"."+name, p.Decl(f).Pos(), "no SSA body")
		return
	}
	loops := loopsOf(fn)
	bad := ""
	for _, l := range loops {
		for b := range l.blocks {
			for _, s := range b.Succs {
				if l.blocks[s] || b == l.header || endsInPanic(s) {
					continue
				}
				// an exit edge from inside the body (not the header's own exhaustion test);
				// exits of an inner loop's header into the enclosing loop are fine
				inner := false
				for _, l2 := range loops {
					if l2 != l && l2.header == b && l.blocks[l2.header] {
						inner = true
					}
				}
				if !inner {
					bad = posOfBlock(fn, b)
				}
			}
		}
	}
	c.Check(len(loops) > 0 && bad == "", rule, pkg+"."+recv+"."+name, p.Decl(f).Pos(), "every loop runs to exhaustion", "a loop of the sweep can be left early ("+bad+"): "+why)
}

// uniqueNamesRule: a connector method that can be called more than once and adds
// a component under a name it chooses itself must make that name depend on
// something that changes from call to call (an index, a counter). A constant
// name gives two switches one name: they share ports by name and one engine
// handler, and the first flit that crosses between them is "sent back to its
// source" (or registration fails).
func uniqueNamesRule(c *Ctx, rule string) {
	p := c.P
	n := 0
	for _, fn := range p.SrcFuncs(func(pp string) bool { return strings.HasPrefix(pp, ModPath+"/noc/networking") }) {
		if fn.Signature.Recv() == nil || fn.Parent() != nil {
			continue
		}
		for _, b := range fn.Blocks {
			for _, in := range b.Instrs {
				call, ok := in.(ssa.CallInstruction)
				if !ok {
					continue
				}
				nm, pk := calleeNamePkg(call)
				if !strings.HasPrefix(nm, "AddSwitchWithName") || !strings.HasSuffix(pk, "/networkconnector") {
					continue
				}
				args := call.Common().Args
				if len(args) < 2 {
					continue
				}
				n++
				_, isConst := args[1].(*ssa.Const)
				// a name handed in by the caller is the caller's responsibility
				fromParam := false
				for y := range DataSlice(fn, args[1]) {
					if pv, isP := y.(*ssa.Parameter); isP && pv != fn.Params[0] {
						fromParam = true
					}
				}
				c.Check(!isConst || fromParam, rule, SSAFuncKey(fn)+"#"+nm, in.Pos(), "the component name varies from call to call",
					"the method adds a switch under a constant name: a second call creates a second switch with the same name, the two share ports by name and one engine handler, and traffic between them is misrouted (or registration with a simulation fails)")
			}
		}
	}
	c.Check(n >= 3, rule, "instances", 0, itoa(n)+" switch-naming call sites inspected", "fewer switch-naming call sites found than confirmed by hand")
}

// pipelineDepthRule: a queueing.Pipeline with zero stages accepts items and never
// releases them. A component that sizes a pipeline from a configuration field
// must treat the value 0 somewhere — bypass the pipeline (as the write-back cache
// does) or reject the configuration — otherwise a builder-accepted latency of 0
// yields a component that swallows every request without an error.
func pipelineDepthRule(c *Ctx, rule string, pred func(string) bool, floor int) {
	p := c.P
	n := 0
	byPkg := map[string][]*ssa.Function{}
	for _, fn := range p.SrcFuncs(pred) {
		byPkg[pkgOfFn(fn)] = append(byPkg[pkgOfFn(fn)], fn)
	}
	for _, fn := range p.SrcFuncs(pred) {
		for _, b := range fn.Blocks {
			for _, in := range b.Instrs {
				call, ok := in.(*ssa.Call)
				if !ok {
					continue
				}
				nm, pk := calleeNamePkg(call)
				if pk != ModPath+"/queueing" || !strings.HasPrefix(nm, "NewPipeline") || len(call.Common().Args) < 2 {
					continue
				}
				// the depth is a configuration field, or a product of configuration fields
				var factors []*types.Var
				var collect func(v ssa.Value)
				collect = func(v ssa.Value) {
					switch a := stripConv(v).(type) {
					case *ssa.UnOp:
						if f := FieldOf(a.X); f != nil {
							factors = append(factors, f)
						}
					case *ssa.Field:
						if f := FieldOf(a); f != nil {
							factors = append(factors, f)
						}
					case *ssa.BinOp:
						if a.Op == token.MUL {
							collect(a.X)
							collect(a.Y)
						}
					}
				}
				collect(call.Common().Args[1])
				for _, depthF := range factors {
					if depthF.Pkg() == nil || depthF.Pkg().Path() != pkgOfFn(fn) {
						continue
					}
					n++
					handled := false
					for _, g := range byPkg[pkgOfFn(fn)] {
						for _, b2 := range g.Blocks {
							for _, in2 := range b2.Instrs {
								bo, isBO := in2.(*ssa.BinOp)
								if !isBO {
									continue
								}
								switch bo.Op {
								case token.EQL, token.NEQ, token.LSS, token.LEQ, token.GTR, token.GEQ:
								default:
									continue
								}
								for _, pair := range [][2]ssa.Value{{bo.X, bo.Y}, {bo.Y, bo.X}} {
									cst, isC := pair[1].(*ssa.Const)
									if !isC || !(constIs(cst, "0") || constIs(cst, "1")) {
										continue
									}
									if u, isU := stripConv(pair[0]).(*ssa.UnOp); isU {
										if f := FieldOf(u.X); f != nil && sameObj(f, depthF) {
											handled = true
										}
									}
									if fv, isF := stripConv(pair[0]).(*ssa.Field); isF {
										if f := FieldOf(fv); f != nil && sameObj(f, depthF) {
											handled = true
										}
									}
								}
							}
						}
					}
					c.Check(handled, rule, SSAFuncKey(fn)+"#NewPipeline("+depthF.Name()+")", in.Pos(), "the configuration value 0 is treated somewhere in the package",
						"a pipeline is sized from "+depthF.Name()+" and no code in the package compares that field with 0: the builder accepts 0, a zero-stage pipeline accepts items and never releases them, and every request handed to it is swallowed without an error")
				}
			}
		}
	}
	c.Check(n >= floor, rule, "instances", 0, itoa(n)+" pipelines sized from configuration inspected", "fewer configuration-sized pipelines found than confirmed by hand")
}

// registerCollisionRule: the codec's wire tag (import path + type name) is not
// injective — two function-local types with one identifier in one package share
// it. Register must notice that a tag is already bound to a different type;
// silently overwriting the binding makes a saved value of the first type come
// back as the second (fields that do not exist there are dropped) with no error.
func registerCollisionRule(c *Ctx, rule string) {
	p := c.P
	f := c.fn(rule, "internal/codec", "Registry", "Register")
	if f == nil {
		return
	}
	fn := p.SSAFunc(f)
	if fn == nil {
		c.Unknown(rule, "internal/codec.Registry.Register", p.Decl(f).Pos(), "no SSA body")
		return
	}
	nUpd, guarded := 0, true
	for _, b := range fn.Blocks {
		for _, in := range b.Instrs {
			mu, ok := in.(*ssa.MapUpdate)
			if !ok {
				continue
			}
			nUpd++
			// a comma-ok lookup on the same map must dominate the update and decide a branch
			found := false
			for _, b2 := range fn.Blocks {
				for _, in2 := range b2.Instrs {
					lk, isLk := in2.(*ssa.Lookup)
					if !isLk || !lk.CommaOk || !InstrDominates(lk, mu) {
						continue
					}
					if VKey(lk.X) != VKey(mu.Map) {
						continue
					}
					for _, ref := range *lk.Referrers() {
						if ex, isEx := ref.(*ssa.Extract); isEx {
							for _, r2 := range *ex.Referrers() {
								switch r2.(type) {
								case *ssa.If, *ssa.BinOp:
									found = true
								}
							}
						}
					}
				}
			}
			if !found {
				guarded = false
			}
		}
	}
	c.Check(nUpd >= 1 && guarded, rule, "internal/codec.Registry.Register", p.Decl(f).Pos(), "an existing binding of the tag is looked at before it is replaced",
		"Register binds the wire tag to the type without looking at an existing binding: two different types with the same tag (function-local types with one identifier in one package) overwrite each other silently, and a saved value of one is restored as the other")
}

// divisorConfigRule: a configuration field used as a divisor (or as the stride
// that turns a byte count into a number of pieces) must be compared with 0 (or 1)
// somewhere in its package: the builders accept any integer, a zero divisor
// panics on the first message, and a negative one yields zero pieces — the
// message is taken from the device and nothing is sent.
func divisorConfigRule(c *Ctx, rule string, pred func(string) bool, floor int) {
	p := c.P
	byPkg := map[string][]*ssa.Function{}
	for _, fn := range p.SrcFuncs(pred) {
		byPkg[pkgOfFn(fn)] = append(byPkg[pkgOfFn(fn)], fn)
	}
	seen := map[*types.Var]bool{}
	n := 0
	for _, fn := range p.SrcFuncs(pred) {
		for _, b := range fn.Blocks {
			for _, in := range b.Instrs {
				bo, ok := in.(*ssa.BinOp)
				if !ok || (bo.Op != token.QUO && bo.Op != token.REM) {
					continue
				}
				var f *types.Var
				switch y := stripConv(bo.Y).(type) {
				case *ssa.UnOp:
					f = FieldOf(y.X)
				case *ssa.Field:
					f = FieldOf(y)
				}
				if f == nil || f.Pkg() == nil || f.Pkg().Path() != pkgOfFn(fn) || seen[f] {
					continue
				}
				if bt, isB := f.Type().Underlying().(*types.Basic); !isB || bt.Info()&types.IsInteger == 0 {
					continue
				}
				// only fields of the package's Spec
				if sp := p.LookupType(strings.TrimPrefix(pkgOfFn(fn), ModPath+"/"), "Spec"); sp != nil {
					st, _ := sp.Type().Underlying().(*types.Struct)
					isSpec := false
					for i := 0; st != nil && i < st.NumFields(); i++ {
						if st.Field(i) == f {
							isSpec = true
						}
					}
					if !isSpec {
						continue
					}
				} else {
					continue
				}
				seen[f] = true
				n++
				handled := false
				for _, g := range byPkg[pkgOfFn(fn)] {
					for _, b2 := range g.Blocks {
						for _, in2 := range b2.Instrs {
							cmp, isCmp := in2.(*ssa.BinOp)
							if !isCmp {
								continue
							}
							switch cmp.Op {
							case token.EQL, token.NEQ, token.LSS, token.LEQ, token.GTR, token.GEQ:
							default:
								continue
							}
							for _, pair := range [][2]ssa.Value{{cmp.X, cmp.Y}, {cmp.Y, cmp.X}} {
								if !(constIs(pair[1], "0") || constIs(pair[1], "1")) {
									continue
								}
								switch y := stripConv(pair[0]).(type) {
								case *ssa.UnOp:
									if g2 := FieldOf(y.X); g2 != nil && sameObj(g2, f) {
										handled = true
									}
								case *ssa.Field:
									if g2 := FieldOf(y); g2 != nil && sameObj(g2, f) {
										handled = true
									}
								}
							}
						}
					}
				}
				c.Check(handled, rule, strings.TrimPrefix(pkgOfFn(fn), ModPath+"/")+":Spec."+f.Name(), in.Pos(), "the divisor is checked against 0 somewhere in the package",
					"the configuration field "+f.Name()+" is used as a divisor and is never compared with 0 in its package: the builder accepts 0 (a division by zero on the first use) and negative values (zero pieces: the message is consumed and nothing is sent)")
			}
		}
	}
	c.Check(n >= floor, rule, "instances", 0, itoa(n)+" configuration fields used as divisors inspected", "fewer divisor fields found than confirmed by hand")
}

// unmarshalCapacityRule: a Buffer decoded from JSON must satisfy the invariant
// every other way of filling it enforces (Restore panics, the port checkpoint
// returns an error): no more elements than capacity. UnmarshalJSON compares the
// decoded element count with the decoded capacity and refuses the document.
func unmarshalCapacityRule(c *Ctx, rule string) {
	p := c.P
	f := c.fn(rule, "queueing", "Buffer", "UnmarshalJSON")
	if f == nil {
		return
	}
	fn := p.SSAFunc(f)
	if fn == nil {
		c.Unknown(rule, "queueing.Buffer.UnmarshalJSON", p.Decl(f).Pos(), "no SSA body")
		return
	}
	checked := false
	for _, b := range fn.Blocks {
		for _, in := range b.Instrs {
			bo, ok := in.(*ssa.BinOp)
			if !ok {
				continue
			}
			switch bo.Op {
			case token.GTR, token.LSS, token.GEQ, token.LEQ:
			default:
				continue
			}
			isLen := func(v ssa.Value) bool {
				call, isCall := v.(*ssa.Call)
				if !isCall {
					return false
				}
				bi, isB := call.Call.Value.(*ssa.Builtin)
				return isB && bi.Name() == "len"
			}
			readsCap := func(v ssa.Value) bool {
				for y := range DataSlice(fn, v) {
					if g := FieldOf(y); g != nil && g.Name() == "Cap" {
						return true
					}
				}
				return false
			}
			if (isLen(bo.X) && readsCap(bo.Y)) || (isLen(bo.Y) && readsCap(bo.X)) {
				checked = true
			}
		}
	}
	c.Check(checked, rule, "queueing.Buffer.UnmarshalJSON", p.Decl(f).Pos(), "the decoded element count is compared with the decoded capacity",
		"UnmarshalJSON installs whatever the document says: a buffer with more elements than its capacity is accepted silently, although Restore and the port checkpoint reject exactly that (a corrupted or hand-edited checkpoint yields a buffer that violates its bound)")
}

// gzipDrainedRule: archive/tar stops reading at its end-of-archive marker, so
// the gzip stream underneath is never read to its end and compress/gzip never
// gets to compare the CRC-32/size trailer: a corrupted archive whose tar framing
// survives is loaded without error, with different contents. After the tar loop
// the reader must be drained (io.Copy(io.Discard, gz) / io.ReadAll(gz)) and the
// error returned.
func gzipDrainedRule(c *Ctx, rule string) {
	p := c.P
	f := c.fn(rule, "simulation", "", "readArchiveStream")
	if f == nil {
		return
	}
	fn := p.SSAFunc(f)
	if fn == nil {
		c.Unknown(rule, "simulation.readArchiveStream", p.Decl(f).Pos(), "no SSA body")
		return
	}
	var gz ssa.Value
	for _, b := range fn.Blocks {
		for _, in := range b.Instrs {
			if ex, ok := in.(*ssa.Extract); ok && ex.Index == 0 {
				if call, isCall := ex.Tuple.(*ssa.Call); isCall {
					if nm, pk := calleeNamePkg(call); nm == "NewReader" && pk == "compress/gzip" {
						gz = ex
					}
				}
			}
		}
	}
	loops := loopsOf(fn)
	drained := false
	if gz != nil {
		for _, b := range fn.Blocks {
			if innermost(loops, b) != nil {
				continue
			}
			for _, in := range b.Instrs {
				call, ok := in.(*ssa.Call)
				if !ok {
					continue
				}
				nm, pk := calleeNamePkg(call)
				if pk != "io" || (nm != "Copy" && nm != "ReadAll" && nm != "CopyBuffer") {
					continue
				}
				for _, a := range call.Call.Args {
					if a == gz {
						drained = true
					}
					if mi, isMI := a.(*ssa.MakeInterface); isMI && mi.X == gz {
						drained = true
					}
				}
			}
		}
	}
	c.Check(gz != nil && drained, rule, "simulation.readArchiveStream", p.Decl(f).Pos(), "the gzip stream is read to its end after the tar entries, so its checksum is verified",
		"readArchiveStream stops at the tar end-of-archive marker and never reads the gzip stream to its end: compress/gzip verifies the CRC-32/size trailer only at EOF, so a corrupted archive whose tar framing survives loads without error and restores different contents")
}

// boundedDecodedAllocRule: a count read from the checkpoint stream (binary.Read
// into a local) must be compared with a bound before it sizes a map or slice: a
// 24-byte payload claiming 2^38 units makes make(map, n) exhaust memory before a
// single record is read.
func boundedDecodedAllocRule(c *Ctx, rule string, fns []*ssa.Function) {
	n := 0
	for _, fn := range fns {
		// cells filled by encoding/binary.Read
		decoded := map[ssa.Value]bool{}
		for _, b := range fn.Blocks {
			for _, in := range b.Instrs {
				if call, ok := in.(ssa.CallInstruction); ok {
					if nm, pk := calleeNamePkg(call); nm == "Read" && pk == "encoding/binary" && len(call.Common().Args) == 3 {
						a := call.Common().Args[2]
						if mi, isMI := a.(*ssa.MakeInterface); isMI {
							a = mi.X
						}
						decoded[a] = true
					}
				}
			}
		}
		// ... and results of same-package helpers that read the stream (readUint64)
		for _, b := range fn.Blocks {
			for _, in := range b.Instrs {
				if call, ok := in.(*ssa.Call); ok {
					if sc := call.Common().StaticCallee(); sc != nil && sc.Pkg == fn.Pkg && readsStream(sc) {
						decoded[call] = true
					}
				}
			}
		}
		if len(decoded) == 0 {
			continue
		}
		fromDecoded := func(v ssa.Value) ssa.Value {
			for y := range DataSlice(fn, v) {
				if u, isU := y.(*ssa.UnOp); isU && decoded[u.X] {
					return u.X
				}
				if decoded[y] {
					return y
				}
				if ex, isEx := y.(*ssa.Extract); isEx && decoded[ex.Tuple] {
					return ex.Tuple
				}
			}
			return nil
		}
		for _, b := range fn.Blocks {
			for _, in := range b.Instrs {
				var sizes []ssa.Value
				switch x := in.(type) {
				case *ssa.MakeMap:
					if x.Reserve != nil {
						sizes = append(sizes, x.Reserve)
					}
				case *ssa.MakeSlice:
					sizes = append(sizes, x.Len, x.Cap)
				}
				for _, sz := range sizes {
					cell := fromDecoded(sz)
					if cell == nil {
						continue
					}
					n++
					// a dominating comparison that reads the same cell
					bounded := false
					for _, fact := range FactsAt(b) {
						if bo, isBO := fact.Cond.(*ssa.BinOp); isBO {
							switch bo.Op {
							case token.GTR, token.GEQ, token.LSS, token.LEQ:
								if fromDecoded(bo.X) == cell || fromDecoded(bo.Y) == cell {
									bounded = true
								}
							}
						}
					}
					c.Check(bounded, rule, SSAFuncKey(fn)+"#alloc@"+itoa(n), in.Pos(), "the decoded count is bounded before it sizes an allocation",
						"a count read from the checkpoint stream sizes a map/slice without having been compared with any bound: a few corrupted bytes make the load allocate gigabytes (or die with out-of-memory, which cannot be recovered) instead of returning an error")
				}
			}
		}
	}
	c.Note("%s: %d allocations sized from decoded counts inspected", rule, n)
}

// readsStream: h decodes from a stream (it calls encoding/binary.Read or
// io.ReadFull directly).
func readsStream(h *ssa.Function) bool {
	for _, b := range h.Blocks {
		for _, in := range b.Instrs {
			if call, ok := in.(ssa.CallInstruction); ok {
				nm, pk := calleeNamePkg(call)
				if (pk == "encoding/binary" && nm == "Read") || (pk == "io" && nm == "ReadFull") {
					return true
				}
			}
		}
	}
	return false
}

// wrapperResetRule: a connector wrapper (nvlink, pcie, mesh) numbers and names
// what it adds from counters and tables of its own. CreateNetwork starts a new
// network on the same wrapper; every field of the wrapper that the Add*/PlugIn*
// methods grow must be re-initialised there, or the second network continues the
// first one's numbering (duplicate switch names, device IDs that start at 3) and
// its tables differ from a fresh wrapper's.
func wrapperResetRule(c *Ctx, rule string, rels []string) {
	p := c.P
	n := 0
	for _, rel := range rels {
		var create *ssa.Function
		fns := p.SrcFuncs(func(pp string) bool { return pp == pkgPath(rel) })
		for _, fn := range fns {
			if fn.Name() == "CreateNetwork" && fn.Signature.Recv() != nil && strings.HasSuffix(fn.Signature.Recv().Type().String(), ".Connector") {
				create = fn
			}
		}
		if create == nil {
			continue
		}
		reset := map[*types.Var]bool{}
		storesAndDeletes(create, 1, map[*ssa.Function]bool{}, reset)
		// fields grown by the other methods of the wrapper
		grown := map[*types.Var]ssa.Instruction{}
		for _, fn := range fns {
			if fn == create || fn.Signature.Recv() == nil || !types.Identical(fn.Signature.Recv().Type(), create.Signature.Recv().Type()) || len(fn.Params) == 0 {
				continue
			}
			if strings.HasPrefix(fn.Name(), "With") || strings.HasPrefix(fn.Name(), "New") {
				continue
			}
			recv := ssa.Value(fn.Params[0])
			for _, b := range fn.Blocks {
				for _, in := range b.Instrs {
					switch x := in.(type) {
					case *ssa.Store:
						fa, isFA := x.Addr.(*ssa.FieldAddr)
						if !isFA || fa.X != recv {
							continue
						}
						f := FieldOf(fa)
						if f == nil {
							continue
						}
						if isGrowth(x) {
							grown[f] = in
						}
						if bo, isBO := x.Val.(*ssa.BinOp); isBO && bo.Op == token.ADD && loadOfKey(bo.X, VKey(x.Addr)) {
							grown[f] = in
						}
					case *ssa.MapUpdate:
						if u, isU := x.Map.(*ssa.UnOp); isU {
							if fa, isFA := u.X.(*ssa.FieldAddr); isFA && fa.X == recv {
								if f := FieldOf(fa); f != nil {
									grown[f] = in
								}
							}
						}
					}
				}
			}
		}
		var names []string
		byName := map[string]*types.Var{}
		for f := range grown {
			names = append(names, f.Name())
			byName[f.Name()] = f
		}
		sort.Strings(names)
		for _, nm := range names {
			f := byName[nm]
			n++
			c.Check(reset[f], rule, rel+".Connector."+nm, grown[f].Pos(), "re-initialised by CreateNetwork",
				"the wrapper's "+nm+" is grown by its Add*/PlugIn* methods ("+p.Rel(grown[f].Pos())+") but CreateNetwork does not re-initialise it: a second network built on the same wrapper continues the first one's numbering and naming, so its switches, device IDs and routing tables differ from those of a fresh wrapper (and names can repeat)")
		}
	}
	c.Check(n >= 3, rule, "instances", 0, itoa(n)+" wrapper fields inspected", "fewer wrapper fields found than confirmed by hand")
}

// tracerLockedRule: a tracer object is attached to any number of components, and
// the parallel engine runs the handlers of one instant in separate goroutines.
// Every method of a tracer type that touches the tracer's own maps or lists must
// therefore hold the tracer's mutex — all of the package's tracers do, bar the one
// this rule was written for.
func tracerLockedRule(c *Ctx, rule string, floor int) {
	p := c.P
	n := 0
	for _, fn := range p.SrcFuncs(func(pp string) bool { return pp == pkgPath("tracing") }) {
		rv := fn.Signature.Recv()
		if rv == nil || fn.Parent() != nil || len(fn.Params) == 0 || !ast.IsExported(fn.Name()) {
			continue
		}
		tn := strings.TrimPrefix(rv.Type().String(), "*")
		tn = tn[strings.LastIndex(tn, ".")+1:]
		if !map[string]bool{"TotalTimeTracer": true, "AverageTimeTracer": true, "BusyTimeTracer": true, "TagCountTracer": true}[tn] {
			continue // the four aggregate tracers of this property
		}
		recv := ssa.Value(fn.Params[0])
		touches := false
		locks := false
		for _, b := range fn.Blocks {
			for _, in := range b.Instrs {
				switch x := in.(type) {
				case *ssa.MapUpdate:
					if memRoot(x.Map) == recv {
						touches = true
					}
				case *ssa.Lookup:
					if memRoot(x.X) == recv {
						if _, isMap := x.X.Type().Underlying().(*types.Map); isMap {
							touches = true
						}
					}
				case ssa.CallInstruction:
					nm, pk := calleeNamePkg(x)
					if pk == "sync" && (nm == "Lock" || nm == "RLock") && len(x.Common().Args) > 0 && memRoot(x.Common().Args[0]) == recv {
						locks = true
					}
					if bi, isB := x.Common().Value.(*ssa.Builtin); isB && bi.Name() == "delete" && len(x.Common().Args) > 0 && memRoot(x.Common().Args[0]) == recv {
						touches = true
					}
					if pk == "container/list" && len(x.Common().Args) > 0 && memRoot(x.Common().Args[0]) == recv {
						touches = true
					}
				}
			}
		}
		if !touches {
			continue
		}
		n++
		c.Check(locks, rule, SSAFuncKey(fn), fn.Pos(), "the tracer's tables are touched under its mutex",
			"the method reads or writes the tracer's own map/list without taking a mutex of the tracer: one tracer attached to several components receives concurrent calls under the parallel engine (same-instant handlers run in separate goroutines), which corrupts the table (fatal error: concurrent map writes) or the result")
	}
	c.Check(n >= floor, rule, "instances", 0, itoa(n)+" tracer methods that touch their tables inspected", "fewer tracer methods found than confirmed by hand")
}

// pipelineUnmarshalRule: a Pipeline decoded from JSON must lie inside its own
// geometry: Tick indexes its occupancy table by (stage, lane), so a lane beyond
// the width panics later, a stage beyond the depth never leaves, and two items in
// one slot break the one-item-per-slot invariant. UnmarshalJSON compares every
// decoded item's lane with the width and its stage with the depth and refuses
// the document (as Buffer.UnmarshalJSON refuses more elements than capacity).
func pipelineUnmarshalRule(c *Ctx, rule string) {
	p := c.P
	f := c.fn(rule, "queueing", "Pipeline", "UnmarshalJSON")
	if f == nil {
		return
	}
	fn := p.SSAFunc(f)
	if fn == nil {
		c.Unknown(rule, "queueing.Pipeline.UnmarshalJSON", p.Decl(f).Pos(), "no SSA body")
		return
	}
	reads := func(v ssa.Value, name string) bool {
		for y := range DataSlice(fn, v) {
			if g := FieldOf(y); g != nil && g.Name() == name {
				return true
			}
		}
		return false
	}
	lane, stage := false, false
	for _, b := range fn.Blocks {
		for _, in := range b.Instrs {
			bo, ok := in.(*ssa.BinOp)
			if !ok {
				continue
			}
			switch bo.Op {
			case token.GTR, token.LSS, token.GEQ, token.LEQ:
			default:
				continue
			}
			if (reads(bo.X, "Lane") && reads(bo.Y, "Width")) || (reads(bo.Y, "Lane") && reads(bo.X, "Width")) {
				lane = true
			}
			if (reads(bo.X, "Stage") && reads(bo.Y, "NumStages")) || (reads(bo.Y, "Stage") && reads(bo.X, "NumStages")) {
				stage = true
			}
		}
	}
	c.Check(lane && stage, rule, "queueing.Pipeline.UnmarshalJSON", p.Decl(f).Pos(), "every decoded item's lane and stage are compared with the decoded geometry",
		"UnmarshalJSON installs whatever the document says: an item whose lane is beyond the width makes the next Tick index out of range, one whose stage is beyond the depth never leaves the pipeline, and two items may share a slot — a corrupted checkpoint is accepted and the component fails (or strands a request) later")
}

// allowedKindsRule: the recorder accepts a table when every field's kind passes
// isAllowedType, and binds the values with database/sql at flush time. A kind
// that passes the first test but cannot be bound (complex numbers) is accepted at
// CreateTable/InsertData and panics at Flush/Close: the batch is never stored.
// The accepted kinds must be a subset of what the driver's default converter
// binds: bool, the integer kinds, the float kinds and string.
func allowedKindsRule(c *Ctx, rule string) {
	p := c.P
	f := c.fn(rule, "datarecording", "sqliteWriter", "isAllowedType")
	if f == nil {
		return
	}
	fd := p.Decl(f)
	bindable := map[string]bool{"Bool": true, "Int": true, "Int8": true, "Int16": true, "Int32": true, "Int64": true, "Uint": true, "Uint8": true,
		"Uint16": true, "Uint32": true, "Uint64": true, "Float32": true, "Float64": true, "String": true}
	bad := ""
	n := 0
	ast.Inspect(fd.Body, func(nd ast.Node) bool {
		cc, ok := nd.(*ast.CaseClause)
		if !ok {
			return true
		}
		accepts := false
		for _, st := range cc.Body {
			if rs, isRet := st.(*ast.ReturnStmt); isRet && len(rs.Results) == 1 {
				if id, isID := rs.Results[0].(*ast.Ident); isID && id.Name == "true" {
					accepts = true
				}
			}
		}
		if !accepts {
			return true
		}
		for _, e := range cc.List {
			if se, isSel := e.(*ast.SelectorExpr); isSel {
				n++
				if !bindable[se.Sel.Name] {
					bad += se.Sel.Name + " "
				}
			}
		}
		return true
	})
	c.Check(n >= 10 && bad == "", rule, "datarecording.sqliteWriter.isAllowedType", fd.Pos(), "every accepted kind can be bound by the SQL driver",
		"isAllowedType accepts the kind(s) "+bad+"which database/sql cannot bind: a table with such a field is accepted by CreateTable and InsertData, and Flush/Close panic (\"unsupported type\") — the buffered entries are never stored")
}
