package main

import (
	"strings"

	"golang.org/x/tools/go/ssa"
)

func init() {
	register("C03", PropertyMeta{
		Technique: "determinism-source enumeration over the runtime call-graph closure: map-iteration classification, goroutine/select/wall-clock/random/environment call audit",
		Explanation: "Decides: (1) every `range` over a map in library code is order-insensitive — its body only performs keyed stores, deletes or commutative accumulation, or collects entries into a slice that is sorted before use — or is one of the individually reviewed loops (each with its reason frozen in the checker); a loop that returns, breaks, appends without sorting, sends, schedules or calls per entry is reported; " +
			"(2) no function in the runtime closure (everything reachable from Tick/Handle/Process/Notify* of library types, within the engine, messaging, modeling, queueing, memory and network packages) starts a goroutine, selects over channels, or calls a wall-clock, random, environment or host-derived-id function (allow-list: the parallel engine); " +
			"(3) the same for every SaveCheckpoint closure, so that saved bytes cannot depend on them; (4) no entry of the process-global tracing receiver registry outlives the command that minted it (live-release-id, mint-release as in C32): a leaked entry is found by a later run in the same process and shifts every ID drawn after it. (5) comparator-sound: no ordering function handed to a sort is an unsigned difference (int(a-b) never reports less, the sort is a no-op and map order leaks).",
		NotDecided:  "determinism of user code and of the Go runtime; equality of whole traces across runs.",
		Assumptions: []string{"the module call graph (static calls, interface calls resolved over module types, function values) over-approximates runtime reachability"},
	}, runC03)
}

// corePkg selects the packages whose runtime code decides simulation results.
func corePkg(pp string) bool {
	if clientPkg(pp) {
		return false
	}
	rel := strings.TrimPrefix(pp, ModPath+"/")
	for _, pre := range []string{"timing", "messaging", "modeling", "queueing", "hooking", "naming", "internal/codec", "mem", "noc"} {
		if rel == pre || strings.HasPrefix(rel, pre+"/") {
			return true
		}
	}
	return false
}

func mapRangeRule(c *Ctx, rule string, pred func(string) bool, floor int) {
	p := c.P
	sites := p.mapRangeSites(pred)
	for _, s := range sites {
		construct := s.FnKey + "#range(" + s.MapExpr + ")"
		switch s.Class {
		case "sorted-keys", "commutative":
			c.Ok(rule, construct, s.Stmt.Pos(), s.Class+": "+s.Why)
		default:
			if why := reviewedMapRanges[s.FnKey]; why != "" {
				c.Ok(rule, construct, s.Stmt.Pos(), "reviewed: "+why)
			} else {
				c.Fail(rule, construct, s.Stmt.Pos(), "iteration over a map whose effect depends on Go's randomised iteration order: "+s.Why+
					"; two runs of the same simulation can diverge here (sort the keys first, or make the body order-insensitive)")
			}
		}
	}
	c.Floor(rule, floor)
}

func nondetRule(c *Ctx, rule string, fns map[*ssa.Function]*ssa.Function, pred func(string) bool) int {
	p := c.P
	n := 0
	for fn := range fns {
		root := fn
		for root.Parent() != nil {
			root = root.Parent()
		}
		if root.Pkg == nil || !pred(root.Pkg.Pkg.Path()) {
			continue
		}
		n++
		file := p.DeclFile(fn)
		for _, s := range nondetIn(fn) {
			if file == "timing/parallelengine.go" {
				continue // the parallel engine is outside "serial simulations"
			}
			c.Fail(rule, SSAFuncKey(fn)+"#"+s.What, s.Pos, "runtime code "+s.What+"; reached via "+PathTo(fns, fn))
		}
	}
	return n
}

func runC03(c *Ctx) {
	p := c.P
	mapRangeRule(c, "map-iteration", func(pp string) bool {
		return corePkg(pp) || strings.HasSuffix(pp, "/simulation") || strings.HasSuffix(pp, "/tracing") || strings.HasSuffix(pp, "/datarecording")
	}, 15)
	reach := p.RuntimeClosure(func(pp string) bool { return !clientPkg(pp) })
	n := nondetRule(c, "runtime-nondeterminism", reach, corePkg)
	c.Check(n >= 500, "runtime-nondeterminism", "<closure>", 0, "runtime closure inspected", "the runtime closure has shrunk below the size confirmed by hand: the call graph no longer sees the library's runtime code")
	c.Note("runtime closure: %d functions in core packages inspected for goroutines, select, wall clock, random, environment", n)
	// SaveCheckpoint closures
	var roots []*ssa.Function
	for _, fn := range p.SrcFuncs(func(pp string) bool { return !clientPkg(pp) }) {
		if fn.Name() == "SaveCheckpoint" && fn.Parent() == nil {
			roots = append(roots, fn)
		}
	}
	sv := p.ModCG().Reach(roots, nil)
	m := nondetRule(c, "save-nondeterminism", sv, func(pp string) bool { return !clientPkg(pp) })
	receiverReleaseRules(c, 1, 10)
	comparatorSoundRule(c, "comparator-sound", func(pp string) bool { return !clientPkg(pp) }, 10)
	c.Check(len(roots) >= 8 && m >= len(roots), "save-nondeterminism", "<closure>", 0, "every SaveCheckpoint closure inspected", "fewer SaveCheckpoint implementations found than confirmed by hand")
}
