package main

import (
	"encoding/json"
	"fmt"
	"os"
	"path/filepath"
	"sort"
)

// naReasons lists the properties that are not claimed, with the reason.
var naReasons = map[string]string{
	"C42": "pure integer arithmetic over all frequencies and times (ThisTick/NextTick/NCyclesLater/Cycle): nothing in the statement is visible in the shape of the code except a frozen-expression match, which would alarm on behaviour-preserving rewrites; no sound static argument is in reach without a solver (a different technique family).",
}

const pendingReason = "no static rule has been built for this property yet in this version of the checker; not claimed."

func writeManifest(verif string) error {
	type level struct {
		Category  string `json:"category"`
		Text      string `json:"text"`
		DesignRef string `json:"design_ref"`
	}
	type check struct {
		PropertyID   string `json:"property_id"`
		QuickCmd     string `json:"quick_cmd"`
		ThoroughCmd  string `json:"thorough_cmd"`
		EvidenceFile string `json:"evidence_file"`
		ReplayTmpl   string `json:"replay_cmd_template"`
		Engine       string `json:"engine"`
		Level        level  `json:"level_claimed"`
		LevelNote    string `json:"level_note"`
		Technique    string `json:"technique"`
	}
	type na struct {
		PropertyID string `json:"property_id"`
		Reason     string `json:"reason"`
	}
	var checks []check
	ids := sortedIDs()
	claimed := map[string]bool{}
	for _, id := range ids {
		m := registry[id].Meta
		claimed[id] = true
		checks = append(checks, check{
			PropertyID:   id,
			QuickCmd:     "./run.sh " + id + " quick",
			ThoroughCmd:  "./run.sh " + id + " thorough",
			EvidenceFile: "evidence/" + id + ".json",
			ReplayTmpl:   "cat {path}",
			Engine:       "akitacheck",
			Level: level{
				Category: "other",
				Text: "Static analysis of /repo's current source deciding structural necessary conditions of the property (not the behaviour itself). " + m.Explanation +
					" Not decided: " + m.NotDecided,
				DesignRef: "DESIGN.md section 4, " + id,
			},
			LevelNote: "Trusted base: go/types, go/packages, go/ssa and call graphs of golang.org/x/tools v0.50.0 under go1.26.8; the reference tables and frozen classifications in /verif/checker. " +
				"Every clause is a necessary condition whose breach breaks the stated behaviour; passing all clauses does not prove the behaviour.",
			Technique: "static analysis: " + m.Technique,
		})
	}
	var nas []na
	for i := 1; i <= 43; i++ {
		id := fmt.Sprintf("C%02d", i)
		if claimed[id] {
			continue
		}
		r, ok := naReasons[id]
		if !ok {
			r = pendingReason
		}
		nas = append(nas, na{id, r})
	}
	sort.Slice(nas, func(i, j int) bool { return nas[i].PropertyID < nas[j].PropertyID })
	var served []string
	served = append(served, ids...)
	m := map[string]any{
		"version":   1,
		"setup_cmd": "./setup.sh",
		"hooks": map[string]any{
			"guard":            "verif",
			"enable":           "none needed: the checker reads source only; no instrumentation is compiled into /repo",
			"baseline_off_cmd": "cd /repo && go test -mod=mod -vet=off -count=1 -timeout 25m ./...",
			"source_commits":   []string{},
			"add_only":         true,
		},
		"engines": []map[string]any{{
			"name": "akitacheck", "path": "checker/", "serves_properties": served,
			"kind_free_text": "repository-specific static analyser (typed syntax tree, SSA, call graph; decision-table extraction by abstract interpretation over orderings)",
		}},
		"checks":         checks,
		"not_applicable": nas,
		"notes":          "Family: static analysis. All claims are at level 'other' (structural necessary conditions). Genuine defects recorded in known_findings.json print KNOWN-FINDING lines and do not fail the check. See DESIGN.md.",
	}
	b, err := json.MarshalIndent(m, "", " ")
	if err != nil {
		return err
	}
	return os.WriteFile(filepath.Join(verif, "MANIFEST.json"), append(b, '\n'), 0o644)
}
