package main

// Hand-off discipline of queueing stages (SSA level).
//
// A stage moves an item from a source (a port, a buffer, a State slice) to a
// sink. "take" operations remove the item from the source, "put" operations
// place it in the sink. Within one loop iteration every take must be matched by a
// put on every path (no loss) and every put by a take (no duplication).

import (
	"go/token"
	"go/types"
	"strings"

	"golang.org/x/tools/go/ssa"
)

type loopInfo struct {
	header *ssa.BasicBlock
	blocks map[*ssa.BasicBlock]bool
	back   []*ssa.BasicBlock // predecessors of header inside the loop
}

func loopsOf(fn *ssa.Function) []*loopInfo {
	byHeader := map[*ssa.BasicBlock]*loopInfo{}
	var order []*loopInfo
	for _, b := range fn.Blocks {
		for _, s := range b.Succs {
			if !s.Dominates(b) {
				continue
			}
			l := byHeader[s]
			if l == nil {
				l = &loopInfo{header: s, blocks: map[*ssa.BasicBlock]bool{s: true}}
				byHeader[s] = l
				order = append(order, l)
			}
			l.back = append(l.back, b)
			work := []*ssa.BasicBlock{b}
			for len(work) > 0 {
				x := work[len(work)-1]
				work = work[:len(work)-1]
				if l.blocks[x] {
					continue
				}
				l.blocks[x] = true
				work = append(work, x.Preds...)
			}
		}
	}
	return order
}

// innermost returns the smallest loop containing b (nil when none).
func innermost(loops []*loopInfo, b *ssa.BasicBlock) *loopInfo {
	var best *loopInfo
	for _, l := range loops {
		if l.blocks[b] && (best == nil || len(l.blocks) < len(best.blocks)) {
			best = l
		}
	}
	return best
}

type xferOp struct {
	instr ssa.Instruction
	take  bool
	what  string
}

var takeNames = map[string]bool{"Pop": true, "RetrieveIncoming": true, "RetrieveOutgoing": true}
var putNames = map[string]bool{"PushTyped": true, "Push": true, "Accept": true, "Send": true, "Deliver": true}

func calleeNamePkg(call ssa.CallInstruction) (string, string) {
	cc := call.Common()
	if cc.IsInvoke() {
		if cc.Method.Pkg() != nil {
			return cc.Method.Name(), cc.Method.Pkg().Path()
		}
		return cc.Method.Name(), ""
	}
	if sc := cc.StaticCallee(); sc != nil {
		sc = origin(sc)
		if sc.Pkg != nil {
			return sc.Name(), sc.Pkg.Pkg.Path()
		}
		return sc.Name(), ""
	}
	return "", ""
}

// stateRooted: the address is reached from non-local memory (the component).
func stateRooted(addr ssa.Value) bool {
	_, local := memRoot(addr).(*ssa.Alloc)
	return !local
}

// sameLoc: v is a load of addr's location (same canonical key).
func loadOfKey(v ssa.Value, key string) bool {
	u, ok := v.(*ssa.UnOp)
	return ok && u.Op == token.MUL && VKey(u.X) == key
}

// counterPhis maps header phis that feed the low bound of a "X = X[n:]" store to that store.
func counterPhis(fn *ssa.Function) map[*ssa.Phi]*ssa.Store {
	out := map[*ssa.Phi]*ssa.Store{}
	for _, b := range fn.Blocks {
		for _, in := range b.Instrs {
			st, ok := in.(*ssa.Store)
			if !ok || !stateRooted(st.Addr) {
				continue
			}
			sl, ok := st.Val.(*ssa.Slice)
			if !ok || sl.Low == nil || sl.High != nil || !loadOfKey(sl.X, VKey(st.Addr)) {
				continue
			}
			if _, isC := sl.Low.(*ssa.Const); isC {
				continue
			}
			for _, ph := range phiRoots(sl.Low, map[ssa.Value]bool{}) {
				out[ph] = st
			}
		}
	}
	return out
}

// phiRoots returns the loop-header phis v may stand for (through nested phis).
func phiRoots(v ssa.Value, seen map[ssa.Value]bool) []*ssa.Phi {
	if seen[v] {
		return nil
	}
	seen[v] = true
	ph, ok := v.(*ssa.Phi)
	if !ok {
		return nil
	}
	isHeader := false
	for _, p := range ph.Block().Preds {
		if ph.Block().Dominates(p) {
			isHeader = true
		}
	}
	if isHeader {
		return []*ssa.Phi{ph}
	}
	var out []*ssa.Phi
	for _, e := range ph.Edges {
		out = append(out, phiRoots(e, seen)...)
	}
	return out
}

func xferOps(fn *ssa.Function) []xferOp {
	var out []xferOp
	counters := counterPhis(fn)
	for _, b := range fn.Blocks {
		for _, in := range b.Instrs {
			switch x := in.(type) {
			case ssa.CallInstruction:
				name, pkg := calleeNamePkg(x)
				if !strings.HasSuffix(pkg, "/messaging") && !strings.HasSuffix(pkg, "/queueing") {
					continue
				}
				if takeNames[name] {
					out = append(out, xferOp{in, true, name})
				} else if putNames[name] {
					out = append(out, xferOp{in, false, name})
				}
			case *ssa.BinOp:
				if x.Op == token.ADD {
					if ph, ok := x.X.(*ssa.Phi); ok {
						if _, isCounter := counters[ph]; isCounter {
							if c, isC := x.Y.(*ssa.Const); isC && c.Value != nil && c.Value.String() == "1" {
								out = append(out, xferOp{in, true, "count++ (consumed-prefix counter)"})
							}
						}
					}
				}
			case *ssa.Store:
				if !stateRooted(x.Addr) {
					continue
				}
				key := VKey(x.Addr)
				switch v := x.Val.(type) {
				case *ssa.Call:
					if bi, ok := v.Call.Value.(*ssa.Builtin); ok && bi.Name() == "append" && len(v.Call.Args) > 0 && loadOfKey(v.Call.Args[0], key) {
						out = append(out, xferOp{in, false, "append to " + shortKey(key)})
					}
				case *ssa.Slice:
					if c, isC := v.Low.(*ssa.Const); isC && v.High == nil && c.Value != nil && c.Value.String() == "1" && loadOfKey(v.X, key) {
						out = append(out, xferOp{in, true, "pop front of " + shortKey(key)})
					}
				case *ssa.BinOp:
					if c, isC := v.Y.(*ssa.Const); isC && v.Op == token.ADD && c.Value != nil && c.Value.String() == "1" && loadOfKey(v.X, key) {
						if _, isInt := x.Val.Type().Underlying().(*types.Basic); isInt {
							out = append(out, xferOp{in, false, "count into " + shortKey(key)})
						}
					}
				}
			}
		}
	}
	return out
}

func shortKey(k string) string {
	if i := strings.LastIndex(k, "."); i >= 0 {
		return k[i+1:]
	}
	return k
}

func endsInPanic(b *ssa.BasicBlock) bool {
	_, ok := b.Instrs[len(b.Instrs)-1].(*ssa.Panic)
	return ok
}

// pairedOps decides, for each op, whether a complementary op occurs on every
// path of the same iteration, before or after it.
func pairedOps(fn *ssa.Function, ops []xferOp) map[ssa.Instruction]bool {
	res := map[ssa.Instruction]bool{}
	loops := loopsOf(fn)
	idxOf := func(in ssa.Instruction) int {
		for i, x := range in.Block().Instrs {
			if x == in {
				return i
			}
		}
		return -1
	}
	for _, o := range ops {
		var comp []xferOp
		for _, q := range ops {
			if q.take != o.take {
				comp = append(comp, q)
			}
		}
		inBlock := map[*ssa.BasicBlock][]int{}
		for _, q := range comp {
			inBlock[q.instr.Block()] = append(inBlock[q.instr.Block()], idxOf(q.instr))
		}
		ob, oi := o.instr.Block(), idxOf(o.instr)
		l := innermost(loops, ob)
		region := func(b *ssa.BasicBlock) bool { return l == nil || l.blocks[b] }
		var header *ssa.BasicBlock
		if l != nil {
			header = l.header
		} else {
			header = fn.Blocks[0]
		}
		// forward must: a complementary op has happened since the iteration began
		seenIn := map[*ssa.BasicBlock]bool{}
		for _, b := range fn.Blocks {
			seenIn[b] = region(b) && b != header
		}
		for changed := true; changed; {
			changed = false
			for _, b := range fn.Blocks {
				if !region(b) || b == header {
					continue
				}
				v := true
				for _, p := range b.Preds {
					if !region(p) {
						continue
					}
					if !(seenIn[p] || len(inBlock[p]) > 0) {
						v = false
					}
				}
				if v != seenIn[b] {
					seenIn[b] = v
					changed = true
				}
			}
		}
		before := seenIn[ob]
		for _, i := range inBlock[ob] {
			if i < oi {
				before = true
			}
		}
		// backward must: a complementary op happens before the iteration ends
		aheadOut := map[*ssa.BasicBlock]bool{}
		for _, b := range fn.Blocks {
			aheadOut[b] = true
		}
		for changed := true; changed; {
			changed = false
			for _, b := range fn.Blocks {
				if !region(b) {
					continue
				}
				v := true
				if len(b.Succs) == 0 {
					v = endsInPanic(b)
				}
				for _, s := range b.Succs {
					if s == header || !region(s) {
						v = false
						continue
					}
					if !(len(inBlock[s]) > 0 || aheadOut[s]) {
						v = false
					}
				}
				if v != aheadOut[b] {
					aheadOut[b] = v
					changed = true
				}
			}
		}
		after := aheadOut[ob]
		for _, i := range inBlock[ob] {
			if i > oi {
				after = true
			}
		}
		res[o.instr] = before || after
	}
	return res
}

// backLeaves expands the values a header phi receives along back edges (through
// inner phis) to non-phi leaves or the phi itself.
func backLeaves(ph *ssa.Phi, l *loopInfo) []ssa.Value {
	var out []ssa.Value
	seen := map[ssa.Value]bool{}
	var walk func(v ssa.Value)
	walk = func(v ssa.Value) {
		if v == ph {
			out = append(out, v)
			return
		}
		if seen[v] {
			return
		}
		seen[v] = true
		if q, ok := v.(*ssa.Phi); ok && l.blocks[q.Block()] {
			for _, e := range q.Edges {
				walk(e)
			}
			return
		}
		out = append(out, v)
	}
	for i, p := range ph.Block().Preds {
		if l.blocks[p] {
			walk(ph.Edges[i])
		}
	}
	return out
}

func isIncOf(v ssa.Value, ph *ssa.Phi) bool {
	bo, ok := v.(*ssa.BinOp)
	if !ok || bo.Op != token.ADD || bo.X != ph {
		return false
	}
	c, isC := bo.Y.(*ssa.Const)
	return isC && c.Value != nil && c.Value.String() == "1"
}

// PrefixDrainProblem describes a violated consumed-prefix invariant.
type drainFinding struct {
	store *ssa.Store
	why   string
}

// prefixDrains checks every "X = X[n:]" whose n counts consumed elements of a
// loop over X: when the loop reads X[i] with a separate index i, i and n must
// advance together on every path to the next iteration.
func prefixDrains(fn *ssa.Function) (checked []*ssa.Store, bad []drainFinding) {
	loops := loopsOf(fn)
	for ph, st := range counterPhis(fn) {
		var l *loopInfo
		for _, x := range loops {
			if x.header == ph.Block() {
				l = x
			}
		}
		if l == nil {
			continue
		}
		checked = append(checked, st)
		key := VKey(st.Addr)
		// element reads of X inside the loop
		for b := range l.blocks {
			for _, in := range b.Instrs {
				ia, ok := in.(*ssa.IndexAddr)
				if !ok || !loadOfKey(ia.X, key) {
					continue
				}
				idxV := ia.Index
				if bo, isBO := idxV.(*ssa.BinOp); isBO && bo.Op == token.ADD && constIs(bo.Y, "1") {
					// "for i := range X": the index is the hidden counter plus one
					if hp, isPhi := bo.X.(*ssa.Phi); isPhi && len(phiRoots(hp, map[ssa.Value]bool{})) == 1 {
						idxV = hp
					}
				}
				idxRoots := phiRoots(idxV, map[ssa.Value]bool{})
				if len(idxRoots) == 0 {
					if ia.Index == ssa.Value(ph) {
						continue
					}
					bad = append(bad, drainFinding{st, "the loop reads " + shortKey(key) + " at an index that is neither the consumed-count nor a loop index"})
					continue
				}
				for _, ip := range idxRoots {
					if ip == ph {
						continue // indexed by the count itself: re-examines the same element
					}
					for _, leaf := range backLeaves(ip, l) {
						if !isIncOf(leaf, ip) {
							bad = append(bad, drainFinding{st, "the loop index over " + shortKey(key) + " does not advance by one on every iteration"})
						}
					}
					for _, leaf := range backLeaves(ph, l) {
						if !isIncOf(leaf, ph) {
							bad = append(bad, drainFinding{st, "an iteration can move on to the next element of " + shortKey(key) + " without counting the current one as consumed, yet afterwards the first <count> elements are dropped: an element that was skipped is discarded and one that was handed off stays queued and is handed off again"})
						}
					}
				}
			}
		}
	}
	return
}

// compactions checks every "X = X[:w]" that follows an in-place compaction loop
// over X: the loop must visit every element (no exit other than exhaustion that
// reaches the truncation) and an element that is not kept must have been handed
// off (appended to another State collection) on that path.
func compactions(fn *ssa.Function) (checked []*ssa.Store, bad []drainFinding) {
	loops := loopsOf(fn)
	for _, b := range fn.Blocks {
		for _, in := range b.Instrs {
			st, ok := in.(*ssa.Store)
			if !ok || !stateRooted(st.Addr) {
				continue
			}
			sl, ok := st.Val.(*ssa.Slice)
			if !ok || sl.High == nil || sl.Low != nil || !loadOfKey(sl.X, VKey(st.Addr)) {
				continue
			}
			if _, isC := sl.High.(*ssa.Const); isC {
				continue
			}
			roots := phiRoots(sl.High, map[ssa.Value]bool{})
			if len(roots) == 0 {
				continue
			}
			checked = append(checked, st)
			key := VKey(st.Addr)
			for _, w := range roots {
				var l *loopInfo
				for _, x := range loops {
					if x.header == w.Block() {
						l = x
					}
				}
				if l == nil {
					continue
				}
				// exits
				for blk := range l.blocks {
					for _, s := range blk.Succs {
						if l.blocks[s] || blk == l.header {
							continue
						}
						if endsInPanic(s) {
							continue
						}
						if s == st.Block() || Reaches(s.Instrs[0], st) {
							bad = append(bad, drainFinding{st, "the compaction loop over " + shortKey(key) + " can be left early (" + posOfBlock(fn, blk) + ") and the slice is then truncated to the kept count: the entries not yet visited — complete or still being assembled — are discarded"})
						}
					}
				}
				// unkept entries must be handed off
				for i, p := range w.Block().Preds {
					if !l.blocks[p] {
						continue
					}
					var check func(v ssa.Value, from *ssa.BasicBlock, seen map[ssa.Value]bool)
					check = func(v ssa.Value, from *ssa.BasicBlock, seen map[ssa.Value]bool) {
						if seen[v] {
							return
						}
						seen[v] = true
						if q, isPhi := v.(*ssa.Phi); isPhi && q != w && l.blocks[q.Block()] {
							for j, e := range q.Edges {
								check(e, q.Block().Preds[j], seen)
							}
							return
						}
						if v != ssa.Value(w) {
							return // advanced: the entry was kept
						}
						handed := false
						for blk := range l.blocks {
							for _, x := range blk.Instrs {
								s2, isSt := x.(*ssa.Store)
								if !isSt || !stateRooted(s2.Addr) || VKey(s2.Addr) == key {
									continue
								}
								if call, isCall := s2.Val.(*ssa.Call); isCall {
									if bi, isB := call.Call.Value.(*ssa.Builtin); isB && bi.Name() == "append" && (blk == from || blk.Dominates(from)) {
										handed = true
									}
								}
							}
						}
						if !handed {
							bad = append(bad, drainFinding{st, "an entry of " + shortKey(key) + " can be dropped from the compaction without being handed to another queue"})
						}
					}
					check(w.Edges[i], p, map[ssa.Value]bool{})
				}
			}
		}
	}
	return
}

func posOfBlock(fn *ssa.Function, b *ssa.BasicBlock) string {
	for i := len(b.Instrs) - 1; i >= 0; i-- {
		if b.Instrs[i].Pos().IsValid() {
			p := fn.Prog.Fset.Position(b.Instrs[i].Pos())
			return "after line " + itoa(p.Line)
		}
	}
	return "in block " + b.Comment
}

// loopIndexFindings: loops that index a slice with a loop-carried integer must
// step that integer by exactly one, in one direction, on every path to the next
// iteration; adjusting it inside the body makes the loop visit an element twice
// (or skip one).
func loopIndexFindings(fn *ssa.Function) (checked int, bad []string) {
	for _, l := range loopsOf(fn) {
		for _, in := range l.header.Instrs {
			ph, ok := in.(*ssa.Phi)
			if !ok {
				break
			}
			if b, isB := ph.Type().Underlying().(*types.Basic); !isB || b.Info()&types.IsInteger == 0 {
				continue
			}
			usedAsIndex := false
			for blk := range l.blocks {
				for _, x := range blk.Instrs {
					if ia, isIA := x.(*ssa.IndexAddr); isIA && ia.Index == ssa.Value(ph) {
						usedAsIndex = true
					}
				}
			}
			if !usedAsIndex {
				continue
			}
			checked++
			dir := 0
			for _, leaf := range backLeaves(ph, l) {
				bo, isBO := leaf.(*ssa.BinOp)
				step := 0
				if isBO && bo.X == ssa.Value(ph) && constIs(bo.Y, "1") {
					if bo.Op == token.ADD {
						step = 1
					}
					if bo.Op == token.SUB {
						step = -1
					}
				}
				if step == 0 || (dir != 0 && dir != step) {
					bad = append(bad, "the index "+ph.Comment+" of a slice-visiting loop is not stepped by exactly one on every path to the next iteration ("+posOfBlock(fn, l.header)+")")
					break
				}
				dir = step
			}
		}
	}
	return
}

// spliceInLoopFindings: inside a loop that walks a list of indices in ascending
// order, removing element idx of another slice with append(X[:idx], X[idx+1:]...)
// shifts every later element down by one; using the next raw index then removes
// the wrong element (and leaves the intended one in place).
func spliceInLoopFindings(fn *ssa.Function) (bad []ssa.Instruction) {
	loops := loopsOf(fn)
	for _, b := range fn.Blocks {
		l := innermost(loops, b)
		if l == nil {
			continue
		}
		for _, in := range b.Instrs {
			st, ok := in.(*ssa.Store)
			if !ok || !stateRooted(st.Addr) {
				continue
			}
			call, ok := st.Val.(*ssa.Call)
			if !ok {
				continue
			}
			bi, isB := call.Call.Value.(*ssa.Builtin)
			if !isB || bi.Name() != "append" || len(call.Call.Args) != 2 {
				continue
			}
			s1, ok1 := call.Call.Args[0].(*ssa.Slice)
			s2, ok2 := call.Call.Args[1].(*ssa.Slice)
			key := VKey(st.Addr)
			if !ok1 || !ok2 || !loadOfKey(s1.X, key) || !loadOfKey(s2.X, key) || s1.High == nil || s2.Low == nil {
				continue
			}
			idx := s1.High
			// idx is an element of an index list walked by an ascending loop counter
			u, isU := idx.(*ssa.UnOp)
			if !isU || u.Op != token.MUL {
				continue
			}
			ia, isIA := u.X.(*ssa.IndexAddr)
			if !isIA {
				continue
			}
			var ctr *ssa.Phi
			if ph, isPhi := ia.Index.(*ssa.Phi); isPhi {
				ctr = ph
			} else if bo, isBO := ia.Index.(*ssa.BinOp); isBO && bo.Op == token.ADD && constIs(bo.Y, "1") {
				ctr, _ = bo.X.(*ssa.Phi) // range loop: hidden counter + 1
			}
			if ctr == nil {
				continue
			}
			var cl *loopInfo
			for _, x := range loops {
				if x.header == ctr.Block() {
					cl = x
				}
			}
			if cl == nil || !cl.blocks[b] {
				continue
			}
			ascending := true
			for _, leaf := range backLeaves(ctr, cl) {
				if !isIncOf(leaf, ctr) {
					ascending = false
				}
			}
			if ascending {
				bad = append(bad, in)
			}
		}
	}
	return
}

// headConsumedFindings: a stage that peeks the head of an incoming port and finds
// a message must dequeue it before the iteration ends, unless it gives up because
// the next queue cannot accept (a false CanPush/CanAccept/CanSend/CanDeliver test).
// Leaving the head in place for a reason internal to the stage — a full table that
// only later arrivals on the same port could drain — blocks everything behind it.
func headConsumedFindings(fn *ssa.Function) (checked int, bad []ssa.Instruction) {
	loops := loopsOf(fn)
	isExcuse := func(cond ssa.Value) (bool, bool) { // (is Can* test, negated)
		neg := false
		for {
			if u, ok := cond.(*ssa.UnOp); ok && u.Op == token.NOT {
				cond, neg = u.X, !neg
				continue
			}
			break
		}
		call, ok := cond.(*ssa.Call)
		if !ok {
			return false, false
		}
		n, _ := calleeNamePkg(call)
		switch n {
		case "CanPush", "CanAccept", "CanSend", "CanDeliver":
			return true, neg
		}
		return false, false
	}
	for _, b := range fn.Blocks {
		for _, in := range b.Instrs {
			call, ok := in.(*ssa.Call)
			if !ok || !call.Common().IsInvoke() || call.Common().Method.Name() != "PeekIncoming" {
				continue
			}
			port := VKey(call.Common().Value)
			// the branch on "peeked == nil"
			var start *ssa.BasicBlock
			for _, ref := range *call.Referrers() {
				bo, isBO := ref.(*ssa.BinOp)
				if !isBO || !(isNilConst(bo.X) || isNilConst(bo.Y)) {
					continue
				}
				for _, r2 := range *bo.Referrers() {
					if ifi, isIf := r2.(*ssa.If); isIf {
						if bo.Op == token.EQL {
							start = ifi.Block().Succs[1]
						} else {
							start = ifi.Block().Succs[0]
						}
					}
				}
			}
			if start == nil {
				continue
			}
			checked++
			l := innermost(loops, b)
			type st struct {
				blk     *ssa.BasicBlock
				excused bool
			}
			seen := map[st]bool{}
			var leak bool
			var walk func(s st)
			walk = func(s st) {
				if seen[s] || leak {
					return
				}
				seen[s] = true
				for _, x := range s.blk.Instrs {
					if c2, isCall := x.(ssa.CallInstruction); isCall && c2.Common().IsInvoke() && c2.Common().Method.Name() == "RetrieveIncoming" && VKey(c2.Common().Value) == port {
						return // consumed
					}
					if _, isPanic := x.(*ssa.Panic); isPanic {
						return
					}
					if _, isRet := x.(*ssa.Return); isRet {
						if !s.excused {
							leak = true
						}
						return
					}
				}
				ifi, isIf := s.blk.Instrs[len(s.blk.Instrs)-1].(*ssa.If)
				for i, nx := range s.blk.Succs {
					ex := s.excused
					if isIf {
						if isCan, neg := isExcuse(ifi.Cond); isCan {
							// the edge on which the Can* test is false
							falseEdge := 1
							if neg {
								falseEdge = 0
							}
							if i == falseEdge {
								ex = true
							}
						}
					}
					if l != nil && (nx == l.header || !l.blocks[nx]) {
						if !ex {
							leak = true
						}
						continue
					}
					walk(st{nx, ex})
				}
			}
			walk(st{start, false})
			if leak {
				bad = append(bad, in)
			}
		}
	}
	return
}
