package main

import (
	"fmt"
	"go/token"
	"go/types"
	"sort"
	"strings"

	"golang.org/x/tools/go/ssa"
)

// SrcFuncs returns every source-level SSA function (including closures) of the
// module packages selected by pred, generic origins rather than instances.
func (p *Program) SrcFuncs(pred func(pkgPath string) bool) []*ssa.Function {
	var out []*ssa.Function
	var add func(fn *ssa.Function)
	add = func(fn *ssa.Function) {
		if fn == nil || fn.Blocks == nil {
			return
		}
		out = append(out, fn)
		for _, a := range fn.AnonFuncs {
			add(a)
		}
	}
	for _, pk := range p.All {
		if pred != nil && !pred(pk.PkgPath) {
			continue
		}
		sp := p.ssaPkg[pk.PkgPath]
		if sp == nil {
			continue
		}
		var names []string
		for n := range sp.Members {
			names = append(names, n)
		}
		sort.Strings(names)
		for _, n := range names {
			switch m := sp.Members[n].(type) {
			case *ssa.Function:
				if m.Synthetic == "" || m.Name() == "init" {
					add(m)
				}
			case *ssa.Type:
				for _, t := range []types.Type{m.Type(), types.NewPointer(m.Type())} {
					ms := p.ssa.MethodSets.MethodSet(t)
					for i := 0; i < ms.Len(); i++ {
						obj, ok := ms.At(i).Obj().(*types.Func)
						if !ok || obj.Pkg() == nil || obj.Pkg().Path() != pk.PkgPath {
							continue
						}
						// only methods declared on this type (not promoted), once
						if recvNamed(obj) != m.Object() {
							continue
						}
						if _, isPtr := t.(*types.Pointer); isPtr != recvIsPtr(obj) {
							continue
						}
						fn := p.ssa.FuncValue(obj)
						if fn != nil && fn.Synthetic == "" {
							add(fn)
						}
					}
				}
			}
		}
	}
	seen := map[*ssa.Function]bool{}
	var uniq []*ssa.Function
	for _, f := range out {
		if !seen[f] {
			seen[f] = true
			uniq = append(uniq, f)
		}
	}
	return uniq
}

func recvNamed(f *types.Func) *types.TypeName {
	sig, _ := f.Type().(*types.Signature)
	if sig == nil || sig.Recv() == nil {
		return nil
	}
	t := sig.Recv().Type()
	if pt, ok := t.(*types.Pointer); ok {
		t = pt.Elem()
	}
	if n, ok := t.(*types.Named); ok {
		return n.Origin().Obj()
	}
	return nil
}

func recvIsPtr(f *types.Func) bool {
	sig, _ := f.Type().(*types.Signature)
	if sig == nil || sig.Recv() == nil {
		return false
	}
	_, ok := sig.Recv().Type().(*types.Pointer)
	return ok
}

// CallSite is one call instruction with its resolved callee object (static
// callee, or the interface method for dynamic dispatch).
type CallSite struct {
	Fn     *ssa.Function
	Instr  ssa.CallInstruction
	Callee *types.Func
	Invoke bool
}

// Pos of the call.
func (s CallSite) Pos() token.Pos { return s.Instr.Pos() }

// Recv is the receiver value (nil for plain functions).
func (s CallSite) Recv() ssa.Value {
	c := s.Instr.Common()
	if c.IsInvoke() {
		return c.Value
	}
	if s.Callee != nil {
		if sig, ok := s.Callee.Type().(*types.Signature); ok && sig.Recv() != nil && len(c.Args) > 0 {
			return c.Args[0]
		}
	}
	return nil
}

// Args are the non-receiver arguments.
func (s CallSite) Args() []ssa.Value {
	c := s.Instr.Common()
	if c.IsInvoke() {
		return c.Args
	}
	if s.Callee != nil {
		if sig, ok := s.Callee.Type().(*types.Signature); ok && sig.Recv() != nil && len(c.Args) > 0 {
			return c.Args[1:]
		}
	}
	return c.Args
}

func calleeOf(ci ssa.CallInstruction) (*types.Func, bool) {
	c := ci.Common()
	if c.IsInvoke() {
		return c.Method, true
	}
	if sc := c.StaticCallee(); sc != nil {
		if sc.Origin() != nil {
			sc = sc.Origin()
		}
		if o, ok := sc.Object().(*types.Func); ok && o != nil {
			return o.Origin(), false
		}
	}
	return nil, false
}

// CallSites lists the calls in fns whose callee satisfies pred.
func CallSites(fns []*ssa.Function, pred func(f *types.Func) bool) []CallSite {
	var out []CallSite
	for _, fn := range fns {
		for _, b := range fn.Blocks {
			for _, in := range b.Instrs {
				ci, ok := in.(ssa.CallInstruction)
				if !ok {
					continue
				}
				f, inv := calleeOf(ci)
				if f != nil && pred(f) {
					out = append(out, CallSite{Fn: fn, Instr: ci, Callee: f, Invoke: inv})
				}
			}
		}
	}
	return out
}

// methodOf reports whether f is a method called name whose receiver type is
// declared in package relPkg (type name optional: "" matches any).
func methodOf(f *types.Func, relPkg, typeName, name string) bool {
	if f == nil || f.Name() != name {
		return false
	}
	sig, _ := f.Type().(*types.Signature)
	if sig == nil || sig.Recv() == nil {
		return false
	}
	t := sig.Recv().Type()
	if pt, ok := t.(*types.Pointer); ok {
		t = pt.Elem()
	}
	var obj *types.TypeName
	switch t := t.(type) {
	case *types.Named:
		obj = t.Origin().Obj()
	case *types.Alias:
		obj = t.Obj()
	default:
		// interface method declared inline: use the method's package
		if f.Pkg() != nil && f.Pkg().Path() == pkgPath(relPkg) && typeName == "" {
			return true
		}
		return false
	}
	if obj.Pkg() == nil || obj.Pkg().Path() != pkgPath(relPkg) {
		return false
	}
	return typeName == "" || obj.Name() == typeName
}

func pkgPath(rel string) string {
	if rel == "" {
		return ModPath
	}
	if strings.Contains(rel, ".") || !strings.Contains(rel, "/") && isStd(rel) {
		return rel
	}
	return ModPath + "/" + rel
}

func isStd(s string) bool {
	switch s {
	case "sync", "os", "io", "log", "fmt", "sort", "time", "net", "errors", "reflect", "strings":
		return true
	}
	return false
}

// Fact is a branch condition known to hold at a program point.
type Fact struct {
	Cond  ssa.Value
	Truth bool
}

// FactsAt returns the branch conditions that hold on entry to block b: for each
// dominating conditional whose taken successor is entered only from that
// conditional and dominates b.
func FactsAt(b *ssa.BasicBlock) []Fact {
	var out []Fact
	for d := b; d != nil; d = d.Idom() {
		id := d.Idom()
		if id == nil {
			break
		}
		_ = id
	}
	cur := b
	for {
		id := cur.Idom()
		if id == nil {
			break
		}
		if ifi, ok := id.Instrs[len(id.Instrs)-1].(*ssa.If); ok {
			t, f := id.Succs[0], id.Succs[1]
			if t != f {
				if onlyFrom(t, id) && t.Dominates(b) {
					out = appendFact(out, ifi.Cond, true)
				} else if onlyFrom(f, id) && f.Dominates(b) {
					out = appendFact(out, ifi.Cond, false)
				}
			}
		}
		cur = id
	}
	return out
}

func onlyFrom(s, pred *ssa.BasicBlock) bool {
	return len(s.Preds) == 1 && s.Preds[0] == pred
}

func appendFact(out []Fact, cond ssa.Value, truth bool) []Fact {
	for {
		if u, ok := cond.(*ssa.UnOp); ok && u.Op == token.NOT {
			cond = u.X
			truth = !truth
			continue
		}
		break
	}
	return append(out, Fact{cond, truth})
}

// VKey renders an SSA value as a canonical access path so that two reads of the
// same location through the same pure accessors compare equal.
func VKey(v ssa.Value) string { return vkey(v, 0) }

func vkey(v ssa.Value, depth int) string {
	if v == nil {
		return "<nil>"
	}
	if depth > 12 {
		return v.Name()
	}
	switch v := v.(type) {
	case *ssa.Parameter:
		return v.Name()
	case *ssa.FreeVar:
		return "free:" + v.Name()
	case *ssa.Const:
		return v.String()
	case *ssa.Global:
		return v.String()
	case *ssa.Function:
		return v.String()
	case *ssa.FieldAddr:
		return vkey(v.X, depth+1) + "." + fieldName(v.X.Type(), v.Field)
	case *ssa.Field:
		return vkey(v.X, depth+1) + "." + fieldName(v.X.Type(), v.Field)
	case *ssa.IndexAddr:
		return vkey(v.X, depth+1) + "[" + vkey(v.Index, depth+1) + "]"
	case *ssa.Index:
		return vkey(v.X, depth+1) + "[" + vkey(v.Index, depth+1) + "]"
	case *ssa.Lookup:
		return vkey(v.X, depth+1) + "[" + vkey(v.Index, depth+1) + "]"
	case *ssa.UnOp:
		if v.Op == token.MUL {
			return vkey(v.X, depth+1)
		}
		return v.Op.String() + vkey(v.X, depth+1)
	case *ssa.MakeInterface:
		return vkey(v.X, depth+1)
	case *ssa.ChangeInterface:
		return vkey(v.X, depth+1)
	case *ssa.ChangeType:
		return vkey(v.X, depth+1)
	case *ssa.Convert:
		return vkey(v.X, depth+1)
	case *ssa.TypeAssert:
		return vkey(v.X, depth+1) + ".(" + types.TypeString(v.AssertedType, func(*types.Package) string { return "" }) + ")"
	case *ssa.Extract:
		return vkey(v.Tuple, depth+1) + "#" + fmt.Sprint(v.Index)
	case *ssa.Call:
		f, _ := calleeOf(v)
		c := v.Common()
		args := c.Args
		recv := ""
		if c.IsInvoke() {
			recv = vkey(c.Value, depth+1) + "."
		} else if f != nil {
			if sig, ok := f.Type().(*types.Signature); ok && sig.Recv() != nil && len(args) > 0 {
				recv = vkey(args[0], depth+1) + "."
				args = args[1:]
			}
		}
		name := "?"
		if f != nil {
			name = f.Name()
		} else {
			name = vkey(c.Value, depth+1)
		}
		as := make([]string, len(args))
		for i, a := range args {
			as[i] = vkey(a, depth+1)
		}
		return recv + name + "(" + strings.Join(as, ",") + ")"
	case *ssa.BinOp:
		return "(" + vkey(v.X, depth+1) + v.Op.String() + vkey(v.Y, depth+1) + ")"
	case *ssa.Alloc:
		// a by-value parameter spilled to the stack so that its address can be
		// taken: name it after the parameter
		if refs := v.Referrers(); refs != nil {
			for _, r := range *refs {
				if st, ok := r.(*ssa.Store); ok && st.Addr == v {
					if pv, isParam := st.Val.(*ssa.Parameter); isParam {
						return pv.Name()
					}
				}
			}
		}
		return "alloc:" + v.Comment + ":" + v.Name()
	case *ssa.Slice:
		return vkey(v.X, depth+1) + "[:]"
	}
	return v.Name()
}

func fieldName(t types.Type, i int) string {
	if pt, ok := t.Underlying().(*types.Pointer); ok {
		t = pt.Elem()
	}
	if st, ok := t.Underlying().(*types.Struct); ok && i < st.NumFields() {
		return st.Field(i).Name()
	}
	return fmt.Sprint(i)
}

// FieldOf returns the struct field object addressed by a FieldAddr/Field value.
func FieldOf(v ssa.Value) *types.Var {
	var t types.Type
	var idx int
	switch v := v.(type) {
	case *ssa.FieldAddr:
		t, idx = v.X.Type(), v.Field
	case *ssa.Field:
		t, idx = v.X.Type(), v.Field
	default:
		return nil
	}
	if pt, ok := t.Underlying().(*types.Pointer); ok {
		t = pt.Elem()
	}
	if st, ok := t.Underlying().(*types.Struct); ok && idx < st.NumFields() {
		return st.Field(idx)
	}
	return nil
}

// GuardCall describes a dominating successful guard.
type GuardCall struct {
	Call  *ssa.Call
	Truth bool
}

// GuardsAt lists the calls whose boolean result is known at block b, with the
// known truth value.
func GuardsAt(b *ssa.BasicBlock) []GuardCall {
	var out []GuardCall
	for _, f := range FactsAt(b) {
		if c, ok := f.Cond.(*ssa.Call); ok {
			out = append(out, GuardCall{c, f.Truth})
		}
	}
	return out
}

// Reaches reports whether instruction a may execute before instruction b within
// one function (a's block reaches b's block, or same block and earlier).
func Reaches(a, b ssa.Instruction) bool {
	ab, bb := a.Block(), b.Block()
	if ab == bb {
		for _, in := range ab.Instrs {
			if in == a {
				return true
			}
			if in == b {
				break
			}
		}
	}
	seen := map[*ssa.BasicBlock]bool{}
	var walk func(x *ssa.BasicBlock) bool
	walk = func(x *ssa.BasicBlock) bool {
		for _, s := range x.Succs {
			if s == bb {
				return true
			}
			if !seen[s] {
				seen[s] = true
				if walk(s) {
					return true
				}
			}
		}
		return false
	}
	return walk(ab)
}

// InstrDominates reports whether a dominates b (executes on every path to b).
func InstrDominates(a, b ssa.Instruction) bool {
	ab, bb := a.Block(), b.Block()
	if ab == bb {
		for _, in := range ab.Instrs {
			if in == a {
				return true
			}
			if in == b {
				return false
			}
		}
		return false
	}
	return ab.Dominates(bb)
}

// WriteSite is an instruction that may modify the storage of a struct field.
type WriteSite struct {
	Fn   *ssa.Function
	Pos  token.Pos
	Kind string // store | elem-store | map-update | addr-escape | incdec
}

// FieldWrites lists every instruction in fns that may write the given field (or
// an element of the slice/map/array it holds): direct stores, element stores
// through a value loaded from the field, map updates, and escapes of its address
// into calls (other than sync/atomic loads).
func FieldWrites(fns []*ssa.Function, field *types.Var) []WriteSite {
	var out []WriteSite
	for _, fn := range fns {
		for _, b := range fn.Blocks {
			for _, in := range b.Instrs {
				fa, ok := in.(*ssa.FieldAddr)
				if !ok || !sameObj(FieldOf(fa), field) {
					continue
				}
				out = append(out, writesThrough(fn, fa, 0)...)
			}
		}
	}
	return out
}

func writesThrough(fn *ssa.Function, addr ssa.Value, depth int) []WriteSite {
	var out []WriteSite
	if depth > 4 || addr.Referrers() == nil {
		return nil
	}
	for _, r := range *addr.Referrers() {
		switch r := r.(type) {
		case *ssa.Store:
			if r.Addr == addr {
				out = append(out, WriteSite{fn, r.Pos(), "store"})
			}
		case *ssa.UnOp:
			if r.Op == token.MUL {
				// loaded value: element writes through slices / maps
				out = append(out, elemWrites(fn, r, depth+1)...)
			}
		case *ssa.IndexAddr:
			if r.X == addr { // array field element address
				out = append(out, writesThrough(fn, r, depth+1)...)
			}
		case *ssa.FieldAddr:
			if r.X == addr {
				out = append(out, writesThrough(fn, r, depth+1)...)
			}
		case ssa.CallInstruction:
			f, _ := calleeOf(r)
			if f != nil && f.Pkg() != nil && f.Pkg().Path() == "sync/atomic" && strings.HasPrefix(f.Name(), "Load") {
				continue
			}
			if f != nil && f.Pkg() != nil && f.Pkg().Path() == "sync/atomic" {
				out = append(out, WriteSite{fn, r.Pos(), "atomic-write"})
				continue
			}
			out = append(out, WriteSite{fn, r.Pos(), "addr-escape"})
		}
	}
	return out
}

func elemWrites(fn *ssa.Function, v ssa.Value, depth int) []WriteSite {
	var out []WriteSite
	if depth > 4 || v.Referrers() == nil {
		return nil
	}
	for _, r := range *v.Referrers() {
		switch r := r.(type) {
		case *ssa.IndexAddr:
			if r.X == v {
				for _, w := range writesThrough(fn, r, depth+1) {
					w.Kind = "elem-" + w.Kind
					out = append(out, w)
				}
			}
		case *ssa.MapUpdate:
			if r.Map == v {
				out = append(out, WriteSite{fn, r.Pos(), "map-update"})
			}
		case *ssa.Slice:
			if r.X == v {
				out = append(out, elemWrites(fn, r, depth+1)...)
			}
		case ssa.CallInstruction:
			if b, ok := r.Common().Value.(*ssa.Builtin); ok && (b.Name() == "delete" || b.Name() == "clear" || (b.Name() == "copy" && len(r.Common().Args) > 0 && r.Common().Args[0] == v)) {
				out = append(out, WriteSite{fn, r.Pos(), "builtin-" + b.Name()})
			}
		}
	}
	return out
}

// DeclFile returns the base file name in which fn is declared.
func (p *Program) DeclFile(fn *ssa.Function) string {
	for fn.Parent() != nil {
		fn = fn.Parent()
	}
	pos := fn.Pos()
	if !pos.IsValid() && fn.Syntax() != nil {
		pos = fn.Syntax().Pos()
	}
	if !pos.IsValid() {
		return ""
	}
	return strings.TrimPrefix(p.Fset.Position(pos).Filename, p.Root+"/")
}
