package main

// Lock sets (analysis A7 of DESIGN.md): which mutexes are certainly held at an
// instruction. Forward must-analysis over the CFG of one function; Lock/RLock
// add, Unlock/RUnlock remove, a deferred Unlock keeps the lock to the exit.
// Interprocedurally, a function whose every call site holds L starts with L.

import (
	"go/types"
	"sort"
	"strings"

	"golang.org/x/tools/go/ssa"
)

type lockSet map[string]bool

func (s lockSet) clone() lockSet {
	o := lockSet{}
	for k := range s {
		o[k] = true
	}
	return o
}

func intersect(a, b lockSet) lockSet {
	o := lockSet{}
	for k := range a {
		if b[k] {
			o[k] = true
		}
	}
	return o
}

func equalSets(a, b lockSet) bool {
	if len(a) != len(b) {
		return false
	}
	for k := range a {
		if !b[k] {
			return false
		}
	}
	return true
}

// lockOp classifies a call as acquiring or releasing a mutex; key names the mutex
// by the last field step of its access path ("mu", "lock").
func lockOp(ci ssa.CallInstruction) (key string, acquire, release bool) {
	f, _ := calleeOf(ci)
	if f == nil || f.Pkg() == nil || f.Pkg().Path() != "sync" {
		return "", false, false
	}
	cs := CallSite{Instr: ci, Callee: f}
	r := cs.Recv()
	if r == nil {
		return "", false, false
	}
	k := VKey(r)
	if i := strings.LastIndex(k, "."); i >= 0 {
		k = k[i+1:]
	}
	switch f.Name() {
	case "Lock", "RLock":
		return k, true, false
	case "Unlock", "RUnlock":
		return k, false, true
	}
	return "", false, false
}

// LockAnalysis holds the held-lock sets before each instruction of a function.
type LockAnalysis struct {
	Before map[ssa.Instruction]lockSet
	Exit   lockSet
}

// analyseLocks runs the must-held analysis on fn, starting from entry.
func analyseLocks(fn *ssa.Function, entry lockSet) *LockAnalysis {
	in := map[*ssa.BasicBlock]lockSet{}
	out := map[*ssa.BasicBlock]lockSet{}
	res := &LockAnalysis{Before: map[ssa.Instruction]lockSet{}}
	if len(fn.Blocks) == 0 {
		return res
	}
	var top lockSet // nil = unvisited (top)
	for _, b := range fn.Blocks {
		in[b], out[b] = top, top
	}
	in[fn.Blocks[0]] = entry.clone()
	changed := true
	for iter := 0; changed && iter < 50; iter++ {
		changed = false
		for _, b := range fn.Blocks {
			var cur lockSet
			if b == fn.Blocks[0] {
				cur = entry.clone()
			} else {
				first := true
				for _, p := range b.Preds {
					if out[p] == nil {
						continue
					}
					if first {
						cur = out[p].clone()
						first = false
					} else {
						cur = intersect(cur, out[p])
					}
				}
				if first {
					continue // no visited predecessor yet
				}
			}
			in[b] = cur.clone()
			for _, ins := range b.Instrs {
				res.Before[ins] = cur.clone()
				switch x := ins.(type) {
				case *ssa.Defer:
					// a deferred Unlock releases at exit: the lock stays held inside
				case ssa.CallInstruction:
					if _, isDefer := ins.(*ssa.Defer); isDefer {
						break
					}
					if k, acq, rel := lockOp(x); k != "" {
						if acq {
							cur[k] = true
						}
						if rel {
							delete(cur, k)
						}
					}
				}
			}
			if out[b] == nil || !equalSets(out[b], cur) {
				out[b] = cur
				changed = true
			}
		}
	}
	return res
}

// LockProgram computes, for a set of functions, the locks held on entry (by
// agreement of all call sites inside the set) and the per-instruction sets.
type LockProgram struct {
	Entry map[*ssa.Function]lockSet
	An    map[*ssa.Function]*LockAnalysis
}

// analyseLockProgram iterates to a fixpoint. roots are entered with no lock.
func analyseLockProgram(fns []*ssa.Function, isRoot func(*ssa.Function) bool) *LockProgram {
	lp := &LockProgram{Entry: map[*ssa.Function]lockSet{}, An: map[*ssa.Function]*LockAnalysis{}}
	inSet := map[*ssa.Function]bool{}
	for _, f := range fns {
		inSet[f] = true
		lp.Entry[f] = nil // top
	}
	for _, f := range fns {
		if isRoot(f) {
			lp.Entry[f] = lockSet{}
		}
	}
	for iter := 0; iter < 20; iter++ {
		changed := false
		for _, f := range fns {
			if lp.Entry[f] == nil {
				continue
			}
			lp.An[f] = analyseLocks(f, lp.Entry[f])
			for _, b := range f.Blocks {
				for _, ins := range b.Instrs {
					ci, ok := ins.(ssa.CallInstruction)
					if !ok {
						continue
					}
					var callee *ssa.Function
					if _, isGo := ins.(*ssa.Go); isGo {
						continue
					}
					if sc := ci.Common().StaticCallee(); sc != nil {
						callee = origin(sc)
					}
					if mc, isMC := ci.Common().Value.(*ssa.MakeClosure); isMC {
						callee, _ = mc.Fn.(*ssa.Function)
					}
					if callee == nil || !inSet[callee] {
						continue
					}
					held := lp.An[f].Before[ins]
					if _, isDefer := ins.(*ssa.Defer); isDefer {
						held = lockSet{} // runs at exit, after deferred unlocks may have run
					}
					if lp.Entry[callee] == nil {
						lp.Entry[callee] = held.clone()
						changed = true
					} else {
						n := intersect(lp.Entry[callee], held)
						if !equalSets(n, lp.Entry[callee]) {
							lp.Entry[callee] = n
							changed = true
						}
					}
				}
			}
			// closures defined in f and not called directly inherit nothing
			for _, a := range f.AnonFuncs {
				if inSet[a] && lp.Entry[a] == nil {
					lp.Entry[a] = lockSet{}
					changed = true
				}
			}
		}
		if !changed {
			break
		}
	}
	for _, f := range fns {
		if lp.Entry[f] == nil {
			lp.Entry[f] = lockSet{} // never called inside the set: treat as an entry point
			lp.An[f] = analyseLocks(f, lp.Entry[f])
		}
	}
	return lp
}

func setString(s lockSet) string {
	var ks []string
	for k := range s {
		ks = append(ks, k)
	}
	sort.Strings(ks)
	return "{" + strings.Join(ks, ",") + "}"
}

// fieldAccesses lists the instructions in fn that read or write the field.
func fieldAccesses(fn *ssa.Function, fld *types.Var) []ssa.Instruction {
	var out []ssa.Instruction
	for _, b := range fn.Blocks {
		for _, ins := range b.Instrs {
			switch v := ins.(type) {
			case *ssa.FieldAddr:
				if sameObj(FieldOf(v), fld) {
					out = append(out, ins)
				}
			case *ssa.Field:
				if sameObj(FieldOf(v), fld) {
					out = append(out, ins)
				}
			}
		}
	}
	return out
}
