package main

import (
	"fmt"
	"go/ast"
	"go/token"
	"go/types"
	"os"
	"path/filepath"
	"sort"
	"strings"

	"golang.org/x/tools/go/callgraph"
	"golang.org/x/tools/go/callgraph/cha"
	"golang.org/x/tools/go/callgraph/vta"
	"golang.org/x/tools/go/packages"
	"golang.org/x/tools/go/ssa"
	"golang.org/x/tools/go/ssa/ssautil"
)

// ModPath is the import-path prefix of the module under analysis.
const ModPath = "github.com/sarchlab/akita/v5"

// Program is the loaded, type-checked module plus lazily built SSA and call graph.
type Program struct {
	Root   string
	Fset   *token.FileSet
	Pkgs   map[string]*packages.Package // by import path, module packages only
	All    []*packages.Package          // module packages, sorted
	ssa    *ssa.Program
	ssaPkg map[string]*ssa.Package
	cg     *callgraph.Graph
	chaCG  *callgraph.Graph
	mcg    *modCG
	declOf map[*types.Func]*ast.FuncDecl
	fileOf map[*ast.FuncDecl]*packages.Package
}

// clientPkg reports whether an import path is client code (examples, acceptance
// tests, CLI) rather than library code.
func clientPkg(path string) bool {
	rel := strings.TrimPrefix(path, ModPath)
	for _, s := range []string{"/examples", "/akita", "/doc-site", "/mem/acceptancetests", "/noc/acceptance", "/noc/standalone", "/daisen2/cmd", "/mem/trace"} {
		if strings.HasPrefix(rel, s) {
			return true
		}
	}
	return false
}

// Load loads every non-test package of the module rooted at root.
func Load(root string, overlay map[string][]byte) (*Program, error) {
	env := append(os.Environ(), "GOWORK=off", "GOFLAGS=-mod=mod", "GOPROXY=off", "GOSUMDB=off", "GOTOOLCHAIN=local", "CGO_ENABLED=1")
	// go/packages runs `go list` resolved through this process's PATH; it must be
	// a toolchain that accepts the module's go directive.
	os.Setenv("PATH", "/opt/veriftools/go1.26.8/bin:"+os.Getenv("PATH"))
	env = append(env, "PATH="+os.Getenv("PATH"))
	cfg := &packages.Config{
		Mode:    packages.LoadAllSyntax,
		Dir:     root,
		Env:     env,
		Overlay: overlay,
		Tests:   false,
	}
	pkgs, err := packages.Load(cfg, "./...")
	if err != nil {
		return nil, err
	}
	if len(pkgs) == 0 {
		return nil, fmt.Errorf("no packages loaded from %s", root)
	}
	p := &Program{Root: root, Pkgs: map[string]*packages.Package{}, declOf: map[*types.Func]*ast.FuncDecl{}, fileOf: map[*ast.FuncDecl]*packages.Package{}}
	var errs []string
	packages.Visit(pkgs, nil, func(pk *packages.Package) {
		for _, e := range pk.Errors {
			errs = append(errs, e.Error())
		}
	})
	if len(errs) > 0 {
		return nil, fmt.Errorf("type/load errors: %s", strings.Join(errs, "; "))
	}
	for _, pk := range pkgs {
		if !strings.HasPrefix(pk.PkgPath, ModPath) {
			continue
		}
		p.Pkgs[pk.PkgPath] = pk
		p.All = append(p.All, pk)
		p.Fset = pk.Fset
		for _, f := range pk.Syntax {
			for _, d := range f.Decls {
				if fd, ok := d.(*ast.FuncDecl); ok {
					if obj, ok := pk.TypesInfo.Defs[fd.Name].(*types.Func); ok {
						p.declOf[obj] = fd
						p.fileOf[fd] = pk
					}
				}
			}
		}
	}
	sort.Slice(p.All, func(i, j int) bool { return p.All[i].PkgPath < p.All[j].PkgPath })
	if len(p.All) < 40 {
		return nil, fmt.Errorf("only %d module packages loaded; expected the whole module", len(p.All))
	}
	p.buildSSA(pkgs)
	return p, nil
}

func (p *Program) buildSSA(initial []*packages.Package) {
	prog, _ := ssautil.AllPackages(initial, ssa.InstantiateGenerics)
	prog.Build()
	p.ssa = prog
	p.ssaPkg = map[string]*ssa.Package{}
	for _, sp := range prog.AllPackages() {
		if sp.Pkg != nil {
			p.ssaPkg[sp.Pkg.Path()] = sp
		}
	}
}

// CHA returns the class-hierarchy call graph.
func (p *Program) CHA() *callgraph.Graph {
	if p.chaCG == nil {
		p.chaCG = cha.CallGraph(p.ssa)
	}
	return p.chaCG
}

// CG returns the VTA call graph (over CHA).
func (p *Program) CG() *callgraph.Graph {
	if p.cg == nil {
		p.cg = vta.CallGraph(ssautil.AllFunctions(p.ssa), p.CHA())
	}
	return p.cg
}

// Pkg returns a module package by its path relative to the module ("timing").
func (p *Program) Pkg(rel string) *packages.Package {
	if rel == "" {
		return p.Pkgs[ModPath]
	}
	return p.Pkgs[ModPath+"/"+rel]
}

// Rel renders a position relative to the repository root.
func (p *Program) Rel(pos token.Pos) string {
	if !pos.IsValid() {
		return "?"
	}
	ps := p.Fset.Position(pos)
	r, err := filepath.Rel(p.Root, ps.Filename)
	if err != nil {
		r = ps.Filename
	}
	return fmt.Sprintf("%s:%d", r, ps.Line)
}

// LookupType finds a named type in a module package.
func (p *Program) LookupType(rel, name string) *types.TypeName {
	pk := p.Pkg(rel)
	if pk == nil {
		return nil
	}
	tn, _ := pk.Types.Scope().Lookup(name).(*types.TypeName)
	return tn
}

// LookupFunc finds a package-level function, or a method when recv != "".
func (p *Program) LookupFunc(rel, recv, name string) *types.Func {
	pk := p.Pkg(rel)
	if pk == nil {
		return nil
	}
	if recv == "" {
		f, _ := pk.Types.Scope().Lookup(name).(*types.Func)
		return f
	}
	tn, _ := pk.Types.Scope().Lookup(recv).(*types.TypeName)
	if tn == nil {
		return nil
	}
	named, ok := tn.Type().(*types.Named)
	if !ok {
		return nil
	}
	for i := 0; i < named.NumMethods(); i++ {
		if m := named.Method(i); m.Name() == name {
			return m
		}
	}
	// generic origin methods
	if o := named.Origin(); o != named {
		for i := 0; i < o.NumMethods(); i++ {
			if m := o.Method(i); m.Name() == name {
				return m
			}
		}
	}
	return nil
}

// Decl returns the syntax of a function.
func (p *Program) Decl(f *types.Func) *ast.FuncDecl {
	if f == nil {
		return nil
	}
	return p.declOf[f.Origin()]
}

// PkgOfDecl returns the package holding a declaration.
func (p *Program) PkgOfDecl(fd *ast.FuncDecl) *packages.Package { return p.fileOf[fd] }

// SSAFunc returns the SSA function for a types.Func (generic origin for generics).
func (p *Program) SSAFunc(f *types.Func) *ssa.Function {
	if f == nil {
		return nil
	}
	return p.ssa.FuncValue(f.Origin())
}

// Field finds a struct field object by name on a named struct type.
func (p *Program) Field(rel, typ, field string) *types.Var {
	tn := p.LookupType(rel, typ)
	if tn == nil {
		return nil
	}
	st, ok := tn.Type().Underlying().(*types.Struct)
	if !ok {
		return nil
	}
	for i := 0; i < st.NumFields(); i++ {
		if st.Field(i).Name() == field {
			return st.Field(i)
		}
	}
	return nil
}

// FuncsIn lists every declared function (with body) in the given module packages,
// in deterministic order.
func (p *Program) FuncsIn(pred func(pkgPath string) bool) []*types.Func {
	var out []*types.Func
	for f, fd := range p.declOf {
		if fd.Body == nil {
			continue
		}
		if pred == nil || pred(f.Pkg().Path()) {
			out = append(out, f)
		}
	}
	sort.Slice(out, func(i, j int) bool { return out[i].FullName() < out[j].FullName() })
	return out
}

// FuncKey gives a stable symbol path for a function: pkg.Recv.Name.
func FuncKey(f *types.Func) string {
	if f == nil {
		return "<nil>"
	}
	pkg := ""
	if f.Pkg() != nil {
		pkg = strings.TrimPrefix(strings.TrimPrefix(f.Pkg().Path(), ModPath), "/")
		if pkg == "" {
			pkg = "."
		}
	}
	sig := f.Type().(*types.Signature)
	if r := sig.Recv(); r != nil {
		t := r.Type()
		if pt, ok := t.(*types.Pointer); ok {
			t = pt.Elem()
		}
		if n, ok := t.(*types.Named); ok {
			return pkg + "." + n.Obj().Name() + "." + f.Name()
		}
		if n, ok := t.(*types.Alias); ok {
			return pkg + "." + n.Obj().Name() + "." + f.Name()
		}
	}
	return pkg + "." + f.Name()
}

// SSAFuncKey is FuncKey for SSA functions (closures get parent$n).
func SSAFuncKey(fn *ssa.Function) string {
	if fn == nil {
		return "<nil>"
	}
	if fn.Parent() != nil {
		return SSAFuncKey(fn.Parent()) + "$" + strings.TrimPrefix(fn.Name(), fn.Parent().Name()+"$")
	}
	if o, ok := fn.Object().(*types.Func); ok && o != nil {
		return FuncKey(o)
	}
	if fn.Origin() != nil {
		return SSAFuncKey(fn.Origin())
	}
	return fn.String()
}
