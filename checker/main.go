// akitacheck decides structural necessary conditions of the akita properties by
// static analysis of /repo's current source. See /verif/DESIGN.md.
package main

import (
	"flag"
	"fmt"
	"go/types"
	"os"
	"os/exec"
	"path/filepath"
	"runtime/debug"
	"sort"
	"strconv"
	"strings"
	"time"
)

// Property is a registered property checker.
type Property struct {
	ID   string
	Meta PropertyMeta
	Run  func(c *Ctx)
}

var registry = map[string]*Property{}

func register(id string, meta PropertyMeta, run func(c *Ctx)) {
	registry[id] = &Property{ID: id, Meta: meta, Run: run}
}

func main() {
	prop := flag.String("p", "", "property id (C01…), or 'all'")
	tier := flag.String("tier", "quick", "quick|thorough")
	root := flag.String("root", "/repo", "repository root to analyse")
	verif := flag.String("verif", "", "verif directory (default: parent of the binary's directory)")
	patch := flag.String("patch", "", "analyse the tree with this unified diff applied in memory (self-validation)")
	list := flag.Bool("list", false, "list registered properties")
	only := flag.String("only", "", "report only obligations whose rule/construct contains this text")
	table := flag.String("table", "", "debug: print the decision table of pkg:Recv:Func (inline same-package callees with -inline)")
	inl := flag.Bool("inline", false, "debug: inline same-package callees in -table")
	manifest := flag.Bool("manifest", false, "write MANIFEST.json from the registry and exit")
	noEvidence := flag.Bool("no-evidence", false, "do not write evidence (self-validation runs)")
	flag.Parse()
	if *tier == "thorough" {
		wideTables = true // decision tables over one more value per integer quantity
	}

	if *list {
		ids := sortedIDs()
		for _, id := range ids {
			fmt.Println(id)
		}
		return
	}
	if *verif == "" {
		exe, _ := os.Executable()
		*verif = filepath.Dir(filepath.Dir(exe))
	}
	if *manifest {
		if err := writeManifest(*verif); err != nil {
			fmt.Fprintln(os.Stderr, err)
			os.Exit(2)
		}
		return
	}
	if t := os.Getenv("VERIF_TIER"); t != "" && !flagSet("tier") {
		*tier = t
	}
	seed, _ := strconv.Atoi(os.Getenv("VERIF_SEED"))

	var ids []string
	if *prop == "all" {
		ids = sortedIDs()
	} else if *table == "" {
		for _, id := range strings.Split(*prop, ",") {
			if registry[id] == nil {
				fmt.Fprintf(os.Stderr, "unknown property %q\n", id)
				os.Exit(2)
			}
			ids = append(ids, id)
		}
	}
	start := time.Now()
	var overlay map[string][]byte
	if *patch != "" {
		var err error
		overlay, err = overlayFromPatch(*root, *patch)
		if err != nil {
			fmt.Fprintln(os.Stderr, "cannot apply patch in memory:", err)
			os.Exit(3)
		}
	}
	prog, err := Load(*root, overlay)
	if err != nil {
		// A tree that does not load cannot be decided: fail every requested property.
		fmt.Fprintln(os.Stderr, "load failure:", err)
		for _, id := range ids {
			fmt.Printf("load failure: %v\n", err)
			fmt.Printf("VIOLATION property=%s replay=%s\n", id, "load-failure")
		}
		os.Exit(1)
	}
	if *table != "" {
		parts := strings.Split(*table, ":")
		f := prog.LookupFunc(parts[0], parts[1], parts[2])
		if f == nil {
			fmt.Println("not found")
			os.Exit(2)
		}
		cfg := TableConfig{}
		if *inl {
			cfg.Inline = func(g *types.Func) bool { return g.Pkg() == f.Pkg() }
		}
		t := ExtractTable(prog, f, cfg)
		for _, r := range t.Rows {
			fmt.Println(r)
		}
		fmt.Println(len(t.Rows), "rows; unsupported:", t.Unsupported)
		return
	}
	if os.Getenv("AKITA_STATE_SURVEY") != "" {
		stateSurvey(prog)
		return
	}
	if os.Getenv("AKITA_PROGRESS_SURVEY") != "" {
		n, fs := progressHonestFindings(prog.SrcFuncs(libComponentPkg))
		fmt.Println("functions with hand-offs and a bool result:", n)
		for _, f := range fs {
			fmt.Println(prog.Rel(f.ret.Pos()), SSAFuncKey(f.fn), "hand-off at", prog.Rel(f.op.Pos()))
		}
		return
	}
	if os.Getenv("AKITA_GUARD_SURVEY") != "" {
		guardSurvey(prog)
		return
	}
	known, err := loadKnown(filepath.Join(*verif, "known_findings.json"))
	if err != nil {
		fmt.Fprintln(os.Stderr, "known_findings.json:", err)
		os.Exit(2)
	}
	exit := 0
	for _, id := range ids {
		pstart := time.Now()
		if len(ids) == 1 {
			pstart = start
		}
		c := newCtx(prog, id, *tier)
		func() {
			defer func() {
				if r := recover(); r != nil {
					c.Unknown("internal", "panic", 0, fmt.Sprintf("analysis panic: %v\n%s", r, debug.Stack()))
				}
			}()
			registry[id].Run(c)
		}()
		if *only != "" {
			var keep []Obligation
			for _, o := range c.Obs {
				if strings.Contains(o.Rule+"/"+o.Construct, *only) {
					keep = append(keep, o)
				}
			}
			c.Obs = keep
			c.floors = map[string]int{}
		}
		if *noEvidence {
			code := c.verdictOnly(known)
			if code != 0 {
				exit = 1
			}
			continue
		}
		extra := map[string]any{}
		if *tier == "thorough" {
			thoroughExtras(c, *verif, *root, extra)
		}
		if code := c.finish(*verif, registry[id].Meta, known, seed, pstart, extra); code != 0 {
			exit = code
		}
	}
	os.Exit(exit)
}

func flagSet(name string) bool {
	set := false
	flag.Visit(func(f *flag.Flag) {
		if f.Name == name {
			set = true
		}
	})
	return set
}

func sortedIDs() []string {
	var ids []string
	for id := range registry {
		ids = append(ids, id)
	}
	sort.Strings(ids)
	return ids
}

// verdictOnly prints violations without touching the evidence directory.
func (c *Ctx) verdictOnly(known []KnownFinding) int {
	rules := make([]string, 0, len(c.floors))
	for r := range c.floors {
		rules = append(rules, r)
	}
	sort.Strings(rules)
	for _, r := range rules {
		if c.counts[r] < c.floors[r] {
			c.add(r, "<instance-floor>", Undecided, 0, fmt.Sprintf("rule matched %d instances, floor %d", c.counts[r], c.floors[r]))
		}
	}
	open := map[string]bool{}
	for _, k := range known {
		if k.Property == c.Prop && k.Status == "open" {
			open[k.Property+"/"+k.Rule+"/"+k.Construct] = true
		}
	}
	n := 0
	for _, o := range c.Obs {
		if o.Status != Discharged && !open[o.Key()] {
			fmt.Printf("%s: %s [%s] %s: %s\n", o.Pos, strings.ToUpper(o.Status), o.Rule, o.Construct, o.Msg)
			fmt.Printf("VIOLATION property=%s replay=-\n", c.Prop)
			n++
		}
	}
	if n == 0 {
		fmt.Printf("OK property=%s obligations=%d\n", c.Prop, len(c.Obs))
		return 0
	}
	return 1
}

// overlayFromPatch applies a unified diff to copies of the files it touches and
// returns them as a go/packages overlay, leaving the tree on disk untouched.
func overlayFromPatch(root, patchFile string) (map[string][]byte, error) {
	abs, err := filepath.Abs(patchFile)
	if err != nil {
		return nil, err
	}
	data, err := os.ReadFile(abs)
	if err != nil {
		return nil, err
	}
	var files []string
	for _, l := range strings.Split(string(data), "\n") {
		if strings.HasPrefix(l, "+++ b/") {
			name := strings.TrimPrefix(l, "+++ b/")
			if i := strings.IndexByte(name, '\t'); i >= 0 {
				name = name[:i]
			}
			files = append(files, strings.TrimSpace(name))
		}
	}
	if len(files) == 0 {
		return nil, fmt.Errorf("no files in patch")
	}
	tmp, err := os.MkdirTemp("", "akitacheck-overlay-")
	if err != nil {
		return nil, err
	}
	defer os.RemoveAll(tmp)
	for _, f := range files {
		src := filepath.Join(root, f)
		dst := filepath.Join(tmp, f)
		_ = os.MkdirAll(filepath.Dir(dst), 0o755)
		b, err := os.ReadFile(src)
		if err == nil {
			_ = os.WriteFile(dst, b, 0o644)
		}
	}
	cmd := exec.Command("patch", "-p1", "-s", "--no-backup-if-mismatch", "-i", abs)
	cmd.Dir = tmp
	if out, err := cmd.CombinedOutput(); err != nil {
		return nil, fmt.Errorf("patch failed (tree drifted?): %v: %s", err, out)
	}
	ov := map[string][]byte{}
	for _, f := range files {
		if !strings.HasSuffix(f, ".go") {
			continue
		}
		b, err := os.ReadFile(filepath.Join(tmp, f))
		if err != nil {
			continue
		}
		ov[filepath.Join(root, f)] = b
	}
	return ov, nil
}
