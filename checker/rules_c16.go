package main

import (
	"go/token"
	"go/types"
	"strings"

	"golang.org/x/tools/go/ssa"
)

func init() {
	register("C16", PropertyMeta{
		Technique: "response-addressing provenance + guard dominance of every Send + consumed-peek audit of every discarded RetrieveIncoming + no-loss-after-retrieve path rule",
		Explanation: "Decides, for the memory-protocol agents (mem/ outside mem/vm): (1) every response under construction takes RspTo and Dst from the ID and source of one request record (the request itself or the record stored when it was admitted), with DataReadyRsp built from read records and WriteDoneRsp from write records; " +
			"(2) every Port.Send in mem/ and noc/ is dominated by a successful CanSend on the same port (in the function, in every caller, or through a guard wrapper); (3) every RetrieveIncoming whose result is discarded is a consumed peek — the same port was peeked in that function, or the peeked message was passed in as a parameter; " +
			"(4) on no path is a message retrieved from a port and then abandoned because a later CanSend test fails (back-pressure must be tested before the message is removed). (tag-install-valid) a function that installs a tag into a directory block does not mark that block invalid; (storage-write-mask) every function that commits a write request's payload to backing storage consults the request's DirtyMask. (pipeline-depth) every configuration field that sizes a queueing.Pipeline is compared with 0 somewhere in its package (bypass or rejection).",
		NotDecided:  "every clause about data bytes, dirty masks, coalescing, eviction gating, and 'exactly one response' beyond addressing: these depend on cache contents and transaction flows.",
		Assumptions: []string{"request records name their ID/source fields with an ID/Src suffix and a common stem (checked on every site: an unrecognised naming is reported, not skipped)"},
	}, runC16)
	register("C21", PropertyMeta{
		Technique:   "decision tables of the reorder buffer's admit/match/release steps + response provenance",
		Explanation: "Decides on mem/rob/middleware.go: the transaction released by bottomUp is element 0 of the transaction list, only when it has its response and the top port can send, and the list is then advanced by exactly one; transactions are appended only by topDown, recording the top request's ID and source and the shadow request's ID; bottom responses are matched to a transaction by comparing the stored shadow ID with the response's RspTo; the top response takes Dst, RspTo and data from that same transaction, DataReadyRsp for reads and WriteDoneRsp for writes. (state-lossless) the reorder buffer's State (including the held response data) is lossless through the checkpoint codec.",
		NotDecided:  "timing; behaviour of the lower unit.",
		Assumptions: []string{},
	}, runC21)
	register("C23", PropertyMeta{
		Technique:   "decision tables of request intake and completion + response provenance + explicit-placement rule for staged chunks",
		Explanation: "Decides on mem/datamover: a new request is retrieved only when no transaction is active and is recorded with its ID and source; the acknowledgement is sent exactly once, only when every issued read and write has been acknowledged, addressed with the active transaction's request ID and source, and the transaction is cleared on that path; a staged source chunk is stored at the slot computed from its address (so arrival order cannot permute data) and holds a private copy of the bytes. (idempotent-stall) nothing that advances the cursors or releases staged bytes runs before a destination-busy stall test. (head-consumed) when the response at the head of a memory-side port is not of the kind a step handles, that step can still take it off the port (it is an orphan when source and destination are different ports). (size-granularity) the function that admits a move checks its byte count against the chunk granularity like its addresses.",
		NotDecided:  "everything else about bytes and granularity chunking (value-level).",
		Assumptions: []string{},
	}, runC23)
	register("C25", PropertyMeta{
		Technique: "response-addressing provenance over the translation agents + stale-response guard audit + no-loss-after-retrieve path rule + the pipeline region coverage of C15",
		Explanation: "Decides, for mem/vm (address translator, TLB, MMU cache, MMU, GMMU): (1) the RspTo and Dst of every TranslationRsp (and forwarded memory response) derive from the ID and source of one request record; (2) a bottom response is discarded as stale only on a path that compared its RspTo with an outstanding request; " +
			"(3) no translation response is retrieved from a port and then dropped because a later CanSend fails; (4) the TLB's pipeline configuration cannot strand a request (C15's item-state coverage, re-run here). (key-injective) lruset.KeyString separates its fields by a constant or gives every field after the first a fixed zero-padded width. (invalidate-inflight) the TLB's Invalidate handler looks at the outstanding misses (reported as a known finding today).",
		NotDecided:  "physical address arithmetic, page offset preservation, invalidation semantics against page-table updates.",
		Assumptions: []string{},
	}, runC25)
}

func memNonVM(pp string) bool {
	rel := strings.TrimPrefix(pp, ModPath+"/")
	return !clientPkg(pp) && (rel == "mem" || strings.HasPrefix(rel, "mem/")) && !strings.HasPrefix(rel, "mem/vm") && !strings.HasSuffix(rel, "protocol")
}

func memVM(pp string) bool {
	rel := strings.TrimPrefix(pp, ModPath+"/")
	return !clientPkg(pp) && strings.HasPrefix(rel, "mem/vm") && !strings.HasSuffix(rel, "protocol")
}

// responseKindRule: DataReadyRsp from read records, WriteDoneRsp from write records.
func responseKindRule(c *Ctx, rule string, pred func(string) bool) {
	p := c.P
	n := 0
	for _, fn := range p.SrcFuncs(pred) {
		for _, b := range fn.Blocks {
			for _, in := range b.Instrs {
				st, ok := in.(*ssa.Store)
				if !ok || !isMetaField(st.Addr, "RspTo") {
					continue
				}
				root := memRoot(st.Addr)
				tname := types.TypeString(root.Type(), nil)
				key := VKey(st.Val)
				kind := ""
				switch {
				case strings.Contains(tname, "DataReadyRsp"):
					kind = "read"
				case strings.Contains(tname, "WriteDoneRsp"):
					kind = "write"
				default:
					continue
				}
				n++
				hasR, hasW := strings.Contains(key, "Read"), strings.Contains(key, "Write")
				bad := (kind == "read" && hasW && !hasR) || (kind == "write" && hasR && !hasW)
				c.Check(!bad, rule, "kind@"+SSAFuncKey(fn)+"#"+kind, st.Pos(), "response kind matches the record it answers",
					"a "+map[string]string{"read": "DataReadyRsp", "write": "WriteDoneRsp"}[kind]+" references "+key+": the response kind does not match the request kind it answers")
			}
		}
	}
	c.Floor(rule, 8)
}

func sendGuardRule(c *Ctx, rule string, pred func(string) bool, floor int) {
	p := c.P
	fns := p.SrcFuncs(func(pp string) bool { return !clientPkg(pp) })
	g := newGuardChecker(p, fns)
	for _, r := range g.CheckGuardPair(pairSend, func(s CallSite) bool {
		return pred(pkgOfFn(s.Fn)) && !strings.HasSuffix(p.DeclFile(s.Fn), "contract.go")
	}) {
		c.Check(r.OK, rule, "Send@"+SSAFuncKey(r.Site.Fn)+"#"+suffixKey(r.Detail), r.Site.Pos(), "dominated by CanSend ("+r.How+")",
			"a message is sent without a dominating successful CanSend on the same port ("+r.How+"): a full outgoing buffer panics, or the guard protects a different port")
	}
	c.Floor(rule, floor)
}

func consumedPeekRule(c *Ctx, rule string, pred func(string) bool, floor int) {
	p := c.P
	msg := ifaceOf(p, "messaging", "Msg")
	fns := p.SrcFuncs(pred)
	for _, s := range CallSites(fns, func(f *types.Func) bool { return methodOf(f, "messaging", "", "RetrieveIncoming") }) {
		if strings.HasSuffix(p.DeclFile(s.Fn), "contract.go") {
			continue
		}
		v, _ := s.Instr.(ssa.Value)
		if v != nil && v.Referrers() != nil && len(*v.Referrers()) > 0 {
			c.Ok(rule, "RetrieveIncoming@"+SSAFuncKey(s.Fn), s.Pos(), "the retrieved message is used")
			continue
		}
		recv := VKey(s.Recv())
		ok := false
		for _, ps := range CallSites([]*ssa.Function{s.Fn}, func(f *types.Func) bool { return methodOf(f, "messaging", "", "PeekIncoming") }) {
			if VKey(ps.Recv()) == recv {
				ok = true
			}
		}
		for _, pv := range s.Fn.Params {
			if msg != nil && types.Implements(pv.Type(), msg) {
				ok = true
			}
		}
		c.Check(ok, rule, "RetrieveIncoming@"+SSAFuncKey(s.Fn)+"#"+suffixKey(recv), s.Pos(), "consumed peek",
			"a message is removed from a port and discarded without having been peeked in this function or handed in by the caller: a request would vanish unanswered")
	}
	c.Floor(rule, floor)
}

// noLossAfterRetrieveRule sweeps the middleware functions of the selected
// packages: on no path may a RetrieveIncoming be followed by a failed CanSend
// test that ends the path without a Send.
func noLossAfterRetrieveRule(c *Ctx, rule string, pred func(string) bool) {
	p := c.P
	analysed, skipped := 0, 0
	for _, f := range p.FuncsIn(pred) {
		fd := p.Decl(f)
		if strings.HasSuffix(p.Rel(fd.Pos()), "_test.go") || strings.Contains(p.Rel(fd.Pos()), "contract.go") {
			continue
		}
		fn := p.SSAFunc(f)
		if fn == nil {
			continue
		}
		// only functions that retrieve from a port, directly or through same-package callees one level down
		direct := len(CallSites([]*ssa.Function{fn}, func(g *types.Func) bool { return methodOf(g, "messaging", "", "RetrieveIncoming") })) > 0
		if !direct {
			continue
		}
		t := ExtractTable(p, f, TableConfig{Domain: []int{0, 1}, LoopsOnce: true, MaxRows: 4000, Inline: func(g *types.Func) bool {
			return g.Pkg() == f.Pkg() && p.Decl(g) != nil && g != f && returnsBool(g) && !strings.HasPrefix(g.Name(), "make")
		}})
		if len(t.Unsupported) > 0 || t.Truncated || len(t.Rows) == 0 {
			skipped++
			continue
		}
		analysed++
		bad := ""
		for _, r := range t.Rows {
			retr := r.Calls(func(e *Effect) bool {
				return e.Kind == "call" && e.Callee != nil && e.Callee.Name() == "RetrieveIncoming"
			})
			if len(retr) == 0 {
				continue
			}
			for _, a := range r.Atoms {
				if a.IsBool && !a.B && a.HasName("CanSend") && a.Gen >= retr[0].Gen {
					// the same port was found able to send earlier on this path and
					// nothing was sent on it since: this branch cannot be taken
					infeasible := false
					for _, e := range r.Atoms {
						if e != a && e.IsBool && e.B && e.Key == a.Key && e.Gen < a.Gen {
							sentBetween := r.Calls(func(x *Effect) bool {
								return x.Kind == "call" && x.Callee != nil && x.Callee.Name() == "Send" && x.Gen > e.Gen && x.Gen <= a.Gen
							})
							if len(sentBetween) == 0 {
								infeasible = true
							}
						}
					}
					if infeasible {
						continue
					}
					// was anything sent or stored for this message afterwards?
					sends := r.Calls(func(e *Effect) bool {
						return e.Kind == "call" && e.Callee != nil && e.Callee.Name() == "Send" && e.Gen > retr[0].Gen
					})
					if len(sends) == 0 && r.Out.Kind == "return" {
						bad = "after " + retr[0].Str + " the path tests " + a.Key + ", finds it false and returns without sending: the retrieved message is lost (" + truncate(r.String(), 200) + ")"
					}
				}
			}
		}
		c.Check(bad == "", rule, FuncKey(f), fd.Pos(), "no path retrieves a message and then abandons it on back-pressure", bad)
	}
	c.Note("%s: %d functions analysed, %d outside the analysable fragment (not decided)", rule, analysed, skipped)
}

func returnsBool(g *types.Func) bool {
	sig := g.Type().(*types.Signature)
	return sig.Results().Len() == 1 && isBoolType(sig.Results().At(0).Type())
}

// readsFieldNamed reports whether fn, or a same-package function it statically
// calls (to depth 3), reads a struct field with the given name.
func readsFieldNamed(fn *ssa.Function, name string, depth int, seen map[*ssa.Function]bool) bool {
	if fn == nil || seen[fn] || depth > 3 {
		return false
	}
	seen[fn] = true
	for _, b := range fn.Blocks {
		for _, in := range b.Instrs {
			switch v := in.(type) {
			case *ssa.FieldAddr:
				if f := FieldOf(v); f != nil && f.Name() == name {
					return true
				}
			case *ssa.Field:
				if f := FieldOf(v); f != nil && f.Name() == name {
					return true
				}
			case ssa.CallInstruction:
				if sc := v.Common().StaticCallee(); sc != nil && sc.Pkg == fn.Pkg {
					if readsFieldNamed(origin(sc), name, depth+1, seen) {
						return true
					}
				}
			}
		}
	}
	return false
}

// maskAwareRule: a boolean predicate that compares the length of a write's data
// with something (the line size) decides whether the write covers a whole line;
// such a predicate must also consult the write's dirty mask, because a
// block-long write with a partial mask does not cover the line.
func maskAwareRule(c *Ctx, rule string) {
	p := c.P
	n := 0
	for _, fn := range p.SrcFuncs(func(pp string) bool { return strings.Contains(pp, "/mem/cache") && !clientPkg(pp) }) {
		if fn.Signature.Results().Len() != 1 || !isBoolType(fn.Signature.Results().At(0).Type()) {
			continue
		}
		cmp := false
		for _, b := range fn.Blocks {
			for _, in := range b.Instrs {
				bo, ok := in.(*ssa.BinOp)
				if !ok {
					continue
				}
				switch bo.Op {
				case token.EQL, token.NEQ, token.LSS, token.GEQ, token.GTR, token.LEQ:
				default:
					continue
				}
				for _, side := range []ssa.Value{bo.X, bo.Y} {
					if call, isCall := side.(*ssa.Call); isCall {
						if bi, isB := call.Common().Value.(*ssa.Builtin); isB && bi.Name() == "len" && len(call.Common().Args) == 1 {
							if strings.HasSuffix(VKey(call.Common().Args[0]), ".WriteData") {
								cmp = true
							}
						}
					}
				}
			}
		}
		if !cmp {
			continue
		}
		n++
		c.Check(readsFieldNamed(fn, "WriteDirtyMask", 0, map[*ssa.Function]bool{}), rule, SSAFuncKey(fn), fn.Pos(), "the full-line predicate consults the dirty mask",
			"a predicate decides from the length of the write data alone whether the write covers the line; a block-long write with a partial dirty mask would then skip the fetch and expose the evicted line's bytes")
	}
	c.Floor(rule, 2)
}

func runC16(c *Ctx) {
	pipelineDepthRule(c, "pipeline-depth", func(pp string) bool { return strings.HasPrefix(pp, ModPath+"/mem/") }, 4)
	storageWriteMaskRule(c, "storage-write-mask", 3)
	tagInstallValidRule(c, "tag-install-valid", 5)
	maskAwareRule(c, "mask-aware-full-line")
	responseAddressingRule(c, "response-addressing", memNonVM, 20)
	responseKindRule(c, "response-kind", memNonVM)
	sendGuardRule(c, "send-guard", func(pp string) bool {
		rel := strings.TrimPrefix(pp, ModPath+"/")
		return strings.HasPrefix(rel, "mem") || strings.HasPrefix(rel, "noc")
	}, 100)
	consumedPeekRule(c, "consumed-peek", memNonVM, 60)
	noLossAfterRetrieveRule(c, "no-loss-after-retrieve", memNonVM)
	slotPinningRule(c, "slot-pinning")
	routeByLineRule(c, "route-by-line")
	invalidateSweepRule(c, "invalidate-sweep", []string{"mem/cache/writeback", "mem/cache/writethroughcache"}, 2)
	spliceRule(c, "splice-in-loop", memNonVM)
	idempotentStallRule(c, "idempotent-stall", func(pp string) bool {
		return strings.HasPrefix(pp, ModPath+"/mem/") && !strings.HasPrefix(pp, ModPath+"/mem/cache") && !strings.HasPrefix(pp, ModPath+"/mem/vm")
	}, 10)
}

func runC21(c *Ctx) {
	// the response held for a transaction that waits behind the head of line is
	// component state: it must survive a checkpoint like the rest of the record
	{
		_, states := c.P.componentTypeArgs()
		robStates := map[string]types.Type{}
		for k, t := range states {
			if strings.Contains(k, "mem/rob.") {
				robStates[k] = t
			}
		}
		losslessRule(c, "state-lossless", "state", robStates)
		c.Floor("state-lossless", 1)
	}
	p := c.P
	dom := []int{0, 1, 2}
	trF := c.field("anchors", "mem/rob", "State", "Transactions")
	if trF == nil {
		return
	}
	norm := func(s string) string { return strings.ReplaceAll(strings.ReplaceAll(s, "&", ""), " ", "") }
	if f := c.fn("release-table", "mem/rob", "middleware", "bottomUp"); f != nil {
		build := p.LookupFunc("mem/rob", "middleware", "buildTopRsp")
		t := ExtractTable(p, f, TableConfig{Domain: dom})
		roles := []Role{
			{Name: "n", Match: func(a *Atom) bool { return a.HasLenOf() && a.Has(trF) }},
			{Name: "has", IsBool: true, Match: func(a *Atom) bool { return a.HasName("HasRsp") }},
			{Name: "can", IsBool: true, Match: func(a *Atom) bool { return a.HasName("CanSend") }},
		}
		CheckTable(c, "release-table", "mem/rob.middleware.bottomUp", p.Decl(f).Pos(), t, roles, dom, nil, func(v RoleVals, r *Row) (bool, string) {
			send := r.Calls(func(e *Effect) bool { return e.Kind == "call" && e.Callee != nil && e.Callee.Name() == "Send" })
			adv := r.Stores(func(e *Effect) bool { return e.RecvHas(trF) && sameObj(e.Recv[len(e.Recv)-1].Obj, trF) })
			hasAtom := r.Atom(func(a *Atom) bool { return a.HasName("HasRsp") })
			if hasAtom != nil && !strings.Contains(norm(hasAtom.Key), "Transactions[0].HasRsp") {
				return false, "the transaction examined for release must be the oldest one (element 0)"
			}
			if v["n"] == 0 || !v.B("has") || !v.B("can") {
				if len(send)+len(adv) != 0 {
					return false, "nothing may be released while the list is empty, the oldest transaction has no response yet, or the top port is full"
				}
				return true, ""
			}
			if len(send) != 1 || len(adv) != 1 {
				return false, "the oldest transaction must be answered once and removed once"
			}
			b := r.Calls(func(e *Effect) bool { return e.Callee == build })
			if len(b) != 1 || !strings.Contains(norm(b[0].Args[0]), "Transactions[0]") || !strings.Contains(send[0].Args[0], "buildTopRsp(") {
				return false, "the response sent must be built from element 0 of the transaction list (arrival order)"
			}
			if norm(adv[0].Args[0]) != norm(adv[0].RecvS)+"[1:]" || adv[0].Gen < send[0].Gen {
				return false, "after the response is sent the list must advance by exactly its head"
			}
			return true, ""
		})
	}
	// who writes the transaction list
	fns := p.SrcFuncs(func(pp string) bool { return strings.HasSuffix(pp, "/mem/rob") })
	for _, w := range FieldWrites(fns, trF) {
		k := SSAFuncKey(w.Fn)
		okW := k == "mem/rob.middleware.topDown" || k == "mem/rob.middleware.bottomUp" || k == "mem/rob.middleware.parseBottom" || strings.Contains(strings.ToLower(k), "reset") || strings.Contains(k, "endInflight")
		c.Check(okW, "list-ownership", "State.Transactions@"+k, w.Pos, "written by admit/match/release/reset", "the transaction list is modified outside topDown/parseBottom/bottomUp/reset ("+w.Kind+")")
	}
	c.Floor("list-ownership", 3)
	if f := c.fn("admit-table", "mem/rob", "middleware", "topDown"); f != nil {
		t := ExtractTable(p, f, TableConfig{Domain: dom})
		ok, why := len(t.Unsupported) == 0 && len(t.Rows) > 0, "outside the analysable fragment: "+strings.Join(t.Unsupported, ";")
		saw := false
		for _, r := range t.Rows {
			app := r.Stores(func(e *Effect) bool { return e.RecvHas(trF) && strings.Contains(e.Args[0], "append(") })
			if len(app) == 0 {
				continue
			}
			saw = true
			a := norm(app[0].Args[0])
			if !strings.HasPrefix(a, "append("+norm(app[0].RecvS)+",") {
				ok, why = false, "a new transaction must be appended at the back of the list"
			}
			for _, want := range []string{"ReqFromTopID:", "ReqFromTopSrc:", "ReqToBottomID:"} {
				if !strings.Contains(a, want) {
					ok, why = false, "the transaction record must keep "+strings.TrimSuffix(want, ":")
				}
			}
			if !strings.Contains(a, "ReqFromTopID:m.topPort().PeekIncoming().(memprotocol.AccessReq).Meta().ID") || !strings.Contains(a, "ReqFromTopSrc:m.topPort().PeekIncoming().(memprotocol.AccessReq).Meta().Src") {
				ok, why = false, "the record must keep the ID and source of the request being admitted"
			}
			if !strings.Contains(a, "ReqToBottomID:") || !strings.Contains(a, "buildShadowReq(") {
				ok, why = false, "the record must keep the ID of the shadow request sent downstream"
			}
			ret := r.Calls(func(e *Effect) bool {
				return e.Kind == "call" && e.Callee != nil && e.Callee.Name() == "RetrieveIncoming"
			})
			snd := r.Calls(func(e *Effect) bool { return e.Kind == "call" && e.Callee != nil && e.Callee.Name() == "Send" })
			if len(ret) != 1 || len(snd) != 1 {
				ok, why = false, "an admitted request is forwarded once and removed from the top port once"
			}
		}
		c.Check(ok && saw, "admit-table", "mem/rob.middleware.topDown", p.Decl(f).Pos(), "append{top ID, top source, shadow ID}; forward; retrieve", why)
	}
	if f := c.fn("match-table", "mem/rob", "middleware", "findTransactionByBottomID"); f != nil {
		t := ExtractTable(p, f, TableConfig{Domain: dom, LoopsOnce: true})
		ok := len(t.Unsupported) == 0 && len(t.Rows) > 0
		saw := false
		for _, r := range t.Rows {
			for _, a := range r.Atoms {
				if a.IsBool && strings.Contains(a.Key, "ReqToBottomID") && strings.Contains(a.Key, "id") {
					saw = true
				}
				if !a.IsBool && strings.Contains(a.Key, "ReqToBottomID") {
					saw = true
				}
			}
		}
		c.Check(ok && saw, "match-table", "mem/rob.middleware.findTransactionByBottomID", p.Decl(f).Pos(), "matches on the stored shadow request ID", "bottom responses must be matched to a transaction by the stored shadow request ID")
	}
	if f := c.fn("match-table", "mem/rob", "middleware", "parseBottom"); f != nil {
		find := p.LookupFunc("mem/rob", "middleware", "findTransactionByBottomID")
		t := ExtractTable(p, f, TableConfig{Domain: dom})
		ok, why := len(t.Unsupported) == 0 && len(t.Rows) > 0, "outside the analysable fragment"
		for _, r := range t.Rows {
			for _, e := range r.Calls(func(e *Effect) bool { return e.Callee == find }) {
				if !strings.HasSuffix(e.Args[0], ".RspTo") {
					ok, why = false, "a bottom response must be matched by its RspTo"
				}
			}
			st := r.Stores(func(e *Effect) bool { return strings.HasSuffix(e.RecvS, ".HasRsp") })
			for _, s := range st {
				if !strings.Contains(s.RecvS, "findTransactionByBottomID(") {
					ok, why = false, "the response must be recorded on the transaction it was matched to"
				}
			}
		}
		c.Check(ok, "match-table", "mem/rob.middleware.parseBottom", p.Decl(f).Pos(), "match by RspTo; record on the matched transaction", why)
	}
	responseAddressingRule(c, "response-addressing", func(pp string) bool { return strings.HasSuffix(pp, "/mem/rob") }, 2)
	if f := c.fn("response-kind", "mem/rob", "middleware", "buildTopRsp"); f != nil {
		t := ExtractTable(p, f, TableConfig{Domain: dom})
		roles := []Role{{Name: "read", IsBool: true, Match: func(a *Atom) bool { return a.HasName("IsRead") }}}
		CheckTable(c, "response-kind", "mem/rob.middleware.buildTopRsp", p.Decl(f).Pos(), t, roles, dom, nil, func(v RoleVals, r *Row) (bool, string) {
			if r.Out.Kind != "return" || len(r.Out.Vals) != 1 {
				return false, "must return the response"
			}
			s := r.Out.Vals[0].String()
			if v.B("read") != strings.Contains(s, "DataReadyRsp") {
				return false, "reads are answered with DataReadyRsp and writes with WriteDoneRsp"
			}
			if v.B("read") && !strings.Contains(norm(s), "Data:trans.RspData") {
				return false, "a read response must carry the data recorded for that transaction"
			}
			return true, ""
		})
	}
}

func runC23(c *Ctx) {
	sizeGranularityRule(c, "size-granularity")
	headConsumedDatamoverRule(c, "head-consumed")
	// a stalled write (destination port busy) is retried next tick: nothing that
	// advances the cursors or releases staged bytes may run before the stall test
	idempotentStallRule(c, "idempotent-stall", func(pp string) bool { return pp == pkgPath("mem/datamover") }, 1)
	// the staging buffer's base offset stays a multiple of the source granularity: chunk
	// slots are computed from it
	if of := c.field("offset-aligned", "mem/datamover", "bufferState", "Offset"); of != nil {
		n := 0
		for _, fn := range c.P.SrcFuncs(func(pp string) bool { return pp == pkgPath("mem/datamover") }) {
			for _, b := range fn.Blocks {
				for _, in := range b.Instrs {
					st, ok := in.(*ssa.Store)
					if !ok {
						continue
					}
					if fo := FieldOf(st.Addr); fo == nil || !sameObj(fo, of) {
						continue
					}
					n++
					c.Check(lineAligned(c.P, fn, st.Val, 0, map[*types.Var]bool{}), "offset-aligned", SSAFuncKey(fn)+"@Buffer.Offset", st.Pos(), "the offset is assigned a granularity-aligned value",
						"the staging buffer's base offset is assigned "+VKey(st.Val)+", which is not rounded down to the source granularity: chunk slots are computed relative to it, so with granularities that are not multiples of each other later chunks are filed into the wrong slot, destination writes are assembled from the wrong bytes and bytes beyond the range are written")
				}
			}
		}
		c.Check(n >= 2, "offset-aligned", "instances", 0, "offset stores found", "fewer than two stores of the buffer offset found")
	}

	// read admission: a source read is issued exactly when the transfer is active, the
	// chunk starts inside the staging window and inside the requested range, and the
	// source port can send
	if f := c.fn("read-window", "mem/datamover", "dataTransferMW", "readFromSrc"); f != nil {
		t := ExtractTable(c.P, f, TableConfig{Domain: []int{0, 1, 2}, MaxRows: 60000})
		roles := []Role{
			{Name: "active", IsBool: true, Match: func(a *Atom) bool { return strings.HasSuffix(a.Key, ".Active") }},
			{Name: "addr", Match: func(a *Atom) bool { return strings.HasPrefix(a.Key, "alignAddress(") }},
			{Name: "src", Match: func(a *Atom) bool { return strings.HasSuffix(a.Key, ".SrcAddress") }},
			{Name: "off", Match: func(a *Atom) bool { return strings.HasSuffix(a.Key, ".Buffer.Offset") }},
			{Name: "buf", Match: func(a *Atom) bool { return strings.HasSuffix(a.Key, ".BufferSize") }},
			{Name: "size", Match: func(a *Atom) bool { return strings.HasSuffix(a.Key, ".ByteSize") }},
			{Name: "can", IsBool: true, Match: func(a *Atom) bool { return strings.HasSuffix(a.Key, ".CanSend()") }},
		}
		CheckTable(c, "read-window", "mem/datamover.dataTransferMW.readFromSrc", c.P.Decl(f).Pos(), t, roles, []int{0, 1, 2},
			func(v RoleVals) bool { return v["addr"] >= v["src"] && v["buf"] >= 1 },
			func(v RoleVals, r *Row) (bool, string) {
				sends := r.Calls(func(e *Effect) bool { return e.Callee != nil && e.Callee.Name() == "Send" })
				want := v.B("active") && (v["addr"]-v["src"]) < (v["off"]+v["buf"]) && v["addr"] < v["src"]+v["size"] && v.B("can")
				if want && len(sends) != 1 {
					return false, "a chunk that starts inside the staging window and inside the requested range must be read (when the source port can send): refusing it because its tail does not fit stalls the transfer for good when the buffer is not a whole number of source chunks — the move is never acknowledged"
				}
				if !want && len(sends) != 0 {
					return false, "a read is issued although the transfer is inactive, the chunk starts beyond the staging window or the requested range, or the port cannot send"
				}
				return true, ""
			})
	}

	p := c.P
	dom := []int{0, 1, 2}
	ctF := c.field("anchors", "mem/datamover", "State", "CurrentTransaction")
	if ctF == nil {
		return
	}
	norm := func(s string) string { return strings.ReplaceAll(strings.ReplaceAll(s, "&", ""), " ", "") }
	if f := c.fn("intake-table", "mem/datamover", "ctrlParseMW", "parseFromCP"); f != nil {
		t := ExtractTable(p, f, TableConfig{Domain: dom})
		roles := []Role{
			{Name: "active", IsBool: true, Match: func(a *Atom) bool { return a.HasName("Active") }},
			{Name: "none", IsBool: true, Match: func(a *Atom) bool { return strings.Contains(a.Key, "nil") && a.HasName("PeekIncoming") }},
		}
		CheckTable(c, "intake-table", "mem/datamover.ctrlParseMW.parseFromCP", p.Decl(f).Pos(), t, roles, dom, nil, func(v RoleVals, r *Row) (bool, string) {
			ret := r.Calls(func(e *Effect) bool {
				return e.Kind == "call" && e.Callee != nil && e.Callee.Name() == "RetrieveIncoming"
			})
			st := r.Stores(func(e *Effect) bool { return e.RecvHas(ctF) && sameObj(e.Recv[len(e.Recv)-1].Obj, ctF) })
			if v.B("active") {
				if len(ret)+len(st) != 0 {
					return false, "while a move is in progress the next request must stay queued (requests are served one at a time)"
				}
				return true, ""
			}
			if v.B("none") || r.Out.Kind == "panic" {
				return len(ret)+len(st) == 0, "nothing to admit"
			}
			if len(ret) != 1 || len(st) != 1 {
				return false, "an admitted request is retrieved once and becomes the current transaction"
			}
			a := norm(st[0].Args[0])
			for _, w := range []string{"Active:true", "ReqID:m.topPort().PeekIncoming().(datamoverprotocol.DataMoveRequest).ID", "ReqSrc:m.topPort().PeekIncoming().(datamoverprotocol.DataMoveRequest).Src"} {
				if !strings.Contains(a, w) {
					return false, "the current transaction must be marked active and keep the request's ID and source (missing " + w + ")"
				}
			}
			return true, ""
		})
	}
	if f := c.fn("completion-table", "mem/datamover", "ctrlParseMW", "finishTransaction"); f != nil {
		t := ExtractTable(p, f, TableConfig{Domain: dom})
		roles := []Role{
			{Name: "active", IsBool: true, Match: func(a *Atom) bool { return a.HasName("Active") }},
			{Name: "pr", Match: func(a *Atom) bool { return a.HasLenOf() && a.HasName("PendingRead") }},
			{Name: "pw", Match: func(a *Atom) bool { return a.HasLenOf() && a.HasName("PendingWrite") }},
			{Name: "can", IsBool: true, Match: func(a *Atom) bool { return a.HasName("CanSend") }},
		}
		CheckTable(c, "completion-table", "mem/datamover.ctrlParseMW.finishTransaction", p.Decl(f).Pos(), t, roles, dom, nil, func(v RoleVals, r *Row) (bool, string) {
			send := r.Calls(func(e *Effect) bool { return e.Kind == "call" && e.Callee != nil && e.Callee.Name() == "Send" })
			st := r.Stores(func(e *Effect) bool { return e.RecvHas(ctF) && sameObj(e.Recv[len(e.Recv)-1].Obj, ctF) })
			if !v.B("active") || v["pr"] > 0 || v["pw"] > 0 || !v.B("can") {
				if len(send)+len(st) != 0 {
					return false, "a move may be acknowledged only while it is active, every read and write has been acknowledged, and the top port can send"
				}
				return true, ""
			}
			if len(send) == 0 {
				return true, "" // still issuing (address test): not complete yet
			}
			if len(send) != 1 || len(st) != 1 || st[0].Gen < send[0].Gen {
				return false, "a completed move is acknowledged exactly once and the transaction is then cleared"
			}
			if strings.Contains(norm(st[0].Args[0]), "Active:true") {
				return false, "the cleared transaction must be inactive"
			}
			return true, ""
		})
	}
	responseAddressingRule(c, "response-addressing", func(pp string) bool { return strings.HasSuffix(pp, "/mem/datamover") }, 1)
	if f := c.fn("chunk-placement", "mem/datamover", "", "bufferAddData"); f != nil {
		t := ExtractTable(p, f, TableConfig{Domain: dom, LoopsOnce: true})
		ok, why := len(t.Unsupported) == 0 && len(t.Rows) > 0, "outside the analysable fragment: "+strings.Join(t.Unsupported, ";")
		for _, r := range t.Rows {
			if r.Out.Kind != "return" {
				continue
			}
			placed := false
			for _, s := range r.Stores(func(e *Effect) bool { return strings.Contains(e.RecvS, "Chunks") }) {
				a := norm(s.Args[0])
				valid := strings.Contains(a, "Valid:true")
				if !valid {
					continue
				}
				if !strings.HasSuffix(norm(s.RecvS), "Chunks[slot]") && !strings.Contains(norm(s.RecvS), "Chunks[(offset-bs.Offset)/bs.Granularity]") {
					ok, why = false, "arriving data is stored at "+s.RecvS+" instead of the slot computed from its address: chunks that arrive out of address order are then written to the wrong destination"
				}
				if !strings.Contains(a, "Data:make(") && !strings.Contains(a, "Data:dataCopy") {
					ok, why = false, "the staged chunk must hold a private copy of the bytes"
				}
				placed = true
			}
			if !placed {
				ok, why = false, "a path returns without staging the data"
			}
		}
		c.Check(ok, "chunk-placement", "mem/datamover.bufferAddData", p.Decl(f).Pos(), "data stored at the slot computed from its address", why)
	}
}

// staleGuardRule: a bottom response may be discarded (retrieved without being
// forwarded) only on a path that consulted the outstanding-request record with
// the response's RspTo.
func staleGuardRule(c *Ctx, rule string) {
	p := c.P
	type site struct{ rel, recv, fn string }
	for _, s := range []site{{"mem/vm/tlb", "tlbMiddleware", "parseBottom"}, {"mem/vm/gmmu", "respondMW", "handleTranslationRsp"}, {"mem/vm/mmuCache", "mmuCacheMiddleware", "handleRsp"}} {
		f := c.fn(rule, s.rel, s.recv, s.fn)
		if f == nil {
			continue
		}
		t := ExtractTable(p, f, TableConfig{Domain: []int{0, 1}, LoopsOnce: true})
		if len(t.Unsupported) > 0 || len(t.Rows) == 0 {
			c.Unknown(rule, FuncKey(f), p.Decl(f).Pos(), "outside the analysable fragment: "+strings.Join(uniqStr(t.Unsupported), ";"))
			continue
		}
		ok, why := true, ""
		sawDiscard := false
		for _, r := range t.Rows {
			sends := r.Calls(func(e *Effect) bool { return e.Kind == "call" && e.Callee != nil && e.Callee.Name() == "Send" })
			if len(sends) > 0 || r.Out.Kind != "return" {
				continue
			}
			// a path that neither forwards nor keeps waiting: returns true (progress) without sending = discard
			retr := r.Calls(func(e *Effect) bool {
				return e.Kind == "call" && e.Callee != nil && e.Callee.Name() == "RetrieveIncoming"
			})
			stores := r.Stores(func(e *Effect) bool { return strings.Contains(e.RecvS, ".State.") })
			if len(retr) > 0 && len(stores) == 0 {
				consulted := false
				for _, a := range r.Atoms {
					if strings.Contains(a.Key, ".RspTo") {
						consulted = true
					}
					// a miss in the outstanding-request lookup
					if a.IsBool && !a.B && (strings.HasPrefix(a.Key, "ok(") || strings.Contains(a.Key, "#1")) {
						consulted = true
					}
				}
				for _, e := range r.Effects {
					if strings.Contains(e.Str, ".RspTo") {
						consulted = true
					}
				}
				sawDiscard = true
				if !consulted {
					ok, why = false, "a bottom response is dropped on a path that never compared its RspTo with an outstanding request: "+truncate(r.String(), 200)
				}
			}
		}
		_ = sawDiscard
		c.Check(ok, rule, FuncKey(f), p.Decl(f).Pos(), "responses are dropped only after their RspTo was checked against the outstanding requests", why)
	}
	c.Floor(rule, 3)
}

func runC25(c *Ctx) {
	invalidateInflightRule(c, "invalidate-inflight", []string{"mem/vm/tlb"})
	keyInjectiveRule(c, "key-injective")
	responseAddressingRule(c, "response-addressing", memVM, 12)
	sendGuardRule(c, "send-guard", memVM, 15)
	consumedPeekRule(c, "consumed-peek", memVM, 15)
	noLossAfterRetrieveRule(c, "no-loss-after-retrieve", memVM)
	staleGuardRule(c, "stale-response-guard")
	invalidateSweepRule(c, "invalidate-sweep", []string{"mem/vm/tlb", "mem/vm/mmuCache"}, 3)
	spliceRule(c, "splice-in-loop", memVM)
	// the TLB depends on the pipeline never stranding an item
	sub := newCtx(c.P, "C15", c.Tier)
	runC15(sub)
	for _, o := range sub.Obs {
		if o.Rule == "region-coverage" || o.Rule == "transition-safety" {
			o.Property = c.Prop
			o.Rule = "pipeline-" + o.Rule
			c.Obs = append(c.Obs, o)
			c.counts[o.Rule]++
		}
	}
	c.Floor("pipeline-region-coverage", 4)
	_ = token.NoPos
}

// slotPinningRule (write-back cache): a transaction slot whose index is held in
// one of State's index lists is still owed work (a queued or in-flight eviction,
// an in-flight fetch) even when it is already marked Removed for its requester;
// the allocator must consult every such list before it reuses a slot.
func slotPinningRule(c *Ctx, rule string) {
	p := c.P
	rel := "mem/cache/writeback"
	st := p.LookupType(rel, "State")
	alloc := p.LookupFunc(rel, "State", "allocTransaction")
	trans := p.Field(rel, "State", "Transactions")
	if st == nil || alloc == nil || trans == nil {
		c.Unknown(rule, rel+".State.allocTransaction", token.NoPos, "anchor not found")
		return
	}
	scope := p.SrcFuncs(func(pp string) bool { return pp == pkgPath(rel) })
	s := st.Type().Underlying().(*types.Struct)
	// index holders: []int fields whose elements are used to index Transactions somewhere
	var holders []*types.Var
	for i := 0; i < s.NumFields(); i++ {
		f := s.Field(i)
		sl, ok := f.Type().Underlying().(*types.Slice)
		if !ok {
			continue
		}
		if b, isB := sl.Elem().Underlying().(*types.Basic); !isB || b.Kind() != types.Int {
			continue
		}
		used := false
		for _, fn := range scope {
			for _, b := range fn.Blocks {
				for _, in := range b.Instrs {
					ia, isIA := in.(*ssa.IndexAddr)
					if !isIA {
						continue
					}
					if u, isU := ia.X.(*ssa.UnOp); !isU || FieldOf(u.X) == nil || !sameObj(FieldOf(u.X), trans) {
						continue
					}
					if elementOfField(ia.Index, f, 0) {
						used = true
					}
				}
			}
		}
		if used {
			holders = append(holders, f)
		}
	}
	root := p.SSAFunc(alloc)
	reads := map[*types.Var]bool{}
	for g := range p.ModCG().Reach([]*ssa.Function{root}, func(h *ssa.Function) bool { return pkgOfFn(h) == pkgPath(rel) }) {
		for _, b := range g.Blocks {
			for _, in := range b.Instrs {
				if fa, ok := in.(*ssa.FieldAddr); ok {
					if fo := FieldOf(fa); fo != nil {
						for _, h := range holders {
							if sameObj(fo, h) {
								reads[h] = true
							}
						}
					}
				}
			}
		}
	}
	for _, h := range holders {
		c.Check(reads[h], rule, rel+":State."+h.Name(), p.Decl(alloc).Pos(), "consulted before a Removed slot is reused",
			"State."+h.Name()+" holds indices of transaction slots that are still owed work, but the slot allocator never consults it: a slot retired for its requester can be handed to a new request while its queued/in-flight eviction or fetch still refers to it — the write-back is then issued from the overwritten slot (dirty data lost) and its acknowledgement releases the wrong line")
	}
	c.Check(len(holders) >= 3, rule, "instances", token.NoPos, "index-holding lists found ("+itoa(len(holders))+")", "fewer than three index-holding lists were recognised in the write-back cache State")
}

// elementOfField: v is an element read out of the slice held in field f (by
// indexing or ranging), possibly through phis and local variable cells.
func elementOfField(v ssa.Value, f *types.Var, depth int) bool {
	if depth > 6 || v == nil {
		return false
	}
	isFieldLoad := func(x ssa.Value) bool {
		u, ok := x.(*ssa.UnOp)
		if !ok || u.Op != token.MUL {
			return false
		}
		fo := FieldOf(u.X)
		return fo != nil && sameObj(fo, f)
	}
	switch x := v.(type) {
	case *ssa.Phi:
		for _, e := range x.Edges {
			if elementOfField(e, f, depth+1) {
				return true
			}
		}
	case *ssa.UnOp:
		if x.Op != token.MUL {
			return false
		}
		if ia, ok := x.X.(*ssa.IndexAddr); ok && isFieldLoad(ia.X) {
			return true
		}
		if al, ok := x.X.(*ssa.Alloc); ok { // a local cell
			for _, ref := range *al.Referrers() {
				if st, isSt := ref.(*ssa.Store); isSt && st.Addr == ssa.Value(al) && elementOfField(st.Val, f, depth+1) {
					return true
				}
			}
		}
	case *ssa.Extract:
		if nx, ok := x.Tuple.(*ssa.Next); ok {
			if rg, isR := nx.Iter.(*ssa.Range); isR && isFieldLoad(rg.X) {
				return x.Index == 2
			}
		}
	case *ssa.Index:
		return isFieldLoad(x.X)
	}
	return false
}

// spliceRule reports index-shift mistakes when several elements are removed from
// a State slice inside one loop.
func spliceRule(c *Ctx, rule string, pred func(string) bool) {
	p := c.P
	n, nbad := 0, 0
	for _, fn := range p.SrcFuncs(pred) {
		n++
		for _, in := range spliceInLoopFindings(fn) {
			nbad++
			c.Fail(rule, SSAFuncKey(fn)+"@"+shortKey(VKey(in.(*ssa.Store).Addr)), in.Pos(),
				"elements are cut out of a State slice one by one inside a loop that walks a list of indices in ascending order, using each index as recorded: after the first cut every later element has moved down by one, so the next cut removes a neighbour instead — a finished item stays (and is answered again) while an unfinished one is dropped and never answered")
		}
	}
	if nbad == 0 {
		c.Ok(rule, "<all functions>", 0, "no ascending multi-index splice ("+itoa(n)+" functions)")
	}
}

// lineAligned reports whether v is a cache-line-granular address: an alignment
// expression x/b*b (or x &^ (b-1)), or a load of a struct field that, throughout
// the cache packages, is only ever assigned line-granular values.
func lineAligned(p *Program, fn *ssa.Function, v ssa.Value, depth int, seen map[*types.Var]bool) bool {
	if depth > 5 || v == nil {
		return false
	}
	v = stripConv(v)
	switch x := v.(type) {
	case *ssa.BinOp:
		if x.Op == token.MUL {
			if q, ok := stripConv(x.X).(*ssa.BinOp); ok && q.Op == token.QUO && VKey(q.Y) == VKey(x.Y) {
				return true
			}
		}
		if x.Op == token.AND_NOT {
			return true
		}
		if x.Op == token.AND {
			for _, side := range []ssa.Value{x.X, x.Y} {
				if m, ok := stripConv(side).(*ssa.BinOp); ok && m.Op == token.SHL {
					if _, isC := stripConv(m.X).(*ssa.Const); isC {
						return true // x & (ones << log2)
					}
				}
			}
		}
		if x.Op == token.SHL {
			if q, ok := stripConv(x.X).(*ssa.BinOp); ok && q.Op == token.SHR && VKey(q.Y) == VKey(x.Y) {
				return true
			}
		}
	case *ssa.Phi:
		for _, e := range x.Edges {
			if !lineAligned(p, fn, e, depth+1, seen) {
				return false
			}
		}
		return len(x.Edges) > 0
	case *ssa.Const:
		return x.Value != nil && x.Value.String() == "0"
	case *ssa.Call:
		if x.Common().StaticCallee() == nil {
			return false
		}
		callee := origin(x.Common().StaticCallee())
		n := 0
		for _, b := range callee.Blocks {
			if ret, isRet := b.Instrs[len(b.Instrs)-1].(*ssa.Return); isRet && len(ret.Results) == 1 {
				n++
				if !lineAligned(p, callee, ret.Results[0], depth+1, seen) {
					return false
				}
			}
		}
		return n > 0
	case *ssa.Extract:
		call, ok := x.Tuple.(*ssa.Call)
		if !ok || call.Common().StaticCallee() == nil {
			return false
		}
		callee := origin(call.Common().StaticCallee())
		n := 0
		for _, b := range callee.Blocks {
			if ret, isRet := b.Instrs[len(b.Instrs)-1].(*ssa.Return); isRet && x.Index < len(ret.Results) {
				n++
				if !lineAligned(p, callee, ret.Results[x.Index], depth+1, seen) {
					return false
				}
			}
		}
		return n > 0
	case *ssa.Parameter:
		// all static callers pass a line-granular value
		callee := x.Parent()
		idx := -1
		for i, q := range callee.Params {
			if q == x {
				idx = i
			}
		}
		n := 0
		for _, caller := range p.ModCG().in[origin(callee)] {
			for _, b := range caller.Blocks {
				for _, in := range b.Instrs {
					if call, ok := in.(ssa.CallInstruction); ok && call.Common().StaticCallee() != nil && origin(call.Common().StaticCallee()) == origin(callee) && idx < len(call.Common().Args) {
						n++
						if !lineAligned(p, caller, call.Common().Args[idx], depth+1, seen) {
							return false
						}
					}
				}
			}
		}
		return n > 0
	case *ssa.UnOp, *ssa.Field:
		var fld *types.Var
		if u, ok := x.(*ssa.UnOp); ok {
			if u.Op != token.MUL {
				return false
			}
			fld = FieldOf(u.X)
			if fld == nil {
				if al, isAl := u.X.(*ssa.Alloc); isAl { // local cell
					okAll, n := true, 0
					for _, ref := range *al.Referrers() {
						if st, isSt := ref.(*ssa.Store); isSt && st.Addr == ssa.Value(al) {
							n++
							if !lineAligned(p, fn, st.Val, depth+1, seen) {
								okAll = false
							}
						}
					}
					return okAll && n > 0
				}
				return false
			}
		} else if f, ok := x.(*ssa.Field); ok {
			if s2, isS := f.X.Type().Underlying().(*types.Struct); isS {
				fld = s2.Field(f.Field)
			}
		}
		if fld == nil {
			return false
		}
		if seen[fld] {
			return true
		}
		seen[fld] = true
		n := 0
		for _, g := range p.SrcFuncs(func(pp string) bool { return strings.HasPrefix(pp, ModPath+"/mem/cache") }) {
			for _, b := range g.Blocks {
				for _, in := range b.Instrs {
					st, ok := in.(*ssa.Store)
					if !ok {
						continue
					}
					fo := FieldOf(st.Addr)
					if fo == nil || !sameObj(fo, fld) {
						continue
					}
					n++
					if !lineAligned(p, g, st.Val, depth+1, seen) {
						return false
					}
				}
			}
		}
		return n > 0
	}
	return false
}

// routeByLineRule: a cache sends everything that concerns one line — fills,
// write-backs, forwarded writes — to the lower module chosen from the line's
// address, so that they stay ordered and land where the fills read from.
func routeByLineRule(c *Ctx, rule string) {
	p := c.P
	n := 0
	for _, rel := range []string{"mem/cache/writeback", "mem/cache/writethroughcache"} {
		for _, fn := range p.SrcFuncs(func(pp string) bool { return pp == pkgPath(rel) }) {
			for _, b := range fn.Blocks {
				for _, in := range b.Instrs {
					call, ok := in.(*ssa.Call)
					if !ok || call.Common().StaticCallee() == nil || call.Common().StaticCallee().Name() != "findPort" {
						continue
					}
					n++
					args := call.Common().Args
					arg := args[len(args)-1]
					c.Check(lineAligned(p, fn, arg, 0, map[*types.Var]bool{}), rule, SSAFuncKey(fn)+"@findPort", in.Pos(), "the lower module is chosen from a line-granular address",
						"the lower-memory module of a request is chosen from "+VKey(arg)+", which is not a cache-line-granular address: with lower modules interleaved more finely than a line, a forwarded write lands in a different module than the one the line's fill reads from, so a later miss returns stale or zero bytes for an acknowledged write")
				}
			}
		}
	}
	c.Check(n >= 4, rule, "instances", 0, "findPort call sites found ("+itoa(n)+")", "fewer than four findPort call sites found in the caches")
}

// headConsumedDatamoverRule: the data mover reads its memory-side responses by
// peeking a port and asserting the kind it expects (DataReadyRsp on the source
// side, WriteDoneRsp on the destination side). A head of the other kind must not
// be left in place unconditionally: when source and destination are different
// ports nothing else ever takes it off, and every later response on that port —
// including the ones the current move waits for — is blocked behind it (a late
// answer to a move that a Reset discarded wedges the next move in the opposite
// direction). The branch taken when the assertion fails must be able to reach
// RetrieveIncoming.
func headConsumedDatamoverRule(c *Ctx, rule string) {
	p := c.P
	n := 0
	for _, fn := range p.SrcFuncs(func(pp string) bool { return pp == pkgPath("mem/datamover") }) {
		rv := fn.Signature.Recv()
		if rv == nil || !strings.HasSuffix(rv.Type().String(), "dataTransferMW") {
			continue
		}
		for _, b := range fn.Blocks {
			ifi, ok := b.Instrs[len(b.Instrs)-1].(*ssa.If)
			if !ok {
				continue
			}
			ex, isEx := ifi.Cond.(*ssa.Extract)
			if !isEx || ex.Index != 1 {
				continue
			}
			ta, isTA := ex.Tuple.(*ssa.TypeAssert)
			if !isTA || !ta.CommaOk {
				continue
			}
			// the asserted value comes from PeekIncoming
			call, isCall := ta.X.(*ssa.Call)
			if !isCall {
				continue
			}
			if nm, _ := calleeNamePkg(call); nm != "PeekIncoming" {
				continue
			}
			n++
			// from the failed-assertion branch, is a RetrieveIncoming reachable?
			drops := false
			seen := map[*ssa.BasicBlock]bool{}
			var walk func(x *ssa.BasicBlock)
			walk = func(x *ssa.BasicBlock) {
				if seen[x] || drops {
					return
				}
				seen[x] = true
				for _, in := range x.Instrs {
					if cl, isC := in.(ssa.CallInstruction); isC {
						if nm, _ := calleeNamePkg(cl); nm == "RetrieveIncoming" {
							drops = true
						}
					}
				}
				for _, s2 := range x.Succs {
					walk(s2)
				}
			}
			walk(b.Succs[1])
			c.Check(drops, rule, SSAFuncKey(fn)+"@wrong-kind-head", ifi.Cond.Pos(), "a head of the other kind can be taken off the port",
				"when the response at the head of the port is not of the kind this step handles the function returns without ever taking it off: with source and destination on different ports no other step looks at this port for that kind, so the head stays forever and every response behind it — including the ones the current move waits for — is blocked (a late answer to a move discarded by Reset wedges the next move in the opposite direction)")
		}
	}
	c.Check(n >= 2, rule, "instances", 0, itoa(n)+" response-kind assertions inspected", "no response-kind assertion found in the data mover")
}

// sizeGranularityRule: the data mover moves whole granularity-sized chunks. The
// function that admits a move checks that both addresses are aligned
// (addressMustBeAligned); the byte count needs the same check, or the last chunk
// written overruns the requested destination range (size not a multiple of the
// destination granularity, smaller chunk) or is never assembled and the move is
// never acknowledged (larger chunk).
func sizeGranularityRule(c *Ctx, rule string) {
	p := c.P
	n := 0
	for _, fn := range p.SrcFuncs(func(pp string) bool { return pp == pkgPath("mem/datamover") }) {
		// admission = the function that validates the two addresses
		aligned := 0
		for _, b := range fn.Blocks {
			for _, in := range b.Instrs {
				if call, ok := in.(ssa.CallInstruction); ok {
					if sc := call.Common().StaticCallee(); sc != nil && sc.Name() == "addressMustBeAligned" {
						aligned++
					}
				}
			}
		}
		if aligned < 2 {
			continue
		}
		n++
		// a remainder test over the request's ByteSize, here or in a direct callee
		sized := false
		check := func(g *ssa.Function, arg func(ssa.Value) bool) {
			for _, b := range g.Blocks {
				for _, in := range b.Instrs {
					if bo, ok := in.(*ssa.BinOp); ok && bo.Op == token.REM && arg(bo.X) {
						sized = true
					}
				}
			}
		}
		fromSize := func(v ssa.Value) bool {
			for y := range DataSlice(fn, v) {
				if f := FieldOf(y); f != nil && f.Name() == "ByteSize" {
					return true
				}
			}
			return false
		}
		check(fn, fromSize)
		for _, b := range fn.Blocks {
			for _, in := range b.Instrs {
				call, ok := in.(ssa.CallInstruction)
				if !ok {
					continue
				}
				sc := call.Common().StaticCallee()
				if sc == nil || sc.Pkg != fn.Pkg || len(sc.Blocks) == 0 {
					continue
				}
				for i, a := range call.Common().Args {
					if fromSize(a) && i < len(sc.Params) {
						pv := sc.Params[i]
						check(sc, func(v ssa.Value) bool { return stripConv(v) == ssa.Value(pv) })
					}
				}
			}
		}
		c.Check(sized, rule, SSAFuncKey(fn), fn.Pos(), "the byte count is checked against the granularity like the addresses",
			"the move is admitted after checking that both addresses are aligned to the chunk granularity, but its byte count is not checked: a size that is not a multiple of the destination granularity makes the last chunk overwrite bytes beyond the requested range (or never be assembled, so the move is never acknowledged)")
	}
	c.Check(n >= 1, rule, "instances", 0, itoa(n)+" admission functions inspected", "the admission function (two addressMustBeAligned calls) was not found")
}
