package main

// Field value-set analysis: for one struct field S holding a small enumerated
// control state, computes at every instruction of a set of functions the set of
// constants S may hold, by forward dataflow over each function's CFG with
// refinement at branches that compare S with a constant, strong update at stores
// of constants, havoc at calls into functions that may store S, and an
// interprocedural entry state that joins the states at all call sites.

import (
	"go/constant"
	"go/token"
	"go/types"
	"sort"
	"strings"

	"golang.org/x/tools/go/ssa"
)

type vset uint64

type FieldVS struct {
	p          *Program
	field      *types.Var
	universe   []string // constant texts; the last bit stands for "any other value"
	index      map[string]int
	scope      map[*ssa.Function]bool
	mayWrite   map[*ssa.Function]bool
	entry      map[*ssa.Function]vset
	byName     map[string][]*ssa.Function
	inst       map[ssa.Instruction]vset
	kills      map[*ssa.Function][]ssa.Instruction
	sites      map[*ssa.Function][]ssa.CallInstruction
	valueTaken map[*ssa.Function]bool
}

func constText(c *ssa.Const) string {
	if c.Value == nil {
		return "nil"
	}
	if c.Value.Kind() == constant.String {
		return constant.StringVal(c.Value)
	}
	return c.Value.ExactString()
}

func (a *FieldVS) top() vset { return vset(1)<<uint(len(a.universe)+1) - 1 }

func (a *FieldVS) bit(c *ssa.Const) vset {
	if i, ok := a.index[constText(c)]; ok {
		return vset(1) << uint(i)
	}
	return vset(1) << uint(len(a.universe)) // other
}

// Has reports whether the set may contain the constant with the given text.
func (a *FieldVS) Has(s vset, text string) bool {
	if i, ok := a.index[text]; ok {
		return s&(vset(1)<<uint(i)) != 0
	}
	return s&(vset(1)<<uint(len(a.universe))) != 0
}

func (a *FieldVS) String(s vset) string {
	var out []string
	for i, u := range a.universe {
		if s&(vset(1)<<uint(i)) != 0 {
			out = append(out, u)
		}
	}
	if s&(vset(1)<<uint(len(a.universe))) != 0 {
		out = append(out, "<other>")
	}
	return "{" + strings.Join(out, ",") + "}"
}

func stripConv(v ssa.Value) ssa.Value {
	for {
		switch x := v.(type) {
		case *ssa.Convert:
			v = x.X
		case *ssa.ChangeType:
			v = x.X
		default:
			return v
		}
	}
}

// loadOf returns the load instruction when v is (a conversion of) a load of the field.
func (a *FieldVS) loadOf(v ssa.Value) *ssa.UnOp {
	u, ok := stripConv(v).(*ssa.UnOp)
	if !ok || u.Op != token.MUL {
		return nil
	}
	if f := FieldOf(u.X); f != nil && sameObj(f, a.field) {
		return u
	}
	return nil
}

func (a *FieldVS) storeOf(st *ssa.Store) bool {
	if _, local := memRoot(st.Addr).(*ssa.Alloc); local {
		return false // a private copy, not the component's state
	}
	f := FieldOf(st.Addr)
	return f != nil && sameObj(f, a.field)
}

// wholeStore: a store that replaces the struct declaring the field.
func (a *FieldVS) wholeStore(st *ssa.Store) bool {
	if _, local := memRoot(st.Addr).(*ssa.Alloc); local {
		return false
	}
	pt, ok := st.Addr.Type().Underlying().(*types.Pointer)
	if !ok {
		return false
	}
	s, ok := pt.Elem().Underlying().(*types.Struct)
	if !ok {
		return false
	}
	for i := 0; i < s.NumFields(); i++ {
		if sameObj(s.Field(i), a.field) {
			return true
		}
	}
	return false
}

// analyseFieldVS runs the analysis over scope; roots start from the full set.
func analyseFieldVS(p *Program, scope []*ssa.Function, roots []*ssa.Function, field *types.Var) *FieldVS {
	a := &FieldVS{p: p, field: field, index: map[string]int{}, scope: map[*ssa.Function]bool{}, mayWrite: map[*ssa.Function]bool{},
		entry: map[*ssa.Function]vset{}, byName: map[string][]*ssa.Function{}, inst: map[ssa.Instruction]vset{}}
	for _, f := range scope {
		a.scope[f] = true
		a.byName[f.Name()] = append(a.byName[f.Name()], f)
	}
	seen := map[string]bool{}
	addC := func(v ssa.Value) {
		if c, ok := stripConv(v).(*ssa.Const); ok && !seen[constText(c)] {
			seen[constText(c)] = true
		}
	}
	for _, f := range scope {
		for _, b := range f.Blocks {
			for _, in := range b.Instrs {
				switch x := in.(type) {
				case *ssa.BinOp:
					if a.loadOf(x.X) != nil {
						addC(x.Y)
					} else if a.loadOf(x.Y) != nil {
						addC(x.X)
					}
				case *ssa.Store:
					if a.storeOf(x) {
						addC(x.Val)
						a.mayWrite[f] = true
					} else if a.wholeStore(x) {
						a.mayWrite[f] = true
					}
				}
			}
		}
	}
	if _, isBool := field.Type().Underlying().(*types.Basic); isBool && field.Type().Underlying().(*types.Basic).Kind() == types.Bool {
		seen["true"], seen["false"] = true, true
	}
	for k := range seen {
		a.universe = append(a.universe, k)
	}
	sort.Strings(a.universe)
	if len(a.universe) > 60 {
		a.universe = a.universe[:60]
	}
	for i, u := range a.universe {
		a.index[u] = i
	}
	// transitive may-write
	for changed := true; changed; {
		changed = false
		for _, f := range scope {
			if a.mayWrite[f] {
				continue
			}
			for _, c := range a.callees(f) {
				if a.mayWrite[c] {
					a.mayWrite[f] = true
					changed = true
					break
				}
			}
		}
	}
	a.kills = map[*ssa.Function][]ssa.Instruction{}
	for _, f := range scope {
		for _, b := range f.Blocks {
			for _, in := range b.Instrs {
				switch x := in.(type) {
				case *ssa.Store:
					if a.storeOf(x) || a.wholeStore(x) {
						a.kills[f] = append(a.kills[f], in)
					}
				case ssa.CallInstruction:
					for _, c := range a.calleesAt(x) {
						if a.mayWrite[c] {
							a.kills[f] = append(a.kills[f], in)
							break
						}
					}
				}
			}
		}
	}
	isRoot := map[*ssa.Function]bool{}
	for _, r := range roots {
		isRoot[origin(r)] = true
	}
	hasCaller := map[*ssa.Function]bool{}
	for _, f := range scope {
		for _, c := range a.callees(f) {
			hasCaller[c] = true
		}
	}
	for _, f := range scope {
		if isRoot[f] || !hasCaller[f] || f.Parent() != nil {
			a.entry[f] = a.top()
		}
	}
	for iter := 0; iter < 50; iter++ {
		changed := false
		a.inst = map[ssa.Instruction]vset{}
		for _, f := range scope {
			a.run(f, func(call ssa.CallInstruction, s vset) {
				for _, c := range a.calleesAt(call) {
					if a.entry[c]|s != a.entry[c] {
						a.entry[c] |= s
						changed = true
					}
				}
			})
		}
		if !changed {
			break
		}
	}
	return a
}

func (a *FieldVS) calleesAt(call ssa.CallInstruction) []*ssa.Function {
	cc := call.Common()
	if sc := cc.StaticCallee(); sc != nil {
		sc = origin(sc)
		if a.scope[sc] {
			return []*ssa.Function{sc}
		}
		return nil
	}
	if cc.IsInvoke() {
		var out []*ssa.Function
		if ts, ok := a.paramTypes(cc.Value); ok {
			for _, t := range ts {
				if m := a.p.ssa.LookupMethod(t, cc.Method.Pkg(), cc.Method.Name()); m != nil && a.scope[origin(m)] {
					out = append(out, origin(m))
				}
			}
			return out
		}
		for _, f := range a.byName[cc.Method.Name()] {
			if f.Signature.Recv() != nil {
				out = append(out, f)
			}
		}
		return out
	}
	return nil
}

// paramTypes resolves an interface-typed parameter to the concrete types passed
// at the static call sites of its function within the scope (all of them must be
// conversions from concrete types).
func (a *FieldVS) paramTypes(v ssa.Value) ([]types.Type, bool) {
	pv, ok := v.(*ssa.Parameter)
	if !ok {
		return nil, false
	}
	fn := pv.Parent()
	idx := -1
	for i, q := range fn.Params {
		if q == pv {
			idx = i
		}
	}
	if idx < 0 {
		return nil, false
	}
	if a.sites == nil {
		a.sites = map[*ssa.Function][]ssa.CallInstruction{}
		for g := range a.scope {
			for _, b := range g.Blocks {
				for _, in := range b.Instrs {
					if call, isCall := in.(ssa.CallInstruction); isCall {
						if sc := call.Common().StaticCallee(); sc != nil {
							a.sites[origin(sc)] = append(a.sites[origin(sc)], call)
						}
					}
				}
			}
		}
		a.valueTaken = map[*ssa.Function]bool{}
		for g := range a.scope {
			for _, b := range g.Blocks {
				for _, in := range b.Instrs {
					for _, op := range in.Operands(nil) {
						if op == nil || *op == nil {
							continue
						}
						if tf, isF := (*op).(*ssa.Function); isF {
							if call, isCall := in.(ssa.CallInstruction); isCall && call.Common().Value == tf {
								continue
							}
							a.valueTaken[origin(tf)] = true
						}
					}
				}
			}
		}
	}
	sites := a.sites[origin(fn)]
	if len(sites) == 0 || a.valueTaken[origin(fn)] || fn.Parent() != nil {
		return nil, false
	}
	var out []types.Type
	for _, call := range sites {
		args := call.Common().Args
		if idx >= len(args) {
			return nil, false
		}
		mi, isMI := args[idx].(*ssa.MakeInterface)
		if !isMI {
			return nil, false
		}
		out = append(out, mi.X.Type())
	}
	return out, true
}

func (a *FieldVS) callees(f *ssa.Function) []*ssa.Function {
	var out []*ssa.Function
	for _, b := range f.Blocks {
		for _, in := range b.Instrs {
			if call, ok := in.(ssa.CallInstruction); ok {
				out = append(out, a.calleesAt(call)...)
			}
		}
	}
	for _, an := range f.AnonFuncs {
		if a.scope[an] {
			out = append(out, an)
		}
	}
	return out
}

// refine narrows s by the knowledge that cond evaluated to truth at the end of block b.
func (a *FieldVS) refine(cond ssa.Value, truth bool, s vset, b *ssa.BasicBlock, lastKill int) vset {
	for {
		if u, ok := cond.(*ssa.UnOp); ok && u.Op == token.NOT {
			cond, truth = u.X, !truth
			continue
		}
		break
	}
	fresh := func(ld *ssa.UnOp) bool {
		if ld.Block() == b {
			for i, in := range b.Instrs {
				if in == ld {
					return i > lastKill
				}
			}
			return false
		}
		// loaded earlier (a switch tag): still current when no store or
		// storing call lies between the load and this branch
		if lastKill >= 0 || !ld.Block().Dominates(b) {
			return false
		}
		for _, k := range a.kills[b.Parent()] {
			if Reaches(ld, k) && Reaches(k, b.Instrs[len(b.Instrs)-1]) {
				return false
			}
		}
		return true
	}
	if ld := a.loadOf(cond); ld != nil && fresh(ld) { // boolean field used as the condition
		t, f := vset(0), vset(0)
		if i, ok := a.index["true"]; ok {
			t = vset(1) << uint(i)
		}
		if i, ok := a.index["false"]; ok {
			f = vset(1) << uint(i)
		}
		if truth {
			return s & t
		}
		return s & f
	}
	bo, ok := cond.(*ssa.BinOp)
	if !ok || (bo.Op != token.EQL && bo.Op != token.NEQ) {
		return s
	}
	var ld *ssa.UnOp
	var c *ssa.Const
	if ld = a.loadOf(bo.X); ld != nil {
		c, _ = stripConv(bo.Y).(*ssa.Const)
	} else if ld = a.loadOf(bo.Y); ld != nil {
		c, _ = stripConv(bo.X).(*ssa.Const)
	}
	if ld == nil || c == nil || !fresh(ld) {
		return s
	}
	bit := a.bit(c)
	other := vset(1) << uint(len(a.universe))
	eq := (bo.Op == token.EQL) == truth
	if eq {
		return s & bit
	}
	if bit == other {
		return s // "other" stands for several values
	}
	return s &^ bit
}

// run analyses one function from its entry state, records the state before each
// instruction, and reports the state at each call.
func (a *FieldVS) run(f *ssa.Function, atCall func(ssa.CallInstruction, vset)) {
	if len(f.Blocks) == 0 {
		return
	}
	in := map[*ssa.BasicBlock]vset{f.Blocks[0]: a.entry[f]}
	reached := map[*ssa.BasicBlock]bool{f.Blocks[0]: true}
	work := []*ssa.BasicBlock{f.Blocks[0]}
	type edgeOut struct{ t, f vset }
	transfer := func(b *ssa.BasicBlock, record bool) edgeOut {
		s := in[b]
		lastKill := -1
		for i, ins := range b.Instrs {
			if record {
				a.inst[ins] = s
			}
			switch x := ins.(type) {
			case *ssa.Store:
				if a.storeOf(x) {
					if c, ok := stripConv(x.Val).(*ssa.Const); ok {
						s = a.bit(c)
					} else {
						s = a.top()
					}
					lastKill = i
				} else if a.wholeStore(x) {
					s = a.top()
					lastKill = i
				}
			case ssa.CallInstruction:
				if record && atCall != nil {
					atCall(x, s)
				}
				if _, isGo := x.(*ssa.Go); isGo {
					continue
				}
				for _, c := range a.calleesAt(x) {
					if a.mayWrite[c] {
						s = a.top()
						lastKill = i
						break
					}
				}
			}
		}
		out := edgeOut{s, s}
		if ifi, ok := b.Instrs[len(b.Instrs)-1].(*ssa.If); ok {
			out.t = a.refine(ifi.Cond, true, s, b, lastKill)
			out.f = a.refine(ifi.Cond, false, s, b, lastKill)
		}
		return out
	}
	for len(work) > 0 {
		b := work[len(work)-1]
		work = work[:len(work)-1]
		out := transfer(b, false)
		for i, s := range b.Succs {
			v := out.t
			if i == 1 {
				v = out.f
			}
			if !reached[s] || in[s]|v != in[s] {
				in[s] |= v
				reached[s] = true
				work = append(work, s)
			}
		}
	}
	for _, b := range f.Blocks {
		if reached[b] {
			transfer(b, true)
		}
	}
}

// At returns the possible values just before instr (0 when unreachable).
func (a *FieldVS) At(instr ssa.Instruction) (vset, bool) {
	s, ok := a.inst[instr]
	return s, ok
}

// DebugEntries lists entry states (for diagnosis).
func (a *FieldVS) DebugEntries() []string {
	var out []string
	for f, s := range a.entry {
		w := ""
		if a.mayWrite[f] {
			w = " WRITES"
		}
		out = append(out, SSAFuncKey(f)+" "+a.String(s)+w)
	}
	sort.Strings(out)
	return out
}
