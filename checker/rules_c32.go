package main

import (
	"go/token"
	"go/types"
	"sort"
	"strings"

	"golang.org/x/tools/go/ssa"
)

func init() {
	register("C32", PropertyMeta{
		Technique: "reset-teardown ordering and coverage over the call graph (read-set of the teardown vs. stores of the reset handler), start/end API identity agreement by decision tables, per-package sibling consistency of start and end calls, SSA alias rule for element pointers across in-place splices, field-level pairing of normal-path and teardown task ends",
		Explanation: "Decides: (teardown-present) each of the twelve memory agents' Reset handlers reaches a tracing teardown (EndReqInOnReset/EndTaskOnReset) through a helper; (teardown-coverage) that helper's closure reads every in-flight container of the agent (the quiescence fields of C18), so every dropped transaction's tasks are ended; " +
			"(teardown-order) in the Reset handler no store to a State field that the teardown reads can execute before the teardown call — the teardown must observe the pre-reset state, otherwise tasks of the work being dropped stay started-never-ended; " +
			"(api-identity) TraceReqComplete/EndReqInOnReset end the task under the same receiver-registry ID that TraceReqReceive started and release the registry entry afterwards, TraceReqFinalize/EndTaskOnReset end the ID TraceReqInitiate started; every API entry returns before doing anything when the domain has no hooks; " +
			"(siblings) every library package that starts req_in tasks also completes them, that starts req_out tasks also finalizes them, and that calls StartTask also calls EndTask or a reset teardown; (live-release-id) no release call reads its ID from a state field that is always zero at that point (cleared before read); (mint-release) a function that mints a receiver-registry entry with MsgIDAtReceiver for a message type its package never registers with TraceReqReceive releases it on every path to return or parks the ID in a field a release reads.; (lifecycle-before-stall) no task start/end precedes a cannot-send-yet (return false) test in the same function (it would run once per retry); (stale-element) no pointer to an element of a State slice is used after that slice has been spliced in place, directly or in a callee — it would designate the next request; (reset-single-end) where a normal-path function ends the task whose ID a State record keeps and leaves the record in its container, the reset teardown's EndTaskOnReset on that ID is guarded by a field that path writes (EndTaskOnReset emits the end event unconditionally).",
		NotDecided:  "that every individual started task is ended on every run (requires matching dynamic IDs), milestone-within-lifetime, single-kind locations, end ≥ start times.",
		Assumptions: []string{"in-flight containers per agent as frozen for C18"},
	}, runC32)
	register("C33", PropertyMeta{
		Technique: "effect-equality of the two sides of every hooks-present branch (SSA regions exclusive to one side, effects classified observer-only vs simulation-relevant) + call-graph passivity of the tracing package",
		Explanation: "Decides: (guard-equality) for every branch whose condition derives from NumHooks() in simulation packages (messaging, queueing, timing, modeling, mem, noc …), the code that runs only with hooks and the code that runs only without hooks perform the same multiset of simulation-relevant effects (stores to non-local memory, calls that are not observer-only or effect-free); building hook contexts, invoking hooks and calling the tracing API are observer-only; " +
			"(passive-tracers) no function of the tracing package reaches a simulation-mutating API (port Send/Deliver/Retrieve*, NotifyAvailable/NotifySend, engine Schedule, buffer Push/Pop, TickLater/TickNow); (hook-sites) hook invocations in ports and buffers are not followed by result-dependent control flow (InvokeHook has no result).",
		NotDecided:  "user-supplied hooks that mutate the simulation themselves; wall-clock effects; generated-ID differences (excluded by the property).",
		Assumptions: []string{"hooks registered by users are passive"},
	}, runC33)
}

// stateTopField returns the field of the package's State struct through which addr is reached.
func stateTopField(addr ssa.Value, stateT types.Type) *types.Var {
	var top *types.Var
	for a, d := addr, 0; a != nil && d < 12; d++ {
		switch y := a.(type) {
		case *ssa.FieldAddr:
			pt, _ := y.X.Type().Underlying().(*types.Pointer)
			if pt != nil && types.Identical(pt.Elem(), stateT) {
				top = pt.Elem().Underlying().(*types.Struct).Field(y.Field)
			}
			a = y.X
		case *ssa.IndexAddr:
			a = y.X
		case *ssa.UnOp:
			a = y.X
		case *ssa.Slice:
			a = y.X
		default:
			a = nil
		}
	}
	return top
}

func isTeardownCallee(fn *ssa.Function) bool {
	return fn != nil && fn.Pkg != nil && fn.Pkg.Pkg.Path() == ModPath+"/tracing" && (fn.Name() == "EndReqInOnReset" || fn.Name() == "EndTaskOnReset")
}

func runC32(c *Ctx) {
	p := c.P
	cg := p.ModCG()
	for _, ag := range ctrlAgents {
		inPkg := func(fn *ssa.Function) bool { return pkgOfFn(fn) == pkgPath(ag.rel) }
		st := p.LookupType(ag.rel, "State")
		if st == nil {
			c.Unknown("teardown-present", ag.rel, token.NoPos, "State type not found")
			continue
		}
		scope := p.SrcFuncs(func(pp string) bool { return pp == pkgPath(ag.rel) })
		// teardown helpers: package functions that directly call the reset teardown API
		direct := map[*ssa.Function]bool{}
		for _, f := range scope {
			for _, b := range f.Blocks {
				for _, in := range b.Instrs {
					if call, ok := in.(ssa.CallInstruction); ok && isTeardownCallee(call.Common().StaticCallee()) {
						direct[f] = true
					}
				}
			}
		}
		// the Reset handler: the function that stores 'enabled' and drains data ports, reached from the verb dispatch;
		// identified as the caller of the outermost teardown helper that also stores the control state.
		pf := p.Field(ag.rel, "State", ag.pauseField)
		var handlers []*ssa.Function
		teardownCall := map[*ssa.Function][]ssa.CallInstruction{}
		for _, f := range scope {
			storesState := false
			var calls []ssa.CallInstruction
			for _, b := range f.Blocks {
				for _, in := range b.Instrs {
					switch x := in.(type) {
					case *ssa.Store:
						if fo := FieldOf(x.Addr); fo != nil && sameObj(fo, pf) && stateRooted(x.Addr) {
							storesState = true
						}
					case ssa.CallInstruction:
						sc := x.Common().StaticCallee()
						if sc == nil || !inPkg(sc) {
							continue
						}
						for g := range cg.Reach([]*ssa.Function{origin(sc)}, inPkg) {
							if direct[g] {
								calls = append(calls, x)
								break
							}
						}
					}
				}
			}
			if storesState && len(calls) > 0 {
				handlers = append(handlers, f)
				teardownCall[f] = calls
			}
		}
		c.Check(len(handlers) > 0, "teardown-present", ag.rel, token.NoPos, "the Reset handler calls a tracing teardown helper",
			"no function of the agent both sets the control state and calls a helper that ends the tracing tasks of in-flight work (EndReqInOnReset/EndTaskOnReset): a Reset in the middle of traffic would leave started-never-ended tasks")
		for _, h := range handlers {
			c.Analysed(SSAFuncKey(h))
			for _, call := range teardownCall[h] {
				td := origin(call.Common().StaticCallee())
				// read set of the teardown closure
				reads := map[*types.Var]bool{}
				for g := range cg.Reach([]*ssa.Function{td}, inPkg) {
					for _, b := range g.Blocks {
						for _, in := range b.Instrs {
							var addr ssa.Value
							switch x := in.(type) {
							case *ssa.UnOp:
								if x.Op == token.MUL {
									addr = x.X
								}
							case *ssa.Range:
								addr = x.X
							case *ssa.FieldAddr:
								addr = x
							case *ssa.IndexAddr:
								addr = x
							}
							if addr == nil {
								continue
							}
							if tf := stateTopField(addr, st.Type()); tf != nil {
								reads[tf] = true
							}
						}
					}
				}
				var names []string
				for v := range reads {
					names = append(names, v.Name())
				}
				sort.Strings(names)
				// coverage
				for _, q := range ag.quiescence {
					qf := p.Field(ag.rel, "State", q)
					if qf == nil {
						continue
					}
					if _, isBool := qf.Type().Underlying().(*types.Basic); isBool {
						continue // flags and counters hold no requests of their own
					}
					if sl, isSlice := qf.Type().Underlying().(*types.Slice); isSlice {
						if _, basic := sl.Elem().Underlying().(*types.Basic); basic {
							continue // per-bank counters
						}
					}
					if mp, isMap := qf.Type().Underlying().(*types.Map); isMap {
						if _, basic := mp.Elem().Underlying().(*types.Basic); basic {
							continue // ID sets: the records they index are held in a sibling container
						}
					}
					if strings.Contains(qf.Type().String(), "queueing.Buffer[int]") {
						continue // index queues: the transactions they refer to are covered through the table
					}
					c.Check(reads[qf], "teardown-coverage", ag.rel+":"+td.Name()+"/"+q, td.Pos(), "the teardown visits State."+q,
						"the Reset teardown "+td.Name()+" never reads State."+q+", an in-flight container that Reset discards: the tracing tasks of the work held there are never ended (it reads: "+strings.Join(names, ", ")+")")
				}
				// order
				bad := ""
				for _, b := range h.Blocks {
					for _, in := range b.Instrs {
						var addr ssa.Value
						switch x := in.(type) {
						case *ssa.Store:
							addr = x.Addr
						case ssa.CallInstruction:
							if sc := x.Common().StaticCallee(); sc != nil && (sc.Name() == "Clear" || sc.Name() == "Reset") && len(x.Common().Args) > 0 {
								addr = x.Common().Args[0]
							}
						}
						if addr == nil || !stateRooted(addr) {
							continue
						}
						tf := stateTopField(addr, st.Type())
						if tf == nil || !reads[tf] {
							continue
						}
						if Reaches(in, call) && in != ssa.Instruction(call) {
							bad += "State." + tf.Name() + " is overwritten at " + p.Rel(in.Pos()) + " before the teardown " + td.Name() + " (which reads it) runs; "
						}
					}
				}
				c.Check(bad == "", "teardown-order", ag.rel+":"+SSAFuncKey(h)+"->"+td.Name(), call.Pos(), "the teardown runs before any field it reads is reset",
					bad+"the teardown then no longer sees the in-flight work and leaves its tracing tasks started-never-ended")
			}
		}
	}
	c.Floor("teardown-order", 12)
	teardownSiblingRule(c)
	// API identity agreement
	apiTable := func(name string) *Table {
		f := c.fn("api-identity", "tracing", "", name)
		if f == nil {
			return nil
		}
		return ExtractTable(p, f, TableConfig{Domain: []int{0, 1}})
	}
	idOf := func(t *Table, callee string) (string, bool) {
		id := ""
		for _, r := range t.Rows {
			for _, e := range r.Calls(func(e *Effect) bool { return e.Callee != nil && e.Callee.Name() == callee }) {
				if len(e.Args) >= 2 {
					s := e.Args[1]
					if i := strings.Index(s, "ID: "); i >= 0 {
						s = s[i+4:]
						depth := 0
						for j, ch := range s {
							if ch == '(' || ch == '{' {
								depth++
							}
							if ch == ')' {
								depth--
							}
							if (ch == ',' || ch == '}') && depth <= 0 {
								s = s[:j]
								break
							}
						}
					}
					if id != "" && id != s {
						return id, false
					}
					id = s
				}
			}
		}
		return id, id != ""
	}
	noHookSilent := func(name string, t *Table) {
		ok := len(t.Unsupported) == 0 && len(t.Rows) > 0
		seen := false
		for _, r := range t.Rows {
			a := r.Atom(func(a *Atom) bool { return strings.Contains(a.Key, "NumHooks()") })
			if a == nil {
				ok = false
				continue
			}
			zero := (!a.IsBool && a.I == 0) || (a.IsBool && strings.Contains(a.Key, "== 0") && a.B)
			if zero {
				seen = true
				if len(r.Calls(func(e *Effect) bool { return e.Callee != nil && e.Callee.Name() != "NumHooks" })) > 0 || len(r.Stores(func(*Effect) bool { return true })) > 0 {
					ok = false
				}
			}
		}
		c.Check(ok && seen, "api-identity", "tracing."+name+"#no-hooks", token.NoPos, "does nothing when the domain has no hooks", "tracing."+name+" has effects on a path where the domain has no hooks")
	}
	pairs := [][3]string{{"TraceReqReceive", "TraceReqComplete", "receiver"}, {"TraceReqInitiate", "TraceReqFinalize", "sender"}}
	for _, pr := range pairs {
		ts, te := apiTable(pr[0]), apiTable(pr[1])
		if ts == nil || te == nil {
			continue
		}
		noHookSilent(pr[0], ts)
		noHookSilent(pr[1], te)
		sid, ok1 := idOf(ts, "StartTask")
		eid, ok2 := idOf(te, "EndTask")
		c.Check(ok1 && ok2 && sid == eid, "api-identity", "tracing."+pr[0]+"/"+pr[1], token.NoPos, "start and end use the same task ID expression ("+sid+")",
			"the "+pr[2]+"-side task is started under ID "+sid+" but ended under ID "+eid+": the end would not refer to the started task")
	}
	if te := apiTable("TraceReqComplete"); te != nil {
		ok := true
		for _, r := range te.Rows {
			ends := callIndex(r, func(e *Effect) bool { return e.Callee != nil && e.Callee.Name() == "EndTask" })
			forgets := callIndex(r, func(e *Effect) bool {
				return e.Callee != nil && strings.HasPrefix(e.Callee.Name(), "forgetReceiverTaskID")
			})
			if (ends >= 0) != (forgets >= 0) || (ends >= 0 && forgets < ends) {
				ok = false
			}
		}
		c.Check(ok, "api-identity", "tracing.TraceReqComplete#release", token.NoPos, "the registry entry is released after the task is ended", "TraceReqComplete does not end the task and then release its receiver-registry entry on the same path")
	}
	if te := apiTable("EndReqInOnReset"); te != nil {
		noHookSilent("EndReqInOnReset", te)
		ok := true
		n := 0
		for _, r := range te.Rows {
			ends := r.Calls(func(e *Effect) bool { return e.Callee != nil && e.Callee.Name() == "EndTask" })
			forgets := r.Calls(func(e *Effect) bool {
				return e.Callee != nil && strings.HasPrefix(e.Callee.Name(), "forgetReceiverTaskID")
			})
			if len(ends) != len(forgets) {
				ok = false
			}
			for _, e := range ends {
				n++
				if len(e.Args) < 2 || !strings.Contains(e.Args[1], "receiverTaskIDByMsgID(") {
					ok = false
				}
			}
		}
		c.Check(ok && n > 0, "api-identity", "tracing.EndReqInOnReset", token.NoPos, "ends the task registered for the request's message ID and releases the entry", "EndReqInOnReset does not end the receiver-registry task of the given request and release its entry")
	}
	if te := apiTable("EndTaskOnReset"); te != nil {
		noHookSilent("EndTaskOnReset", te)
	}
	// sibling consistency per package
	type cnt struct{ recv, complete, initiate, finalize, start, end, reset, forget int }
	per := map[string]*cnt{}
	for _, fn := range p.SrcFuncs(func(pp string) bool { return libComponentPkg(pp) }) {
		for _, b := range fn.Blocks {
			for _, in := range b.Instrs {
				call, ok := in.(ssa.CallInstruction)
				if !ok {
					continue
				}
				sc := call.Common().StaticCallee()
				if sc == nil || sc.Pkg == nil || sc.Pkg.Pkg.Path() != ModPath+"/tracing" {
					continue
				}
				k := pkgOfFn(fn)
				if per[k] == nil {
					per[k] = &cnt{}
				}
				switch sc.Name() {
				case "TraceReqReceive":
					per[k].recv++
				case "TraceReqComplete":
					per[k].complete++
				case "TraceReqInitiate":
					per[k].initiate++
				case "TraceReqFinalize":
					per[k].finalize++
				case "StartTask":
					per[k].start++
				case "EndTask":
					per[k].end++
				case "ForgetMsgIDAtReceiver":
					per[k].forget++
				case "EndReqInOnReset", "EndTaskOnReset":
					per[k].reset++
				}
			}
		}
	}
	var pkgs []string
	for k := range per {
		pkgs = append(pkgs, k)
	}
	sort.Strings(pkgs)
	for _, k := range pkgs {
		x := per[k]
		rel := strings.TrimPrefix(k, ModPath+"/")
		if x.recv > 0 {
			c.Check(x.complete > 0 || (x.end > 0 && x.forget > 0), "siblings", rel+":req_in", token.NoPos, "req_in tasks that are started are also completed", "package "+rel+" starts receiver-side (req_in) tasks but never completes one")
		}
		if x.initiate > 0 {
			c.Check(x.finalize > 0, "siblings", rel+":req_out", token.NoPos, "req_out tasks that are started are also finalized", "package "+rel+" starts sender-side (req_out) tasks but never finalizes one")
		}
		if x.start > 0 {
			c.Check(x.end > 0, "siblings", rel+":task", token.NoPos, "tasks that are started are also ended", "package "+rel+" starts tasks but never ends one")
		}
	}
	c.Floor("siblings", 10)
	receiveAccountedRule(c)
	receiverReleaseRules(c, 1, 10)
	lifecycleBeforeStallRule(c, "lifecycle-before-stall", 100)
	staleElementRule(c, "stale-element", 5, func(string) bool { return true })
	resetSingleEndRule(c, "reset-single-end", 1)
}

// ---- C33 ----

var observerPkgs = []string{"/tracing", "/hooking"}

var effectFreeNames = map[string]bool{
	"Name": true, "AsRemote": true, "CurrentTime": true, "String": true, "Sprintf": true, "NumHooks": true, "Time": true,
	"Len": true, "Size": true, "Capacity": true, "Meta": true, "TypeOf": true, "Elem": true, "Kind": true, "Error": true, "Peek": true,
	"PeekIncoming": true, "PeekOutgoing": true, "CanSend": true, "Spec": true, "Now": true,
}

// effectFree: fn stores nothing outside its frame and calls only effect-free functions.
func effectFree(fn *ssa.Function, depth int, seen map[*ssa.Function]bool) bool {
	if fn == nil || len(fn.Blocks) == 0 {
		return false
	}
	if seen[fn] {
		return true
	}
	seen[fn] = true
	if depth > 4 {
		return false
	}
	for _, b := range fn.Blocks {
		for _, in := range b.Instrs {
			switch x := in.(type) {
			case *ssa.Store:
				if stateRooted(x.Addr) {
					return false
				}
			case *ssa.MapUpdate, *ssa.Send, *ssa.Go:
				return false
			case ssa.CallInstruction:
				if !callIsObserverOrPure(x, depth+1, seen) {
					return false
				}
			}
		}
	}
	return true
}

func callIsObserverOrPure(call ssa.CallInstruction, depth int, seen map[*ssa.Function]bool) bool {
	cc := call.Common()
	if _, isB := cc.Value.(*ssa.Builtin); isB {
		return true
	}
	name, pkg := calleeNamePkg(call)
	for _, o := range observerPkgs {
		if strings.HasSuffix(pkg, o) {
			return true
		}
	}
	if name == "InvokeHook" {
		return true
	}
	if effectFreeNames[name] {
		return true
	}
	if isStd(pkg) && (pkg == "fmt" || pkg == "reflect" || pkg == "strings" || pkg == "strconv") {
		return true
	}
	if sc := cc.StaticCallee(); sc != nil {
		return effectFree(origin(sc), depth, seen)
	}
	return false
}

// hookCond reports whether v derives from a NumHooks() call (directly, or as a
// bool parameter fed only by such values).
func hookCond(p *Program, v ssa.Value, fn *ssa.Function, depth int) bool {
	if depth > 3 {
		return false
	}
	for x := range DataSlice(fn, v) {
		if call, ok := x.(*ssa.Call); ok {
			if n, _ := calleeNamePkg(call); n == "NumHooks" {
				return true
			}
		}
		if pv, ok := x.(*ssa.Parameter); ok && types.Identical(pv.Type().Underlying(), types.Typ[types.Bool]) {
			idx := -1
			for i, q := range fn.Params {
				if q == pv {
					idx = i
				}
			}
			all, n := true, 0
			for _, caller := range p.ModCG().in[origin(fn)] {
				for _, b := range caller.Blocks {
					for _, in := range b.Instrs {
						if call, isCall := in.(ssa.CallInstruction); isCall && call.Common().StaticCallee() != nil && origin(call.Common().StaticCallee()) == origin(fn) && idx < len(call.Common().Args) {
							n++
							if !hookCond(p, call.Common().Args[idx], caller, depth+1) {
								all = false
							}
						}
					}
				}
			}
			if all && n > 0 {
				return true
			}
		}
	}
	return false
}

func runC33(c *Ctx) {
	p := c.P
	simPkg := func(pp string) bool {
		if clientPkg(pp) || !strings.HasPrefix(pp, ModPath) {
			return false
		}
		for _, o := range []string{"/tracing", "/hooking", "/monitoring", "/datarecording", "/analysis"} {
			if strings.HasPrefix(pp, ModPath+o) {
				return false
			}
		}
		return true
	}
	n := 0
	for _, fn := range p.SrcFuncs(simPkg) {
		for _, b := range fn.Blocks {
			ifi, ok := b.Instrs[len(b.Instrs)-1].(*ssa.If)
			if !ok || !hookCond(p, ifi.Cond, fn, 0) {
				continue
			}
			n++
			c.Analysed(SSAFuncKey(fn))
			t, f := b.Succs[0], b.Succs[1]
			excl := func(side, other *ssa.BasicBlock) []string {
				// blocks reachable from side but not from other
				reach := func(s *ssa.BasicBlock) map[*ssa.BasicBlock]bool {
					m := map[*ssa.BasicBlock]bool{}
					var w func(x *ssa.BasicBlock)
					w = func(x *ssa.BasicBlock) {
						if m[x] || x == b {
							return
						}
						m[x] = true
						for _, s2 := range x.Succs {
							w(s2)
						}
					}
					w(s)
					return m
				}
				rs, ro := reach(side), reach(other)
				var eff []string
				for _, blk := range fn.Blocks {
					if !rs[blk] || ro[blk] {
						continue
					}
					for _, in := range blk.Instrs {
						switch x := in.(type) {
						case *ssa.Store:
							if stateRooted(x.Addr) {
								eff = append(eff, "store "+shortKey(VKey(x.Addr)))
							}
						case *ssa.MapUpdate:
							eff = append(eff, "map update")
						case ssa.CallInstruction:
							if !callIsObserverOrPure(x, 0, map[*ssa.Function]bool{}) {
								nm, _ := calleeNamePkg(x)
								eff = append(eff, "call "+nm)
							}
						}
					}
				}
				sort.Strings(eff)
				return eff
			}
			et, ef := excl(t, f), excl(f, t)
			same := strings.Join(et, ";") == strings.Join(ef, ";")
			c.Check(same, "guard-equality", SSAFuncKey(fn)+"@hooks-branch", ifi.Pos(), "both sides of the hooks-present test perform the same simulation-relevant effects",
				"the code that runs only on one side of a NumHooks() test differs in simulation-relevant effects (one side: ["+strings.Join(et, ", ")+"], other side: ["+strings.Join(ef, ", ")+"]): attaching an observer would change what the simulation does")
		}
	}
	c.Check(n >= 12, "guard-equality", "instances", token.NoPos, "hooks-present branches recognised", "only "+itoa(n)+" hooks-present branches recognised (expected at least 12)")
	// passive tracers
	var roots []*ssa.Function
	for _, fn := range p.SrcFuncs(func(pp string) bool { return pp == ModPath+"/tracing" }) {
		roots = append(roots, fn)
	}
	mutators := map[string]bool{"Send": true, "Deliver": true, "RetrieveIncoming": true, "RetrieveOutgoing": true, "NotifyAvailable": true, "NotifySend": true, "NotifyRecv": true,
		"Schedule": true, "Push": true, "PushTyped": true, "Pop": true, "TickLater": true, "TickNow": true, "Accept": true, "Clear": true}
	bad := ""
	for _, fn := range roots {
		for _, b := range fn.Blocks {
			for _, in := range b.Instrs {
				call, ok := in.(ssa.CallInstruction)
				if !ok {
					continue
				}
				nm, pkg := calleeNamePkg(call)
				if !mutators[nm] {
					continue
				}
				for _, sp := range []string{"/messaging", "/timing", "/queueing", "/modeling"} {
					if strings.HasSuffix(pkg, sp) {
						bad += p.Rel(in.Pos()) + " calls " + nm + "; "
					}
				}
			}
		}
	}
	// the observation API never aborts the run on its own: explicit panics in the
	// package-level tracing API (the part every component calls) are confined to
	// the two validators reviewed below; a new abort that can only fire once a
	// tracer is attached makes the observed run end differently from the
	// unobserved one.
	reviewedAPIPanics := map[string]string{
		"tracing.allRequiredFieldsMustBeNotEmpty": "validates StartTask arguments; every library caller passes a freshly generated ID and constant kind/what",
		"tracing.domainMustHaveName":              "a component without a name cannot be built through the builders",
		"tracing.CollectTrace":                    "set-up time: attaching the same tracer twice to one domain is a configuration error, raised before the run",
		"tracing.mustItem":                        "internal consistency: each hook position is invoked only by the API function that builds the matching item type",
	}
	nAPI := 0
	for _, fn := range roots {
		if fn.Signature.Recv() != nil || fn.Parent() != nil {
			continue
		}
		nAPI++
		for _, s := range panicSitesIn(fn) {
			k := SSAFuncKey(fn)
			if why := reviewedAPIPanics[k]; why != "" {
				c.Ok("observer-total", k+"#"+s.What, s.Pos, "reviewed: "+why)
				continue
			}
			c.Fail("observer-total", k+"#"+s.What, s.Pos, "the tracing API aborts the run ("+s.What+") on a path that is only taken when a tracer is attached (every API entry returns first when the domain has no hooks): the observed run can end in a crash where the unobserved run completes")
		}
	}
	c.Check(nAPI >= 15, "observer-total", "tracing#api-functions", token.NoPos, itoa(nAPI)+" package-level tracing API functions inspected", "fewer tracing API functions found than confirmed by hand")
	c.Check(bad == "" && len(roots) > 20, "passive-tracers", "tracing", token.NoPos, "no tracing function calls a simulation-mutating API ("+itoa(len(roots))+" functions)", "the tracing package drives the simulation: "+bad)
}

// ---- every started req_in is completed or recorded ----

func isTracingCall(call ssa.CallInstruction, names ...string) bool {
	sc := call.Common().StaticCallee()
	if sc == nil || sc.Pkg == nil || sc.Pkg.Pkg.Path() != ModPath+"/tracing" {
		return false
	}
	for _, n := range names {
		if sc.Name() == n {
			return true
		}
	}
	return false
}

// accountsFor reports whether instruction in (inside fn) completes the task of
// value v or records v (or something derived from it) in component state.
func accountsFor(p *Program, fn *ssa.Function, in ssa.Instruction, v ssa.Value, depth int) bool {
	derives := func(x ssa.Value) bool {
		if x == nil {
			return false
		}
		if x == v {
			return true
		}
		return DataSlice(fn, x)[v]
	}
	switch x := in.(type) {
	case *ssa.Store:
		return stateRooted(x.Addr) && derives(x.Val)
	case *ssa.MapUpdate:
		return derives(x.Value) || derives(x.Key)
	case ssa.CallInstruction:
		if isTracingCall(x, "TraceReqComplete", "EndTask") {
			return true
		}
		name, pkg := calleeNamePkg(x)
		if (putNames[name] || name == "AcceptWithDelay") && strings.HasSuffix(pkg, "/queueing") { // recorded in a queue of the component (forwarding a derived message does not record this one)
			for _, a := range x.Common().Args {
				if derives(a) {
					return true
				}
			}
		}
		sc := x.Common().StaticCallee()
		if sc == nil || depth > 2 || len(origin(sc).Blocks) == 0 || pkgOfFn(sc) != pkgOfFn(fn) {
			return false
		}
		sc = origin(sc)
		for i, a := range x.Common().Args {
			if !derives(a) || i >= len(sc.Params) {
				continue
			}
			pv := sc.Params[i]
			for _, b := range sc.Blocks {
				for _, in2 := range b.Instrs {
					if accountsFor(p, sc, in2, pv, depth+1) {
						return true
					}
				}
			}
		}
		// helpers that end the task by ID (traceReqComplete(recvTaskID, reqID))
		for g := range p.ModCG().Reach([]*ssa.Function{sc}, func(h *ssa.Function) bool { return pkgOfFn(h) == pkgOfFn(fn) }) {
			for _, b := range g.Blocks {
				for _, in2 := range b.Instrs {
					if c2, ok := in2.(ssa.CallInstruction); ok && isTracingCall(c2, "TraceReqComplete") {
						return true
					}
				}
			}
		}
	}
	return false
}

func receiveAccountedRule(c *Ctx) {
	p := c.P
	n := 0
	for _, fn := range p.SrcFuncs(func(pp string) bool { return libComponentPkg(pp) }) {
		loops := loopsOf(fn)
		for _, b := range fn.Blocks {
			for i, in := range b.Instrs {
				call, ok := in.(ssa.CallInstruction)
				if !ok || !isTracingCall(call, "TraceReqReceive") {
					continue
				}
				n++
				// the message and the values it is a copy of (interface conversions, type
				// assertions of the retrieved value, loads of the local that holds it)
				var alt []ssa.Value
				seenAlt := map[ssa.Value]bool{}
				var chain func(x ssa.Value)
				chain = func(x ssa.Value) {
					if x == nil || seenAlt[x] {
						return
					}
					seenAlt[x] = true
					alt = append(alt, x)
					switch y := x.(type) {
					case *ssa.MakeInterface:
						chain(y.X)
					case *ssa.ChangeInterface:
						chain(y.X)
					case *ssa.TypeAssert:
						chain(y.X)
					case *ssa.Extract:
						if ta, isTA := y.Tuple.(*ssa.TypeAssert); isTA {
							chain(ta)
							chain(ta.X)
						}
					case *ssa.UnOp:
						if al, isAl := y.X.(*ssa.Alloc); isAl && y.Op == token.MUL {
							for _, ref := range *al.Referrers() {
								if st, isSt := ref.(*ssa.Store); isSt && st.Addr == ssa.Value(al) {
									chain(st.Val)
								}
								if ld, isLd := ref.(*ssa.UnOp); isLd && ld.Op == token.MUL {
									if !seenAlt[ld] {
										seenAlt[ld] = true
										alt = append(alt, ld)
									}
								}
							}
						}
					}
				}
				chain(call.Common().Args[1])
				acc := func(x ssa.Instruction) bool {
					for _, a := range alt {
						if accountsFor(p, fn, x, a, 0) {
							return true
						}
					}
					return false
				}
				// already recorded before the start (record-then-trace order)?
				pre := false
				for _, bb := range fn.Blocks {
					for _, x := range bb.Instrs {
						if x != in && InstrDominates(x, in) && acc(x) {
							pre = true
						}
					}
				}
				l := innermost(loops, b)
				escaped := ""
				if !pre {
					seen := map[*ssa.BasicBlock]bool{}
					var walk func(blk *ssa.BasicBlock, from int)
					walk = func(blk *ssa.BasicBlock, from int) {
						for j := from; j < len(blk.Instrs); j++ {
							x := blk.Instrs[j]
							if acc(x) {
								return
							}
							if _, isRet := x.(*ssa.Return); isRet {
								escaped = "the function returns at " + p.Rel(x.Pos())
								return
							}
						}
						for _, s := range blk.Succs {
							if l != nil && s == l.header {
								escaped = "the loop moves on to the next message"
								continue
							}
							if !seen[s] {
								seen[s] = true
								walk(s, 0)
							}
						}
					}
					walk(b, i+1)
				}
				c.Check(escaped == "", "receive-accounted", SSAFuncKey(fn)+"@TraceReqReceive", in.Pos(), "the started req_in is completed or its message recorded on every path",
					"a receiver-side task is started for a message, but on some path ("+escaped+") the task is neither completed nor the message recorded in component state for later completion: the task stays started-never-ended")
			}
		}
	}
	c.Check(n >= 12, "receive-accounted", "instances", token.NoPos, "TraceReqReceive sites found ("+itoa(n)+")", "only "+itoa(n)+" TraceReqReceive sites found")
}

// teardownSiblingRule cross-checks the teardown helpers of agents whose in-flight
// records carry the same lifecycle flag (e.g. the two caches' Transactions[i].Removed):
// they must agree on whether the teardown conditions its work on that flag. A
// record that is already retired for the requester can still own open downstream
// tasks (an eviction write-back, a write-through); a teardown that skips retired
// records in one sibling but not in the other is wrong in one of them.
func teardownSiblingRule(c *Ctx) {
	p := c.P
	cg := p.ModCG()
	type use struct {
		agent string
		fn    *ssa.Function
		pos   token.Pos
	}
	lifecycle := map[string]bool{"Removed": true, "Completed": true, "Done": true, "Retired": true, "Valid": true}
	declares := map[string][]string{} // flag -> agents whose State closure has a bool field of that name
	uses := map[string][]use{}
	for _, ag := range ctrlAgents {
		inPkg := func(fn *ssa.Function) bool { return pkgOfFn(fn) == pkgPath(ag.rel) }
		st := p.LookupType(ag.rel, "State")
		if st == nil {
			continue
		}
		seenT := map[types.Type]bool{}
		var walk func(t types.Type, depth int)
		walk = func(t types.Type, depth int) {
			if depth > 5 || seenT[t] {
				return
			}
			seenT[t] = true
			switch u := t.Underlying().(type) {
			case *types.Struct:
				for i := 0; i < u.NumFields(); i++ {
					f := u.Field(i)
					if b, ok := f.Type().Underlying().(*types.Basic); ok && b.Kind() == types.Bool && lifecycle[f.Name()] {
						declares[f.Name()] = append(declares[f.Name()], ag.rel)
					}
					walk(f.Type(), depth+1)
				}
			case *types.Slice:
				walk(u.Elem(), depth+1)
			case *types.Map:
				walk(u.Elem(), depth+1)
			case *types.Array:
				walk(u.Elem(), depth+1)
			}
		}
		walk(st.Type(), 0)
		// teardown closure
		for _, f := range p.SrcFuncs(func(pp string) bool { return pp == pkgPath(ag.rel) }) {
			direct := false
			for _, b := range f.Blocks {
				for _, in := range b.Instrs {
					if call, ok := in.(ssa.CallInstruction); ok && isTeardownCallee(call.Common().StaticCallee()) {
						direct = true
					}
				}
			}
			if !direct {
				continue
			}
			for g := range cg.Reach([]*ssa.Function{f}, inPkg) {
				for _, b := range g.Blocks {
					ifi, ok := b.Instrs[len(b.Instrs)-1].(*ssa.If)
					if !ok {
						continue
					}
					for v := range DataSlice(g, ifi.Cond) {
						for name := range lifecycle {
							if valueReadsField(v, name) {
								uses[name] = append(uses[name], use{ag.rel, g, ifi.Pos()})
							}
						}
					}
				}
			}
		}
	}
	n := 0
	for flag, agents := range declares {
		agents = uniqStr(agents)
		if len(agents) < 2 {
			continue
		}
		n++
		using := map[string]use{}
		for _, u := range uses[flag] {
			using[u.agent] = u
		}
		for _, a := range agents {
			u, does := using[a]
			var others []string
			for _, o := range agents {
				if _, od := using[o]; o != a && !od {
					others = append(others, o)
				}
			}
			ok := !does || len(others) == 0
			pos := token.NoPos
			if does {
				pos = u.pos
			}
			c.Check(ok, "teardown-siblings", a+":"+flag, pos, "the Reset teardown treats retired records like its siblings do",
				"the Reset teardown of "+a+" conditions its work on the records' "+flag+" flag while the sibling teardown(s) of "+strings.Join(others, ", ")+" visit every record: a record retired for its requester can still own open downstream tasks (eviction write-back, forwarded write), which a Reset in that window leaves started-never-ended")
		}
	}
	c.Check(n >= 1, "teardown-siblings", "instances", token.NoPos, "sibling lifecycle flags found", "no lifecycle flag shared by two agents was found")
}
