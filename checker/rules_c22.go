package main

import (
	"go/ast"
	"go/token"
	"go/types"
	"sort"
	"strings"

	"golang.org/x/tools/go/ssa"
)

func init() {
	register("C22", PropertyMeta{
		Technique: "table extraction from the source's own dispatch tables (composite-key switches, timing-table literals) compared with a frozen bank state machine + issue-through-ready provenance",
		Explanation: "Decides on mem/dram: (1) the required-command table equals the bank state machine — closed bank: any column command requires ACTIVATE; open bank: the command itself iff the open row matches, else PRECHARGE; (2) startCommand's transitions: ACTIVATE opens the bank on the command's row, PRECHARGE and auto-precharge column commands close it, plain reads/writes leave it open; " +
			"(3) getReadyCommand returns a command only when the countdown of the *required* kind is zero, and every command the scheduler path hands to issue derives from getReadyCommand (no path issues a queued command without the timing test); issue applies startCommand and updateTiming to the command it issues on every issuing path; " +
			"(4) the same-bank timing table has ACT→{RD,WR,RDA,WRA,PRE}, PRE→ACT, RD/WR→PRE and RDA/WRA→ACT entries whose values derive from tRCD, tRAS, tRP, tRTP and tWR respectively; countdowns only ever decrease by one per tick and are raised (never lowered) by updateTiming. (timing-reaches-all-banks) updateAllBankTiming walks the whole flat bank array, from the first entry to len(Entries), and addresses entries only inside that loop. (geometry-complete) every Spec.Num* dimension that buildAddressMapping decodes takes part in the capacity of the storage the builder creates.",
		NotDecided:  "numeric separations on actual command streams; refresh; tFAW arithmetic; data correctness.",
		Assumptions: []string{"JEDEC-style bank state machine as frozen in the rule"},
	}, runC22)
}

type keyedClause struct {
	keys    [][2]string // (state, kind)
	clause  *ast.CaseClause
	isDeflt bool
}

// compositeKeySwitches returns the switch statements of fd whose case
// expressions are two-field composite literals of constants.
func compositeKeySwitches(fd *ast.FuncDecl) [][]keyedClause {
	var out [][]keyedClause
	ast.Inspect(fd.Body, func(n ast.Node) bool {
		sw, ok := n.(*ast.SwitchStmt)
		if !ok {
			return true
		}
		var cls []keyedClause
		composite := false
		for _, c := range sw.Body.List {
			cc := c.(*ast.CaseClause)
			kc := keyedClause{clause: cc, isDeflt: cc.List == nil}
			for _, e := range cc.List {
				cl, isCL := ast.Unparen(e).(*ast.CompositeLit)
				if !isCL || len(cl.Elts) != 2 {
					continue
				}
				composite = true
				a, b := types.ExprString(cl.Elts[0]), types.ExprString(cl.Elts[1])
				kc.keys = append(kc.keys, [2]string{a, b})
			}
			cls = append(cls, kc)
		}
		if composite {
			out = append(out, cls)
		}
		return true
	})
	return out
}

func runC22(c *Ctx) {
	geometryCompleteRule(c, "geometry-complete")
	timingReachesAllBanksRule(c, "timing-reaches-all-banks")
	p := c.P
	column := []string{"cmdKindRead", "cmdKindReadPrecharge", "cmdKindWrite", "cmdKindWritePrecharge"}
	// (1) required command
	if f := c.fn("required-command-table", "mem/dram", "", "getRequiredCommandKind"); f != nil {
		fd := p.Decl(f)
		sws := compositeKeySwitches(fd)
		if len(sws) != 1 {
			c.Unknown("required-command-table", "mem/dram.getRequiredCommandKind", fd.Pos(), "the state/command dispatch is not a single composite-key switch: shape not understood")
		} else {
			find := func(state, kind string) *ast.CaseClause {
				for _, kc := range sws[0] {
					for _, k := range kc.keys {
						if k[0] == state && k[1] == kind {
							return kc.clause
						}
					}
				}
				return nil
			}
			for _, k := range column {
				cl := find("bankStateClosed", k)
				ok := cl != nil && len(cl.Body) == 1 && returnsIdent(cl.Body[0], "cmdKindActivate")
				c.Check(ok, "required-command-table", "closed×"+k, fd.Pos(), "requires ACTIVATE", "a column command to a closed bank must first require ACTIVATE (a row is activated before it is read or written)")
				op := find("bankStateOpen", k)
				okOpen := false
				if op != nil && len(op.Body) == 2 {
					if ifs, isIf := op.Body[0].(*ast.IfStmt); isIf && ifs.Else == nil && len(ifs.Body.List) == 1 {
						cond := strings.ReplaceAll(types.ExprString(ifs.Cond), " ", "")
						rowEq := false
						if i := strings.Index(cond, "=="); i > 0 && !strings.ContainsAny(cond, "&|!<>") {
							l, r := cond[:i], cond[i+2:]
							rowEq = (strings.HasSuffix(l, ".OpenRow") && strings.HasSuffix(r, ".Location.Row")) || (strings.HasSuffix(r, ".OpenRow") && strings.HasSuffix(l, ".Location.Row"))
						}
						okOpen = rowEq && returnsIdent(ifs.Body.List[0], "cmdKind") && returnsIdent(op.Body[1], "cmdKindPrecharge")
					}
				}
				c.Check(okOpen, "required-command-table", "open×"+k, fd.Pos(), "the command itself iff the open row matches, else PRECHARGE",
					"with a bank open, a column command may proceed only if its row is the open row; otherwise the bank must be precharged first (precharge before another row is activated)")
			}
		}
	}
	// (2) transitions
	if f := c.fn("transition-table", "mem/dram", "", "startCommand"); f != nil {
		fd := p.Decl(f)
		sws := compositeKeySwitches(fd)
		if len(sws) != 1 {
			c.Unknown("transition-table", "mem/dram.startCommand", fd.Pos(), "the transition dispatch is not a single composite-key switch: shape not understood")
		} else {
			effect := func(state, kind string) (stores []string, found bool) {
				for _, kc := range sws[0] {
					for _, k := range kc.keys {
						if k[0] == state && k[1] == kind {
							found = true
							for _, st := range kc.clause.Body {
								if as, isAs := st.(*ast.AssignStmt); isAs && len(as.Lhs) == 1 {
									l, r := types.ExprString(as.Lhs[0]), types.ExprString(as.Rhs[0])
									if i := strings.Index(l, "."); i >= 0 {
										l = l[i:] // drop the receiver variable's name
									}
									if i := strings.Index(r, "."); i >= 0 && !strings.Contains(r, "(") {
										r = r[i:]
									}
									stores = append(stores, strings.ReplaceAll(l+"="+r, " ", ""))
								}
							}
						}
					}
				}
				sort.Strings(stores)
				return
			}
			st, found := effect("bankStateClosed", "cmdKindActivate")
			c.Check(found && strings.Join(st, ";") == ".OpenRow=.Location.Row;.State=int(bankStateOpen)", "transition-table", "closed×ACT", fd.Pos(), "opens the bank on the command's row", "ACTIVATE must open the bank and record the activated row")
			for _, k := range []string{"cmdKindPrecharge", "cmdKindReadPrecharge", "cmdKindWritePrecharge"} {
				st, found := effect("bankStateOpen", k)
				c.Check(found && strings.Join(st, ";") == ".State=int(bankStateClosed)", "transition-table", "open×"+k, fd.Pos(), "closes the bank", "PRECHARGE and auto-precharge column commands must close the bank")
			}
			for _, k := range []string{"cmdKindRead", "cmdKindWrite"} {
				st, _ := effect("bankStateOpen", k)
				c.Check(len(st) == 0, "transition-table", "open×"+k, fd.Pos(), "leaves the bank open", "a plain read or write must leave the bank state unchanged")
			}
		}
	}
	// (3) ready test and provenance
	if f := c.fn("ready-table", "mem/dram", "", "getReadyCommand"); f != nil {
		req := p.LookupFunc("mem/dram", "", "getRequiredCommandKind")
		t := ExtractTable(p, f, TableConfig{Domain: []int{0, 1, 2}, Pure: func(g *types.Func) bool { return g == req || g.Name() == "canActivateUnderTFAW" }})
		roles := []Role{
			{Name: "none", IsBool: true, Match: func(a *Atom) bool {
				return a.IsBool && strings.HasPrefix(a.Key, constVal(p, "mem/dram", "numCmdKind")+" == getRequiredCommandKind(")
			}},
			{Name: "wait", Match: func(a *Atom) bool { return a.HasName("CyclesToCmdAvailable") }},
		}
		CheckTable(c, "ready-table", "mem/dram.getReadyCommand", p.Decl(f).Pos(), t, roles, []int{0, 1, 2}, nil, func(v RoleVals, r *Row) (bool, string) {
			if r.Out.Kind != "return" || len(r.Out.Vals) != 1 {
				return false, "must return a command or nil"
			}
			isNil := r.Out.Vals[0].Str == "nil"
			if v.B("none") || v["wait"] > 0 {
				if !isNil {
					return false, "a command whose required kind is still counting down (or that has no legal next step) must not be returned as ready"
				}
				return true, ""
			}
			w := r.Atom(func(a *Atom) bool { return a.HasName("CyclesToCmdAvailable") })
			if w != nil && !strings.Contains(w.Key, "getRequiredCommandKind(") {
				return false, "the countdown consulted must be the one of the required command kind"
			}
			if !isNil {
				st := r.Stores(func(e *Effect) bool { return strings.HasSuffix(e.RecvS, ".Kind") })
				if len(st) != 1 || !strings.Contains(st[0].Args[0], "getRequiredCommandKind(") {
					return false, "the ready command must be of the required kind"
				}
			}
			return true, ""
		})
	}
	if iss := c.fn("issue-through-ready", "mem/dram", "bankTickMW", "issue"); iss != nil {
		grc := p.LookupFunc("mem/dram", "", "getReadyCommand")
		root := p.SSAFunc(iss)
		reach := p.ModCG().Reach([]*ssa.Function{root}, func(fn *ssa.Function) bool { return strings.HasSuffix(pkgOfFn(fn), "/mem/dram") })
		retCmd := func(fn *ssa.Function) bool {
			res := fn.Signature.Results()
			return res.Len() == 1 && strings.HasSuffix(res.At(0).Type().String(), "commandState")
		}
		// functions that (transitively) call getReadyCommand
		var callsReady func(fn *ssa.Function, seen map[*ssa.Function]bool) bool
		callsReady = func(fn *ssa.Function, seen map[*ssa.Function]bool) bool {
			if seen[fn] {
				return false
			}
			seen[fn] = true
			for _, cal := range p.ModCG().out[fn] {
				if o, _ := cal.Object().(*types.Func); o != nil && sameObj(o, grc) {
					return true
				}
				if callsReady(cal, seen) {
					return true
				}
			}
			return false
		}
		n := 0
		for fn := range reach {
			if !retCmd(fn) || fn.Parent() != nil {
				continue
			}
			if o, _ := fn.Object().(*types.Func); o != nil && sameObj(o, grc) {
				continue
			}
			if !callsReady(fn, map[*ssa.Function]bool{}) {
				continue // helpers below getReadyCommand (cloneCommand)
			}
			n++
			bad := ""
			for _, b := range fn.Blocks {
				ret, ok := b.Instrs[len(b.Instrs)-1].(*ssa.Return)
				if !ok || len(ret.Results) != 1 || isNilConst(ret.Results[0]) {
					continue
				}
				derived := false
				for v := range DataSlice(fn, ret.Results[0]) {
					call, isCall := v.(*ssa.Call)
					if !isCall {
						continue
					}
					if sc := call.Common().StaticCallee(); sc != nil {
						if o, _ := sc.Object().(*types.Func); o != nil && sameObj(o, grc) {
							derived = true
						} else if retCmd(sc) && callsReady(origin(sc), map[*ssa.Function]bool{}) {
							derived = true
						}
					} else if call.Common().IsInvoke() && call.Common().Method.Name() == "Pick" {
						derived = true
					}
				}
				if !derived {
					bad = "a command is returned towards issue at " + p.Rel(ret.Pos()) + " without having passed the readiness (timing) test"
				}
			}
			c.Check(bad == "", "issue-through-ready", SSAFuncKey(fn), fn.Pos(), "every returned command derives from getReadyCommand", bad+": minimum command separations (tRCD, tRP, tRAS, …) would not be respected on that path")
		}
		c.Floor("issue-through-ready", 4)
		// issue: startCommand and updateTiming on the picked command
		t := ExtractTable(p, iss, TableConfig{Domain: []int{0, 1}})
		ok, why := len(t.Unsupported) == 0 && len(t.Rows) > 0, "outside the analysable fragment: "+strings.Join(t.Unsupported, ";")
		for _, r := range t.Rows {
			if r.Out.Kind != "return" || len(r.Out.Vals) != 1 || r.Out.Vals[0].Kind != vBool || !r.Out.Vals[0].B {
				continue
			}
			sc := r.Calls(func(e *Effect) bool { return e.Callee != nil && e.Callee.Name() == "startCommand" })
			ut := r.Calls(func(e *Effect) bool { return e.Callee != nil && e.Callee.Name() == "updateTiming" })
			if len(sc) != 1 || len(ut) != 1 || !strings.Contains(sc[0].Args[3], "Pick(") || !strings.Contains(ut[0].Args[2], "Pick(") {
				ok, why = false, "an issued command must update the bank state (startCommand) and arm the timing countdowns (updateTiming), both with the command that was picked"
			}
		}
		c.Check(ok, "issue-through-ready", "mem/dram.bankTickMW.issue#apply", p.Decl(iss).Pos(), "startCommand and updateTiming applied to the picked command", why)
	}
	// (4) timing table
	if f := c.fn("timing-table", "mem/dram", "Builder", "generateTiming"); f != nil {
		fd := p.Decl(f)
		defs := map[string][]ast.Expr{}
		// every assignment to SameBank[k] replaces the row: each one is a candidate final row
		table := map[string][]map[string]ast.Expr{} // SameBank[k] -> assignments -> next -> expr
		ast.Inspect(fd.Body, func(n ast.Node) bool {
			as, ok := n.(*ast.AssignStmt)
			if !ok || len(as.Lhs) != 1 || len(as.Rhs) != 1 {
				return true
			}
			if id, isID := as.Lhs[0].(*ast.Ident); isID {
				defs[id.Name] = append(defs[id.Name], as.Rhs[0])
			}
			return true
		})
		ast.Inspect(fd.Body, func(n ast.Node) bool {
			as, ok := n.(*ast.AssignStmt)
			if !ok || len(as.Lhs) != 1 || len(as.Rhs) != 1 {
				return true
			}
			ix, isIx := as.Lhs[0].(*ast.IndexExpr)
			if !isIx || !strings.HasSuffix(types.ExprString(ix.X), ".SameBank") {
				return true
			}
			k := types.ExprString(ix.Index)
			rhs := as.Rhs[0]
			if call, isCall := rhs.(*ast.CallExpr); isCall && types.ExprString(call.Fun) == "append" && len(call.Args) > 0 && types.ExprString(call.Args[0]) == types.ExprString(as.Lhs[0]) {
				return true // extends the row, removes nothing
			}
			if id, isID := rhs.(*ast.Ident); isID && len(defs[id.Name]) == 1 {
				rhs = defs[id.Name][0] // a row built in a local first
			}
			row := map[string]ast.Expr{}
			if cl, isCL := rhs.(*ast.CompositeLit); isCL {
				for _, el := range cl.Elts {
					ecl, isE := el.(*ast.CompositeLit)
					if !isE {
						continue
					}
					next, val := "", ast.Expr(nil)
					for _, kv := range ecl.Elts {
						if kve, isKV := kv.(*ast.KeyValueExpr); isKV {
							switch types.ExprString(kve.Key) {
							case "NextCmdKind":
								next = types.ExprString(kve.Value)
							case "MinCycleInBetween":
								val = kve.Value
							}
						}
					}
					if next != "" {
						row[next] = val
					}
				}
			}
			table[k] = append(table[k], row)
			return true
		})
		var params func(e ast.Expr, depth int, out map[string]bool)
		params = func(e ast.Expr, depth int, out map[string]bool) {
			if e == nil || depth > 6 {
				return
			}
			ast.Inspect(e, func(n ast.Node) bool {
				switch x := n.(type) {
				case *ast.SelectorExpr:
					if id, isID := x.X.(*ast.Ident); isID && id.Name == "s" {
						out[x.Sel.Name] = true
					}
				case *ast.Ident:
					for _, d := range defs[x.Name] {
						if d != e {
							params(d, depth+1, out)
						}
					}
				}
				return true
			})
		}
		need := []struct {
			from, to string
			spec     []string
			why      string
		}{
			{"cmdKindActivate", "cmdKindRead", []string{"TRCD"}, "activate-to-read"},
			{"cmdKindActivate", "cmdKindWrite", []string{"TRCD"}, "activate-to-write"},
			{"cmdKindActivate", "cmdKindReadPrecharge", []string{"TRCD"}, "activate-to-read"},
			{"cmdKindActivate", "cmdKindWritePrecharge", []string{"TRCD"}, "activate-to-write"},
			{"cmdKindActivate", "cmdKindPrecharge", []string{"TRAS"}, "activate-to-precharge"},
			{"cmdKindPrecharge", "cmdKindActivate", []string{"TRP"}, "precharge-to-activate"},
			{"cmdKindRead", "cmdKindPrecharge", []string{"TRTP"}, "read-to-precharge"},
			{"cmdKindWrite", "cmdKindPrecharge", []string{"TWR"}, "write-to-precharge"},
			{"cmdKindReadPrecharge", "cmdKindActivate", []string{"TRTP", "TRP"}, "read-with-autoprecharge to activate"},
			{"cmdKindWritePrecharge", "cmdKindActivate", []string{"TWR", "TRP"}, "write-with-autoprecharge to activate"},
		}
		for _, nd := range need {
			ok := len(table[nd.from]) > 0
			for _, row := range table[nd.from] {
				val, has := row[nd.to]
				got := map[string]bool{}
				params(val, 0, got)
				if !has {
					ok = false
				}
				for _, s := range nd.spec {
					if !got[s] {
						ok = false
					}
				}
			}
			c.Check(ok, "timing-table", "SameBank["+nd.from+"]→"+nd.to, fd.Pos(), "derived from "+strings.Join(nd.spec, ", ")+" in every assignment of the row",
				"the same-bank timing row of "+nd.from+" has (on some configuration path: each assignment replaces the row) no "+nd.why+" entry derived from "+strings.Join(nd.spec, "+")+": that minimum separation is not enforced")
		}
	}
	// who may write the countdowns: the per-tick decrement and the issue-time raise only
	if cf := c.field("countdown-ownership", "mem/dram", "bankState", "CyclesToCmdAvailable"); cf != nil {
		n := 0
		for _, fn := range p.SrcFuncs(func(pp string) bool { return pp == pkgPath("mem/dram") }) {
			for _, b := range fn.Blocks {
				for _, in := range b.Instrs {
					st, ok := in.(*ssa.Store)
					if !ok {
						continue
					}
					through := false
					for a, d := st.Addr, 0; a != nil && d < 6; d++ {
						if fo := FieldOf(a); fo != nil && sameObj(fo, cf) {
							through = true
						}
						switch y := a.(type) {
						case *ssa.IndexAddr:
							a = y.X
						case *ssa.FieldAddr:
							a = y.X
						default:
							a = nil
						}
					}
					if !through {
						continue
					}
					if _, fresh := memRoot(st.Addr).(*ssa.Alloc); fresh {
						continue // a bank state under construction
					}
					n++
					ok2 := fn.Name() == "tickBank" || fn.Name() == "updateAllBankTiming"
					c.Check(ok2, "countdown-ownership", SSAFuncKey(fn)+"@CyclesToCmdAvailable", st.Pos(), "countdowns are written only by the per-tick decrement and the issue-time raise",
						SSAFuncKey(fn)+" writes a bank's command countdowns: besides the same-bank gaps they hold the bus-level gaps raised by commands on other banks (write-to-read and read-to-write turnaround, rank switch); resetting or lowering them lets the next column command issue inside such a gap")
				}
			}
		}
		c.Check(n >= 2, "countdown-ownership", "instances", 0, "countdown writes found", "fewer than two writes of the countdowns found")
	}
	// countdown discipline
	if f := c.fn("countdown", "mem/dram", "", "tickBank"); f != nil {
		t := ExtractTable(p, f, TableConfig{Domain: []int{0, 1, 2}, LoopsOnce: true})
		ok := len(t.Unsupported) == 0 && len(t.Rows) > 0
		for _, r := range t.Rows {
			w := r.Atom(func(a *Atom) bool { return a.HasName("CyclesToCmdAvailable") && !a.HasLenOf() })
			st := r.Stores(func(e *Effect) bool { return e.RecvHasName("CyclesToCmdAvailable") })
			if w == nil {
				continue
			}
			if (w.I > 0) != (len(st) == 1) {
				ok = false
			}
			for _, s := range st {
				if s.Kind != "incdec" || s.Args[0] != "--" {
					ok = false
				}
			}
		}
		c.Check(ok, "countdown", "mem/dram.tickBank", p.Decl(f).Pos(), "positive countdowns decrease by one per tick, zero stays zero", "a command countdown must decrease by exactly one per tick while positive and never below zero")
	}
	if f := c.fn("countdown", "mem/dram", "", "updateAllBankTiming"); f != nil {
		t := ExtractTable(p, f, TableConfig{Domain: []int{0, 1, 2}, LoopsOnce: true, MaxRows: 40000})
		ok := len(t.Unsupported) == 0 && len(t.Rows) > 0
		saw := false
		for _, r := range t.Rows {
			cur := r.Atom(func(a *Atom) bool { return a.HasName("CyclesToCmdAvailable") && !a.HasLenOf() })
			min := r.Atom(func(a *Atom) bool { return a.HasName("MinCycleInBetween") })
			st := r.Stores(func(e *Effect) bool { return e.RecvHasName("CyclesToCmdAvailable") })
			if cur == nil || min == nil {
				continue
			}
			saw = true
			if (cur.I < min.I) != (len(st) == 1) {
				ok = false
			}
			for _, s := range st {
				if !strings.HasSuffix(s.Args[0], "MinCycleInBetween") {
					ok = false
				}
			}
		}
		c.Check(ok && saw, "countdown", "mem/dram.updateAllBankTiming", p.Decl(f).Pos(), "countdowns are raised to the new minimum, never lowered", "issuing a command must raise each affected countdown to the required separation and never lower a longer pending one")
	}
}

func returnsIdent(st ast.Stmt, name string) bool {
	rs, ok := st.(*ast.ReturnStmt)
	if !ok || len(rs.Results) != 1 {
		return false
	}
	return types.ExprString(rs.Results[0]) == name
}

// constVal returns the value of a package-level constant as text.
func constVal(p *Program, rel, name string) string {
	pk := p.Pkg(rel)
	if pk == nil {
		return "?"
	}
	if cst, ok := pk.Types.Scope().Lookup(name).(*types.Const); ok {
		return cst.Val().String()
	}
	return "?"
}

// timingReachesAllBanksRule: updateAllBankTiming hands the gaps that a command
// imposes to every bank entry and lets the per-entry classification (same bank,
// same group, same rank, other rank) pick the applicable list. The walk must
// cover the whole flat bank array: a window computed from the command's location
// is only correct if its arithmetic matches the array layout, which nothing here
// can check — a bank left out of the walk never receives tRCD/tRAS/tRC/tRP from
// its own rank's commands.
func timingReachesAllBanksRule(c *Ctx, rule string) {
	p := c.P
	f := c.fn(rule, "mem/dram", "", "updateAllBankTiming")
	if f == nil {
		return
	}
	fn := p.SSAFunc(f)
	entries := c.field(rule, "mem/dram", "bankStatesFlat", "Entries")
	if fn == nil || entries == nil {
		c.Unknown(rule, "mem/dram.updateAllBankTiming", p.Decl(f).Pos(), "anchor not found")
		return
	}
	isLenEntries := func(v ssa.Value) bool {
		call, ok := v.(*ssa.Call)
		if !ok {
			return false
		}
		bi, isB := call.Call.Value.(*ssa.Builtin)
		if !isB || bi.Name() != "len" || len(call.Call.Args) != 1 {
			return false
		}
		u, isU := call.Call.Args[0].(*ssa.UnOp)
		if !isU {
			return false
		}
		g := FieldOf(u.X)
		return g != nil && sameObj(g, entries)
	}
	var full *loopInfo
	for _, l := range loopsOf(fn) {
		ifi, ok := l.header.Instrs[len(l.header.Instrs)-1].(*ssa.If)
		if !ok {
			continue
		}
		cmp, isCmp := ifi.Cond.(*ssa.BinOp)
		if !isCmp || cmp.Op != token.LSS || !isLenEntries(cmp.Y) {
			continue
		}
		// the index starts at the first element
		idx := cmp.X
		if bo, isBO := idx.(*ssa.BinOp); isBO && bo.Op == token.ADD && constIs(bo.Y, "1") {
			idx = bo.X // range form: hidden counter starts at -1
		}
		ph, isPhi := idx.(*ssa.Phi)
		if !isPhi {
			continue
		}
		fromStart := false
		for _, e := range ph.Edges {
			if constIs(e, "0") || constIs(e, "-1") {
				fromStart = true
			}
		}
		if fromStart {
			full = l
		}
	}
	why := ""
	if full == nil {
		why = "updateAllBankTiming has no loop that runs from the first entry to len(BankStates.Entries): the walk over the banks is windowed, so banks outside the window never receive the timing gaps the command imposes on them"
	} else {
		for _, b := range fn.Blocks {
			for _, in := range b.Instrs {
				if ia, ok := in.(*ssa.IndexAddr); ok {
					if u, isU := ia.X.(*ssa.UnOp); isU {
						if g := FieldOf(u.X); g != nil && sameObj(g, entries) && !full.blocks[b] {
							why = "a bank entry is addressed outside the loop over all entries (" + p.Rel(in.Pos()) + ")"
						}
					}
				}
			}
		}
	}
	c.Check(why == "", rule, "mem/dram.updateAllBankTiming", p.Decl(f).Pos(), "every bank entry is visited; the per-entry classification selects the applicable gaps", why)
}

// geometryCompleteRule: the backing storage the builder creates must cover the
// address space that the address mapping decodes. Every geometry dimension
// (Spec.Num*) that buildAddressMapping turns into address bits must take part in
// the capacity computed by resolveStorage; a dimension left out makes the storage
// smaller than the decoded space, and an in-geometry access panics in the respond
// stage ("beyond the storage capacity").
func geometryCompleteRule(c *Ctx, rule string) {
	p := c.P
	mapFn := c.fn(rule, "mem/dram", "Builder", "buildAddressMapping")
	stFn := c.fn(rule, "mem/dram", "Builder", "resolveStorage")
	if mapFn == nil || stFn == nil {
		return
	}
	dims := func(f *types.Func) map[string]bool {
		out := map[string]bool{}
		fn := p.SSAFunc(f)
		if fn == nil {
			return out
		}
		seen := map[*ssa.Function]bool{}
		var scan func(g0 *ssa.Function, depth int)
		scan = func(g0 *ssa.Function, depth int) {
			if g0 == nil || seen[g0] || len(g0.Blocks) == 0 {
				return
			}
			seen[g0] = true
			for _, b := range g0.Blocks {
				for _, in := range b.Instrs {
					if v, ok := in.(ssa.Value); ok {
						if g := FieldOf(v); g != nil && strings.HasPrefix(g.Name(), "Num") && g.Pkg() != nil && strings.HasSuffix(g.Pkg().Path(), "/mem/dram") {
							out[g.Name()] = true
						}
					}
					if call, ok := in.(ssa.CallInstruction); ok && depth > 0 {
						if sc := call.Common().StaticCallee(); sc != nil && sc.Pkg == fn.Pkg {
							scan(sc, depth-1)
						}
					}
				}
			}
		}
		scan(fn, 2)
		return out
	}
	decoded, sized := dims(mapFn), dims(stFn)
	var missing []string
	for d := range decoded {
		if !sized[d] {
			missing = append(missing, d)
		}
	}
	sort.Strings(missing)
	c.Check(len(decoded) >= 5 && len(missing) == 0, rule, "mem/dram.Builder.resolveStorage", p.Decl(stFn).Pos(), "every decoded geometry dimension takes part in the storage capacity",
		"the storage capacity computed by resolveStorage does not involve "+strings.Join(missing, ", ")+", which buildAddressMapping decodes into address bits: the self-built storage is smaller than the address space of the geometry, and an access to an in-geometry address beyond it panics in the respond stage instead of completing")
}
