package main

// JSON losslessness walker (analysis A6 of DESIGN.md): encoding/json's view of a
// type — exported/unexported fields, embedded-struct promotion, tags, custom
// marshalers — and whether every value reachable from it is carried both ways.

import (
	"fmt"
	"go/types"
	"reflect"
	"sort"
	"strings"
)

// LossProblem is one way a type loses or alters data through JSON.
type LossProblem struct {
	Path string // field path from the root type
	Site string // declaring type and field: stable across the roots that reach it
	What string
}

type losslessWalker struct {
	seen     map[string]bool
	problems []LossProblem
	types    int
	fields   int
	owner    string // named type whose fields are being walked
	field    string // field of owner being walked
}

func jsonTag(tag string) (name string, opts []string, dash bool) {
	st := reflect.StructTag(tag)
	v, ok := st.Lookup("json")
	if !ok {
		return "", nil, false
	}
	if v == "-" {
		return "", nil, true
	}
	parts := strings.Split(v, ",")
	return parts[0], parts[1:], false
}

func hasMethod(t types.Type, name string) bool {
	for _, tt := range []types.Type{t, types.NewPointer(t)} {
		ms := types.NewMethodSet(tt)
		for i := 0; i < ms.Len(); i++ {
			if ms.At(i).Obj().Name() == name {
				return true
			}
		}
	}
	return false
}

func valueHasMethod(t types.Type, name string) bool {
	ms := types.NewMethodSet(t)
	for i := 0; i < ms.Len(); i++ {
		if ms.At(i).Obj().Name() == name {
			return true
		}
	}
	return false
}

func (w *losslessWalker) add(path, what string) {
	site := w.owner
	if w.field != "" {
		site += "." + w.field
	}
	if site == "" {
		site = path
	}
	w.problems = append(w.problems, LossProblem{path, site, what})
}

func (w *losslessWalker) walk(t types.Type, path string) {
	switch x := t.(type) {
	case *types.Alias:
		w.walk(types.Unalias(x), path)
		return
	case *types.Named:
		key := types.TypeString(x, nil)
		marsh, unmarsh := valueHasMethod(x, "MarshalJSON") || hasMethod(x, "MarshalJSON"), hasMethod(x, "UnmarshalJSON")
		tmarsh, tunmarsh := hasMethod(x, "MarshalText"), hasMethod(x, "UnmarshalText")
		if marsh || unmarsh {
			if marsh != unmarsh {
				w.add(path, fmt.Sprintf("type %s customises only one of MarshalJSON/UnmarshalJSON", key))
			}
			if marsh && !valueHasMethod(x, "MarshalJSON") {
				w.add(path, fmt.Sprintf("type %s has MarshalJSON on the pointer receiver only: a value embedded in a struct that is marshalled by value is encoded with the default encoder instead", key))
			}
			// the pair's own field symmetry is checked by the marshaler rule;
			// the element types it carries are still walked
			if ta := x.TypeArgs(); ta != nil {
				for i := 0; i < ta.Len(); i++ {
					w.walk(ta.At(i), path+"<"+fmt.Sprint(i)+">")
				}
			}
			return
		}
		if tmarsh && tunmarsh {
			return
		}
		if w.seen[key] {
			return
		}
		w.seen[key] = true
		w.types++
		so, sf := w.owner, w.field
		w.owner, w.field = typeShort(x.Origin()), ""
		w.walk(x.Underlying(), path)
		w.owner, w.field = so, sf
		return
	case *types.Basic:
		switch {
		case x.Info()&(types.IsBoolean|types.IsInteger|types.IsString) != 0:
		case x.Info()&types.IsFloat != 0:
		case x.Info()&types.IsComplex != 0:
			w.add(path, "complex numbers are not supported by encoding/json")
		case x.Kind() == types.UnsafePointer:
			w.add(path, "unsafe.Pointer cannot be serialised")
		}
		return
	case *types.Pointer:
		w.walk(x.Elem(), path+"*")
		return
	case *types.Slice:
		w.walk(x.Elem(), path+"[]")
		return
	case *types.Array:
		w.walk(x.Elem(), path+"[]")
		return
	case *types.Map:
		kb, ok := x.Key().Underlying().(*types.Basic)
		if !ok || kb.Info()&(types.IsInteger|types.IsString) == 0 {
			if !(hasMethod(x.Key(), "MarshalText") && hasMethod(x.Key(), "UnmarshalText")) {
				w.add(path, "map key type "+x.Key().String()+" is not a string or integer")
			}
		}
		w.walk(x.Elem(), path+"[value]")
		return
	case *types.Interface:
		w.add(path, "interface-typed value: the concrete type is not recorded, so it decodes to generic maps/float64 or fails")
		return
	case *types.Chan:
		w.add(path, "channels cannot be serialised")
		return
	case *types.Signature:
		w.add(path, "functions cannot be serialised")
		return
	case *types.TypeParam:
		return
	case *types.Struct:
		w.walkStruct(x, path)
		return
	}
}

func (w *losslessWalker) walkStruct(st *types.Struct, path string) {
	names := map[string]int{}
	for i := 0; i < st.NumFields(); i++ {
		f := st.Field(i)
		w.fields++
		w.field = f.Name()
		name, opts, dash := jsonTag(st.Tag(i))
		fpath := path + "." + f.Name()
		if dash {
			if isObserverOnly(f.Type()) {
				continue // hook lists, mutexes: not simulation data
			}
			w.add(fpath, "field tagged json:\"-\" is dropped from the checkpoint")
			continue
		}
		if f.Embedded() {
			// promoted fields of an embedded struct are serialised when exported
			et := f.Type()
			if pt, ok := et.(*types.Pointer); ok {
				et = pt.Elem()
			}
			if _, isStruct := et.Underlying().(*types.Struct); isStruct && name == "" {
				if isObserverOnly(f.Type()) {
					continue
				}
				w.walk(f.Type(), fpath)
				continue
			}
		}
		if !f.Exported() {
			if isObserverOnly(f.Type()) {
				continue
			}
			w.add(fpath, "unexported field is not serialised by encoding/json and the type has no custom marshaler")
			continue
		}
		if name == "" {
			name = f.Name()
		}
		names[name]++
		for _, o := range opts {
			if o == "omitempty" {
				switch f.Type().Underlying().(type) {
				case *types.Slice, *types.Map:
					w.add(fpath, "omitempty on a slice/map: an empty non-nil value is omitted and comes back nil")
				case *types.Pointer, *types.Interface:
					// nil omitted -> nil: lossless
				}
			}
		}
		w.walk(f.Type(), fpath)
	}
	w.field = ""
	for n, c := range names {
		if c > 1 {
			w.add(path, "two fields share the JSON name "+n+": encoding/json drops both")
		}
	}
}

// isObserverOnly recognises types that hold no simulation data (locks, hook
// lists).
func isObserverOnly(t types.Type) bool {
	s := types.TypeString(t, nil)
	switch {
	case strings.HasPrefix(s, "sync."), strings.HasPrefix(s, "*sync."):
		return true
	case strings.HasSuffix(s, "hooking.HookableBase"):
		return true
	}
	return false
}

// CheckLossless walks a type.
func CheckLossless(t types.Type) (problems []LossProblem, types_, fields int) {
	w := &losslessWalker{seen: map[string]bool{}}
	w.walk(t, typeShort(t))
	sort.Slice(w.problems, func(i, j int) bool { return w.problems[i].Path < w.problems[j].Path })
	return w.problems, w.types, w.fields
}

func typeShort(t types.Type) string {
	return types.TypeString(t, func(p *types.Package) string {
		return strings.TrimPrefix(p.Path(), ModPath+"/")
	})
}
