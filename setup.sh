#!/bin/bash
# Builds the checker offline from /verif/checker with the pre-installed go1.26.8
# and golang.org/x/tools v0.50.0 from the module cache.
set -e
cd "$(dirname "$0")/checker"
export GOFLAGS=-mod=mod GOPROXY=off GOSUMDB=off GOTOOLCHAIN=local GOWORK=off
mkdir -p ../bin ../evidence
go1.26.8 build -o ../bin/akitacheck .
