#!/bin/bash
# usage: benignone.sh /tmp/wt/C16-benign/_benign/patch1.diff -- run EVERY property's check on one behaviour-preserving refactoring
f=$1; P=$(echo $f | sed 's|.*/\(C[0-9]*\)-benign/.*|\1|')
[ -s "$f" ] || exit 0
(cd /repo && git apply --check $f 2>/dev/null) || { echo "$P $(basename $f): does not apply to HEAD"; exit 0; }
out=$(/verif/bin/akitacheck -p all -patch $f -no-evidence 2>&1)
v=$(echo "$out" | grep "^VIOLATION" | sort -u | tr '\n' ' ')
nok=$(echo "$out" | grep -c "^OK property")
if [ -n "$v" ] || [ "$nok" -ne 42 ]; then
  echo "ALARM $P $(basename $f): $v (ok=$nok)"; echo "$out" | grep "VIOLATED\|UNDECIDED\|load failure" | cut -c1-300 | head -5
else
  echo "silent $P $(basename $f)"
fi
