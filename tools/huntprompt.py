#!/usr/bin/env python3
# usage: huntprompt.py C16 -> prompt for a sub-agent that looks for a GENUINE violation of the property in the unmodified tree
import json,sys,subprocess,os
pid=sys.argv[1]
p=[json.loads(l) for l in open('/verif/properties.jsonl') if json.loads(l)['id']==pid][0]
wt=f"/tmp/wt/{pid}-hunt"
if not os.path.exists(wt):
    subprocess.run(["git","-C","/repo","worktree","add","--detach",wt,"HEAD"],check=True,capture_output=True)
kf=json.load(open('/verif/known_findings.json'))
known=[x for x in kf['fixed'] if f'property={pid} ' in x]+[f"(open, already known) {x.get('construct','')}: {x.get('what','')[:200]}" for x in kf.get('findings',[]) if x.get('property')==pid]
print(f"""You are auditing the Go project sarchlab/akita (a discrete-event simulation engine for computer-architecture simulators) for GENUINE defects. Work ONLY inside your private git worktree {wt} (a checkout of the current HEAD). Never touch /repo or /verif and do not read anything under /verif. Do NOT modify any non-test source file: your job is to find out whether the code AS IT IS violates the property below, and to prove it with a test.

PROPERTY {pid}: {p['title']}
Statement: {p['statement']}
Quantified over: {p['quantifier']['text']}
Relevant files: {', '.join(p['anchors']['files'])}

Already known (do not report these again; look elsewhere): {(' | '.join(known)) if known else 'nothing recorded for this property yet'}

Method: read the relevant code carefully, think about unusual-but-legal inputs, configurations, interleavings of ticks/messages/control commands, back-pressure on ports, checkpoint/reset at awkward moments, sibling components that handle the same situation differently, aliasing of slices, stale cached state, arithmetic edges. When you have a concrete suspicion, write a Go test (new *_probe_test.go file in the appropriate package, standard library + packages already in go.mod only) that drives the REAL code into the situation and asserts the property; the test must FAIL on the unmodified code because the property is violated (not because the test is wrong). Environment for every shell call: `export GOFLAGS=-mod=mod GOPROXY=off GOSUMDB=off GOTOOLCHAIN=local PATH=/root/go/pkg/mod/golang.org/toolchain@v0.0.1-go1.26.2.linux-amd64/bin:$PATH`, run go from inside the worktree. There is no network. Some test packages do not compile at baseline (missing generated mocks: tracing, noc/directconnection, noc/networking/switching/*): put a probe for those in a neighbouring package that compiles, as an external test.

Be rigorous: a behaviour that the documentation or comments explicitly define as intended is not a defect unless it contradicts the property statement above as written; say which it is. Prefer one solid, well-demonstrated finding over several vague ones, but report up to three distinct findings if you have them. If after a thorough look you find no violation, say so plainly — that is a useful result.

Deliverables under {wt}/_hunt/ (create it): for each finding N: probeN/<relative path>/<name>_probe_test.go (copy of the failing test), and report.json : {{"property": "{pid}", "findings": [{{"title": "...", "where": "file:function", "history": "the concrete input/sequence that violates the property", "why": "why this contradicts the statement", "probe_cmd": "go test -run <Name> ./<pkg>/", "probe_output": "the relevant failing output", "suggested_fix": "the smallest change that would repair it", "intended_by_docs": false}}]}} (empty list if nothing found).
Finish by replying with a short summary of each finding (or that none was found). Leave the probe tests in place in the worktree.""")
