#!/usr/bin/env python3
# Regenerates the generated tables of DESIGN.md section 9 (rules per property from evidence/*.json,
# seeds and the rule that reports each by running the checker on every seeded patch).
import json,glob,subprocess,re,os
rows=[]
for f in sorted(glob.glob('/verif/evidence/C*.json')):
    d=json.load(open(f)); cov=d['coverage']; rules=cov.get('rules',{})
    rs=", ".join(f"{k} ({v['instances']})" for k,v in sorted(rules.items()))
    rows.append(f"| {d['property_id']} | {cov.get('discharged')} | {rs} |")
rules_tbl="| property | obligations | rules (instances) |\n|---|---|---|\n"+"\n".join(rows)
seed=[]
for d in sorted(glob.glob('/verif/seeded/*/')):
    i=os.path.basename(d.rstrip('/')); P=i.split('-')[0]
    m=json.load(open(d+'meta.json'))
    out=subprocess.run(['/verif/bin/akitacheck','-p',P,'-patch',d+'patch.diff','-no-evidence'],capture_output=True,text=True)
    txt=out.stdout+out.stderr
    r=sorted(set(re.findall(r'(?:VIOLATED|UNDECIDED) \[([A-Za-z0-9-]+)\]',txt)))
    rep=", ".join(r) if r else "**not reported**"
    seed.append(f"| {i} | {', '.join(m.get('files_changed',[]))} | {rep} |")
seed_tbl="| seed | file changed | reported by |\n|---|---|---|\n"+"\n".join(seed)
s=open('/verif/DESIGN.md').read()
def sub(s,tag,body):
    a=f"<!-- {tag}-BEGIN -->"; b=f"<!-- {tag}-END -->"
    i=s.index(a)+len(a); j=s.index(b)
    return s[:i]+"\n"+body+"\n"+s[j:]
s=sub(s,'RULES-TABLE',rules_tbl)
s=sub(s,'SEEDS-TABLE',seed_tbl)
open('/verif/DESIGN.md','w').write(s)
print(len(rows),'properties;',len(seed),'seeds;', sum('not reported' in x for x in seed),'not reported')
