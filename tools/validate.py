import json,jsonschema,sys,glob
m=json.load(open('/verif/MANIFEST.json'))
jsonschema.validate(m,json.load(open('/root/.vp/MANIFEST.schema.json')))
print("manifest ok", len(m['checks']), "checks;", len(m['not_applicable']), "n/a")
s=json.load(open('/root/.vp/EVIDENCE.schema.json'))
for c in m['checks']:
    try:
        e=json.load(open('/verif/'+c['evidence_file']))
        jsonschema.validate(e,s)
    except Exception as ex:
        print(c['property_id'],'EVIDENCE PROBLEM',str(ex)[:200])
