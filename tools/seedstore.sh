#!/bin/bash
# usage: seedstore.sh C01-a  -- copy a verified seeded change into /verif/seeded/<id>/ and remove its worktree
id=$1; wt=/tmp/wt/$id; dst=/verif/seeded/$id
mkdir -p $dst
cp $wt/_seed/patch.diff $dst/patch.diff
rm -rf $dst/demo; cp -r $wt/_seed/demo $dst/demo
python3 - <<PY
import json
m=json.load(open('$wt/_seed/meta.json'))
m['id']='$id'
m['verified_by_me']={'demo_with_change': open('/tmp/wt/$id.demo1.log').read()[-600:], 'suite': open('/tmp/wt/$id.suite.txt').read(),
  'what_i_ran': 'tools/seedcheck.sh $id: applied patch.diff to a scratch worktree of /repo HEAD, go build ./..., ran demo_cmd (fails), reverted the patch and ran it again (passes), re-applied and ran the whole baseline suite (go test ./...) against the 539 stable tests'}
json.dump(m,open('$dst/meta.json','w'),indent=1)
PY
git -C /repo worktree remove --force $wt && rm -f /tmp/wt/$id.* /tmp/wt/prompt-$id.txt
echo stored $dst
