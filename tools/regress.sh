#!/bin/bash
# usage: regress.sh  -- every stored seed and mutant must be reported by its property's check; every benign patch must be silent
cd /verif
fail=0
run(){ # kind prop patch expect
  out=$(bin/akitacheck -p $2 -patch $3 -no-evidence 2>&1); n=$(echo "$out" | grep -c "^VIOLATION")
  if [ "$4" = report ] && [ $n -eq 0 ]; then echo "MISSED $1 $3"; fail=1; fi
  if [ "$4" = silent ] && { [ $n -ne 0 ] || ! echo "$out" | grep -q "^OK property"; }; then echo "FALSE-ALARM $1 $3"; fail=1; fi
}
export -f run
( for d in seeded/*/; do id=$(basename $d); echo "seed ${id%%-*} $d/patch.diff report"; done
  for f in mutants/*/*.patch; do echo "mutant $(basename $(dirname $f)) $f report"; done
  for f in benign/*/*.patch; do echo "benign $(basename $(dirname $f)) $f silent"; done ) | xargs -P 10 -L 1 bash -c 'run $0 $1 $2 $3'
echo "regress done"
