#!/usr/bin/env python3
# usage: seedprompt.py C07 [variant-hint]  -> prints the prompt for a fresh mutant-writing sub-agent and creates its worktree
import json,sys,subprocess,os
pid=sys.argv[1]; tag=sys.argv[2] if len(sys.argv)>2 else "a"
hint=sys.argv[3] if len(sys.argv)>3 else ""
p=[json.loads(l) for l in open('/verif/properties.jsonl') if json.loads(l)['id']==pid][0]
wt=f"/tmp/wt/{pid}-{tag}"
if not os.path.exists(wt):
    subprocess.run(["git","-C","/repo","worktree","add","--detach",wt,"HEAD"],check=True,capture_output=True)
print(f"""You are helping test a verification framework for the Go project sarchlab/akita (a discrete-event simulation engine for computer-architecture simulators). Your job: write ONE realistic, subtle code change to akita that BREAKS the property stated below, while the project still compiles and its existing test suite still passes, and write a demonstration that exposes the breakage.

Work ONLY inside your private git worktree of the repository: {wt} (it is a checkout of the current HEAD). Never touch /repo or /verif and do not read anything under /verif.

PROPERTY {pid}: {p['title']}
Statement: {p['statement']}
Quantified over: {p['quantifier']['text']}
Why the existing tests cannot settle it: {p['why_tests_cant']}
Relevant files: {', '.join(p['anchors']['files'])}

Requirements for the change:
- It must be a plausible maintenance mistake or misguided "optimisation"/"cleanup" in the akita source (non-test .go files), small (ideally 1-15 changed lines, possibly in two cooperating places that each look fine alone).
- It must need something SPECIFIC to manifest: a particular interleaving, a multi-step sequence of operations, an unusual-but-legal input or configuration, a crash/fault at a particular point, or two cooperating sites. Do NOT make a change that ordinary use exposes at once or that any existing test catches.
- The repo must still build (`go build ./...`) and the existing tests of the packages you touched, and of packages that depend on them, must still pass. Environment for every shell call: `export GOFLAGS=-mod=mod GOPROXY=off GOSUMDB=off GOTOOLCHAIN=local PATH=/root/go/pkg/mod/golang.org/toolchain@v0.0.1-go1.26.2.linux-amd64/bin:$PATH` (the default go on PATH is too old and cannot download a toolchain) and run go from inside the worktree (cd {wt}). There is no network. Some test packages do not compile even without your change (missing generated mocks: e.g. tracing, noc/directconnection, noc/networking/switching/*): ignore those; compare against the unmodified behaviour by reverse-applying your diff if unsure (NEVER use `git stash`: the stash is shared between all worktrees of this repository and other agents are working in sibling worktrees; use `git diff > /tmp/<unique>.diff; git apply -R /tmp/<unique>.diff; ...; git apply /tmp/<unique>.diff`).
- {('Hint on which aspect to attack: ' + hint) if hint else 'Pick whichever clause of the statement you find most interesting to break; prefer one that is anchored in the listed files.'}

Demonstration: a Go test file (new *_test.go file placed in the appropriate package directory inside the worktree, using only the standard library and packages already in go.mod, e.g. testing) that FAILS with your change and PASSES without it (verify both: run it, then reverse-apply the source change with `git apply -R` — keeping the test file — run again, then re-apply it; do not use git stash). Keep it self-contained and fast (<30 s).

Deliverables, all under {wt}/_seed/ (create the directory):
- patch.diff : `git diff` of the source change ONLY (not the demo test), relative to the worktree root, produced with `git diff -- . ':(exclude)_seed' ':(exclude)**/*_demo_test.go'` or equivalent. Name your demo test file with the suffix _demo_test.go so it is easy to exclude.
- demo/<same relative path as in the repo>/<name>_demo_test.go : a copy of the demonstration test.
- meta.json : {{"property": "{pid}", "summary": "...what the change does...", "needs": "...what specific condition makes it manifest...", "demo_cmd": "go test -run <TestName> ./<pkg>/", "files_changed": [...], "tests_run": "...which existing test packages you ran and that they pass..."}}

Finish by replying with a short summary: what you changed, why it breaks the property, what it needs to manifest, and confirmation that (a) go build ./... passes, (b) existing tests of affected packages pass with the change, (c) the demo fails with the change and passes without it. Leave the worktree with your change and demo test applied.""")
