#!/usr/bin/env python3
# usage: mkpatch.py PROP kind(benign|mutants) name file  <<< 'python code transforming variable s'
# Builds a patch of /repo/<file> from the transformation, stores it under /verif/<kind>/<PROP>/<name>.patch and runs the check on it.
import sys,subprocess,os,tempfile,shutil
prop,kind,name,f=sys.argv[1:5]
code=sys.stdin.read()
s=open('/repo/'+f).read()
g={'s':s}
exec(code,g)
t=g['s']
if t==s:
    print("NO CHANGE"); sys.exit(9)
d=tempfile.mkdtemp(prefix='mkp.')
os.makedirs(f'{d}/a/'+os.path.dirname(f),exist_ok=True); os.makedirs(f'{d}/b/'+os.path.dirname(f),exist_ok=True)
open(f'{d}/a/{f}','w').write(s); open(f'{d}/b/{f}','w').write(t)
p=subprocess.run(['diff','-u',f'a/{f}',f'b/{f}'],cwd=d,capture_output=True,text=True).stdout
os.makedirs(f'/verif/{kind}/{prop}',exist_ok=True)
dst=f'/verif/{kind}/{prop}/{name}.patch'
open(dst,'w').write(p)
shutil.rmtree(d)
r=subprocess.run(['/verif/bin/akitacheck','-p',prop,'-patch',dst,'-no-evidence'],capture_output=True,text=True)
out=(r.stdout+r.stderr).splitlines()
show=[l[:300] for l in out if ('VIOLATED' in l or 'UNDECIDED' in l or l.startswith('OK') or 'load failure' in l)]
print(f"{prop}/{name}:", "\n   ".join(show[:3]))
