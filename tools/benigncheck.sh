#!/bin/bash
# usage: benigncheck.sh C16  -- run EVERY property's check on each refactoring a sub-agent left in /tmp/wt/<P>-benign/_benign/
P=$1; d=/tmp/wt/$P-benign/_benign
for f in $d/patch*.diff; do
  [ -s "$f" ] || continue
  (cd /repo && git apply --check $f 2>/dev/null) || { echo "$P $(basename $f): does not apply to HEAD"; continue; }
  out=$(/verif/bin/akitacheck -p all -patch $f -no-evidence 2>&1)
  v=$(echo "$out" | grep "^VIOLATION" | sort -u | tr '\n' ' ')
  nok=$(echo "$out" | grep -c "^OK property")
  if [ -n "$v" ] || [ "$nok" -ne 42 ]; then
    echo "ALARM $P $(basename $f): $v (ok=$nok)"; echo "$out" | grep "VIOLATED\|UNDECIDED\|load failure" | cut -c1-300 | head -5
  else
    echo "silent $P $(basename $f)"
  fi
done
