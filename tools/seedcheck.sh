#!/bin/bash
# usage: seedcheck.sh C01-a   -- independently verify a seeded change in /tmp/wt/<id> and report whether our check catches it
id=$1; wt=/tmp/wt/$id; prop=${id%%-*}
export GOFLAGS=-mod=mod GOPROXY=off GOSUMDB=off GOTOOLCHAIN=local
export PATH=/root/go/pkg/mod/golang.org/toolchain@v0.0.1-go1.26.2.linux-amd64/bin:$PATH
cd $wt || exit 2
[ -f _seed/patch.diff ] || { echo "no patch"; exit 2; }
demo_cmd=$(python3 -c "import json;print(json.load(open('_seed/meta.json'))['demo_cmd'])")
echo "== demo_cmd: $demo_cmd"
# normalise: source tree = HEAD + patch; demo test present
git checkout -q -- . 2>/dev/null
git apply _seed/patch.diff || { echo "PATCH DOES NOT APPLY"; exit 2; }
(cd _seed/demo && find . -name '*_test.go' | while read f; do mkdir -p $wt/$(dirname $f); cp $f $wt/$f; done)
go build ./... || { echo "BUILD FAILS"; exit 2; }
echo "== demo with change (expect FAIL)"
if eval "$demo_cmd" > /tmp/wt/$id.demo1.log 2>&1; then echo "DEMO PASSES WITH CHANGE (bad)"; with=pass; else echo "demo fails with change (good)"; with=fail; fi
tail -5 /tmp/wt/$id.demo1.log | cut -c1-300
git apply -R _seed/patch.diff
echo "== demo without change (expect PASS)"
if eval "$demo_cmd" > /tmp/wt/$id.demo2.log 2>&1; then echo "demo passes without change (good)"; without=pass; else echo "DEMO FAILS WITHOUT CHANGE (bad)"; without=fail; tail -5 /tmp/wt/$id.demo2.log; fi
git apply _seed/patch.diff
# existing suite with the change, demo removed
(cd _seed/demo && find . -name '*_test.go' | while read f; do rm -f $wt/$f; done)
echo "== existing suite with change"
go test -json -vet=off -count=1 -timeout 20m ./... > /tmp/wt/$id.suite.json 2>/dev/null
python3 - <<PY
import json
base=set(json.load(open('/root/.vp/BASELINE.json'))['stable_pass'])
res={}
for l in open('/tmp/wt/$id.suite.json'):
    try: e=json.loads(l)
    except: continue
    if e.get('Test') and e.get('Action') in('pass','fail','skip'): res[e['Package']+'::'+e['Test']]=e['Action']
bad=[t for t in base if res.get(t)!='pass']
print("suite: %d/%d stable tests pass"%(len(base)-len(bad),len(base)), bad[:5])
open('/tmp/wt/$id.suite.txt','w').write("%d/%d stable baseline tests pass with the change; failing: %s"%(len(base)-len(bad),len(base),bad[:10]))
PY
rm -f /tmp/wt/$id.suite.json
(cd _seed/demo && find . -name '*_test.go' | while read f; do cp $f $wt/$f; done)
echo "== checker on the change (property $prop)"
/verif/bin/akitacheck -p $prop -patch $wt/_seed/patch.diff -no-evidence 2>&1 | cut -c1-600 | tail -6
echo "demo: with=$with without=$without"
