#!/bin/bash
# usage: seedprompt_d.sh C19 [tag]  -- prompt for a further round, hint built from the stored seeds' summaries
P=$1; T=${2:-d}
python3 - $P $T <<'PY'
import json,sys,subprocess,glob,os
P,T=sys.argv[1],sys.argv[2]
parts=[]
for d in sorted(glob.glob(f'/verif/seeded/{P}-*/')):
    t=os.path.basename(d.rstrip('/')).split('-')[1]
    m=json.load(open(d+'meta.json'))
    parts.append(f"({t}) "+m['summary'][:260].replace('\n',' '))
hint="Earlier attempts exist; do something DIFFERENT from all of them — another clause of the statement, another site, another component or another mechanism (aliasing, arithmetic edge, ordering, stale state, a rarely-taken branch). Earlier attempts: "+" ".join(parts)
out=subprocess.run(['python3','/verif/tools/seedprompt.py',P,T,hint],capture_output=True,text=True).stdout
open(f'/tmp/wt/prompt-{P}-{T}.txt','w').write(out)
print(P,len(out))
PY
