#!/bin/bash
# usage: mutate.sh PROP file 'sed-expr' [more 'file' 'sed-expr' pairs]  -- analyse an in-memory mutant
# Builds a unified diff of the sed edit against /repo and runs the checker with -patch.
set -u
prop=$1; shift
tmp=$(mktemp -d /tmp/mut.XXXXXX)
patch=$tmp/m.patch
: > $patch
while [ $# -ge 2 ]; do
  f=$1; expr=$2; shift 2
  mkdir -p $tmp/a/$(dirname $f) $tmp/b/$(dirname $f)
  cp /repo/$f $tmp/a/$f
  sed -E "$expr" /repo/$f > $tmp/b/$f
  if cmp -s $tmp/a/$f $tmp/b/$f; then echo "MUTATION DID NOT CHANGE $f"; rm -rf $tmp; exit 9; fi
  (cd $tmp && diff -u a/$f b/$f >> $patch)
done
if [ "${KEEP_PATCH:-}" != "" ]; then cp $patch $KEEP_PATCH; fi
/verif/bin/akitacheck -p $prop -patch $patch -no-evidence 2>&1 | cut -c1-${WIDTH:-400}
rc=${PIPESTATUS[0]}
rm -rf $tmp
exit $rc
