#!/usr/bin/env python3
# usage: benignprompt.py C16 -> prompt for a sub-agent that writes behaviour-preserving refactorings of the code a property rests on
import json,sys,subprocess,os
pid=sys.argv[1]
p=[json.loads(l) for l in open('/verif/properties.jsonl') if json.loads(l)['id']==pid][0]
wt=f"/tmp/wt/{pid}-benign"
if not os.path.exists(wt):
    subprocess.run(["git","-C","/repo","worktree","add","--detach",wt,"HEAD"],check=True,capture_output=True)
print(f"""You are helping test a static-analysis checker for the Go project sarchlab/akita (a discrete-event simulation engine for computer-architecture simulators). The checker must stay SILENT on code changes that do not change behaviour. Your job: write FOUR independent, purely behaviour-preserving refactorings of akita source code, of the kind a maintainer makes while tidying up. Work ONLY inside your private git worktree {wt} (a checkout of the current HEAD). Never touch /repo or /verif and do not read anything under /verif.

The refactorings should touch the code that the following property rests on (so that they exercise the checker where it looks):

PROPERTY {pid}: {p['title']}
Statement: {p['statement']}
Relevant files: {', '.join(p['anchors']['files'])}

Rules:
- Each refactoring must leave the observable behaviour of the code EXACTLY the same for every input (same results, same order of side effects that matter, same messages sent, same state stored, same panics/errors). Typical forms: extract a block into a helper function or method; inline a small helper; rename locals/parameters/unexported functions or fields consistently; turn an if/else chain into a switch or back; replace nested ifs by early returns (guard clauses) or back; hoist a loop-invariant expression into a local; change `for i := range xs` into an index loop or back; split a compound condition into two nested ifs or merge them; reorder two statements that are provably independent; replace `x = x + 1` by `x++`; introduce a named constant; move a declaration closer to its use; change a value receiver helper into a free function. Do NOT change algorithms, data structures, exported API, struct layouts that are serialized (json tags), ordering of message sends, or anything timing-related. Do not add caching, fast paths or "optimisations".
- Each refactoring should be non-trivial (touch 5-40 lines) and be in non-test .go files. Prefer functions that look central to the property (the ones doing the checks, state updates, sends, loops).
- Make the four refactorings different in kind and in location.
- After EACH refactoring, `go build ./...` must pass and the existing tests of the touched package(s) must pass. Environment for every shell call: `export GOFLAGS=-mod=mod GOPROXY=off GOSUMDB=off GOTOOLCHAIN=local PATH=/root/go/pkg/mod/golang.org/toolchain@v0.0.1-go1.26.2.linux-amd64/bin:$PATH`; run go from inside the worktree; no network. Some test packages do not compile at baseline (missing generated mocks: tracing, noc/directconnection, noc/networking/switching/*): ignore those.

Procedure: make refactoring 1, verify, save it with `git diff > _benign/patch1.diff` (create the _benign directory; make sure the diff is relative to the worktree root and contains only that refactoring), then `git checkout -- .` to restore the tree, and repeat for patches 2-4 (each patch applies to the pristine HEAD on its own). NEVER use git stash. Also write _benign/notes.json : [{{"patch": "patch1.diff", "kind": "...", "files": [...], "why_behaviour_preserving": "..."}}, ...].
Finish by replying with a one-line summary per patch.""")
