package tracingtest_test

import (
	"database/sql"
	"fmt"
	"path/filepath"
	"testing"

	"github.com/sarchlab/akita/v5/datarecording"
	"github.com/sarchlab/akita/v5/timing"
	"github.com/sarchlab/akita/v5/tracing"
)

// c36Clock is a settable TimeTeller.
type c36Clock struct{ now timing.VTimeInPicoSec }

func (c *c36Clock) CurrentTime() timing.VTimeInPicoSec { return c.now }

type c36TaskRow struct {
	ID, ParentID uint64
	Kind, What   string
	Location     string
	Start, End   float64
}

type c36Segment struct{ Start, End float64 }

type c36Harness struct {
	t        *testing.T
	clock    *c36Clock
	tracer   *tracing.DBTracer
	recorder datarecording.DataRecorder
	dbFile   string
}

// newC36Harness builds a real DBTracer on top of the real SQLite DataRecorder.
func newC36Harness(t *testing.T) *c36Harness {
	t.Helper()

	base := filepath.Join(t.TempDir(), "c36")
	h := &c36Harness{t: t, clock: &c36Clock{}, dbFile: base + ".sqlite3"}
	h.recorder = datarecording.NewDataRecorder(base)
	h.tracer = tracing.NewDBTracer(h.clock, h.recorder)

	return h
}

func (h *c36Harness) at(now timing.VTimeInPicoSec) { h.clock.now = now }

func (h *c36Harness) start(id uint64) {
	h.tracer.StartTask(tracing.TaskStart{
		ID: id, ParentID: 1000 + id, Kind: "req_in", What: "ReadReq",
		Location: "Comp.req_in", Time: h.clock.now,
	})
}

func (h *c36Harness) end(id uint64) {
	h.tracer.EndTask(tracing.TaskEnd{ID: id, Time: h.clock.now})
}

func (h *c36Harness) milestone(taskID uint64) {
	h.tracer.AddMilestone(tracing.Milestone{
		ID: 5000 + taskID, TaskID: taskID, Time: h.clock.now,
		Kind: tracing.MilestoneKindQueue, What: "Comp.TopPort",
	})
}

// finish terminates the tracer, closes the recorder and reads back everything
// that was persisted.
func (h *c36Harness) finish() ([]c36TaskRow, []c36Segment) {
	h.t.Helper()

	h.tracer.Terminate()

	if err := h.recorder.Close(); err != nil {
		h.t.Fatalf("close recorder: %v", err)
	}

	db, err := sql.Open("sqlite", h.dbFile)
	if err != nil {
		h.t.Fatalf("open db: %v", err)
	}
	defer db.Close()

	var tasks []c36TaskRow

	rows, err := db.Query(`
		SELECT t.ID, t.ParentID, t.Kind, t.What, loc.Locale,
			t.StartTime, t.EndTime
		FROM trace t LEFT JOIN location loc ON t.Location = loc.ID
		ORDER BY t.rowid`)
	if err != nil {
		h.t.Fatalf("query trace: %v", err)
	}

	for rows.Next() {
		var r c36TaskRow

		var loc sql.NullString
		if err := rows.Scan(&r.ID, &r.ParentID, &r.Kind, &r.What, &loc,
			&r.Start, &r.End); err != nil {
			h.t.Fatalf("scan trace: %v", err)
		}

		r.Location = loc.String
		tasks = append(tasks, r)
	}
	rows.Close()

	var segs []c36Segment

	rows, err = db.Query(
		`SELECT StartTime, EndTime FROM "daisen$segments" ORDER BY rowid`)
	if err != nil {
		h.t.Fatalf("query segments: %v", err)
	}

	for rows.Next() {
		var s c36Segment
		if err := rows.Scan(&s.Start, &s.End); err != nil {
			h.t.Fatalf("scan segment: %v", err)
		}

		segs = append(segs, s)
	}
	rows.Close()

	return tasks, segs
}

// Finding 1a. A task that is first mentioned by a milestone (explicitly
// supported: "A task may first be mentioned by a tag or a milestone") gets a
// placeholder entry. StartTracing marks that placeholder "to record" although
// the task has not started. The task then starts and ends entirely AFTER the
// tracing window was closed, yet it is written to the trace table.
func TestC36ProbeTaskThatNeverRanWhileTracingIsRecorded(t *testing.T) {
	h := newC36Harness(t)

	h.at(5)
	h.milestone(7) // early mention of task 7; task 7 is not running yet

	h.at(10)
	h.tracer.StartTracing()
	h.at(20)
	h.tracer.StopTracing() // the only tracing window is [10,20]

	h.at(30)
	h.start(7) // tracing is OFF
	h.at(40)
	h.end(7) // tracing is OFF

	tasks, segs := h.finish()

	if len(segs) != 1 || segs[0] != (c36Segment{10, 20}) {
		t.Fatalf("segments = %v, want exactly [{10 20}]", segs)
	}

	if len(tasks) != 0 {
		t.Fatalf("task 7 ran over [30,40], entirely outside the only tracing "+
			"window [10,20], so nothing may be recorded; trace table has %+v",
			tasks)
	}
}

// Finding 1b. Same root cause, other symptom: a placeholder that was never
// started is ended (api.go documents EndTaskOnReset/EndTask on a never-started
// task as a no-op "so a caller may end every task a transaction could hold
// without tracking which were opened"). Because StartTracing marked the
// placeholder, EndTask writes a row for a task that never ran at all, with an
// empty kind/what/location and start time 0.
func TestC36ProbeNeverStartedTaskIsRecorded(t *testing.T) {
	h := newC36Harness(t)

	h.at(5)
	h.milestone(9) // task 9 is mentioned but is never started

	h.at(10)
	h.tracer.StartTracing()

	h.at(15)
	h.end(9) // e.g. a reset path ending every task it might hold

	h.at(20)
	h.tracer.StopTracing()

	tasks, _ := h.finish()

	if len(tasks) != 0 {
		t.Fatalf("task 9 was never started, so it never ran and must not be "+
			"recorded; trace table has %+v", tasks)
	}
}

// Finding 2. StopTracing while tracing is off (a second POST to the monitor's
// trace/end endpoint, or a stop without any start) inserts a segment although
// no tracing window exists. The bogus segment claims that [20,30] was captured,
// while a task that ran exactly then is (correctly) not recorded.
func TestC36ProbeStopWhileNotTracingRecordsBogusSegment(t *testing.T) {
	h := newC36Harness(t)

	h.at(10)
	h.tracer.StartTracing()
	h.at(20)
	h.tracer.StopTracing() // window 1: [10,20]

	h.at(22)
	h.start(3) // tracing is OFF
	h.at(28)
	h.end(3) // tracing is OFF: correctly not recorded

	h.at(30)
	if h.tracer.IsTracing() {
		t.Fatalf("tracer must be off here")
	}
	h.tracer.StopTracing() // no window is open

	tasks, segs := h.finish()

	if len(tasks) != 0 {
		t.Fatalf("unexpected recorded tasks %+v", tasks)
	}

	want := []c36Segment{{10, 20}}
	if fmt.Sprint(segs) != fmt.Sprint(want) {
		t.Fatalf("tracing was on only during [10,20]; segments = %v, want %v "+
			"(the extra segment says [.,30] was traced, but task 3 that ran "+
			"over [22,28] is absent from the trace table)", segs, want)
	}
}

// Finding 2 (variant). A stop without any preceding start records [0,now].
func TestC36ProbeStopWithoutStartRecordsBogusSegment(t *testing.T) {
	h := newC36Harness(t)

	h.at(50)
	h.tracer.StopTracing()

	_, segs := h.finish()

	if len(segs) != 0 {
		t.Fatalf("tracing was never on; segments = %v, want none", segs)
	}
}

// Finding 3. StartTracing while tracing is already on (a second POST to the
// monitor's trace/start endpoint, or visTracingOnStart plus a manual start)
// overwrites the start time of the open window. The window [10,100] is then
// recorded as the segment [50,100], so a task that was recorded because it ran
// (and ended) in [12,18] lies outside every recorded segment.
func TestC36ProbeRestartWhileTracingTruncatesSegment(t *testing.T) {
	h := newC36Harness(t)

	h.at(10)
	h.tracer.StartTracing()

	h.at(12)
	h.start(4)
	h.at(18)
	h.end(4) // recorded: tracing is on

	h.at(50)
	if !h.tracer.IsTracing() {
		t.Fatalf("tracer must be on here")
	}
	h.tracer.StartTracing() // already tracing

	h.at(100)
	h.tracer.StopTracing()

	tasks, segs := h.finish()

	if len(tasks) != 1 || tasks[0].ID != 4 {
		t.Fatalf("task 4 must be recorded exactly once, got %+v", tasks)
	}

	want := []c36Segment{{10, 100}}
	if fmt.Sprint(segs) != fmt.Sprint(want) {
		t.Fatalf("tracing was continuously on during [10,100]; segments = %v, "+
			"want %v (recorded task 4 [%v,%v] is outside every segment)",
			segs, want, tasks[0].Start, tasks[0].End)
	}
}
