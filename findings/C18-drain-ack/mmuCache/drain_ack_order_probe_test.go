package mmuCache

import (
	"fmt"
	"testing"

	"github.com/sarchlab/akita/v5/mem/memcontrolprotocol"
	"github.com/sarchlab/akita/v5/messaging"
	"github.com/sarchlab/akita/v5/modeling"
	"github.com/sarchlab/akita/v5/timing"
)

// Probe for mem/CONTROL_PROTOCOL.md convention 5 ("Control commands are
// processed serially ... the next command stays queued on the Control port and
// is taken only once the component settles (the async verb acks and the state
// lands in StatePaused)") together with "every request gets exactly one
// response".
//
// The history: the Control port's outgoing buffer is kept full (earlier acks
// are not retrieved by the connection — ordinary back-pressure), a Drain is
// accepted, the data path lands the mmuCache in "pause", the Drain ack cannot be
// sent yet, and a second command is already queued behind it.

type probeMMUCache struct {
	comp *Comp
	ctrl messaging.Port
}

func buildProbeTLB(ctrlBufSize int) probeMMUCache {
	engine := timing.NewSerialEngine()
	reg := modeling.NewStandaloneRegistrar(engine)
	spec := DefaultSpec()
	spec.NumBlocks = 1
	spec.NumLevels = 5
	spec.PageSize = 4096
	spec.Log2PageSize = 12
	spec.NumReqPerCycle = 4
	spec.LatencyPerLevel = 100

	comp := MakeBuilder().
		WithRegistrar(reg).
		WithSpec(spec).
		Build("MMUCache")

	assignPort(reg, comp, "Top", 16)
	assignPort(reg, comp, "Bottom", 16)
	assignPort(reg, comp, "Control", ctrlBufSize)

	for _, name := range []string{"Top", "Bottom", "Control"} {
		(&noopConn{}).PlugIn(comp.GetPortByName(name))
	}

	return probeMMUCache{comp: comp, ctrl: comp.GetPortByName("Control")}
}

func (p probeMMUCache) req(cmd memcontrolprotocol.Command) memcontrolprotocol.Req {
	r := memcontrolprotocol.Req{Command: cmd}
	r.ID = timing.GetIDGenerator().Generate()
	r.Src = messaging.RemotePort("Ctrl")
	r.Dst = p.ctrl.AsRemote()
	r.TrafficClass = "memcontrolprotocol.Req"
	return r
}

func (p probeMMUCache) drainRsps() []memcontrolprotocol.Rsp {
	var out []memcontrolprotocol.Rsp
	for {
		m := p.ctrl.RetrieveOutgoing()
		if m == nil {
			return out
		}
		out = append(out, m.(memcontrolprotocol.Rsp))
	}
}

var probeCmdNames = map[memcontrolprotocol.Command]string{
	memcontrolprotocol.CmdPause:      "Pause",
	memcontrolprotocol.CmdDrain:      "Drain",
	memcontrolprotocol.CmdEnable:     "Enable",
	memcontrolprotocol.CmdReset:      "Reset",
	memcontrolprotocol.CmdInvalidate: "Invalidate",
	memcontrolprotocol.CmdFlush:      "Flush",
}

func describeRsps(rsps []memcontrolprotocol.Rsp, names map[uint64]string) string {
	s := "["
	for i, r := range rsps {
		if i > 0 {
			s += ", "
		}
		s += fmt.Sprintf("%s->%s(ok=%v)", probeCmdNames[r.Command], names[r.RspTo], r.Success)
	}
	return s + "]"
}

// runDrainThenNext drives: <filler sync commands whose acks are left in the
// Control port's outgoing buffer until it is full>, Drain#1, <second>. It
// returns the requests in issue order and every response in emission order.
func runDrainThenNext(
	t *testing.T,
	ctrlBufSize int,
	second memcontrolprotocol.Command,
) (reqs []memcontrolprotocol.Req, rsps []memcontrolprotocol.Rsp, names map[uint64]string) {
	t.Helper()

	p := buildProbeTLB(ctrlBufSize)
	names = map[uint64]string{}

	// 1. Fill the Control port's outgoing buffer with acks of sync verbs that
	//    the (back-pressured) connection has not picked up yet. Alternate
	//    Pause/Enable and end on Enable when possible; the final state does
	//    not matter for the defect.
	fillers := []memcontrolprotocol.Command{
		memcontrolprotocol.CmdPause, memcontrolprotocol.CmdEnable,
	}
	for i := 0; i < ctrlBufSize; i++ {
		r := p.req(fillers[i%2])
		names[r.ID] = fmt.Sprintf("filler%d", i)
		reqs = append(reqs, r)
		p.ctrl.Deliver(r)
		p.comp.Tick()
	}
	if p.ctrl.CanSend() {
		t.Fatalf("setup: Control outgoing buffer should be full")
	}
	if p.ctrl.NumIncoming() != 0 {
		t.Fatalf("setup: fillers should all have been consumed")
	}

	// 2. Drain#1. The mmuCache is idle, so the ctrl middleware accepts it (state
	//    "drain") and the data-path middleware lands in "pause" in that same
	//    component tick.
	d1 := p.req(memcontrolprotocol.CmdDrain)
	names[d1.ID] = "drain1"
	reqs = append(reqs, d1)
	p.ctrl.Deliver(d1)
	p.comp.Tick()

	if p.comp.State.CurrentState != mmuCacheStatePause || !p.comp.State.PendingDrainRsp {
		t.Fatalf("setup: want state=pause with the Drain ack pending, "+
			"got state=%q pending=%v",
			p.comp.State.CurrentState, p.comp.State.PendingDrainRsp)
	}

	// 3. The second command queues behind the un-acked Drain. The port is
	//    still full, so the Drain ack still cannot leave.
	s := p.req(second)
	names[s.ID] = "second"
	reqs = append(reqs, s)
	p.ctrl.Deliver(s)
	for i := 0; i < 8; i++ {
		p.comp.Tick()
	}

	// 4. Back-pressure ends: the connection picks up responses as they
	//    appear; the component keeps ticking.
	for i := 0; i < 64; i++ {
		rsps = append(rsps, p.drainRsps()...)
		p.comp.Tick()
	}
	rsps = append(rsps, p.drainRsps()...)

	return reqs, rsps, names
}

func assertOneRspPerReqInOrder(
	t *testing.T,
	reqs []memcontrolprotocol.Req,
	rsps []memcontrolprotocol.Rsp,
	names map[uint64]string,
) {
	t.Helper()

	t.Logf("responses in emission order: %s", describeRsps(rsps, names))

	count := map[uint64]int{}
	for _, r := range rsps {
		count[r.RspTo]++
	}
	for _, q := range reqs {
		if count[q.ID] != 1 {
			t.Errorf("request %s (%s, ID %d) got %d responses, want exactly 1",
				names[q.ID], probeCmdNames[q.Command], q.ID, count[q.ID])
		}
	}
	if len(rsps) != len(reqs) {
		t.Errorf("got %d responses for %d requests", len(rsps), len(reqs))
	}
	for i := 0; i < len(rsps) && i < len(reqs); i++ {
		if rsps[i].RspTo != reqs[i].ID || rsps[i].Command != reqs[i].Command {
			t.Errorf("response %d is %s->%s, want %s->%s (request order)",
				i, probeCmdNames[rsps[i].Command], names[rsps[i].RspTo],
				probeCmdNames[reqs[i].Command], names[reqs[i].ID])
		}
	}
}

func TestProbeDrainAckNotLostWhenControlPortBackPressured(t *testing.T) {
	seconds := []memcontrolprotocol.Command{
		memcontrolprotocol.CmdDrain,
		memcontrolprotocol.CmdEnable,
		memcontrolprotocol.CmdPause,
		memcontrolprotocol.CmdReset,
		memcontrolprotocol.CmdInvalidate,
	}
	for _, bufSize := range []int{1, 2} {
		for _, second := range seconds {
			name := fmt.Sprintf("ctrlBuf%d/Drain_then_%s", bufSize, probeCmdNames[second])
			t.Run(name, func(t *testing.T) {
				reqs, rsps, names := runDrainThenNext(t, bufSize, second)
				assertOneRspPerReqInOrder(t, reqs, rsps, names)
			})
		}
	}
}
