package datamover

import (
	"bytes"
	"testing"

	"github.com/sarchlab/akita/v5/mem"
	"github.com/sarchlab/akita/v5/mem/datamoverprotocol"
	"github.com/sarchlab/akita/v5/mem/idealmemcontroller"
	"github.com/sarchlab/akita/v5/messaging"
	"github.com/sarchlab/akita/v5/modeling"
	"github.com/sarchlab/akita/v5/noc/directconnection"
	"github.com/sarchlab/akita/v5/timing"
)

// tailProbeRig is a real data mover wired, through a real direct connection,
// to two real ideal memory controllers (the same assembly the package's own
// datamoving_test.go uses).
type tailProbeRig struct {
	engine         timing.Engine
	dm             *Comp
	insideStorage  *mem.Storage
	outsideStorage *mem.Storage
	agent          messaging.Port
}

func newTailProbeRig(bufferSize, insideGran, outsideGran uint64) *tailProbeRig {
	r := &tailProbeRig{}
	r.engine = timing.NewSerialEngine()
	r.agent = messaging.NewPort(nil, 16, 16, "Agent.Top")

	memSpec := idealmemcontroller.DefaultSpec()
	memSpec.Latency = 10
	memSpec.Width = 1
	memSpec.CacheLineSize = 64

	buildMem := func(name string) (*idealmemcontroller.Comp, *mem.Storage) {
		storage := mem.NewStorage(1 * mem.MB)
		c := idealmemcontroller.MakeBuilder().
			WithRegistrar(modeling.NewStandaloneRegistrar(r.engine)).
			WithSpec(memSpec).
			WithResources(idealmemcontroller.Resources{Storage: storage}).
			Build(name)
		c.AssignPort("Top", messaging.NewPort(c, 16, 16, name+".Top"))
		c.AssignPort("Control", messaging.NewPort(c, 16, 16, name+".Control"))
		return c, storage
	}

	insideMem, insideStorage := buildMem("InsideMem")
	outsideMem, outsideStorage := buildMem("OutsideMem")
	r.insideStorage = insideStorage
	r.outsideStorage = outsideStorage

	spec := DefaultSpec()
	spec.BufferSize = bufferSize
	spec.InsideByteGranularity = insideGran
	spec.OutsideByteGranularity = outsideGran

	reg := modeling.NewStandaloneRegistrar(r.engine)
	r.dm = MakeBuilder().
		WithRegistrar(reg).
		WithSpec(spec).
		WithResources(Resources{
			InsideMapper: &mem.SinglePortMapper{
				Port: insideMem.GetPortByName("Top").AsRemote()},
			OutsideMapper: &mem.SinglePortMapper{
				Port: outsideMem.GetPortByName("Top").AsRemote()},
		}).
		Build("DataMover")

	for _, name := range []string{"Top", "Inside", "Outside", "Control"} {
		p := modeling.MakePortBuilder().
			WithRegistrar(reg).
			WithComponent(r.dm).
			WithSpec(modeling.PortSpec{BufSize: 16}).
			Build(name)
		r.dm.AssignPort(name, p)
	}

	conn := directconnection.MakeBuilder().
		WithRegistrar(modeling.NewStandaloneRegistrar(r.engine)).
		Build("Conn")
	conn.PlugIn(r.agent)
	conn.PlugIn(r.dm.GetPortByName("Top"))
	conn.PlugIn(r.dm.GetPortByName("Inside"))
	conn.PlugIn(r.dm.GetPortByName("Outside"))
	conn.PlugIn(insideMem.GetPortByName("Top"))
	conn.PlugIn(outsideMem.GetPortByName("Top"))

	return r
}

func (r *tailProbeRig) move(
	srcSide string, srcAddr uint64,
	dstSide string, dstAddr uint64,
	size uint64,
) datamoverprotocol.DataMoveRequest {
	req := datamoverprotocol.DataMoveRequest{}
	req.ID = timing.GetIDGenerator().Generate()
	req.Src = r.agent.AsRemote()
	req.Dst = r.dm.GetPortByName("Top").AsRemote()
	req.SrcAddress = srcAddr
	req.SrcSide = datamoverprotocol.DataMovePort(srcSide)
	req.DstAddress = dstAddr
	req.DstSide = datamoverprotocol.DataMovePort(dstSide)
	req.ByteSize = size
	req.TrafficClass = "datamoverprotocol.DataMoveRequest"
	r.dm.GetPortByName("Top").Deliver(req)
	return req
}

// acks drains the agent port and counts the DataMoveResponses answering id.
func (r *tailProbeRig) acks(id uint64) int {
	n := 0
	for {
		m := r.agent.RetrieveIncoming()
		if m == nil {
			return n
		}
		if rsp, ok := m.(datamoverprotocol.DataMoveResponse); ok &&
			rsp.RspTo == id {
			n++
		}
	}
}

// A 100-byte move with 64-byte granularity on both sides. Both addresses are
// granularity-aligned, so the request is accepted (parseFromCP only checks the
// two addresses). The property says no byte outside [dst, dst+100) may change.
func TestTailProbeMoveWritesPastDestinationRange(t *testing.T) {
	r := newTailProbeRig(2048, 64, 64)

	src := make([]byte, 256)
	for i := range src {
		src[i] = byte(i + 1) // never 0xEE in the first 256 values we look at
	}
	if err := r.outsideStorage.Write(0, src); err != nil {
		t.Fatal(err)
	}

	sentinel := bytes.Repeat([]byte{0xEE}, 256)
	if err := r.insideStorage.Write(0, sentinel); err != nil {
		t.Fatal(err)
	}

	req := r.move("outside", 0, "inside", 0, 100)
	r.engine.Run()

	if got := r.acks(req.ID); got != 1 {
		t.Fatalf("expected exactly one acknowledgment, got %d", got)
	}

	inRange, _ := r.insideStorage.Read(0, 100)
	if !bytes.Equal(inRange, src[:100]) {
		t.Fatalf("destination range does not hold the source bytes")
	}

	after, _ := r.insideStorage.Read(100, 156)
	for i, b := range after {
		if b != 0xEE {
			t.Fatalf("byte at inside address %d lies OUTSIDE the destination "+
				"range [0,100) but was changed from 0xEE to %#x "+
				"(source byte at the same offset is %#x)",
				100+i, b, src[100+i])
		}
	}
}

// Same root cause, other symptom: a 64-byte move from the 64-byte-granularity
// side to the 256-byte-granularity side. The request is accepted, the single
// 64-byte read is performed, but writeToDst waits for a full 256-byte chunk that
// can never be assembled, so the request is never acknowledged.
func TestTailProbeMoveSmallerThanDstGranularityNeverAcked(t *testing.T) {
	r := newTailProbeRig(2048, 64, 256)

	src := make([]byte, 64)
	for i := range src {
		src[i] = byte(i + 1)
	}
	if err := r.insideStorage.Write(0, src); err != nil {
		t.Fatal(err)
	}

	req := r.move("inside", 0, "outside", 0, 64)
	r.engine.Run() // returns: the simulation went quiescent

	if got := r.acks(req.ID); got != 1 {
		t.Fatalf("simulation quiesced with %d acknowledgments for the move "+
			"(want exactly 1); transaction still active=%v, "+
			"NextWriteAddr=%d, pendingReads=%d, buffered chunks=%d",
			got,
			r.dm.State.CurrentTransaction.Active,
			r.dm.State.CurrentTransaction.NextWriteAddr,
			len(r.dm.State.CurrentTransaction.PendingRead),
			len(r.dm.State.Buffer.Chunks))
	}

	got, _ := r.outsideStorage.Read(0, 64)
	if !bytes.Equal(got, src) {
		t.Fatalf("destination range does not hold the source bytes")
	}
}
