package queueing

import (
	"encoding/json"
	"testing"
)

type probeSink struct{ got []int }

func (s *probeSink) CanPush() bool    { return true }
func (s *probeSink) PushTyped(v int) { s.got = append(s.got, v) }

// A corrupted pipeline document must be refused by UnmarshalJSON.
func TestProbePipelineUnmarshalRejectsImpossibleItems(t *testing.T) {
	docs := map[string]string{
		"two items in one slot":   `{"width":1,"num_stages":3,"stages":[{"lane":0,"stage":1,"item":1,"cycle_left":0},{"lane":0,"stage":1,"item":2,"cycle_left":0}]}`,
		"stage beyond the depth":  `{"width":1,"num_stages":3,"stages":[{"lane":0,"stage":7,"item":1,"cycle_left":0}]}`,
		"lane beyond the width":   `{"width":1,"num_stages":3,"stages":[{"lane":5,"stage":0,"item":1,"cycle_left":0}]}`,
		"negative remaining time": `{"width":1,"num_stages":3,"stages":[{"lane":0,"stage":0,"item":1,"cycle_left":-2}]}`,
	}
	for name, doc := range docs {
		var p Pipeline[int]
		if err := json.Unmarshal([]byte(doc), &p); err == nil {
			t.Errorf("%s: accepted without error", name)
		}
	}
}
