package nvlink

import (
	"fmt"
	"reflect"
	"testing"

	"github.com/sarchlab/akita/v5/messaging"
	"github.com/sarchlab/akita/v5/naming"
	"github.com/sarchlab/akita/v5/noc/networking/switching/switches"
	"github.com/sarchlab/akita/v5/timing"
)

// c30Recorder is a registrar that remembers the switches the connector builds,
// in creation order, so that the probe can read their routing tables.
type c30Recorder struct {
	engine   timing.Engine
	switches []*switches.Comp
}

func (r *c30Recorder) GetEngine() timing.Engine { return r.engine }
func (r *c30Recorder) RegisterComponent(c naming.Named) {
	if sw, ok := c.(*switches.Comp); ok {
		r.switches = append(r.switches, sw)
	}
}
func (r *c30Recorder) RegisterConnection(_ naming.Named) {}
func (r *c30Recorder) RegisterResource(_ naming.Named)   {}
func (r *c30Recorder) RegisterPort(_ naming.Named)       {}

// c30Build lays out one fixed topology on the connector: a root complex with a
// CPU, two PCIe switches in a chain below it, one GPU under each PCIe switch,
// and an NVLink between the two GPUs. It returns the device ports.
func c30Build(c *Connector, netName, portPrefix string) []messaging.Port {
	c.CreateNetwork(netName)

	cpu := messaging.NewPort(nil, 1, 1, portPrefix+"CPU.Port")
	gpu0 := messaging.NewPort(nil, 1, 1, portPrefix+"GPU[0].Port")
	gpu1 := messaging.NewPort(nil, 1, 1, portPrefix+"GPU[1].Port")

	rc := c.AddRootComplex([]messaging.Port{cpu})
	p0 := c.AddPCIeSwitch()
	p1 := c.AddPCIeSwitch()
	c.ConnectSwitchesWithPCIeLink(rc, p0)
	c.ConnectSwitchesWithPCIeLink(p0, p1)
	d0 := c.PlugInDevice(p0, []messaging.Port{gpu0})
	d1 := c.PlugInDevice(p1, []messaging.Port{gpu1})
	c.ConnectDevicesWithNVLink(d0, d1, 1)
	c.EstablishRoute()

	return []messaging.Port{cpu, gpu0, gpu1}
}

// c30Tables dumps, for every switch in creation order, its name and the output
// port its routing table selects for each device port.
func c30Tables(sws []*switches.Comp, ports []messaging.Port) []string {
	var out []string

	for _, sw := range sws {
		line := sw.Name() + ":"
		for i, p := range ports {
			line += fmt.Sprintf(" dev%d->%s", i,
				switches.GetRoutingTable(sw).FindPort(p.AsRemote()))
		}

		out = append(out, line)
	}

	return out
}

func TestC30ProbeNVLinkConnectorReuse(t *testing.T) {
	// Reference: a fresh connector builds network "Net".
	freshRec := &c30Recorder{engine: timing.NewSerialEngine()}
	fresh := NewConnector().WithRegistrar(freshRec)
	freshPorts := c30Build(fresh, "Net", "")
	want := c30Tables(freshRec.switches, freshPorts)

	// One connector builds a first network, then is reused (CreateNetwork) to
	// build the very same network "Net" with the very same port names.
	reusedRec := &c30Recorder{engine: timing.NewSerialEngine()}
	reused := NewConnector().WithRegistrar(reusedRec)
	c30Build(reused, "Old", "Old.")

	firstNetSwitches := len(reusedRec.switches)
	reusedPorts := c30Build(reused, "Net", "")
	secondNet := reusedRec.switches[firstNetSwitches:]
	got := c30Tables(secondNet, reusedPorts)

	if !reflect.DeepEqual(got, want) {
		t.Errorf("reused connector's routing tables differ from a fresh "+
			"connector's\nfresh:\n%s\nreused:\n%s",
			c30Join(want), c30Join(got))
	}

	// The output ports named by the tables must identify one physical port:
	// switch (and hence port) names must be unique inside the network.
	seen := map[string]bool{}
	for _, sw := range secondNet {
		if seen[sw.Name()] {
			t.Errorf("reused connector built two switches named %q in one "+
				"network; the output port names in their routing tables are "+
				"ambiguous", sw.Name())
		}

		seen[sw.Name()] = true
	}
}

func c30Join(l []string) string {
	s := ""
	for _, x := range l {
		s += "  " + x + "\n"
	}

	return s
}
