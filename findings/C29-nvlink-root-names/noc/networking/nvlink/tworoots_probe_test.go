package nvlink_test

import (
	"testing"

	"github.com/sarchlab/akita/v5/messaging"
	"github.com/sarchlab/akita/v5/modeling"
	"github.com/sarchlab/akita/v5/noc/networking/nvlink"
	"github.com/sarchlab/akita/v5/timing"
)

type rootMsg struct {
	messaging.MsgMeta
}

type rootAgent struct {
	*modeling.TickingComponent
	port     messaging.Port
	toSend   []rootMsg
	received []messaging.MsgMeta
}

func newRootAgent(engine timing.Engine, name string) *rootAgent {
	a := &rootAgent{}
	a.TickingComponent = modeling.NewTickingComponent(name, engine, 1*timing.GHz, a)
	a.port = messaging.NewPort(a, 4, 4, name+".Port")
	return a
}

func (a *rootAgent) Tick() bool {
	progress := false
	if len(a.toSend) > 0 && a.port.CanSend() {
		a.port.Send(a.toSend[0])
		a.toSend = a.toSend[1:]
		progress = true
	}
	if m := a.port.RetrieveIncoming(); m != nil {
		a.received = append(a.received, m.Meta())
		progress = true
	}
	return progress
}

// A dual-socket PCIe tree built with the NVLink/PCIe hybrid connector: two root
// complexes (one per CPU) joined by a PCIe link, one GPU under each. The
// topology is a tree, so every message must be delivered.
func TestTwoRootComplexesProbe(t *testing.T) {
	engine := timing.NewSerialEngine()
	c := nvlink.NewConnector().WithEngine(engine).
		WithPCIeSwitchLatency(1).WithNVLinkSwitchLatency(1)
	c.CreateNetwork("Dual")

	cpu0 := newRootAgent(engine, "CPU0")
	cpu1 := newRootAgent(engine, "CPU1")
	gpu0 := newRootAgent(engine, "GPU0")
	gpu1 := newRootAgent(engine, "GPU1")

	root0 := c.AddRootComplex([]messaging.Port{cpu0.port})
	root1 := c.AddRootComplex([]messaging.Port{cpu1.port})
	c.ConnectSwitchesWithPCIeLink(root0, root1)
	c.PlugInDevice(root0, []messaging.Port{gpu0.port})
	c.PlugInDevice(root1, []messaging.Port{gpu1.port})
	c.EstablishRoute()

	agents := []*rootAgent{cpu0, cpu1, gpu0, gpu1}
	id := uint64(9_000_000)
	want := map[*rootAgent]int{}
	for _, s := range agents {
		for _, d := range agents {
			if s == d {
				continue
			}
			id++
			s.toSend = append(s.toSend, rootMsg{MsgMeta: messaging.MsgMeta{
				ID: id, Src: s.port.AsRemote(), Dst: d.port.AsRemote(), TrafficBytes: 64}})
			want[d]++
		}
	}
	for _, a := range agents {
		a.TickLater()
	}
	func() {
		defer func() {
			if r := recover(); r != nil {
				t.Fatalf("simulation panicked while carrying the traffic: %v", r)
			}
		}()
		if err := engine.Run(); err != nil {
			t.Fatal(err)
		}
	}()
	for _, a := range agents {
		if len(a.received) != want[a] {
			t.Errorf("%s received %d of %d messages addressed to it",
				a.Name(), len(a.received), want[a])
		}
	}
}
