package tlb_test

// Probe for property C25 (address translation stacks translate correctly):
//
//	"After a page-table change followed by an acknowledged invalidation of
//	 the affected entries, no translation uses the old mapping."
//
// The control protocol (mem/CONTROL_PROTOCOL.md) makes Invalidate legal once
// the TLB is "paused or drained", and Pause "freezes in-flight state in
// place". A real TLB on top of a real MMU (sharing a real page table) is
// driven through the documented shoot-down sequence
//
//	Pause -> (page table update) -> Invalidate -> Enable
//
// while one miss is still outstanding. The probe then issues a brand-new
// translation request and checks that it is answered with what the page table
// maps NOW.

import (
	"testing"

	"github.com/sarchlab/akita/v5/hooking"
	"github.com/sarchlab/akita/v5/mem"
	"github.com/sarchlab/akita/v5/mem/memcontrolprotocol"
	"github.com/sarchlab/akita/v5/mem/vm"
	"github.com/sarchlab/akita/v5/mem/vm/mmu"
	"github.com/sarchlab/akita/v5/mem/vm/tlb"
	"github.com/sarchlab/akita/v5/mem/vm/vmprotocol"
	"github.com/sarchlab/akita/v5/messaging"
	"github.com/sarchlab/akita/v5/modeling"
	"github.com/sarchlab/akita/v5/timing"
)

type probeNoopConn struct {
	hooking.HookableBase
}

func (c *probeNoopConn) Name() string                     { return "ProbeNoopConn" }
func (c *probeNoopConn) PlugIn(port messaging.Port)       { port.SetConnection(c) }
func (c *probeNoopConn) Unplug(_ messaging.Port)          {}
func (c *probeNoopConn) NotifyAvailable(_ messaging.Port) {}
func (c *probeNoopConn) NotifySend()                      {}

type probeStack struct {
	t *testing.T

	pt      vm.PageTable
	tlbComp *tlb.Comp
	mmuComp *mmu.Comp

	tlbTop, tlbBottom, tlbCtrl messaging.Port
	mmuTop                     messaging.Port

	// translation responses that left the TLB's Top port, in order.
	answers []vmprotocol.TranslationRsp
	// control responses that left the TLB's Control port, in order.
	ctrlRsps []memcontrolprotocol.Rsp
}

func probePort(
	reg modeling.Registrar, comp messaging.Component, name string, size int,
) messaging.Port {
	return modeling.MakePortBuilder().
		WithRegistrar(reg).
		WithComponent(comp).
		WithSpec(modeling.PortSpec{BufSize: size}).
		Build(name)
}

func buildProbeStack(t *testing.T) *probeStack {
	t.Helper()

	engine := timing.NewSerialEngine()
	reg := modeling.NewStandaloneRegistrar(engine)
	s := &probeStack{t: t, pt: vm.NewPageTable(12)}

	mmuSpec := mmu.DefaultSpec()
	mmuSpec.Latency = 2
	s.mmuComp = mmu.MakeBuilder().
		WithRegistrar(reg).
		WithSpec(mmuSpec).
		WithResources(mmu.Resources{PageTable: s.pt}).
		Build("MMU")
	s.mmuComp.AssignPort("Top", probePort(reg, s.mmuComp, "Top", 8))
	s.mmuComp.AssignPort("Control", probePort(reg, s.mmuComp, "Control", 2))
	s.mmuTop = s.mmuComp.GetPortByName("Top")

	tlbSpec := tlb.DefaultSpec()
	tlbSpec.NumSets = 4
	tlbSpec.NumWays = 4
	tlbSpec.Latency = 2
	s.tlbComp = tlb.MakeBuilder().
		WithRegistrar(reg).
		WithSpec(tlbSpec).
		WithResources(tlb.Resources{
			TranslationProviderMapper: &mem.SinglePortMapper{
				Port: s.mmuTop.AsRemote(),
			},
		}).
		Build("TLB")
	s.tlbComp.AssignPort("Top", probePort(reg, s.tlbComp, "Top", 8))
	s.tlbComp.AssignPort("Bottom", probePort(reg, s.tlbComp, "Bottom", 8))
	s.tlbComp.AssignPort("Control", probePort(reg, s.tlbComp, "Control", 2))
	s.tlbTop = s.tlbComp.GetPortByName("Top")
	s.tlbBottom = s.tlbComp.GetPortByName("Bottom")
	s.tlbCtrl = s.tlbComp.GetPortByName("Control")

	for _, p := range []messaging.Port{
		s.tlbTop, s.tlbBottom, s.tlbCtrl, s.mmuTop,
		s.mmuComp.GetPortByName("Control"),
	} {
		(&probeNoopConn{}).PlugIn(p)
	}

	return s
}

// tick advances both real components by one cycle and ferries every message
// across the TLB.Bottom <-> MMU.Top link, and collects what leaves the TLB's
// Top and Control ports.
func (s *probeStack) tick() {
	s.tlbComp.Tick()
	s.mmuComp.Tick()

	for s.tlbBottom.PeekOutgoing() != nil && s.mmuTop.CanDeliver() {
		s.mmuTop.Deliver(s.tlbBottom.RetrieveOutgoing())
	}
	for s.mmuTop.PeekOutgoing() != nil && s.tlbBottom.CanDeliver() {
		s.tlbBottom.Deliver(s.mmuTop.RetrieveOutgoing())
	}
	for m := s.tlbTop.RetrieveOutgoing(); m != nil; m = s.tlbTop.RetrieveOutgoing() {
		s.answers = append(s.answers, m.(vmprotocol.TranslationRsp))
	}
	for m := s.tlbCtrl.RetrieveOutgoing(); m != nil; m = s.tlbCtrl.RetrieveOutgoing() {
		s.ctrlRsps = append(s.ctrlRsps, m.(memcontrolprotocol.Rsp))
	}
}

func (s *probeStack) request(pid vm.PID, vAddr uint64) vmprotocol.TranslationReq {
	req := vmprotocol.TranslationReq{PID: pid, VAddr: vAddr, DeviceID: 1}
	req.ID = timing.GetIDGenerator().Generate()
	req.Src = messaging.RemotePort("Agent")
	req.Dst = s.tlbTop.AsRemote()
	req.TrafficClass = "vmprotocol.TranslationReq"
	s.tlbTop.Deliver(req)

	return req
}

// control issues a control verb to the TLB and ticks until it is acknowledged.
func (s *probeStack) control(
	cmd memcontrolprotocol.Command, addrs []uint64, pid vm.PID,
) memcontrolprotocol.Rsp {
	s.t.Helper()

	req := memcontrolprotocol.Req{Command: cmd, Addresses: addrs, PID: pid}
	req.ID = timing.GetIDGenerator().Generate()
	req.Src = messaging.RemotePort("Driver")
	req.Dst = s.tlbCtrl.AsRemote()
	req.TrafficClass = "memcontrolprotocol.Req"
	s.tlbCtrl.Deliver(req)

	for range 256 {
		s.tick()
		for _, r := range s.ctrlRsps {
			if r.RspTo == req.ID {
				return r
			}
		}
	}

	s.t.Fatalf("control verb %v was never acknowledged", cmd)

	return memcontrolprotocol.Rsp{}
}

func (s *probeStack) answerTo(req vmprotocol.TranslationReq) (vmprotocol.TranslationRsp, int) {
	var (
		found vmprotocol.TranslationRsp
		n     int
	)
	for _, a := range s.answers {
		if a.RspTo == req.ID {
			found = a
			n++
		}
	}

	return found, n
}

const (
	probePID     = vm.PID(1)
	probeVAddr   = uint64(0x1000)
	probeOldPhys = uint64(0xA000)
	probeNewPhys = uint64(0xB000)
)

// shootDown drives: miss outstanding -> quiesce (Pause or Drain) -> page-table
// update -> acknowledged Invalidate -> Enable -> a brand-new request. It returns
// the answer to the request that was outstanding (r1) and to the brand-new one
// (r2).
func shootDown(
	t *testing.T, quiesce memcontrolprotocol.Command,
) (a1, a2 vmprotocol.TranslationRsp) {
	t.Helper()

	s := buildProbeStack(t)
	s.pt.Insert(vm.Page{
		PID: probePID, VAddr: probeVAddr, PAddr: probeOldPhys, PageSize: 4096,
		Valid: true, DeviceID: 1,
	})

	// 1. A first access misses in the TLB and goes down to the MMU.
	r1 := s.request(probePID, probeVAddr)
	for i := 0; i < 64 && len(s.tlbComp.State.MSHREntries) == 0; i++ {
		s.tick()
	}
	if len(s.tlbComp.State.MSHREntries) != 1 {
		t.Fatalf("setup: the miss never reached the MSHR")
	}

	// 2. The driver starts a shoot-down of that page and quiesces the TLB.
	//    Pause acks at once and freezes in-flight state in place; Drain acks
	//    once the outstanding miss has been resolved and answered.
	if rsp := s.control(quiesce, nil, 0); !rsp.Success {
		t.Fatalf("quiesce verb rejected: %q", rsp.Error)
	}

	if quiesce == memcontrolprotocol.CmdPause {
		// Meanwhile the (still enabled) MMU finishes the walk it was handed
		// and its answer, carrying the mapping of that moment, arrives at the
		// paused TLB.
		for i := 0; i < 64 && s.tlbBottom.PeekIncoming() == nil; i++ {
			s.tick()
		}
		if s.tlbBottom.PeekIncoming() == nil {
			t.Fatalf("setup: the MMU answer never arrived at the paused TLB")
		}
		if _, n := s.answerTo(r1); n != 0 {
			t.Fatalf("setup: the paused TLB answered r1 already")
		}
	}

	// 3. The page table changes: the page now lives at a new physical address.
	s.pt.Update(vm.Page{
		PID: probePID, VAddr: probeVAddr, PAddr: probeNewPhys, PageSize: 4096,
		Valid: true, DeviceID: 1,
	})

	// 4. Invalidate the affected entry; the TLB acknowledges with Success.
	inv := s.control(
		memcontrolprotocol.CmdInvalidate, []uint64{probeVAddr}, probePID)
	if !inv.Success {
		t.Fatalf("Invalidate rejected although the TLB is paused: %q", inv.Error)
	}

	// 5. Resume.
	if rsp := s.control(memcontrolprotocol.CmdEnable, nil, 0); !rsp.Success {
		t.Fatalf("Enable rejected: %q", rsp.Error)
	}

	// r1 is answered (exactly once).
	for i := 0; i < 256; i++ {
		s.tick()
	}
	a1, n1 := s.answerTo(r1)
	if n1 != 1 {
		t.Fatalf("r1 answered %d times, want exactly once", n1)
	}

	// 6. A brand-new access, issued strictly after the page-table change, the
	//    acknowledged invalidation and the Enable.
	r2 := s.request(probePID, probeVAddr)
	for i := 0; i < 256; i++ {
		s.tick()
	}
	a2, n2 := s.answerTo(r2)
	if n2 != 1 {
		t.Fatalf("r2 answered %d times, want exactly once", n2)
	}

	if want, _ := s.pt.Find(probePID, probeVAddr); want.PAddr != probeNewPhys {
		t.Fatalf("setup: page table maps %#x, want %#x",
			want.PAddr, probeNewPhys)
	}

	return a1, a2
}

// The failing probe: Pause -> update -> Invalidate(acked) -> Enable.
func TestProbeC25_PauseInvalidateEnable_LeavesOldMappingInTLB(t *testing.T) {
	a1, a2 := shootDown(t, memcontrolprotocol.CmdPause)

	if a1.Page.PAddr != probeNewPhys {
		t.Errorf("r1 (answered after the acknowledged invalidation) was "+
			"translated to PAddr %#x; the page table maps (pid %d, vaddr %#x) "+
			"to %#x", a1.Page.PAddr, probePID, probeVAddr, probeNewPhys)
	}
	if a2.Page.PAddr != probeNewPhys {
		t.Errorf("r2 (issued after the page-table change, the acknowledged "+
			"Invalidate and the Enable) was translated to the OLD PAddr %#x; "+
			"the page table maps (pid %d, vaddr %#x) to %#x",
			a2.Page.PAddr, probePID, probeVAddr, probeNewPhys)
	}
}

// Control experiment (passes on the unmodified code): the very same harness and
// sequence with Drain instead of Pause. r1 is legitimately answered with the
// old mapping during the Drain, i.e. before the page table changes; the
// brand-new request sees the new mapping. This shows the failure above is the
// TLB's handling of Invalidate-while-a-miss-is-outstanding, not the harness.
func TestProbeC25_Control_DrainInvalidateEnable(t *testing.T) {
	a1, a2 := shootDown(t, memcontrolprotocol.CmdDrain)

	if a1.Page.PAddr != probeOldPhys {
		t.Errorf("r1 was answered during the Drain, before the change, and "+
			"should carry %#x; got %#x", probeOldPhys, a1.Page.PAddr)
	}
	if a2.Page.PAddr != probeNewPhys {
		t.Errorf("r2 translated to %#x, want %#x", a2.Page.PAddr, probeNewPhys)
	}
}
