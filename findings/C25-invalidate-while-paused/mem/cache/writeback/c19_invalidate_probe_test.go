package writeback

import (
	"fmt"
	"testing"

	"github.com/sarchlab/akita/v5/mem"
	"github.com/sarchlab/akita/v5/mem/cache"
	"github.com/sarchlab/akita/v5/mem/memcontrolprotocol"
	"github.com/sarchlab/akita/v5/mem/memprotocol"
	"github.com/sarchlab/akita/v5/messaging"
	"github.com/sarchlab/akita/v5/modeling"
	"github.com/sarchlab/akita/v5/timing"
)

// c19CheckDirectory asserts the C19 well-formedness clauses on a directory and
// returns a description of every violation found.
func c19CheckDirectory(
	ds *cache.DirectoryState, numSets, numWays, blockSize int,
) []string {
	var bad []string

	for si := range ds.Sets {
		set := &ds.Sets[si]

		seen := map[int]int{}
		for _, w := range set.LRUOrder {
			seen[w]++
		}
		if len(set.LRUOrder) != numWays {
			bad = append(bad, fmt.Sprintf(
				"set %d: LRUOrder has %d entries, want %d",
				si, len(set.LRUOrder), numWays))
		}
		for w := 0; w < numWays; w++ {
			if seen[w] != 1 {
				bad = append(bad, fmt.Sprintf(
					"set %d: way %d listed %d times in LRUOrder %v",
					si, w, seen[w], set.LRUOrder))
			}
		}

		type key struct {
			pid uint32
			tag uint64
		}
		holders := map[key][]int{}
		for wi := range set.Blocks {
			b := &set.Blocks[wi]
			if b.ReadCount < 0 {
				bad = append(bad, fmt.Sprintf(
					"set %d way %d: negative ReadCount %d", si, wi, b.ReadCount))
			}
			if !b.IsValid {
				continue
			}
			holders[key{b.PID, b.Tag}] = append(holders[key{b.PID, b.Tag}], wi)
			if want := cache.DirectorySetID(b.Tag, blockSize, numSets); want != si {
				bad = append(bad, fmt.Sprintf(
					"set %d way %d: valid line 0x%x belongs in set %d",
					si, wi, b.Tag, want))
			}
		}
		for k, ways := range holders {
			if len(ways) > 1 {
				bad = append(bad, fmt.Sprintf(
					"set %d: line 0x%x of PID %d is held valid by ways %v",
					si, k.tag, k.pid, ways))
			}
		}
	}

	return bad
}

// TestC19ProbeInvalidateWhilePausedDuplicatesLine drives the real write-back
// cache (default latencies: BankLatency 10, DirLatency 0) through the legal
// control history
//
//	write X (in the bank pipeline) -> Pause -> Invalidate -> Enable -> read X
//
// Pause freezes in-flight transactions in place and Invalidate is legal once
// paused, so the locked block of the in-flight write is marked invalid. After
// Enable, the read of X misses, allocates a second way for X, and then the
// frozen write finalizes and re-validates the first way.
//
// The control sub-test runs the identical history without the Invalidate
// (write -> Pause -> Enable -> read) and passes.
func TestC19ProbeInvalidateWhilePausedDuplicatesLine(t *testing.T) {
	t.Run("control-no-invalidate", func(t *testing.T) { c19RunPauseHistory(t, false) })
	t.Run("invalidate-while-paused", func(t *testing.T) { c19RunPauseHistory(t, true) })
}

func c19RunPauseHistory(t *testing.T, invalidate bool) {
	const (
		blockSize = 64
		addr      = uint64(0x1000)
	)

	engine := timing.NewSerialEngine()
	storage := mem.NewStorage(1 * mem.MB)

	spec := DefaultSpec() // BankLatency 10, DirLatency 0, NumReqPerCycle 1
	spec.TotalByteSize = 64 * 1024
	spec.WayAssociativity = 2

	comp := MakeBuilder().
		WithRegistrar(modeling.NewStandaloneRegistrar(engine)).
		WithSpec(spec).
		WithResources(Resources{
			Storage: storage,
			AddressToPortMapper: &mem.SinglePortMapper{
				Port: messaging.RemotePort("LowerCache"),
			},
		}).
		Build("L1Cache")

	for _, name := range []string{"Top", "Bottom", "Control"} {
		comp.AssignPort(name,
			messaging.NewPort(comp, 16, 16, comp.Name()+"."+name))
		(&ccNoopConn{}).PlugIn(comp.GetPortByName(name))
	}

	topPort := comp.GetPortByName("Top")
	botPort := comp.GetPortByName("Bottom")
	ctrlPort := comp.GetPortByName("Control")
	s := comp.Spec()
	setID := cache.DirectorySetID(addr, blockSize, s.NumSets)

	dumpSet := func() string {
		out := ""
		for wi, b := range comp.State.DirectoryState.Sets[setID].Blocks {
			out += fmt.Sprintf(
				"\n      way %d: tag=0x%x pid=%d valid=%v dirty=%v locked=%v readers=%d",
				wi, b.Tag, b.PID, b.IsValid, b.IsDirty, b.IsLocked, b.ReadCount)
		}
		return out
	}

	ctrl := func(cmd memcontrolprotocol.Command) {
		req := memcontrolprotocol.Req{Command: cmd}
		req.ID = timing.GetIDGenerator().Generate()
		req.Src = messaging.RemotePort("Ctrl")
		req.Dst = ctrlPort.AsRemote()
		req.TrafficClass = "memcontrolprotocol.Req"
		ctrlPort.Deliver(req)

		for i := 0; i < 64; i++ {
			comp.Tick()
			out := ctrlPort.RetrieveOutgoing()
			if out == nil {
				continue
			}
			rsp := out.(memcontrolprotocol.Rsp)
			if rsp.RspTo != req.ID {
				t.Fatalf("unexpected control response %+v", rsp)
			}
			if !rsp.Success {
				t.Fatalf("control verb %v rejected: %s", cmd, rsp.Error)
			}
			return
		}
		t.Fatalf("control verb %v never acknowledged", cmd)
	}

	// 1. A full-line write of X. It misses, takes a free way, locks it and
	//    enters the 10-cycle bank pipeline.
	write := memprotocol.WriteReq{}
	write.ID = timing.GetIDGenerator().Generate()
	write.Src = messaging.RemotePort("Agent")
	write.Dst = topPort.AsRemote()
	write.Address = addr
	write.Data = make([]byte, blockSize)
	for i := range write.Data {
		write.Data[i] = 0xAA
	}
	write.TrafficBytes = blockSize + 12
	write.TrafficClass = "memprotocol.WriteReq"
	topPort.Deliver(write)

	locked := false
	for i := 0; i < 8 && !locked; i++ {
		comp.Tick()
		for _, b := range comp.State.DirectoryState.Sets[setID].Blocks {
			if b.IsLocked && b.IsValid && b.Tag == addr {
				locked = true
			}
		}
	}
	if !locked {
		t.Fatalf("write never reached the directory")
	}
	comp.Tick() // let the bank stage pull it into the pipeline
	if topPort.RetrieveOutgoing() != nil {
		t.Fatalf("write completed too early for this probe")
	}

	// 2. Pause (freezes the in-flight write), Invalidate everything, Enable.
	ctrl(memcontrolprotocol.CmdPause)
	if invalidate {
		ctrl(memcontrolprotocol.CmdInvalidate)
	}

	// 3. A read of X is waiting at Top when the cache is enabled again.
	read := memprotocol.ReadReq{}
	read.ID = timing.GetIDGenerator().Generate()
	read.Src = messaging.RemotePort("Agent")
	read.Dst = topPort.AsRemote()
	read.Address = addr
	read.AccessByteSize = 4
	read.TrafficBytes = 12
	read.TrafficClass = "memprotocol.ReadReq"
	topPort.Deliver(read)

	ctrl(memcontrolprotocol.CmdEnable)

	// 4. Run to completion, playing lower memory (which still holds zeros for
	//    X: the 0xAA write only lives in the write-back cache).
	var (
		writeDone bool
		readData  []byte
	)
	for i := 0; i < 256 && (!writeDone || readData == nil); i++ {
		comp.Tick()

		for {
			out := botPort.RetrieveOutgoing()
			if out == nil {
				break
			}
			if r, ok := out.(memprotocol.ReadReq); ok {
				rsp := memprotocol.DataReadyRsp{Data: make([]byte, blockSize)}
				rsp.ID = timing.GetIDGenerator().Generate()
				rsp.Src = messaging.RemotePort("LowerCache")
				rsp.Dst = botPort.AsRemote()
				rsp.RspTo = r.ID
				rsp.TrafficClass = "memprotocol.DataReadyRsp"
				botPort.Deliver(rsp)
			}
		}

		for {
			out := topPort.RetrieveOutgoing()
			if out == nil {
				break
			}
			switch m := out.(type) {
			case memprotocol.WriteDoneRsp:
				writeDone = m.RspTo == write.ID
			case memprotocol.DataReadyRsp:
				readData = m.Data
			}
		}
	}
	if !writeDone || readData == nil {
		t.Fatalf("workload did not complete (writeDone=%v read=%v)%s",
			writeDone, readData != nil, dumpSet())
	}
	for range 16 {
		comp.Tick()
	}

	violations := c19CheckDirectory(&comp.State.DirectoryState,
		s.NumSets, s.WayAssociativity, blockSize)
	for _, v := range violations {
		t.Errorf("C19 violated: %s", v)
	}
	if len(violations) > 0 {
		t.Logf("set %d after the history:%s", setID, dumpSet())
	}
}
