package datarecording

import (
	"path/filepath"
	"testing"
)

type probeComplexEntry struct {
	ID int
	Z  complex128
}

// A table the recorder accepts must be storable: CreateTable/InsertData accepting
// an entry and Flush panicking on it loses the batch.
func TestProbeComplexFieldAcceptedThenFlushPanics(t *testing.T) {
	rec := NewDataRecorder(filepath.Join(t.TempDir(), "probe"))
	accepted := func() (ok bool) {
		defer func() {
			if recover() != nil {
				ok = false
			}
		}()
		rec.CreateTable("t", probeComplexEntry{})
		rec.InsertData("t", probeComplexEntry{ID: 1, Z: complex(1, 2)})
		return true
	}()
	if !accepted {
		t.Skip("rejected up front (good)")
	}
	defer func() {
		if r := recover(); r != nil {
			t.Fatalf("the entry was accepted by CreateTable/InsertData and Flush panicked: %v", r)
		}
	}()
	rec.Flush()
}
