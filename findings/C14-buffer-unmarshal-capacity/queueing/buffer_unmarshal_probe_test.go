package queueing

import (
	"encoding/json"
	"testing"
)

// TestProbeUnmarshalOverCapacity: every other way of putting contents into a
// Buffer enforces the bound (PushTyped panics, Restore panics, the port
// checkpoint loader returns an error). UnmarshalJSON — the path every component
// State that embeds a Buffer is restored through — installs whatever the JSON
// says, so a decoded buffer can hold more elements than its capacity and then
// reports Size() > Capacity().
func TestProbeUnmarshalOverCapacity(t *testing.T) {
	var b Buffer[int]

	err := json.Unmarshal(
		[]byte(`{"name":"b","cap":1,"elements":[1,2,3]}`), &b)
	if err != nil {
		t.Logf("rejected as expected: %v", err)
		return
	}

	if b.Size() > b.Capacity() {
		t.Errorf("decoded buffer exceeds its capacity: Size()=%d Capacity()=%d "+
			"(UnmarshalJSON returned a nil error)", b.Size(), b.Capacity())
	}

	// Contrast: the sibling restore path refuses the very same contents.
	r := NewBuffer[int]("r", 1)
	func() {
		defer func() {
			if recover() == nil {
				t.Errorf("Restore accepted 3 elements into capacity 1")
			}
		}()
		r.Restore([]int{1, 2, 3})
	}()
}
