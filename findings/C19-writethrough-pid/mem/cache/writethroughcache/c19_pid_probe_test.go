package writethroughcache

import (
	"fmt"
	"testing"

	"github.com/sarchlab/akita/v5/mem"
	"github.com/sarchlab/akita/v5/mem/cache"
	"github.com/sarchlab/akita/v5/mem/memprotocol"
	"github.com/sarchlab/akita/v5/mem/vm"
	"github.com/sarchlab/akita/v5/messaging"
	"github.com/sarchlab/akita/v5/modeling"
	"github.com/sarchlab/akita/v5/timing"
)

// c19CheckDirectory asserts the C19 well-formedness clauses on a directory and
// returns a description of every violation found.
func c19CheckDirectory(
	ds *cache.DirectoryState, numSets, numWays, blockSize int,
) []string {
	var bad []string

	for si := range ds.Sets {
		set := &ds.Sets[si]

		seen := map[int]int{}
		for _, w := range set.LRUOrder {
			seen[w]++
		}
		if len(set.LRUOrder) != numWays {
			bad = append(bad, fmt.Sprintf(
				"set %d: LRUOrder has %d entries, want %d",
				si, len(set.LRUOrder), numWays))
		}
		for w := 0; w < numWays; w++ {
			if seen[w] != 1 {
				bad = append(bad, fmt.Sprintf(
					"set %d: way %d listed %d times in LRUOrder %v",
					si, w, seen[w], set.LRUOrder))
			}
		}

		type key struct {
			pid uint32
			tag uint64
		}
		holders := map[key][]int{}
		for wi := range set.Blocks {
			b := &set.Blocks[wi]
			if b.ReadCount < 0 {
				bad = append(bad, fmt.Sprintf(
					"set %d way %d: negative ReadCount %d", si, wi, b.ReadCount))
			}
			if !b.IsValid {
				continue
			}
			holders[key{b.PID, b.Tag}] = append(holders[key{b.PID, b.Tag}], wi)
			if want := cache.DirectorySetID(b.Tag, blockSize, numSets); want != si {
				bad = append(bad, fmt.Sprintf(
					"set %d way %d: valid line 0x%x belongs in set %d",
					si, wi, b.Tag, want))
			}
		}
		for k, ways := range holders {
			if len(ways) > 1 {
				bad = append(bad, fmt.Sprintf(
					"set %d: line 0x%x of PID %d is held valid by ways %v",
					si, k.tag, k.pid, ways))
			}
		}
	}

	return bad
}

// TestC19ProbeFullLineWriteMissKeepsStalePID drives the real write-through
// cache (policy "write-through") with two back-to-back full-line writes by the
// same non-zero PID to the same line. The first write misses and installs the
// line in a victim way; the second write must hit that way.
//
// The PID 0 sub-test is a control: it runs the identical history with the PID
// that happens to equal the zero value left in an untouched block, and passes.
func TestC19ProbeFullLineWriteMissKeepsStalePID(t *testing.T) {
	t.Run("control-PID0", func(t *testing.T) { c19RunFullLineWrites(t, 0) })
	t.Run("PID5", func(t *testing.T) { c19RunFullLineWrites(t, 5) })
}

func c19RunFullLineWrites(t *testing.T, pid vm.PID) {
	const (
		blockSize = 64
		addr      = uint64(0x1000)
	)

	engine := timing.NewSerialEngine()
	storage := mem.NewStorage(4 * mem.GB)

	spec := DefaultSpec()
	spec.NumReqPerCycle = 1
	spec.NumBanks = 1
	spec.NumMSHREntry = 8
	spec.WayAssociativity = 2
	spec.Log2BlockSize = 6
	spec.BankLatency = 1
	spec.DirLatency = 1
	spec.TotalByteSize = 64 * 1024
	spec.MaxNumConcurrentTrans = 16
	spec.WritePolicyType = "write-through"

	reg := modeling.NewStandaloneRegistrar(engine)
	comp := MakeBuilder().
		WithRegistrar(reg).
		WithSpec(spec).
		WithResources(Resources{
			Storage: storage,
			AddressMapper: &mem.SinglePortMapper{
				Port: messaging.RemotePort("LowerCache"),
			},
		}).
		Build("L1Cache")

	for _, name := range []string{"Top", "Bottom", "Control"} {
		p := modeling.MakePortBuilder().
			WithRegistrar(reg).
			WithComponent(comp).
			WithSpec(modeling.PortSpec{BufSize: 16}).
			Build(name)
		comp.AssignPort(name, p)
		(&ccNoopConn{}).PlugIn(comp.GetPortByName(name))
	}

	topPort := comp.GetPortByName("Top")
	bottomPort := comp.GetPortByName("Bottom")

	// writeFullLine sends one full-line write, plays the lower memory (acks
	// the write-through), and ticks until the WriteDoneRsp leaves Top.
	writeFullLine := func(fill byte) {
		req := memprotocol.WriteReq{}
		req.ID = timing.GetIDGenerator().Generate()
		req.Src = messaging.RemotePort("Agent")
		req.Dst = topPort.AsRemote()
		req.Address = addr
		req.PID = pid
		req.Data = make([]byte, blockSize)
		for i := range req.Data {
			req.Data[i] = fill
		}
		req.TrafficBytes = blockSize + 12
		req.TrafficClass = "memprotocol.WriteReq"
		topPort.Deliver(req)

		done := false
		for i := 0; i < 512 && !done; i++ {
			comp.Tick()

			for {
				out := bottomPort.RetrieveOutgoing()
				if out == nil {
					break
				}
				switch m := out.(type) {
				case memprotocol.WriteReq:
					rsp := memprotocol.WriteDoneRsp{}
					rsp.ID = timing.GetIDGenerator().Generate()
					rsp.Src = messaging.RemotePort("LowerCache")
					rsp.Dst = bottomPort.AsRemote()
					rsp.RspTo = m.ID
					rsp.TrafficBytes = 4
					rsp.TrafficClass = "memprotocol.WriteDoneRsp"
					bottomPort.Deliver(rsp)
				case memprotocol.ReadReq:
					t.Fatalf("unexpected bottom fetch for a full-line write")
				}
			}

			for {
				out := topPort.RetrieveOutgoing()
				if out == nil {
					break
				}
				if r, ok := out.(memprotocol.WriteDoneRsp); ok && r.RspTo == req.ID {
					done = true
				}
			}
		}
		if !done {
			t.Fatalf("write 0x%x did not complete", addr)
		}
		// Let the transaction retire completely.
		for range 8 {
			comp.Tick()
		}
	}

	s := comp.Spec()

	dumpSet := func() string {
		setID := cache.DirectorySetID(addr, blockSize, s.NumSets)
		out := ""
		for wi, b := range comp.State.DirectoryState.Sets[setID].Blocks {
			out += fmt.Sprintf(
				"\n      set %d way %d: tag=0x%x pid=%d valid=%v locked=%v readers=%d",
				setID, wi, b.Tag, b.PID, b.IsValid, b.IsLocked, b.ReadCount)
		}
		return out
	}

	writeFullLine(0xAA)

	// After the first write the line must be findable for the writer's PID.
	if _, _, found := cache.DirectoryLookup(&comp.State.DirectoryState,
		s.NumSets, blockSize, pid, addr); !found {
		t.Errorf("after PID %d wrote line 0x%x, no valid block holds (PID %d, 0x%x):%s",
			pid, addr, pid, addr, dumpSet())
	}

	writeFullLine(0xBB)

	violations := c19CheckDirectory(&comp.State.DirectoryState,
		s.NumSets, s.WayAssociativity, blockSize)
	for _, v := range violations {
		t.Errorf("C19 violated: %s", v)
	}
	if len(violations) > 0 {
		t.Logf("set after the two writes:%s", dumpSet())
	}
}
