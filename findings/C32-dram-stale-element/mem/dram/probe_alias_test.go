package dram

import (
	"testing"

	"github.com/sarchlab/akita/v5/mem"
	"github.com/sarchlab/akita/v5/mem/memprotocol"
	"github.com/sarchlab/akita/v5/messaging"
	"github.com/sarchlab/akita/v5/modeling"
	"github.com/sarchlab/akita/v5/timing"
	"github.com/sarchlab/akita/v5/tracing"
)

type probeRec struct {
	started map[uint64]tracing.TaskStart
	ended   map[uint64]int
	order   []uint64
}

func (r *probeRec) StartTask(s tracing.TaskStart) {
	r.started[s.ID] = s
	r.order = append(r.order, s.ID)
}
func (r *probeRec) AddTaskTag(tracing.TaskTag)     {}
func (r *probeRec) AddMilestone(tracing.Milestone) {}
func (r *probeRec) EndTask(e tracing.TaskEnd)      { r.ended[e.ID]++ }

// Four concurrent reads: every req_in task that is started must be ended
// exactly once, and no task that was never started may be ended.
func TestProbeConcurrentReadsEndTheirOwnTasks(t *testing.T) {
	engine := timing.NewSerialEngine()
	reg := modeling.NewStandaloneRegistrar(engine)
	comp := MakeBuilder().
		WithRegistrar(reg).
		WithResources(Resources{Storage: mem.NewStorage(1 * mem.MB)}).
		Build("DRAM")
	assign := func(name string) messaging.Port {
		p := modeling.MakePortBuilder().WithRegistrar(reg).WithComponent(comp).
			WithSpec(modeling.PortSpec{BufSize: 16}).Build(name)
		comp.AssignPort(name, p)
		(&noopConn{}).PlugIn(p)
		return p
	}
	topPort := assign("Top")
	assign("Control")
	rec := &probeRec{started: map[uint64]tracing.TaskStart{}, ended: map[uint64]int{}}
	tracing.CollectTrace(comp, rec)

	for i := 0; i < 4; i++ {
		read := memprotocol.ReadReq{Address: uint64(i) * 64, AccessByteSize: 4}
		read.ID = timing.GetIDGenerator().Generate()
		read.Src = messaging.RemotePort("Agent")
		read.Dst = topPort.AsRemote()
		read.TrafficBytes = 12
		read.TrafficClass = "memprotocol.ReadReq"
		topPort.Deliver(read)
	}
	rsps := 0
	for i := 0; i < 5000 && rsps < 4; i++ {
		comp.Tick()
		for topPort.RetrieveOutgoing() != nil {
			rsps++
		}
	}
	if rsps != 4 {
		t.Fatalf("got %d responses, want 4", rsps)
	}
	if len(comp.State.Transactions) != 0 {
		t.Fatalf("transactions left: %d", len(comp.State.Transactions))
	}
	for _, id := range rec.order {
		s := rec.started[id]
		if rec.ended[id] != 1 {
			t.Errorf("task %d (%s/%s) started once, ended %d time(s)", id, s.Kind, s.What, rec.ended[id])
		}
	}
	for id, n := range rec.ended {
		if _, ok := rec.started[id]; !ok {
			t.Errorf("task %d ended %d time(s) but never started", id, n)
		}
	}
}
