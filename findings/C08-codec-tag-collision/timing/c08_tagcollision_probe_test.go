package timing_test

import (
	"bytes"
	"reflect"
	"testing"

	"github.com/sarchlab/akita/v5/timing"
)

// Two unrelated pieces of simulator code each declare a function-local event
// type and happen to pick the same identifier. They are two DIFFERENT Go types
// (different fields, different reflect.Type), both legal timing.Events, both
// registered exactly as the RegisterEvent doc asks.

func c08FetchUnitWake(handler string, at timing.VTimeInPicoSec, pc uint64) timing.Event {
	type wakeEvent struct {
		timing.EventBase
		PC uint64 `json:"pc"`
	}

	timing.RegisterEvent(wakeEvent{})

	e := wakeEvent{PC: pc}
	e.ID = 1
	e.Time_ = at
	e.HandlerID_ = handler

	return e
}

func c08DecodeUnitWake(handler string, at timing.VTimeInPicoSec, slot int) timing.Event {
	type wakeEvent struct {
		timing.EventBase
		Slot int `json:"slot"`
	}

	timing.RegisterEvent(wakeEvent{})

	e := wakeEvent{Slot: slot}
	e.ID = 2
	e.Time_ = at
	e.HandlerID_ = handler

	return e
}

type c08Recorder struct {
	got []timing.Event
}

func (r *c08Recorder) Handle(e timing.Event) error {
	r.got = append(r.got, e)
	return nil
}

// TestC08ProbeRegisteredEventKeepsConcreteType drives the real engine checkpoint
// path: both events are registered, scheduled, saved, loaded into a rebuilt
// engine and fired. Each must come back as an equal value of its own concrete
// type (or the codec must refuse loudly). Instead the save and the load both
// succeed and one event is silently rebuilt as the OTHER type, losing its
// payload.
func TestC08ProbeRegisteredEventKeepsConcreteType(t *testing.T) {
	fetch := c08FetchUnitWake("h", 10, 0xdeadbeef)
	decode := c08DecodeUnitWake("h", 20, 7)

	if reflect.TypeOf(fetch) == reflect.TypeOf(decode) {
		t.Fatal("test bug: the two events must have different concrete types")
	}

	a := timing.NewSerialEngine()
	a.RegisterHandler("h", &c08Recorder{})
	a.Schedule(fetch)
	a.Schedule(decode)

	var buf bytes.Buffer
	if err := a.SaveCheckpoint(&buf); err != nil {
		t.Fatalf("SaveCheckpoint failed (a loud failure would be acceptable): %v", err)
	}

	b := timing.NewSerialEngine()
	rec := &c08Recorder{}
	b.RegisterHandler("h", rec)
	if err := b.LoadCheckpoint(&buf); err != nil {
		t.Fatalf("LoadCheckpoint failed (a loud failure would be acceptable): %v", err)
	}
	if err := b.Run(); err != nil {
		t.Fatalf("Run: %v", err)
	}

	if len(rec.got) != 2 {
		t.Fatalf("restored engine fired %d events, want 2", len(rec.got))
	}

	for i, want := range []timing.Event{fetch, decode} {
		got := rec.got[i]
		if reflect.TypeOf(got) != reflect.TypeOf(want) {
			t.Errorf("event %d changed concrete type across the checkpoint: "+
				"saved %T %+v, restored %T %+v (same type? %v)",
				i, want, want, got, got, reflect.TypeOf(got) == reflect.TypeOf(want))
			continue
		}
		if !reflect.DeepEqual(got, want) {
			t.Errorf("event %d changed value: got %+v, want %+v", i, got, want)
		}
	}
}
