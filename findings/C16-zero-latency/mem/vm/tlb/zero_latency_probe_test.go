package tlb_test

// Probe for property C25 ("every translation request is answered exactly once
// to its requester", quantified over every stack geometry).
//
// A TLB built with Spec.Latency = 0 (a zero-latency lookup; the sibling MMU and
// GMMU accept Latency 0, it is even the GMMU default) hands the value straight
// to queueing.NewPipeline as the number of stages. A zero-stage pipeline never
// emits: Tick only emits items whose Stage == numStages-1 == -1, and the advance
// phase caps its range below stage 0. The request is retrieved from Top, parked
// in the pipeline and never looked up, so it is never answered and no miss is
// ever forwarded.

import (
	"testing"

	"github.com/sarchlab/akita/v5/hooking"
	"github.com/sarchlab/akita/v5/mem"
	"github.com/sarchlab/akita/v5/mem/vm"
	"github.com/sarchlab/akita/v5/mem/vm/tlb"
	"github.com/sarchlab/akita/v5/mem/vm/vmprotocol"
	"github.com/sarchlab/akita/v5/messaging"
	"github.com/sarchlab/akita/v5/modeling"
	"github.com/sarchlab/akita/v5/timing"
)

type zlNoopConn struct {
	hooking.HookableBase
}

func (c *zlNoopConn) Name() string                     { return "ZLNoopConn" }
func (c *zlNoopConn) PlugIn(port messaging.Port)       { port.SetConnection(c) }
func (c *zlNoopConn) Unplug(_ messaging.Port)          {}
func (c *zlNoopConn) NotifyAvailable(_ messaging.Port) {}
func (c *zlNoopConn) NotifySend()                      {}

// zlAnswered builds a TLB with the given latency, sends it one translation
// request, plays the downstream provider by hand and reports how many answers
// the requester got within a generous tick budget.
func zlAnswered(t *testing.T, latency int) int {
	t.Helper()

	engine := timing.NewSerialEngine()
	reg := modeling.NewStandaloneRegistrar(engine)

	spec := tlb.DefaultSpec()
	spec.Latency = latency
	comp := tlb.MakeBuilder().
		WithRegistrar(reg).
		WithSpec(spec).
		WithResources(tlb.Resources{
			TranslationProviderMapper: &mem.SinglePortMapper{
				Port: messaging.RemotePort("MMU"),
			},
		}).
		Build("TLB")

	for _, name := range []string{"Top", "Bottom", "Control"} {
		p := modeling.MakePortBuilder().
			WithRegistrar(reg).
			WithComponent(comp).
			WithSpec(modeling.PortSpec{BufSize: 4}).
			Build(name)
		comp.AssignPort(name, p)
		(&zlNoopConn{}).PlugIn(p)
	}

	top := comp.GetPortByName("Top")
	bottom := comp.GetPortByName("Bottom")

	req := vmprotocol.TranslationReq{PID: 1, VAddr: 0x1000, DeviceID: 1}
	req.ID = timing.GetIDGenerator().Generate()
	req.Src = messaging.RemotePort("Agent")
	req.Dst = top.AsRemote()
	req.TrafficClass = "vmprotocol.TranslationReq"
	top.Deliver(req)

	answers := 0
	for range 1000 {
		comp.Tick()

		// Play the MMU: answer every forwarded miss at once.
		for m := bottom.RetrieveOutgoing(); m != nil; m = bottom.RetrieveOutgoing() {
			down := m.(vmprotocol.TranslationReq)
			rsp := vmprotocol.TranslationRsp{Page: vm.Page{
				PID: down.PID, VAddr: down.VAddr, PAddr: 0xA000,
				PageSize: 4096, Valid: true, DeviceID: 1,
			}}
			rsp.ID = timing.GetIDGenerator().Generate()
			rsp.Src = messaging.RemotePort("MMU")
			rsp.Dst = bottom.AsRemote()
			rsp.RspTo = down.ID
			rsp.TrafficClass = "vmprotocol.TranslationRsp"
			bottom.Deliver(rsp)
		}

		for m := top.RetrieveOutgoing(); m != nil; m = top.RetrieveOutgoing() {
			if r, ok := m.(vmprotocol.TranslationRsp); ok && r.RspTo == req.ID {
				answers++
			}
		}
	}

	return answers
}

func TestProbeC25_ZeroLatencyTLBNeverAnswers(t *testing.T) {
	// Sanity: the harness itself works for the smallest non-zero latencies.
	for _, latency := range []int{1, 2} {
		if n := zlAnswered(t, latency); n != 1 {
			t.Fatalf("harness: Latency=%d TLB answered %d times, want 1",
				latency, n)
		}
	}

	if n := zlAnswered(t, 0); n != 1 {
		t.Errorf("a TLB built with Latency=0 answered its translation request "+
			"%d times in 1000 ticks, want exactly once", n)
	}
}
