package simplebankedmemory_test

// Probe for property C16: "every request receives exactly one response ... and
// the run never ends with a request unanswered", quantified over "every
// geometry and latency the builders accept".
//
// The builders of the simple banked memory and of the write-through /
// write-around / write-evict cache accept a latency of zero cycles
// (StageLatency, DirLatency, BankLatency) without complaint, and build a
// queueing.Pipeline with zero stages. Such a pipeline accepts items and never
// releases them, so every request that enters it is lost: the component goes
// quiet (Tick reports no progress, so a real engine run simply ends) with the
// request unanswered. The sibling write-back cache bypasses its pipelines when
// DirLatency or BankLatency is zero (zero is even its default DirLatency), and
// the banked memory itself bypasses the pipeline when BankPipelineDepth is zero.

import (
	"testing"

	"github.com/sarchlab/akita/v5/hooking"
	"github.com/sarchlab/akita/v5/mem"
	"github.com/sarchlab/akita/v5/mem/cache/writethroughcache"
	"github.com/sarchlab/akita/v5/mem/memprotocol"
	"github.com/sarchlab/akita/v5/mem/simplebankedmemory"
	"github.com/sarchlab/akita/v5/messaging"
	"github.com/sarchlab/akita/v5/modeling"
	"github.com/sarchlab/akita/v5/timing"
)

type zlConn struct {
	hooking.HookableBase
}

func (c *zlConn) Name() string                     { return "zlConn" }
func (c *zlConn) PlugIn(port messaging.Port)       { port.SetConnection(c) }
func (c *zlConn) Unplug(_ messaging.Port)          {}
func (c *zlConn) NotifyAvailable(_ messaging.Port) {}
func (c *zlConn) NotifySend()                      {}

type ticker interface {
	messaging.Component
	Tick() bool
}

func zlPort(reg modeling.Registrar, comp messaging.Component, name string) messaging.Port {
	p := modeling.MakePortBuilder().
		WithRegistrar(reg).
		WithComponent(comp).
		WithSpec(modeling.PortSpec{BufSize: 16}).
		Build(name)
	comp.AssignPort(name, p)
	(&zlConn{}).PlugIn(p)

	return p
}

func zlRead(dst messaging.Port, addr uint64) memprotocol.ReadReq {
	req := memprotocol.ReadReq{Address: addr, AccessByteSize: 4}
	req.ID = timing.GetIDGenerator().Generate()
	req.Src = messaging.RemotePort("Agent")
	req.Dst = dst.AsRemote()
	req.TrafficBytes = 12
	req.TrafficClass = "memprotocol.ReadReq"

	return req
}

// tickUntilOutgoing ticks comp until port has an outgoing message and returns
// it, or returns nil once the component has reported "no progress" for 100
// consecutive cycles (a real engine stops ticking it after the first one).
func tickUntilOutgoing(comp ticker, port messaging.Port) messaging.Msg {
	idle := 0

	for i := 0; i < 5000 && idle < 100; i++ {
		if comp.Tick() {
			idle = 0
		} else {
			idle++
		}

		if msg := port.RetrieveOutgoing(); msg != nil {
			return msg
		}
	}

	return nil
}

func TestC16ProbeZeroStageLatencyBankedMemory(t *testing.T) {
	for _, stageLatency := range []int{1, 0} {
		engine := timing.NewSerialEngine()
		reg := modeling.NewStandaloneRegistrar(engine)

		spec := simplebankedmemory.DefaultSpec()
		spec.StageLatency = stageLatency
		m := simplebankedmemory.MakeBuilder().
			WithRegistrar(reg).
			WithSpec(spec).
			WithResources(simplebankedmemory.Resources{
				Storage: mem.NewStorage(1 * mem.MB),
			}).
			Build("Mem")
		top := zlPort(reg, m, "Top")
		zlPort(reg, m, "Control")

		req := zlRead(top, 0x40)
		top.Deliver(req)

		rsp, ok := tickUntilOutgoing(m, top).(memprotocol.DataReadyRsp)
		if !ok || rsp.RspTo != req.ID {
			t.Errorf("banked memory built with StageLatency=%d: the read was "+
				"accepted from the Top port (port now empty: %v) but never "+
				"answered; the component reports no further progress",
				stageLatency, top.PeekIncoming() == nil)
		}
	}
}

func buildZLCache(
	t *testing.T, dirLatency, bankLatency int,
) (c *writethroughcache.Comp, top, bottom messaging.Port) {
	t.Helper()

	engine := timing.NewSerialEngine()
	reg := modeling.NewStandaloneRegistrar(engine)

	spec := writethroughcache.DefaultSpec()
	spec.DirLatency = dirLatency
	spec.BankLatency = bankLatency
	c = writethroughcache.MakeBuilder().
		WithRegistrar(reg).
		WithSpec(spec).
		WithResources(writethroughcache.Resources{
			AddressMapper: &mem.SinglePortMapper{
				Port: messaging.RemotePort("LowerMem"),
			},
		}).
		Build("L1")
	top = zlPort(reg, c, "Top")
	bottom = zlPort(reg, c, "Bottom")
	zlPort(reg, c, "Control")

	return c, top, bottom
}

// readThroughCache sends one read miss through the cache, playing the lower
// memory by hand, and reports where the request got lost ("" if answered).
func readThroughCache(c *writethroughcache.Comp, top, bottom messaging.Port) string {
	req := zlRead(top, 0x40)
	top.Deliver(req)

	fetch, ok := tickUntilOutgoing(c, bottom).(memprotocol.ReadReq)
	if !ok {
		return "the read miss never produced a fetch on the Bottom port"
	}

	fill := memprotocol.DataReadyRsp{Data: make([]byte, fetch.AccessByteSize)}
	fill.ID = timing.GetIDGenerator().Generate()
	fill.Src = fetch.Dst
	fill.Dst = fetch.Src
	fill.RspTo = fetch.ID
	bottom.Deliver(fill)

	rsp, ok := tickUntilOutgoing(c, top).(memprotocol.DataReadyRsp)
	if !ok || rsp.RspTo != req.ID {
		return "the fill came back but the requester never got its DataReadyRsp"
	}

	return ""
}

func TestC16ProbeZeroLatencyWriteThroughCache(t *testing.T) {
	cases := []struct{ dir, bank int }{
		{2, 20}, // library default: control, must pass
		{0, 20},
		{2, 0},
	}

	for _, tc := range cases {
		c, top, bottom := buildZLCache(t, tc.dir, tc.bank)

		if lost := readThroughCache(c, top, bottom); lost != "" {
			t.Errorf("cache built with DirLatency=%d BankLatency=%d: %s; "+
				"the component reports no further progress",
				tc.dir, tc.bank, lost)
		}
	}
}
